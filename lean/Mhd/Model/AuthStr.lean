/-
  String helpers of src/microhttpd/mhd_str.c that the Authorization decoder
  uses, mirrored for the C14 model (kept private to C14; the C17 model of
  mhd_str.c is developed separately and can be unified later).

  A C `(const char *p, size_t n)` pair is the byte list `p[0..n)`.  Where the C
  function can look at the byte *after* such a slice, the model function takes
  that byte as an explicit `Option UInt8` (`none` = nothing is there, the read
  is a fault).

  Tables (`hexmap`, `b64map`) come from `Mhd.Gen.Auth` (regenerated from the
  source through the real functions).
-/
import Mhd.Gen.Auth

namespace Mhd.Auth

abbrev Bytes := List UInt8

/-- `isasciiupper` -/
def isUpper (c : UInt8) : Bool := decide (65 ≤ c.toNat ∧ c.toNat ≤ 90)

/-- `charsequalcaseless (c1, c2)`; the C expression is evaluated in `int`, so
    `c - 'A' + 'a'` does not wrap. -/
def eqCl (c1 c2 : UInt8) : Bool :=
  c1 == c2 ||
    (if isUpper c1 then decide (c1.toNat + 32 = c2.toNat)
     else (decide (c1.toNat = c2.toNat + 32) && isUpper c2))

/-- `MHD_str_equal_caseless_bin_n_ (a, b, n)` for two slices of the same length
    `n`; a length mismatch (which the C callers exclude by a preceding length
    test) gives `false`. -/
def eqClN : Bytes → Bytes → Bool
  | [], [] => true
  | a :: as, b :: bs => eqCl a b && eqClN as bs
  | _, _ => false

/-- `(nm.len <= left) && MHD_str_equal_caseless_bin_n_ (str + i, nm, nm.len)`:
    `nm` is a caseless prefix of the remaining input. -/
def prefixCl : Bytes → Bytes → Bool
  | _, [] => true
  | [], _ :: _ => false
  | a :: as, b :: bs => eqCl a b && prefixCl as bs

/-- `MHD_str_equal_caseless_s_bin_n_ (tok, s, l)`: length test, then caseless compare -/
def eqClS (tok s : Bytes) : Bool := tok.length == s.length && eqClN tok s

/-- loop of `MHD_str_equal_caseless_quoted_bin_n` -/
def eqQuotedLoop : Bytes → Bytes → Bool
  | [], [] => true
  | [], _ :: _ => false            -- unquoted_len != j
  | _ :: _, [] => false            -- quoted_len != i
  | q :: qs, u :: us =>
    if q = 92 then
      match qs with
      | [] => false                -- no character after escaping backslash
      | q2 :: qs' => eqCl q2 u && eqQuotedLoop qs' us
    else eqCl q u && eqQuotedLoop qs us

/-- `MHD_str_equal_caseless_quoted_bin_n (quoted, quoted_len, unquoted, unquoted_len)` -/
def eqQuotedCl (quoted unquoted : Bytes) : Bool :=
  if unquoted.length < quoted.length / 2 then false else eqQuotedLoop quoted unquoted

/-- loop of `MHD_str_unquote`; `none` = "last backslash is not followed by char" (returns 0) -/
def unquoteLoop : Bytes → Option Bytes
  | [] => some []
  | c :: r =>
    if c = 92 then
      match r with
      | [] => none
      | c2 :: r2 => (unquoteLoop r2).map (c2 :: ·)
    else (unquoteLoop r).map (c :: ·)

/-- `MHD_str_unquote` as used by `get_rq_param_unquoted_copy_z`: result length 0 on failure -/
def unquote (q : Bytes) : Bytes := (unquoteLoop q).getD []

/-- `toxdigitvalue`: `none` for -1 -/
def hexVal (c : UInt8) : Option Nat :=
  match Mhd.Gen.Auth.hexmap[c.toNat]? with
  | some v => if v < 16 then some v else none
  | none => none

def isHexDigit (c : UInt8) : Bool := (hexVal c).isSome

/-- `MHD_hex_to_bin`: `none` = returns 0 (empty input or a non-digit) -/
def hexPairs : Bytes → Option Bytes
  | [] => some []
  | [_] => none
  | a :: b :: r =>
    match hexVal a, hexVal b, hexPairs r with
    | some h, some l, some t => some (UInt8.ofNat (h * 16 + l) :: t)
    | _, _, _ => none

def hexToBin (hex : Bytes) : Option Bytes :=
  match hex with
  | [] => none
  | c :: r =>
    if hex.length % 2 = 1 then
      match hexVal c, hexPairs r with
      | some l, some t => some (UInt8.ofNat l :: t)
      | _, _ => none
    else hexPairs hex

/-- `MHD_strx_to_uint64_n_`: (number of characters processed, value); 0 characters
    = no digit or overflow of `uint64_t` -/
def strxLoop : Bytes → Nat → Nat → Nat × Nat
  | [], i, res => (i, res)
  | c :: r, i, res =>
    match hexVal c with
    | none => (i, res)
    | some d =>
      if res > (2 ^ 64 - 1) / 16 ∨ (res = (2 ^ 64 - 1) / 16 ∧ d > (2 ^ 64 - 1) % 16) then (0, 0)
      else strxLoop r (i + 1) (res * 16 + d)

def strxToU64 (s : Bytes) : Nat × Nat := strxLoop s 0 0

/-- fast branch (`buf_size >= len`) of `MHD_str_pct_decode_strict_n_` on the slice `s`
    followed in memory by `next`.  `none` inside = returns 0 (broken encoding).
    The C test is `2 > len - r`, so for a slice ending in `%X` it reads one byte
    past the slice (DESIGN §6 F12); the model does exactly that through `next`. -/
inductive PctRes
  | ok (out : Bytes)
  | broken
  | overread            -- read of the byte after the slice with nothing there
  deriving DecidableEq, Repr

def pctStrict (next : Option UInt8) : Bytes → PctRes
  | [] => .ok []
  | c :: r =>
    if c = 37 then
      match r with
      | [] => .broken                                 -- 2 > len - r
      | [c1] =>                                       -- len - r = 2: reads str[len]
        match next with
        | none => .overread
        | some c2 =>
          match hexVal c1, hexVal c2 with
          | some h, some l => .ok [UInt8.ofNat (h * 16 + l)]
          | _, _ => .broken
      | c1 :: c2 :: r' =>
        match hexVal c1, hexVal c2 with
        | some h, some l =>
          match pctStrict next r' with
          | .ok t => .ok (UInt8.ofNat (h * 16 + l) :: t)
          | e => e
        | _, _ => .broken
    else
      match pctStrict next r with
      | .ok t => .ok (c :: t)
      | e => e

/-- value of one base64 character: `some v` (0..63), padding and invalid are told apart -/
inductive B64
  | val (v : Nat)
  | pad
  | bad
  deriving DecidableEq, Repr

def b64Val (c : UInt8) : B64 :=
  match Mhd.Gen.Auth.b64map[c.toNat]? with
  | some v => if v < 64 then .val v else if v = 65 then .pad else .bad
  | none => .bad

/-- last four characters of `MHD_base64_to_bin_n` -/
def b64Last (a b c d : UInt8) : Option Bytes :=
  match b64Val a, b64Val b with
  | .val v1, .val v2 =>
    let o1 := UInt8.ofNat ((v1 * 4 + v2 / 16) % 256)
    match b64Val c with
    | .val v3 =>
      let o2 := UInt8.ofNat ((v2 * 16 + v3 / 4) % 256)
      match b64Val d with
      | .val v4 => some [o1, o2, UInt8.ofNat ((v3 * 64 + v4) % 256)]
      | .pad => if (v3 * 64) % 256 ≠ 0 then none else some [o1, o2]
      | .bad => none
    | .pad =>
      match b64Val d with
      | .pad => if (v2 * 16) % 256 ≠ 0 then none else some [o1]
      | _ => none
    | .bad => none
  | _, _ => none

/-- the block loop of `MHD_base64_to_bin_n` (input length already known to be a
    positive multiple of four) -/
def b64Blocks : Bytes → Option Bytes
  | [a, b, c, d] => b64Last a b c d
  | a :: b :: c :: d :: rest =>
    match b64Val a, b64Val b, b64Val c, b64Val d with
    | .val v1, .val v2, .val v3, .val v4 =>
      (b64Blocks rest).map fun t =>
        UInt8.ofNat ((v1 * 4 + v2 / 16) % 256) :: UInt8.ofNat ((v2 * 16 + v3 / 4) % 256)
          :: UInt8.ofNat ((v3 * 64 + v4) % 256) :: t
    | _, _, _, _ => none
  | _ => none

/-- `MHD_base64_to_bin_n (s, len, out, MHD_base64_max_dec_size_ (len))`; `none` = returns 0.
    With that output size the three "not enough space" exits cannot be taken. -/
def b64Dec (s : Bytes) : Option Bytes :=
  if s.length = 0 then none
  else if s.length % 4 ≠ 0 then none
  else b64Blocks s

end Mhd.Auth
