/-
  Model of `process_request_target` (connection.c), `MHD_parse_arguments_`,
  `MHD_unescape_plus` (internal.c), `unescape_wrapper` (daemon.c) and the two
  in-place percent decoders of mhd_str.c it selects.

  All of them work in place on NUL-terminated strings inside the read buffer.
  Every read and write is checked; loops carry fuel = remaining buffer length.
-/
import Mhd.Model.ReqLine

namespace Mhd.Req
open Mhd.Gen

/-- `toxdigitvalue` -/
def xdigit (c : UInt8) : Option UInt8 :=
  if 48 ≤ c ∧ c ≤ 57 then some (c - 48)
  else if 65 ≤ c ∧ c ≤ 70 then some (c - 55)
  else if 97 ≤ c ∧ c ≤ 102 then some (c - 87)
  else none

/-- `strchr (s, c)` for `c ≠ 0`: index of the first `c` before the terminating NUL -/
def strchr (buf : Bytes) (c : UInt8) : Nat → Nat → Except Fault (Option Nat)
  | 0, a => .error (.read 40 a)
  | fuel + 1, a =>
    match buf[a]? with
    | none => .error (.read 40 a)
    | some b => if b == c then .ok (some a) else if b == 0 then .ok none else strchr buf c fuel (a + 1)

/-- `MHD_unescape_plus` -/
def unescapePlus (buf : Bytes) : Nat → Nat → Except Fault Bytes
  | 0, a => .error (.read 41 a)
  | fuel + 1, a =>
    match buf[a]? with
    | none => .error (.read 41 a)
    | some b =>
      if b == 0 then .ok buf
      else if b == 43 then unescapePlus (buf.setIfInBounds a cSP) fuel (a + 1)
      else unescapePlus buf fuel (a + 1)

/-- `MHD_str_pct_decode_in_place_strict_` on the string at `a`; `r`, `w` are the
    read and write cursors.  A broken encoding truncates the string (`str[0] = 0`) and
    returns length 0 (the code as repaired by "fix: MHD_str_pct_decode_in_place_strict_:
    truncate the string on broken encoding as documented"). -/
def pctStrict (buf : Bytes) (a : Nat) : Nat → Nat → Nat → Except Fault (Bytes × Nat)
  | 0, r, _ => .error (.read 42 (a + r))
  | fuel + 1, r, w =>
    let broken : Except Fault (Bytes × Nat) :=
      if a < buf.size then .ok (buf.setIfInBounds a 0, 0) else .error (.write 57 a)
    match buf[a + r]? with
    | none => .error (.read 42 (a + r))
    | some chr =>
      if chr == 0 then
        if a + w < buf.size then .ok (buf.setIfInBounds (a + w) 0, w) else .error (.write 43 (a + w))
      else if chr == 37 then
        match buf[a + r + 1]? with
        | none => .error (.read 44 (a + r + 1))
        | some d1 =>
          if d1 == 0 then broken
          else
            match buf[a + r + 2]? with
            | none => .error (.read 45 (a + r + 2))
            | some d2 =>
              if d2 == 0 then broken
              else
                match xdigit d1, xdigit d2 with
                | some h, some l =>
                  if a + w < buf.size then
                    pctStrict (buf.setIfInBounds (a + w) (h * 16 + l)) a fuel (r + 3) (w + 1)
                  else .error (.write 46 (a + w))
                | _, _ => broken
      else
        if a + w < buf.size then pctStrict (buf.setIfInBounds (a + w) chr) a fuel (r + 1) (w + 1)
        else .error (.write 47 (a + w))

/-- `MHD_str_pct_decode_in_place_lenient_` -/
def pctLenient (buf : Bytes) (a : Nat) : Nat → Nat → Nat → Except Fault (Bytes × Nat)
  | 0, r, _ => .error (.read 48 (a + r))
  | fuel + 1, r, w =>
    match buf[a + r]? with
    | none => .error (.read 48 (a + r))
    | some chr =>
      if chr == 0 then
        if a + w < buf.size then .ok (buf.setIfInBounds (a + w) 0, w) else .error (.write 49 (a + w))
      else if chr == 37 then
        match buf[a + r + 1]? with
        | none => .error (.read 50 (a + r + 1))
        | some d1 =>
          if d1 == 0 then
            if a + w + 1 < buf.size then
              .ok ((buf.setIfInBounds (a + w) chr).setIfInBounds (a + w + 1) 0, w + 1)
            else .error (.write 51 (a + w + 1))
          else
            match buf[a + r + 2]? with
            | none => .error (.read 52 (a + r + 2))
            | some d2 =>
              if d2 == 0 then
                if a + w + 2 < buf.size then
                  .ok (((buf.setIfInBounds (a + w) chr).setIfInBounds (a + w + 1) d1).setIfInBounds (a + w + 2) 0,
                       w + 2)
                else .error (.write 53 (a + w + 2))
              else
                match xdigit d1, xdigit d2 with
                | some h, some l =>
                  if a + w < buf.size then
                    pctLenient (buf.setIfInBounds (a + w) (h * 16 + l)) a fuel (r + 3) (w + 1)
                  else .error (.write 54 (a + w))
                | _, _ =>
                  -- copy the '%' as is; "the next two chars are processed again as they may
                  -- start a valid sequence" (r -= 2)
                  if a + w < buf.size then
                    pctLenient (buf.setIfInBounds (a + w) chr) a fuel (r + 1) (w + 1)
                  else .error (.write 55 (a + w))
      else
        if a + w < buf.size then pctLenient (buf.setIfInBounds (a + w) chr) a fuel (r + 1) (w + 1)
        else .error (.write 56 (a + w))

/-- `daemon->unescape_callback` = `unescape_wrapper` (the default) -/
def unescape (strict : Bool) (buf : Bytes) (a : Nat) : Except Fault (Bytes × Nat) :=
  if strict then pctStrict buf a (buf.size - a + 1) 0 0 else pctLenient buf a (buf.size - a + 1) 0 0

/-- `MHD_unescape_plus` followed by the unescape callback -/
def plusUnescape (strict : Bool) (buf : Bytes) (a : Nat) : Except Fault (Bytes × Nat) := do
  let b1 ← unescapePlus buf (buf.size - a + 1) a
  unescape strict b1 a

/-- one argument of `MHD_parse_arguments_`: the key string starts at `args`; `eq` is the
    position of the '=' that separates key and value (`none`: a key without value, handed to
    the callback with `value = NULL`).  The four places of the C function that do this
    (`equals[0] = 0; equals++; MHD_unescape_plus (args); unescape (args); MHD_unescape_plus
    (equals); unescape (equals); cb (...)`) are this one function. -/
def argEntry (strict : Bool) (kind : Nat) (buf : Bytes) (args : Nat) (eq : Option Nat) :
    Except Fault (Bytes × Elem) :=
  match eq with
  | none => do
    let (b1, klen) ← plusUnescape strict buf args
    pure (b1, ⟨kind, ⟨0, args, klen⟩, none⟩)
  | some eq =>
    if eq < buf.size then do
      let (b1, klen) ← plusUnescape strict (buf.setIfInBounds eq 0) args
      let (b2, vlen) ← plusUnescape strict b1 (eq + 1)
      pure (b2, ⟨kind, ⟨0, args, klen⟩, some ⟨0, eq + 1, vlen⟩⟩)
    else .error (.write 61 eq)

/-- `if ( (NULL == equals) || (equals >= amper) )` (with `amper` already advanced behind the
    '&' at `am`): the '=' belongs to this argument only if it lies before the '&' -/
def eqWithin (equals : Option Nat) (am : Nat) : Option Nat :=
  match equals with
  | none => none
  | some eq => if eq ≥ am + 1 then none else some eq

/-- `MHD_parse_arguments_` with `connection_add_header` as callback (element
    allocation is assumed to succeed: the request fits) -/
def parseArgs (strict : Bool) (kind : Nat) :
    Nat → Bytes → Nat → List Elem → Except Fault (Bytes × List Elem)
  | 0, _, args, _ => .error (.read 60 args)
  | fuel + 1, buf, args, acc =>
    match buf[args]? with
    | none => .error (.read 60 args)
    | some c0 =>
      if c0 == 0 then .ok (buf, acc) else do
      let equals ← strchr buf 61 (buf.size - args + 1) args
      let amper ← strchr buf 38 (buf.size - args + 1) args
      match amper with
      | none =>
        -- last argument
        let (b, el) ← argEntry strict kind buf args equals
        .ok (b, acc ++ [el])
      | some am =>
        if am < buf.size then
          -- `amper[0] = 0; amper++`; "got 'foo&bar' or 'foo&bar=val'" when `equals >= amper`
          let (b, el) ← argEntry strict kind (buf.setIfInBounds am 0) args (eqWithin equals am)
          parseArgs strict kind fuel b (am + 1) (acc ++ [el])
        else .error (.write 64 am)

/-- the request line after `process_request_target` -/
structure Target where
  buf : Bytes
  rb : Nat
  method : Nat
  methodLen : Nat
  mthd : Nat
  url : Nat
  urlLen : Nat
  version : Nat
  httpVer : Int
  /-- the raw request target as shown to the URI-log callback -/
  rawTarget : List UInt8
  elems : List Elem
  crSp : Nat
  deriving Repr, DecidableEq

/-- `process_request_target` -/
def processRequestTarget (strict : Bool) (r : ReqLine) : Except Fault Target := do
  let raw ← match rdRange r.buf r.tgt r.tgtLen with
    | some l => pure l
    | none => throw (Fault.read 65 r.tgt)
  let (b1, elems) ← match r.qmark with
    | some q =>
      if q < r.buf.size then
        parseArgs strict Http.kindGetArgument (r.buf.size + 1) (r.buf.setIfInBounds q 0) (q + 1) []
      else throw (Fault.write 66 q)
    | none => pure (r.buf, [])
  let (b2, ulen) ← unescape strict b1 r.tgt
  pure { buf := b2, rb := r.rb, method := r.method, methodLen := r.methodLen, mthd := r.mthd,
         url := r.tgt, urlLen := ulen, version := r.version, httpVer := r.httpVer, rawTarget := raw,
         elems := elems, crSp := r.crSp }

/-- outcome of the outer `get_request_line` -/
inductive RLOuter where
  | more (s : RL)
  | err (e : RLErr)
  | ok (t : Target)
  | fault (f : Fault)
  deriving Repr

/-- `get_request_line` applied to the outcome of the inner scanner -/
def getRequestLineOuter (F : RLFlags) (strict : Bool) (poolSize : Nat) : Out RL RLDone → RLOuter
  | .more s =>
    if versionTooLong s then .err ⟨.versionTooLong, some Http.codeBadRequest⟩ else .more s
  | .fault f => .fault f
  | .done (.err e) => .err e
  | .done (.ok r) =>
    match lineWspCheck F poolSize r with
    | some e => .err e
    | none =>
      match processRequestTarget strict r with
      | .ok t => .ok t
      | .error f => .fault f

end Mhd.Req
