/-
  Model of the forwarding layer of TLS-upgraded connections (property C20, TLS part):
    daemon.c   process_urh                       (all six stages, in source order)
               the "Finished forwarding?" test that follows every call of it
               (MHD_run_from_select2 / MHD_poll_all / run_epoll_for_upgrade /
               thread_main_connection_upgrade), MHD_connection_finish_forward_,
               resume_suspended_connections (upgrade branch), cleanup
    response.c MHD_upgrade_action (CLOSE) → MHD_upgraded_connection_mark_app_closed_

  What is logic in it is modelled: the two forwarding buffers (`in_buffer` client→application,
  `out_buffer` application→client) with their fill levels and their "size" fields that double
  as stop flags (`*_buffer_size = 0`), the readiness bits of both descriptors, `was_closed`,
  `clean_ready`, `tls_read_ready`, `data_already_pending`.  The record layer (GnuTLS) and the
  socketpair are the environment: one call of `process_urh` is parameterised by the results
  of its four I/O calls (`Env`): any short count, EAGAIN, EINTR, end of stream, hard error.

  Ghost fields (`clientSent`, `appSent`, `toApp`, `toClient`, `dropIn`, `dropOut`, `released`,
  `io`) record history; no transition reads them.
-/
namespace Mhd.UpgTls

abbrev Bytes := List UInt8

/-- result of one I/O call: `ok n` = n > 0 bytes moved (clamped by the model to what the buffer
    and the peer allow; 0 after clamping = nothing there = `again`), `again` = EAGAIN /
    GNUTLS_E_AGAIN, `intr` = EINTR / GNUTLS_E_INTERRUPTED (for the socketpair also the
    low-resources errors), `eof` = 0 returned by a receive call, `fatal` = any other error -/
inductive IoRes
  | ok (n : Nat) | again | intr | eof | fatal
  deriving DecidableEq, Repr

/-- readiness bits of one descriptor (`enum MHD_EpollState`) -/
structure Celi where
  rd : Bool := false
  wr : Bool := false
  err : Bool := false
  deriving DecidableEq, Repr

/-- outcomes of the (at most) four I/O calls of one `process_urh` run, and of
    `gnutls_record_check_pending` after a successful receive -/
structure Env where
  tlsRecv : IoRes := .again
  tlsPending : Bool := false
  pairRecv : IoRes := .again
  tlsSend : IoRes := .again
  pairSend : IoRes := .again
  deriving Repr

inductive Loc | suspended | cleanup | freed
  deriving DecidableEq, Repr

/-- I/O calls made by `process_urh`, in order (ghost) -/
inductive Io | tlsRecv | pairRecv | tlsSend | pairSend
  deriving DecidableEq, Repr

structure St where
  cap : Nat                      -- allocated size of each forwarding buffer
  ssizeMax : Nat                 -- SSIZE_MAX
  sendMax : Nat                  -- MHD_SCKT_SEND_MAX_SIZE_
  tpc : Bool := false            -- MHD_D_IS_USING_THREAD_PER_CONN_
  -- struct MHD_UpgradeResponseHandle
  inBuf : Bytes := []            -- in_buffer[0, in_buffer_used): received from the client, not yet given to the application
  inSize : Nat                   -- in_buffer_size (0 = stop reading from the client)
  outBuf : Bytes := []           -- out_buffer[0, out_buffer_used)
  outSize : Nat                  -- out_buffer_size (0 = stop reading from the application)
  wasClosed : Bool := false
  cleanReady : Bool := false
  remote : Celi := {}            -- urh->app.celi: the TLS socket to the client
  pair : Celi := {}              -- urh->mhd.celi: the daemon's end of the socketpair to the application
  tlsReadReady : Bool := false   -- connection->tls_read_ready
  pending : Bool := false        -- daemon->data_already_pending
  -- connection
  loc : Loc := .suspended
  resuming : Bool := false
  pairShut : Bool := false       -- shutdown (urh->mhd.socket, SHUT_RDWR) done: the application sees end of stream
  -- the world
  remoteIn : Bytes := []         -- plaintext sent by the client, not yet returned by gnutls_record_recv
  pairIn : Bytes := []           -- written by the application, not yet read from the socketpair
  -- ghost
  clientSent : Bytes := []
  appSent : Bytes := []
  toApp : Bytes := []            -- forwarded to the application's socket
  toClient : Bytes := []         -- handed to gnutls_record_send (accepted)
  dropIn : Bytes := []           -- received from the client and discarded
  dropOut : Bytes := []          -- received from the application and discarded
  released : Nat := 0            -- completion notifications + moves to the cleanup list
  io : List Io := []
  fault : Option String := none  -- a buffer index outside its buffer
  deriving Repr

def St.init (cap ssizeMax sendMax : Nat) (tpc : Bool := false) : St :=
  { cap := cap, ssizeMax := ssizeMax, sendMax := sendMax, tpc := tpc, inSize := cap, outSize := cap }

/-! ### `process_urh`, stage by stage -/

/-- `if (daemon->shutdown) urh->was_closed = true;` and the `if (was_closed)` block -/
def stagePre (shutdown : Bool) (s : St) : St :=
  let s := if shutdown then { s with wasClosed := true } else s
  if s.wasClosed then
    { s with dropIn := s.dropIn ++ s.inBuf, inBuf := [],                -- in_buffer_used = 0
             pair := { s.pair with wr := false },
             inSize := 0,
             remote := { s.remote with rd := false },
             tlsReadReady := false }
  else s

/-- reading from the remote TLS client -/
def stageTlsRecv (e : Env) (s : St) : St :=
  if ((s.remote.err || s.remote.rd) || s.tlsReadReady) && decide (s.inBuf.length < s.inSize) then
    let bufSize := min (s.inSize - s.inBuf.length) s.ssizeMax
    let s := { s with io := s.io ++ [Io.tlsRecv] }
    let res : IoRes := match e.tlsRecv with
      | .ok n => if min n (min bufSize s.remoteIn.length) = 0 then .again else .ok (min n (min bufSize s.remoteIn.length))
      | r => r
    match res with
    | .ok k =>
      -- `&urh->in_buffer[urh->in_buffer_used]`, k ≤ in_buffer_size - in_buffer_used bytes
      if s.cap < s.inBuf.length + k then { s with fault := some "in_buffer overrun" } else
      { s with inBuf := s.inBuf ++ s.remoteIn.take k, remoteIn := s.remoteIn.drop k, tlsReadReady := e.tlsPending }
    | .intr => { s with tlsReadReady := false }
    | .again =>
      let s := { s with tlsReadReady := false, remote := { s.remote with rd := false } }
      if s.remote.err then { s with inSize := 0 } else s
    | _ => { s with tlsReadReady := false, remote := { s.remote with rd := false }, inSize := 0 }
  else s

/-- reading from the application (forced once the application has closed) -/
def stagePairRecv (wasClosed : Bool) (e : Env) (s : St) : St :=
  if ((s.pair.err || s.pair.rd) || wasClosed) && decide (s.outBuf.length < s.outSize) then
    let bufSize := min (s.outSize - s.outBuf.length) s.sendMax
    let s := { s with io := s.io ++ [Io.pairRecv] }
    let res : IoRes := match e.pairRecv with
      | .ok n => if min n (min bufSize s.pairIn.length) = 0 then .again else .ok (min n (min bufSize s.pairIn.length))
      | r => r
    match res with
    | .ok k =>
      if s.cap < s.outBuf.length + k then { s with fault := some "out_buffer overrun" } else
      { s with outBuf := s.outBuf ++ s.pairIn.take k, pairIn := s.pairIn.drop k,
               pair := if bufSize > k then { s.pair with rd := false } else s.pair }
    | .intr => s
    | .again =>
      let s := { s with pair := { s.pair with rd := false } }
      if wasClosed || s.pair.err then { s with outSize := 0 } else s
    | _ => { s with pair := { s.pair with rd := false }, outSize := 0 }
  else s

/-- writing to the remote TLS client -/
def stageTlsSend (e : Env) (s : St) : St :=
  if s.remote.wr && decide (s.outBuf.length > 0) then
    let dataSize := min s.outBuf.length s.ssizeMax
    let s := { s with io := s.io ++ [Io.tlsSend] }
    let res : IoRes := match e.tlsSend with
      | .ok n => if min n dataSize = 0 then .again else .ok (min n dataSize)
      | .eof => .fatal           -- 0 from gnutls_record_send is handled like an error other than AGAIN
      | r => r
    let s := match res with
      | .ok k => { s with toClient := s.toClient ++ s.outBuf.take k, outBuf := s.outBuf.drop k }   -- memmove
      | .intr => s
      | .again => { s with remote := { s.remote with wr := false } }
      | _ => { s with remote := { s.remote with wr := false },
                      dropOut := s.dropOut ++ s.outBuf, outBuf := [], outSize := 0,
                      pair := { s.pair with rd := false } }
    if s.outBuf.isEmpty && s.remote.err then
      { s with remote := { s.remote with wr := false }, outSize := 0, pair := { s.pair with rd := false } }
    else s
  else s

/-- writing to the application -/
def stagePairSend (e : Env) (s : St) : St :=
  if s.pair.wr && decide (s.inBuf.length > 0) then
    let dataSize := min s.inBuf.length s.sendMax
    let s := { s with io := s.io ++ [Io.pairSend] }
    let res : IoRes := match e.pairSend with
      | .ok n => if min n dataSize = 0 then .again else .ok (min n dataSize)
      | .eof => .fatal
      | r => r
    let s := match res with
      | .ok k =>
        let s' := { s with toApp := s.toApp ++ s.inBuf.take k, inBuf := s.inBuf.drop k }
        if ! (s.inBuf.drop k).isEmpty && decide (dataSize > k) then { s' with pair := { s'.pair with wr := false } } else s'
      | .intr => s
      | .again => { s with pair := { s.pair with wr := false } }
      | _ => { s with pair := { s.pair with wr := false },
                      dropIn := s.dropIn ++ s.inBuf, inBuf := [], inSize := 0,
                      remote := { s.remote with rd := false }, tlsReadReady := false }
    if s.inBuf.isEmpty && s.pair.err then
      { s with pair := { s.pair with wr := false }, inSize := 0, remote := { s.remote with rd := false }, tlsReadReady := false }
    else s
  else s

/-- the tail: `data_already_pending`, discarding at shutdown, re-run request -/
def stagePost (shutdown wasClosed : Bool) (s : St) : St :=
  let s := if s.tlsReadReady && decide (s.inBuf.length < s.inSize) && ! s.tpc then { s with pending := true } else s
  let s := if shutdown && (s.outSize != 0 || ! s.outBuf.isEmpty) then
      { s with dropOut := s.dropOut ++ s.outBuf, outBuf := [], remote := { s.remote with wr := false },
               outSize := 0, pair := { s.pair with rd := false } }
    else s
  if ! wasClosed && s.wasClosed then { s with pending := true } else s

/-- `process_urh (urh)` -/
def processUrh (shutdown : Bool) (e : Env) (s : St) : St :=
  let s1 := stagePre shutdown s
  let wc := s1.wasClosed
  stagePost shutdown wc (stagePairSend e (stageTlsSend e (stagePairRecv wc e (stageTlsRecv e s1))))

/-! ### around it -/

/-- "Finished forwarding?" -/
def finished (s : St) : Bool := s.inSize == 0 && s.outSize == 0 && s.inBuf.isEmpty && s.outBuf.isEmpty

/-- `resume_suspended_connections`, upgrade branch: completion notification, cleanup list -/
def resumeScan (s : St) : St :=
  if s.loc = .suspended ∧ s.resuming then
    if s.wasClosed ∧ s.cleanReady then { s with loc := .cleanup, resuming := false, released := s.released + 1 }
    else s
  else s

/-- the caller after `process_urh`: `MHD_connection_finish_forward_`, `clean_ready = true`,
    `MHD_resume_connection` (the connection stays suspended until the application has closed) -/
def afterProcess (s : St) : St :=
  if finished s && ! s.cleanReady then { s with pairShut := true, cleanReady := true, resuming := true } else s

/-- readiness as the event loop stores it before calling `process_urh`: `urh_from_fdset` /
    `urh_from_pollfd` (`level = true`: the read/write bits are reset and set from what select / poll
    reported, the error bit is kept) or the epoll loop (`level = false`, edge-triggered: reported bits are
    OR-ed into the remembered ones) -/
def mergeReady (level : Bool) (rdy : Celi × Celi) (s : St) : St :=
  { s with remote := ⟨(! level && s.remote.rd) || rdy.1.rd, (! level && s.remote.wr) || rdy.1.wr, s.remote.err || rdy.1.err⟩,
           pair := ⟨(! level && s.pair.rd) || rdy.2.rd, (! level && s.pair.wr) || rdy.2.wr, s.pair.err || rdy.2.err⟩ }

/-- one visit of the upgraded connection by the event loop: readiness, forwarding, finish test -/
def visit (shutdown level : Bool) (rdy : Celi × Celi) (e : Env) (s : St) : St :=
  if s.loc ≠ .suspended ∨ s.cleanReady then s else
  afterProcess (processUrh shutdown e (mergeReady level rdy s))

/-- `MHD_upgrade_action (urh, MHD_UPGRADE_ACTION_CLOSE)` on a TLS connection: the application's
    socket is shut down for writing by the application itself before (its last bytes are in
    `pairIn`), `was_closed = true`, `resuming = true` -/
def appClose (s : St) : St :=
  if s.wasClosed then s else { s with wasClosed := true, resuming := true }

/-- `MHD_cleanup_connections`: `cleanup_upgraded_connection` (gnutls_bye, both socketpair ends closed) -/
def cleanup (s : St) : St := if s.loc = .cleanup then { s with loc := .freed } else s

inductive Op
  | clientSend (bs : Bytes)
  | appSend (bs : Bytes)
  | visit (level : Bool) (rdy : Celi × Celi) (e : Env)
  | appClose
  | resumeScan
  | cleanup
  | stopVisit (level : Bool) (rdy : Celi × Celi) (e : Env)     -- a visit with daemon->shutdown set (close_all_connections)
  deriving Repr

def step (s : St) : Op → St
  | .clientSend bs => { s with remoteIn := s.remoteIn ++ bs, clientSent := s.clientSent ++ bs }
  -- nothing can be written once the application has closed, or the daemon has shut the socketpair down (EPIPE)
  | .appSend bs => if s.wasClosed || s.pairShut then s else { s with pairIn := s.pairIn ++ bs, appSent := s.appSent ++ bs }
  | .visit lv rdy e => visit false lv rdy e s
  | .appClose => appClose s
  | .resumeScan => resumeScan s
  | .cleanup => cleanup s
  | .stopVisit lv rdy e => visit true lv rdy e s

def run (s : St) (ops : List Op) : St := ops.foldl step s

end Mhd.UpgTls
