/-
  Operation-sequence layer over `Mhd.Model.PoolRz` (both build variants of memorypool.c): the pool
  together with the abstract set of live blocks the API user holds — the `step` run by the
  correspondence driver against both white-box harness builds, and the object of the
  `rz_*` theorems of `Mhd.Props.C08`.  Same operations and block records as `Mhd.Model.PoolOps`.
-/
import Mhd.Model.PoolRz
import Mhd.Model.PoolOps

namespace Mhd.PoolRz
open Mhd.Pool (W A roundUp zeroRange writeAt readAt Blk Op)

structure St where
  p : Pool
  live : List Blk
  deriving Repr

inductive Res
  | block (off len : Nat)
  | null
  | nullNeed (need : Nat)
  | unit
  | badOp
  /-- the code touched (unpoisoned) bytes outside the arena -/
  | fault
  deriving Repr, DecidableEq

def St.init (allocSize : Nat) : St := { p := create allocSize, live := [] }

/-- a handed-out block `[off, off+n)`: the `_MHD_UNPOISON_MEMORY (ret, size)` of the code must stay
    inside the arena — otherwise the explicit result `fault` -/
def handOut (s : St) (p' : Pool) (off n : Nat) (front : Bool) (live : List Blk) : St × Res :=
  if off + n ≤ p'.size then ({ p := p', live := live ++ [⟨off, n, front⟩] }, .block off n)
  else (s, .fault)

def step (v : Var) (s : St) : Op → St × Res
  | .alloc n fromEnd =>
    match allocate v s.p n fromEnd with
    | (p', some off) => handOut s p' off n (!fromEnd) s.live
    | (p', none) => ({ s with p := p' }, .null)
  | .tryAlloc n =>
    match tryAlloc v s.p n with
    | (p', some off, _) => handOut s p' off n false s.live
    | (p', none, some need) => ({ s with p := p' }, .nullNeed need)
    | (p', none, none) => ({ s with p := p' }, .null)
  | .realloc none n =>
    match reallocate v s.p none 0 n with
    | (p', some off) => handOut s p' off n true s.live
    | (p', none) => ({ s with p := p' }, .null)
  | .realloc (some i) n =>
    match s.live[i]? with
    | none => (s, .badOp)
    | some b =>
      if !b.front then (s, .badOp) else
      match reallocate v s.p (some b.off) b.len n with
      | (p', some off) => handOut s p' off n true (s.live.eraseIdx i)
      | (p', none) => ({ s with p := p' }, .null)
  | .dealloc i =>
    match s.live[i]? with
    | none => (s, .badOp)
    | some b => ({ p := deallocate v s.p (some b.off) b.len, live := s.live.eraseIdx i }, .unit)
  | .reset none _ n =>
    -- the block asked for must fit the arena together with its red zone
    if n > s.p.size ∨ roundUp n + v.rz > s.p.size then (s, .badOp) else
    ({ p := reset v s.p none 0 n, live := [⟨0, n, true⟩] }, .block 0 n)
  | .reset (some i) copy n =>
    match s.live[i]? with
    | none => (s, .badOp)
    | some b =>
      if copy > b.len ∨ copy > n ∨ n > s.p.size ∨ roundUp n + v.rz > s.p.size then (s, .badOp) else
      ({ p := reset v s.p (some b.off) copy n, live := [⟨0, n, true⟩] }, .block 0 n)

def run (v : Var) (s : St) (ops : List Op) : St := ops.foldl (fun s o => (step v s o).1) s

end Mhd.PoolRz
