/-
  Reply decisions and the header / body / footer builders of `connection.c`:

  * `need100Continue`           need_100_continue
  * `keepalivePossible`         keepalive_possible
  * `isReplyBodyNeeded`         is_reply_body_needed
  * `setupReplyProperties`      setup_reply_properties
  * `addUserHeaders`            add_user_headers
  * `buildHeaderResponse`       build_header_response
  * `chunkSizeToFill`, `chunkFrame`   try_ready_chunked_body (sizes and framing)
  * `buildFooter`               build_connection_chunked_response_footer
  * `queueResponse`             MHD_queue_response (validation and the connection fields it sets)
-/
import Mhd.Model.Resp

namespace Mhd.Reply
open Mhd.ReplyStr Mhd.Resp
open Mhd.Gen.Reply (sizeUnknown maxChunk)

/-- `enum MHD_ConnKeepAlive` -/
inductive KA where
  | mustClose | unknown | useKeepalive | mustUpgrade
deriving Repr, DecidableEq, Inhabited

/-- `enum MHD_HTTP_Version` -/
inductive Ver where
  | invalid | unknown | tooOld | v10 | v11 | v12 | future
deriving Repr, DecidableEq, Inhabited

def Ver.num : Ver → Int
  | .invalid => Mhd.Gen.Reply.verInvalid
  | .unknown => Mhd.Gen.Reply.verUnknown
  | .tooOld => Mhd.Gen.Reply.verTooOld
  | .v10 => Mhd.Gen.Reply.ver10
  | .v11 => Mhd.Gen.Reply.ver11
  | .v12 => Mhd.Gen.Reply.ver12
  | .future => Mhd.Gen.Reply.verFuture

/-- `MHD_IS_HTTP_VER_SUPPORTED` -/
def verSupported (v : Ver) : Bool :=
  decide (Mhd.Gen.Reply.ver10 ≤ v.num) && decide (Mhd.Gen.Reply.ver12 ≥ v.num)

/-- `MHD_IS_HTTP_VER_1_1_COMPAT` -/
def ver11Compat (v : Ver) : Bool :=
  v.num == Mhd.Gen.Reply.ver11 || v.num == Mhd.Gen.Reply.ver12

/-- `enum MHD_HTTP_Method` -/
inductive Mthd where
  | noMethod | get | head | post | put | delete | connect | options | trace | other
deriving Repr, DecidableEq, Inhabited

/-- what the reply code reads from the connection / request / daemon -/
structure Conn where
  keepalive : KA := .unknown
  ver : Ver := .v11
  mthd : Mthd := .get
  readClosed : Bool := false
  discardRequest : Bool := false
  /-- `MHD_lookup_header_s_token_ci (c, "Connection", "close")` -/
  reqClose : Bool := false
  /-- `MHD_lookup_header_s_token_ci (c, "Connection", "Keep-Alive")` -/
  reqKeepAlive : Bool := false
  /-- `daemon->options & MHD_USE_SUPPRESS_DATE_NO_CLOCK` -/
  suppressDate : Bool := false
deriving Repr, DecidableEq, Inhabited

/-- "100-continue" -/
def s100Continue : Bytes := [49, 48, 48, 45, 99, 111, 110, 116, 105, 110, 117, 101]

/-- `need_100_continue`: `expect` is the value of the first "Expect" request header, if any -/
def need100Continue (ver : Ver) (remainingUpload : Nat) (expect : Option Bytes) : Bool :=
  if ! ver11Compat ver then false
  else if remainingUpload == 0 then false
  else match expect with
    | none => false
    | some e => strEqCaseless e s100Continue

/-- `keepalive_possible` -/
def keepalivePossible (c : Conn) (r : Resp) : KA :=
  -- FIX F37: the upgrade is decided before the "must close" state (an upgrade response hands the connection
  -- over to the application; no `close` token may be put in front of its "Connection: Upgrade")
  if r.upgrade then .mustUpgrade
  else if c.keepalive == .mustClose then .mustClose
  else if c.readClosed || c.discardRequest then .mustClose
  else if r.flags.http10Strict then .mustClose
  else if r.fa.connClose then .mustClose
  else if ! verSupported c.ver then .mustClose
  else if c.reqClose then .mustClose
  else if c.ver == .v10 || r.flags.http10Server then
    (if c.reqKeepAlive then .useKeepalive else .mustClose)
  else if ver11Compat c.ver then .useKeepalive
  else .mustClose

/-- `enum replyBodyUse` -/
inductive BodyUse where
  | none | headersOnly | send
deriving Repr, DecidableEq, Inhabited

/-- `is_reply_body_needed (connection, rcode)` -/
def isReplyBodyNeeded (mthd : Mthd) (rcode : Nat) : BodyUse :=
  if 199 ≥ rcode then .none
  else if (rcode : Int) == Mhd.Gen.Reply.httpNoContent then .none
  else if mthd == .head then .headersOnly
  else if (rcode : Int) == Mhd.Gen.Reply.httpNotModified then .headersOnly
  else .send

/-- `struct MHD_Reply_Properties` -/
structure Props where
  sendReplyBody : Bool
  useReplyBodyHeaders : Bool
  chunked : Bool
deriving Repr, DecidableEq, Inhabited

/-- `setup_reply_properties`: new `keepalive` and the reply properties -/
def setupReplyProperties (c : Conn) (r : Resp) (rcode : Nat) : KA × Props :=
  let ka := keepalivePossible c r
  let use := isReplyBodyNeeded c.mthd rcode
  let sendBody := use == .send
  let useHdrs := use != .none
  if useHdrs then
    let useChunked :=
      if r.totalSize == sizeUnknown || r.fa.transEnc then
        (if ! ver11Compat c.ver then false
         else if r.flags.http10Strict || r.flags.http10Server then false
         else true)
      else false
    let ka' := if r.totalSize == sizeUnknown && ! useChunked then KA.mustClose else ka
    (ka', ⟨sendBody, useHdrs, useChunked⟩)
  else (ka, ⟨sendBody, useHdrs, false⟩)

/-! ### header block

`build_header_response` writes a sequence of pieces into the write buffer, each guarded by its own
space check (`buffer_append`, or an explicit `buf_size < pos + k`).  A piece is modelled as a
`Seg`: the number of free bytes the C code demands before writing, and the bytes written. -/

structure Seg where
  need : Nat
  piece : Bytes
deriving Repr, DecidableEq

/-- one guarded write: `none` = MHD_NO (not enough space) -/
def appendChk (bufSize : Nat) (buf : Bytes) (s : Seg) : Option Bytes :=
  if bufSize < buf.length + s.need then none else some (buf ++ s.piece)

def runSegs (bufSize : Nat) : List Seg → Bytes → Option Bytes
  | [], buf => some buf
  | s :: rest, buf =>
    match appendChk bufSize buf s with
    | none => none
    | some b => runSegs bufSize rest b

/-- `buffer_append (buf, &pos, buf_size, s, strlen (s))` -/
def segStr (s : Bytes) : Seg := ⟨s.length, s⟩

def crlf : Bytes := [13, 10]
/-- ": " -/
def colonSp : Bytes := [58, 32]
/-- "Keep-Alive, " -/
def sKeepAliveSep : Bytes := [75, 101, 101, 112, 45, 65, 108, 105, 118, 101, 44, 32]
/-- "Keep-Alive" -/
def sKeepAlive : Bytes := [75, 101, 101, 112, 45, 65, 108, 105, 118, 101]

/-- a header field as it is put on the wire -/
structure Field where
  name : Bytes
  value : Bytes
deriving Repr, DecidableEq

def fieldLine (f : Field) : Bytes := f.name ++ colonSp ++ f.value ++ crlf

/-- loop state of `add_user_headers` -/
structure UH where
  filterTE : Bool
  filterCL : Bool
  addClose : Bool
  addKA : Bool
deriving Repr, DecidableEq

/-- the `for` loop of `add_user_headers`: the fields it emits, each with the space it demands -/
def userFieldsLoop (insanity : Bool) : List Hdr → UH → List Field
  | [], _ => []
  | h :: rest, st =>
    if h.kind != .header then userFieldsLoop insanity rest st
    else if st.filterTE && nameIs h.name sTransferEncoding then
      userFieldsLoop insanity rest { st with filterTE := false }
    else if st.filterCL && nameIs h.name sContentLength then
      -- FIX F4b: the unfixed code assigns `filter_transf_enc` here where `filter_content_len`
      -- is meant (not observable as long as the flags_auto invariant holds)
      userFieldsLoop insanity rest { st with filterCL := ! insanity }
    else
      let pre : Bytes := if st.addClose then sCloseSep else if st.addKA then sKeepAliveSep else []
      -- the code first checks `el_size` (the length of the plain line), then `el_size + strlen (pre)`:
      -- the second check subsumes the first and is exactly the length of the line written
      ⟨h.name, pre ++ h.value⟩ ::
        userFieldsLoop insanity rest { st with addClose := false, addKA := false }

/-- initial loop state of `add_user_headers (…, filter_transf_enc, filter_content_len, add_close, add_keep_alive)` -/
def userInit (r : Resp) (filterTE filterCL addClose addKA : Bool) : UH :=
  { filterTE := if ! r.fa.transEnc then false else filterTE
    filterCL := if ! r.fa.contentLength then false else filterCL
    addClose := if ! r.fa.connHdr then false else if r.fa.connClose then false else addClose
    addKA := if ! r.fa.connHdr then false else addKA }

/-- reason phrase lookup (`MHD_get_reason_phrase_len_for` / `_for`) -/
def reasonPhrase (code : Nat) : Bytes :=
  match Mhd.Gen.Reply.reasons.find? (fun p => p.1 == code) with
  | some p => p.2
  | none => Mhd.Gen.Reply.nonStandardStatus

/-- "ICY" -/
def sIcy : Bytes := [73, 67, 89]

def versionStr (r : Resp) (icy : Bool) : Bytes :=
  if ! icy then (if ! r.flags.http10Server then Mhd.Gen.Reply.httpVersion11 else Mhd.Gen.Reply.httpVersion10)
  else sIcy

/-- decimal digits of the status code (`MHD_uint16_to_str`; at least 4 bytes are free here) -/
def codeDigits (rcode : Nat) : Bytes := (uint16ToStr rcode 4).getD []

/-- decimal digits of the body size (`MHD_uint64_to_str`) -/
def sizeDigits (n : Nat) : Bytes := (uint64ToStr n 20).getD []

/-- `use_conn_close` / `use_conn_k_alive` of `build_header_response` -/
def useConnClose (ka : KA) : Bool := ka == .mustClose
def useConnKAlive (c : Conn) (r : Resp) (ka : KA) : Bool :=
  ka == .useKeepalive && (r.flags.sendKeepAlive || c.ver == .v10 || r.flags.http10Server)

/-- the automatic "Date" field -/
def dateFields (c : Conn) (r : Resp) (date : Option Bytes) : List Field :=
  if ! r.fa.date && ! c.suppressDate then
    match date with
    | some d => [⟨sDate, d⟩]
    | none => []
  else []

/-- the Date step demands 38 free bytes ("Additional byte for unused zero-termination"), also when
    `get_date_header` fails and nothing is written -/
def dateSegs (c : Conn) (r : Resp) (date : Option Bytes) : List Seg :=
  if ! r.fa.date && ! c.suppressDate then
    [⟨38, ((dateFields c r date).map fieldLine).flatten⟩]
  else []

/-- the automatic "Connection" field (only when the response has none) -/
def connFields (c : Conn) (r : Resp) (ka : KA) : List Field :=
  if ! r.fa.connHdr then
    (if useConnClose ka then [⟨sConnection, sClose⟩]
     else if useConnKAlive c r ka then [⟨sConnection, sKeepAlive⟩]
     else [])
  else []

def userFields (c : Conn) (r : Resp) (ka : KA) (props : Props) : List Field :=
  userFieldsLoop r.flags.insanity r.hdrs
    (userInit r (! props.chunked) (! props.useReplyBodyHeaders && ! r.flags.insanity)
       (useConnClose ka) (useConnKAlive c r ka))

/-- the automatic body headers, as segments ("Content-Length: " / digits / CRLF are three writes) -/
def bodyHdrSegs (r : Resp) (props : Props) : List Seg :=
  if props.useReplyBodyHeaders && ! r.flags.headOnly then
    (if props.chunked then
       (if ! r.fa.transEnc then [segStr (fieldLine ⟨sTransferEncoding, sChunked⟩)] else [])
     else if r.totalSize != sizeUnknown then
       (if ! r.fa.contentLength then
          [segStr (sContentLength ++ colonSp), segStr (sizeDigits r.totalSize), ⟨2, crlf⟩]
        else [])
     else [])
  else []

def fieldSeg (f : Field) : Seg := segStr (fieldLine f)

/-- all guarded writes of `build_header_response`, in order -/
def headSegs (c : Conn) (r : Resp) (rcode : Nat) (icy : Bool) (date : Option Bytes) (ka : KA) (props : Props) :
    List Seg :=
  [segStr (versionStr r icy), ⟨5, [32] ++ codeDigits rcode ++ [32]⟩, segStr (reasonPhrase rcode), ⟨2, crlf⟩]
  ++ dateSegs c r date
  ++ (connFields c r ka).map fieldSeg
  ++ (userFields c r ka props).map fieldSeg
  ++ bodyHdrSegs r props
  ++ [⟨2, crlf⟩]

/-- `build_header_response`.  `date` = what `get_date_str` produced (29 bytes) or `none` if it failed.
    Result: the new `keepalive`, the properties and the header block (`none` = MHD_NO, buffer too small). -/
def buildHeaderResponse (c : Conn) (r : Resp) (rcode : Nat) (icy : Bool) (date : Option Bytes)
    (bufSize : Nat) : KA × Props × Option Bytes :=
  let (ka, props) := setupReplyProperties c r rcode
  (ka, props, if bufSize == 0 then none else runSegs bufSize (headSegs c r rcode icy date ka props) [])

/-! ### body framing -/

/-- `size_to_fill` of `try_ready_chunked_body` (write buffer of `wbSize ≥ 128` bytes, `left` = bytes
    left to send or `sizeUnknown`) -/
def chunkSizeToFill (wbSize left : Nat) : Nat :=
  let s0 := wbSize - 10
  let s1 := if maxChunk < s0 then maxChunk else s0
  if left < s1 then left else s1

/-- one chunk as put into the write buffer: hex size, CRLF, data, CRLF
    (`none`: the size does not fit the 6-digit chunk header — unreachable for `data.length ≤ maxChunk`) -/
def chunkFrame (data : Bytes) : Option Bytes :=
  match uint32ToStrx (data.length % 2 ^ 32) 6 with
  | some h => some (h ++ crlf ++ data ++ crlf)
  | none => none

/-- `build_connection_chunked_response_footer`: "0\r\n" trailers "\r\n" -/
def buildFooterLoop (bufSize : Nat) : List Hdr → Bytes → Option Bytes
  | [], buf => some buf
  | h :: rest, buf =>
    if h.kind == .footer then
      if buf.length + h.name.length + h.value.length + 4 > bufSize then none
      else buildFooterLoop bufSize rest (buf ++ h.name ++ colonSp ++ h.value ++ crlf)
    else buildFooterLoop bufSize rest buf

def buildFooter (r : Resp) (bufSize : Nat) : Option Bytes :=
  if bufSize < 5 then none else
  match buildFooterLoop bufSize r.hdrs [48, 13, 10] with
  | none => none
  | some buf => if buf.length + 2 > bufSize then none else some (buf ++ crlf)

/-! ### MHD_queue_response -/

inductive CState where
  | headersProcessed | fullReqReceived | other
deriving Repr, DecidableEq, Inhabited

structure Queued where
  code : Nat
  icy : Bool
  /-- `rsp_write_position = total_size` ("pretend that we have already sent the full body") -/
  bodyPretendSent : Bool
  /-- connection state after the call -/
  early : Bool
deriving Repr, DecidableEq, Inhabited

/-- "upgrade" -/
def sUpgradeTok : Bytes := [117, 112, 103, 114, 97, 100, 101]

/-- `0 != (status_code & MHD_ICY_FLAG)` -/
def icyOf (statusCode : Nat) : Bool := statusCode / Mhd.Gen.Reply.icyFlag % 2 == 1
/-- `status_code &= ~MHD_ICY_FLAG` -/
def codeOf (statusCode : Nat) : Nat :=
  if icyOf statusCode then statusCode - Mhd.Gen.Reply.icyFlag else statusCode

/-- `MHD_str_has_s_token_caseless_ (response->first_header->value, "upgrade")` -/
def firstHasUpgrade (r : Resp) : Bool :=
  match r.hdrs.head? with
  | some h => hasTokenCaseless h.value sUpgradeTok
  | none => false

/-- `MHD_queue_response` for a non-threaded daemon: `none` = MHD_NO.
    `hasResponse` = a response is already queued; `shutdown`, `allowUpgrade` are daemon facts. -/
def queueResponse (c : Conn) (st : CState) (hasResponse shutdown allowUpgrade : Bool)
    (statusCode : Nat) (r : Resp) : Option Queued :=
  let icy := icyOf statusCode
  let code := codeOf statusCode
  if hasResponse then none
  else if st == .other then none
  else if shutdown then none
  else if r.upgrade && ! allowUpgrade then none
  else if r.upgrade && (code : Int) != Mhd.Gen.Reply.httpSwitchingProtocols then none
  else if r.upgrade && ! r.fa.connHdr then none
  else if r.upgrade && ! firstHasUpgrade r then none
  else if r.upgrade && ! ver11Compat c.ver then none
  else if (code : Int) == Mhd.Gen.Reply.httpSwitchingProtocols && ! r.upgrade then none
  else if 100 > code || 999 < code then none
  else if 200 > code && c.ver == .v10 then none
  else if 200 > code && (r.flags.http10Strict || r.flags.http10Server) then none
  else if c.mthd == .connect && code / 100 == 2 then none
  else if r.flags.headOnly && isReplyBodyNeeded c.mthd code == .send then none
  else
    some { code := code, icy := icy,
           bodyPretendSent := c.mthd == .head || decide ((code : Int) < Mhd.Gen.Reply.httpOk) ||
             (code : Int) == Mhd.Gen.Reply.httpNoContent || (code : Int) == Mhd.Gen.Reply.httpNotModified,
           early := st == .headersProcessed }

end Mhd.Reply
