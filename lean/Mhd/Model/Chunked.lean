/-
  C03 — request framing.  Part 2: the chunk decoder of `process_request_body`
  (connection.c), one loop action at a time, for a handler that takes all the
  bytes it is offered.

  `chunkAct lvl cur off b` is what one iteration of the `do … while (instant_retry)`
  loop decides when `current_chunk_size = cur`, `current_chunk_offset = off` and the
  unprocessed part of the read buffer is `b` (`available = b.length`):
  * `needMore`        every `break` / `continue` exit that waits for more data
  * `term n`          the CRLF (n = 2) or bare LF (n = 1) after a chunk's data
  * `data n`          `n` payload bytes handed to the application
  * `line len size`   a complete chunk-size line of `len` bytes announcing `size`
  * `err status`      `transmit_error_response_static`

  [F2 fix] the extension branch consumes the LF as well (`i + 1`).
-/
import Mhd.Model.Framing

namespace Mhd.Framing
open Mhd.Gen.Framing

inductive Act
  | needMore
  | term (n : Nat)
  | data (n : Nat)
  | line (len : Nat) (size : Nat)
  | err (status : Nat)
deriving DecidableEq, Repr

/-- number of leading bytes satisfying `p` -/
def countWhile (p : UInt8 → Bool) : Bytes → Nat
  | [] => 0
  | c :: t => if p c then countWhile p t + 1 else 0

/-- chunk extension: `b = b₀ ++ tl`, `tl` starts at `buffer_head[num_dig]`, `k = num_dig`.
    Mirrors lines 4523–4555. -/
def extAct (bareLf : Bool) (k : Nat) (size : Nat) (tl : Bytes) : Act :=
  let w := countWhile isWs tl                       -- "Skip bad whitespaces (if any)"
  match tl.drop w with
  | [] => .needMore                                  -- i == available
  | c :: after =>
    if c == SEMI then
      let e := countWhile (· != LF) after           -- search for LF from i + 1
      match after.drop e with
      | [] => .needMore                              -- i == available
      | _ :: _ =>
        -- LF found at index i = k + w + 1 + e; the byte before it is `;` when e = 0
        let prev : UInt8 := if e = 0 then SEMI else (after.getD (e - 1) 0)
        if bareLf then .line (k + w + 1 + e + 1) size
        else if prev == CR then .line (k + w + 1 + e + 1) size
        else .err httpBadRequest
    else .err httpBadRequest                         -- no ';' after bad whitespace

/-- "Need the parse the chunk size line" branch (lines 4483–4601) -/
def sizeLineAct (bareLf allowBws : Bool) (b : Bytes) : Act :=
  let r := strx b
  let k := r.1
  if k = b.length then .needMore                     -- "Need line delimiter"
  else if k = 0 then
    -- broken: overflow iff the first byte is a hex digit
    (match b with
     | c :: _ => if isHex c then .err httpContentTooLarge else .err httpBadRequest
     | [] => .needMore)
  else
    match b.drop k with
    | [] => .needMore
    | c :: rest =>
      if c == SEMI || (allowBws && (c == SP || c == HT)) then extAct bareLf k r.2 (c :: rest)
      else
        match rest with
        | d :: _ =>
          if c == CR && d == LF then .line (k + 2) r.2
          else if bareLf && c == LF then .line (k + 1) r.2
          else .err httpBadRequest
        | [] =>
          if bareLf && c == LF then .line (k + 1) r.2
          else .needMore                             -- 2 > available - num_dig

/-- one iteration of the body loop for a chunked upload -/
def chunkAct (lvl : Int) (cur off : Nat) (b : Bytes) : Act :=
  let bareLf : Bool := decide (lvl ≤ bareLfMaxLvl)
  let allowBws : Bool := decide (bwsAboveLvl < lvl)
  match b with
  | [] => .needMore                                  -- the loop is only (re-)entered with available > 0
  | c :: rest =>
    if off = cur ∧ cur ≠ 0 then
      -- "skip new line at the *end* of a chunk"
      match rest with
      | d :: _ =>
        if c == CR && d == LF then .term 2
        else if bareLf && c == LF then .term 1
        else .err httpBadRequest
      | [] =>
        if bareLf && c == LF then .term 1 else .needMore
    else if cur ≠ 0 then
      .data (min (cur - off) b.length)
    else sizeLineAct bareLf allowBws b

end Mhd.Framing
