/-
  Grammar side of C14: semantic Digest parameters and their renderings
  (RFC 7616 / RFC 7235 `#auth-param`), the base64 encoder (RFC 4648), and the
  reference meaning of the enumerated parameters.  Nothing here mirrors C code:
  this is the specification against which the parser model is proved.
-/
import Mhd.Model.Auth

namespace Mhd.Auth
open Mhd.Gen.Auth

/-! ### Digest credentials -/

/-- one parameter: index of its name in `tk_names[]` (`paramNames`) and its value
    (the bytes the client means, i.e. after unquoting) -/
structure Item where
  slot : Nat
  value : Bytes
  deriving DecidableEq, Repr

/-- how the value is written -/
inductive Form
  | token                         -- as is
  | quoted (esc : List Bool)      -- in DQUOTEs; `esc[j]`: byte j written as quoted-pair (`"` and `\` always are)
  deriving DecidableEq, Repr

/-- the choices RFC 7235 leaves to the sender for one parameter -/
structure ItemR where
  upper : List Bool               -- letters of the name written in upper case
  ws1 : Bytes                     -- BWS before "="
  ws2 : Bytes                     -- BWS after "="
  form : Form
  ws3 : Bytes                     -- OWS after the value
  ws4 : Bytes                     -- OWS after the "," that follows (unused for the last parameter)
  deriving DecidableEq, Repr

structure Elem where
  item : Item
  r : ItemR
  deriving DecidableEq, Repr

def toUpperB (c : UInt8) : UInt8 := if 97 ≤ c.toNat ∧ c.toNat ≤ 122 then UInt8.ofNat (c.toNat - 32) else c

/-- name with the chosen letters in upper case -/
def caseRender : List Bool → Bytes → Bytes
  | _, [] => []
  | [], c :: r => c :: caseRender [] r
  | b :: bs, c :: r => (if b then toUpperB c else c) :: caseRender bs r

/-- quoted-string body: `"` and `\` are always escaped, other bytes where `esc` says so -/
def escRender : List Bool → Bytes → Bytes
  | _, [] => []
  | [], c :: r => if c = 34 ∨ c = 92 then 92 :: c :: escRender [] r else c :: escRender [] r
  | b :: bs, c :: r => if c = 34 ∨ c = 92 ∨ b = true then 92 :: c :: escRender bs r else c :: escRender bs r

/-- does the rendering contain a backslash -/
def anyEsc : List Bool → Bytes → Bool
  | _, [] => false
  | [], c :: r => (c = 34 ∨ c = 92) || anyEsc [] r
  | b :: bs, c :: r => (c = 34 ∨ c = 92 ∨ b = true) || anyEsc bs r

/-- the bytes between "=" BWS and OWS: the value in its chosen form -/
def renderValue (v : Bytes) : Form → Bytes
  | .token => v
  | .quoted esc => 34 :: (escRender esc v ++ [34])

/-- the raw slice the parser is expected to record, and its `quoted` flag -/
def rawOf (e : Elem) : Bytes :=
  match e.r.form with
  | .token => e.item.value
  | .quoted esc => escRender esc e.item.value

def quotedOf (e : Elem) : Bool :=
  match e.r.form with
  | .token => false
  | .quoted esc => anyEsc esc e.item.value

def nameOf (slot : Nat) : Bytes := paramNames.getD slot []

def renderElem (e : Elem) : Bytes :=
  caseRender e.r.upper (nameOf e.item.slot) ++ e.r.ws1 ++ 61 :: (e.r.ws2 ++ renderValue e.item.value e.r.form ++ e.r.ws3)

/-- `auth-param *( OWS "," OWS auth-param )` -/
def renderList : List Elem → Bytes
  | [] => []
  | [e] => renderElem e
  | e :: e' :: es => renderElem e ++ 44 :: (e.r.ws4 ++ renderList (e' :: es))

/-- what follows "Digest" SP in the header value -/
def render (lead : Bytes) (es : List Elem) : Bytes := lead ++ renderList es

def allWs (w : Bytes) : Bool := w.all isWs

/-- bytes an unquoted value may consist of as far as the C scanner is concerned
    (a superset of RFC 7230 `tchar`; DQUOTE excluded since fix F35) -/
def tokByte (c : UInt8) : Bool := c ≠ 34 && c ≠ 0 && c ≠ 32 && c ≠ 9 && c ≠ 44 && c ≠ 59

/-- well-formedness of one rendered parameter (decidable): known name, OWS fields are SP/HT only,
    a token is non-empty (RFC 7230 `token = 1*tchar`), free of NUL SP HT , ; and does not start with a
    DQUOTE; a quoted value is free of NUL -/
def Elem.wf (e : Elem) : Bool :=
  decide (e.item.slot < paramNames.length) && allWs e.r.ws1 && allWs e.r.ws2 && allWs e.r.ws3 && allWs e.r.ws4 &&
    (match e.r.form with
     | .token => e.item.value.all tokByte && (e.item.value.head? != some 34) && !e.item.value.isEmpty
     | .quoted _ => e.item.value.all (· ≠ 0))

def WF (lead : Bytes) (es : List Elem) : Bool := allWs lead && es.all Elem.wf

/-- semantic value of parameter `k`: the last occurrence wins (as in the C code);
    independent of every rendering choice -/
def view (es : List Elem) (k : Nat) : Option Bytes :=
  es.foldl (fun acc e => if e.item.slot = k then some e.item.value else acc) none


/-! ### the full list grammar: extension parameters and empty list elements -/

def toLowerB (c : UInt8) : UInt8 := if 65 ≤ c.toNat ∧ c.toNat ≤ 90 then UInt8.ofNat (c.toNat + 32) else c

/-- an element of the `#auth-param` list: a parameter MHD knows, an extension parameter (any other name),
    or an empty list element -/
inductive GElem
  | known (e : Elem)
  | ext (name : Bytes) (r : ItemR) (value : Bytes)
  | empty (ws4 : Bytes)
  deriving DecidableEq, Repr

def GElem.ws4 : GElem → Bytes
  | .known e => e.r.ws4
  | .ext _ r _ => r.ws4
  | .empty w => w

def GElem.render : GElem → Bytes
  | .known e => renderElem e
  | .ext n r v => n ++ r.ws1 ++ 61 :: (r.ws2 ++ renderValue v r.form ++ r.ws3)
  | .empty _ => []

def renderGList : List GElem → Bytes
  | [] => []
  | [g] => g.render
  | g :: g' :: gs => g.render ++ 44 :: (g.ws4 ++ renderGList (g' :: gs))

/-- bytes of an extension parameter name as far as the C scanner is concerned (superset of `tchar`) -/
def nameByte (c : UInt8) : Bool := !isDelim c && c ≠ 0 && c ≠ 34

def GElem.wf : GElem → Bool
  | .known e => e.wf
  | .ext n r v =>
    !n.isEmpty && n.all nameByte && paramNames.all (fun kn => n.map toLowerB != kn.map toLowerB) &&
    allWs r.ws1 && allWs r.ws2 && allWs r.ws3 && allWs r.ws4 &&
    (match r.form with
     | .token => !v.isEmpty && v.all (fun c => tokByte c && c ≠ 34)
     | .quoted _ => v.all (· ≠ 0))
  | .empty w => allWs w

def viewG (gs : List GElem) (k : Nat) : Option Bytes :=
  gs.foldl (fun acc g => match g with
    | .known e => if e.item.slot = k then some e.item.value else acc
    | _ => acc) none

def renderG (lead : Bytes) (gs : List GElem) : Bytes := lead ++ renderGList gs

def WFG (lead : Bytes) (gs : List GElem) : Bool := allWs lead && gs.all GElem.wf

/-! ### reference meaning of enumerated values (RFC 7616: tokens compared caselessly) -/

def algoSem : Option Bytes → Nat
  | none => algoMd5
  | some v =>
    if eqClS tokMd5 v then algoMd5
    else if eqClS tokSha256 v then algoSha256
    else if eqClS tokSha512 v then algoSha512
    else if eqClS (tokMd5 ++ tokSess) v then algoMd5Sess
    else if eqClS (tokSha256 ++ tokSess) v then algoSha256Sess
    else if eqClS (tokSha512 ++ tokSess) v then algoSha512Sess
    else algoInvalid

def qopSem : Option Bytes → Nat
  | none => qopNone
  | some v => if eqClS tokAuth v then qopAuth else if eqClS tokAuthInt v then qopAuthInt else qopInvalid

def userhashSem : Option Bytes → Bool
  | none => false
  | some v => eqClS [116, 114, 117, 101] v          -- "true"

/-! ### base64 (RFC 4648 §4) -/

def b64Alphabet : Bytes :=
  [65, 66, 67, 68, 69, 70, 71, 72, 73, 74, 75, 76, 77, 78, 79, 80, 81, 82, 83, 84, 85, 86, 87, 88, 89, 90,
   97, 98, 99, 100, 101, 102, 103, 104, 105, 106, 107, 108, 109, 110, 111, 112, 113, 114, 115, 116, 117, 118,
   119, 120, 121, 122, 48, 49, 50, 51, 52, 53, 54, 55, 56, 57, 43, 47]

def b64Char (v : Nat) : UInt8 := b64Alphabet.getD v 61

def b64Enc : Bytes → Bytes
  | [] => []
  | [a] => [b64Char (a.toNat / 4), b64Char (a.toNat % 4 * 16), 61, 61]
  | [a, b] => [b64Char (a.toNat / 4), b64Char (a.toNat % 4 * 16 + b.toNat / 16), b64Char (b.toNat % 16 * 4), 61]
  | a :: b :: c :: r =>
    b64Char (a.toNat / 4) :: b64Char (a.toNat % 4 * 16 + b.toNat / 16)
      :: b64Char (b.toNat % 16 * 4 + c.toNat / 64) :: b64Char (c.toNat % 64) :: b64Enc r

end Mhd.Auth
