/-
  C03 — request framing.  Part 5: a handler that takes only part of the upload data it is
  offered (`*upload_data_size` left non-zero), `process_request_body` lines 4647–4717.

  `offered lvl s`  the number of bytes one loop iteration presents to the handler
                   (`to_be_processed`): the rest of the current chunk or of the identity body,
                   limited by what is in the read buffer; `none` when this iteration does not
                   call the handler (chunk-size line, chunk terminator, need more data, error).
  `takeStep lvl k s`  that iteration when the handler takes `min k offered` bytes: they are
                   appended to the upload seen by the application, removed from the front of the
                   read buffer (`buffer_head += processed_size` + the final `memmove`), and
                   `current_chunk_offset` / `remaining_upload_size` advance by exactly that
                   number.  What was not taken stays at the front of the buffer and is presented
                   again.  With `k ≥ offered` this is `bodyStep`.
  `runSched`       any interleaving of bytes arriving, loop iterations in which the handler takes
                   everything, and iterations in which it takes `k` bytes.
  `procBody`       one call of `process_request_body` under a take pattern (for the white-box
                   correspondence): the loop runs on while the handler takes all it is offered.
-/
import Mhd.Model.FramingConn

namespace Mhd.Framing
open Mhd.Gen.Framing

def offered (lvl : Int) (s : St) : Option Nat :=
  if s.state = .bodyReceiving ∧ s.remaining ≠ 0 then
    if s.chunked then
      match chunkAct lvl s.cur s.off s.buf with
      | .data n => some n
      | _ => none
    else
      match s.buf with
      | [] => none
      | _ :: _ => some (min s.remaining s.buf.length)
  else none

/-- the handler was offered `s.buf.take n` and took the first `t ≤ n` bytes of it -/
def consume (s : St) (t : Nat) : St :=
  if s.chunked then
    { s with buf := s.buf.drop t, off := s.off + t, out := emitUpload (s.buf.take t) s.out }
  else
    let s' := { s with buf := s.buf.drop t, remaining := s.remaining - t,
                       out := emitUpload (s.buf.take t) s.out }
    if s'.remaining = 0 then { s' with state := .bodyReceived } else s'

def takeStep (lvl : Int) (k : Nat) (s : St) : Option St :=
  match offered lvl s with
  | none => none
  | some n => some (consume s (min k n))

/-- scheduler inputs -/
inductive Inp
  | bytes (b : Bytes)     -- bytes arrive from the client
  | step                  -- one case of the idle loop; if it calls the handler with upload data, the handler takes all
  | take (k : Nat)        -- one iteration of the body loop in which the handler takes at most `k` bytes
deriving DecidableEq, Repr

def Inp.arrived : Inp → Bytes
  | .bytes b => b
  | _ => []

def applyInp [HeadParser] (lvl : Int) (app : App) (s : St) : Inp → St
  | .bytes b => if s.state = .closed ∨ s.state = .outOfDomain then s else { s with buf := s.buf ++ b }
  | .step => (idleStep lvl app s).getD s
  | .take k => (takeStep lvl k s).getD s

def runSched [HeadParser] (lvl : Int) (app : App) (is : List Inp) (s : St) : St :=
  is.foldl (applyInp lvl app) s

/-- one call of `process_request_body` with the handler taking `takes[i]` bytes (at most) at its
    i-th invocation and everything once the list is used up; returns the unused part of the list -/
def procBody (lvl : Int) : Nat → List Nat → St → List Nat × St
  | 0, ts, s => (ts, s)
  | fuel + 1, ts, s =>
    if s.state ≠ .bodyReceiving then (ts, s) else
    match offered lvl s with
    | some n =>
      match ts with
      | [] => procBody lvl fuel [] (consume s n)
      | k :: ts' =>
        if k < n then (ts', consume s k)           -- left_unprocessed ≠ 0: `instant_retry = false`
        else procBody lvl fuel ts' (consume s n)
    | none =>
      match bodyStep lvl s with
      | none => (ts, s)
      | some s' => procBody lvl fuel ts s'

end Mhd.Framing
