/-
  C11 — suspend / resume: the per-connection processing machine.

  Mirrors, at the granularity the property talks about, the functions of
  `src/microhttpd/connection.c` that are guarded by `connection->suspended`:

    MHD_connection_handle_read / _handle_write   (early return)
    MHD_connection_handle_idle                   (`while (! connection->suspended)` loop, its exits)
    MHD_connection_update_event_loop_info        (early return)
    MHD_connection_epoll_update_                 (called only when not suspended)
    process_request_body                         (the `instant_retry` loop)
    call_connection_handler, try_ready_normal_body, try_ready_chunked_body (callback sites)

  and the connection-local half of `internal_suspend_connection_` / `MHD_resume_connection`
  (daemon.c).  The HTTP parsers are abstracted: the client byte stream is a list of
  symbols (`Sym`): complete request head, body byte, chunk-size line, chunk-closing CRLF,
  last-chunk line, end of trailer.  The application is a script (`Plan`).

  Every guard is a field of `Guards`; the values come from `Mhd.Gen.Susp`, i.e. from the
  source as it is now.  No Mathlib import.
-/
import Mhd.Gen.Susp

namespace Mhd.Susp

/-- presence of the `suspended` guards in the C source -/
structure Guards where
  idleLoop : Bool        -- `while (! connection->suspended)` in MHD_connection_handle_idle
  idleFirstCall : Bool   -- `if (connection->suspended) continue;` after the first call
  idleEpoll : Bool       -- epoll update skipped for a suspended connection
  read : Bool            -- MHD_connection_handle_read returns first thing
  write : Bool           -- MHD_connection_handle_write returns first thing
  eli : Bool             -- MHD_connection_update_event_loop_info returns first thing
  bodyRetry : Bool       -- process_request_body: `while (instant_retry && ! connection->suspended)`
  writeReader : Bool     -- handle_write: no send when the content reader suspended the connection
  shortcut : Bool        -- internal_suspend_connection_: `if (connection->resuming) { resuming = false; return; }`
  resumeReady : Bool     -- resume_suspended_connections marks the connection read+write ready (epoll)
  selectPrevAfter : Bool -- internal_run_from_select reads pos->prev after call_handlers
  deriving DecidableEq, Repr

/-- the guards of the source tree this build was generated from -/
def srcGuards : Guards :=
  { idleLoop := Mhd.Gen.Susp.idleLoopGuard
    idleFirstCall := Mhd.Gen.Susp.idleFirstCallGuard
    idleEpoll := Mhd.Gen.Susp.idleEpollGuard
    read := Mhd.Gen.Susp.readGuard
    write := Mhd.Gen.Susp.writeGuard
    eli := Mhd.Gen.Susp.eliGuard
    bodyRetry := Mhd.Gen.Susp.bodyRetryGuard
    writeReader := Mhd.Gen.Susp.writeReaderGuard
    shortcut := Mhd.Gen.Susp.suspendResumingShortcut
    resumeReady := Mhd.Gen.Susp.resumeMarksReady
    selectPrevAfter := Mhd.Gen.Susp.selectReadsPrevAfterCall }

/-! ## client stream, application script -/

inductive Sym
  | head                 -- a complete request head
  | b (x : UInt8)        -- one body byte
  | sz (n : Nat)         -- chunk-size line of a non-empty chunk
  | crlf                 -- CRLF that closes a chunk
  | last                 -- the `0 CRLF` line
  | trailerEnd           -- the empty line that ends the (empty) trailer section
  deriving DecidableEq, Repr

inductive Body
  | none | cl (n : Nat) | chunked
  deriving DecidableEq, Repr

/-- how the resume belonging to one suspend point is issued -/
inductive ActK
  | delay (k : Nat)   -- the script thread, at the start of the k-th following round
  | imm               -- MHD_resume_connection right after MHD_suspend_connection (same callback)
  | pre               -- MHD_resume_connection *before* MHD_suspend_connection (the other thread won)
  | manual            -- somebody else (an explicit `resume` operation)
  deriving DecidableEq, Repr

inductive RKind
  | cbUnknown | cbKnown
  deriving DecidableEq, Repr

structure Plan where
  body : Body := .none
  fs : List ActK := []                 -- suspend cycles at the (repeated) first call
  takes : List (Option Nat) := []      -- upload call n consumes takes[n % len] bytes (none / [] = all)
  us : List (Nat × ActK) := []         -- suspend at upload call n
  ls : List ActK := []                 -- suspend cycles at the final call, then the reply is queued
  rs : List (Nat × ActK) := []         -- suspend at content-reader call j
  rd : Bool := false                   -- the suspending reader call returns data (true) or 0 (false)
  rkind : RKind := .cbUnknown
  size : Nat := 0
  cbmax : Nat := 0                     -- 0 = no limit
  rid : Nat := 0
  deriving DecidableEq, Repr

def lookupAct (n : Nat) : List (Nat × ActK) → Option ActK
  | [] => none
  | (i, a) :: r => if i = n then some a else lookupAct n r

def Plan.takeOf (p : Plan) (n offered : Nat) : Nat :=
  match p.takes with
  | [] => offered
  | t :: ts =>
    match (t :: ts)[n % (t :: ts).length]? with
    | some (some k) => min k offered
    | _ => offered

/-- deterministic body pattern shared with the harness -/
def pat (rid off : Nat) : UInt8 := UInt8.ofNat (97 + (rid * 7 + off) % 26)

def patRange (rid pos : Nat) : Nat → List UInt8
  | 0 => []
  | n + 1 => pat rid pos :: patRange rid (pos + 1) n

/-! ## events (per connection; the daemon tags them with the connection index) -/

inductive Phase
  | first | refirst | upload | final
  deriving DecidableEq, Repr

inductive CEv
  | connStart
  | handler (ph : Phase) (offered : List UInt8) (took : Nat)
  | queued
  | reader (j pos : Nat) (ret : Option Nat)     -- none = end of stream
  | suspend (eff : Bool)                        -- MHD_suspend_connection; eff = really suspended
  | resumeReq                                   -- MHD_resume_connection
  | resumed                                     -- moved back by resume_suspended_connections
  | recv (n : Option Nat)                       -- none = EAGAIN
  | sendHdr
  | sendBody (bytes : List UInt8)
  | sendEnd
  | completed
  | fault (what : String)
  deriving DecidableEq, Repr

/-! ## connection state -/

inductive St
  | recvHead | hdrProcessed | bodyRecv | bodyReceived | footersRecv | fullReq
  | hdrSending | hdrSent | bodyUnready | bodyReady | bodySent | footersSending | replySent | finished
  deriving DecidableEq, Repr

inductive Eli
  | read | write | process | processRead | cleanup
  deriving DecidableEq, Repr

def Eli.hasRead : Eli → Bool
  | .read | .processRead => true
  | _ => false

def Eli.hasProcess : Eli → Bool
  | .process | .processRead => true
  | _ => false

/-- numeric value of the C enum (regenerated) -/
def Eli.code : Eli → Nat
  | .read => Mhd.Gen.Susp.eliRead
  | .write => Mhd.Gen.Susp.eliWrite
  | .process => Mhd.Gen.Susp.eliProcess
  | .processRead => Mhd.Gen.Susp.eliProcessRead
  | .cleanup => Mhd.Gen.Susp.eliCleanup

structure Conn where
  plan : Plan := {}             -- the application's script for the request being processed
  later : List Plan := []       -- keep-alive: scripts for the requests that follow on this connection
  done : List Plan := []        -- ghost: scripts of the requests already completed (oldest first)
  st : St := .recvHead
  inbox : List Sym := []        -- in the socket, not yet received
  sent : List Sym := []         -- ghost: everything the client has sent so far
  rbuf : List Sym := []         -- read buffer
  remaining : Nat := 0          -- rq.remaining_upload_size (Content-Length uploads)
  chunkSize : Nat := 0
  chunkOff : Nat := 0
  lastSeen : Bool := false      -- chunked upload: `0 CRLF` consumed (remaining_upload_size = 0)
  spp : Bool := false           -- rq.some_payload_processed
  haveResp : Bool := false
  rwp : Nat := 0                -- rp.rsp_write_position
  winStart : Nat := 0           -- response->data_start / data_size (known-size callback replies)
  winSize : Nat := 0
  wpend : List UInt8 := []      -- chunk payload waiting in the write buffer
  eos : Bool := false           -- total_size fixed by an end-of-stream answer
  eli : Eli := .read
  nfirst : Nat := 0
  nupload : Nat := 0
  nfinal : Nat := 0
  nreader : Nat := 0
  suspended : Bool := false
  resuming : Bool := false
  dres : Bool := false          -- a callback of this turn called MHD_resume_connection: `daemon->resuming = true`
                                -- (copied into the daemon record at the end of the turn, see `turnWith`)
  timer : Option Nat := none    -- script thread: rounds until it calls MHD_resume_connection
  -- epoll_state bits
  inSet : Bool := false
  readReady : Bool := false
  writeReady : Bool := false
  epSusp : Bool := false
  inEready : Bool := false
  fault : Option String := none
  deriving DecidableEq, Repr

/-- all the scripts of the connection, in request order (constant over the life of the connection) -/
def Conn.script (k : Conn) : List Plan := k.done ++ k.plan :: k.later

def Conn.chunkedUp (k : Conn) : Bool := k.plan.body == .chunked
def Conn.chunkedReply (k : Conn) : Bool := k.plan.rkind == .cbUnknown

def Conn.setFault (k : Conn) (w : String) : Conn × List CEv :=
  ({ k with fault := some w }, [.fault w])

/-! ## suspend / resume as seen from inside a callback -/

/-- connection-local half of `internal_suspend_connection_` (the list moves are done by
    the daemon right after the turn of this connection, see `Daemon.sync`) -/
def Conn.doSuspend (g : Guards) (k : Conn) : Conn × Bool :=
  if k.resuming && g.shortcut then
    ({ k with resuming := false }, false)
  else
    ({ k with suspended := true, inEready := false, inSet := false, epSusp := true }, true)

/-- `MHD_resume_connection` called from a callback of this connection -/
def Conn.doResumeReq (k : Conn) : Conn := { k with resuming := true, dres := true }

/-- the MHD_suspend_connection / MHD_resume_connection calls of one callback -/
def suspendAct (g : Guards) (k : Conn) (a : ActK) : Conn × List CEv :=
  if k.suspended then k.setFault "suspend of a suspended connection (callback ran while suspended)" else
  match a with
  | .pre =>
    let r := (k.doResumeReq).doSuspend g
    (r.1, [.resumeReq, .suspend r.2])
  | .imm =>
    let r := k.doSuspend g
    (r.1.doResumeReq, [.suspend r.2, .resumeReq])
  | .delay n =>
    let r := k.doSuspend g
    ((if r.2 then { r.1 with timer := some n } else r.1), [.suspend r.2])
  | .manual =>
    let r := k.doSuspend g
    (r.1, [.suspend r.2])

def optAct (g : Guards) (k : Conn) : Option ActK → Conn × List CEv
  | none => (k, [])
  | some a => suspendAct g k a

/-! ## callback sites -/

/-- call_connection_handler in HEADERS_PROCESSED: the first call, repeated after a resume -/
def callFirst (g : Guards) (k : Conn) : Conn × List CEv :=
  let n := k.nfirst
  let r := optAct g { k with nfirst := n + 1 } k.plan.fs[n]?
  (r.1, .handler (if n = 0 then .first else .refirst) [] 0 :: r.2)

/-- the handler call of process_request_body; `offered` are the bytes presented -/
def callUpload (g : Guards) (k : Conn) (offered : List UInt8) : Conn × List CEv × Nat :=
  let n := k.nupload
  let took := k.plan.takeOf n offered.length
  let r := optAct g { k with nupload := n + 1 } (lookupAct n k.plan.us)
  (r.1, .handler .upload offered took :: r.2, took)

/-- call_connection_handler in FULL_REQ_RECEIVED -/
def callFinal (g : Guards) (k : Conn) : Conn × List CEv :=
  if k.haveResp then (k, []) else
  let n := k.nfinal
  let k1 := { k with nfinal := n + 1 }
  match k.plan.ls[n]? with
  | some a => let r := suspendAct g k1 a; (r.1, .handler .final [] 0 :: r.2)
  | none => ({ k1 with haveResp := true }, [.handler .final [] 0, .queued])

def readerData (p : Plan) (pos max : Nat) : Nat :=
  let n := min (p.size - pos) max
  if p.cbmax = 0 then n else min n p.cbmax

/-- the content reader callback at position `k.rwp`; result: bytes produced (none = end of stream) -/
def callReader (g : Guards) (k : Conn) (max : Nat) : Conn × List CEv × Option Nat :=
  let j := k.nreader
  let pos := k.rwp
  let k1 := { k with nreader := j + 1 }
  let a := lookupAct j k.plan.rs
  if a.isSome && !k.plan.rd then
    let r := optAct g k1 a
    (r.1, .reader j pos (some 0) :: r.2, some 0)
  else if pos ≥ k.plan.size then
    (k1, [.reader j pos none], none)
  else
    let n := readerData k.plan pos max
    let r := optAct g k1 a
    (r.1, .reader j pos (some n) :: r.2, some n)

/-! ## process_request_body -/

def leadBytes : List Sym → List UInt8
  | .b x :: r => x :: leadBytes r
  | _ => []

def dataOf : List Sym → List UInt8
  | [] => []
  | .b x :: r => x :: dataOf r
  | _ :: r => dataOf r

/-- Content-Length upload: one handler call with what is available -/
def procBodyCL (g : Guards) (k : Conn) : Conn × List CEv :=
  let avail := leadBytes k.rbuf
  let toProc := min k.remaining avail.length
  if toProc = 0 then (k, []) else
  let r := callUpload g k (avail.take toProc)
  ({ r.1 with rbuf := r.1.rbuf.drop r.2.2, remaining := r.1.remaining - r.2.2, spp := r.2.2 != 0 }, r.2.1)

def faultIter (k : Conn) (w : String) : Conn × List CEv × Bool :=
  ((k.setFault w).1, (k.setFault w).2, false)

/-- "Need the parse the chunk size line" -/
def chunkSizeLine (k : Conn) : Conn × List CEv × Bool :=
  match k.rbuf with
  | .sz n :: r => ({ k with rbuf := r, chunkOff := 0, chunkSize := n }, [], !r.isEmpty)
  | .last :: r => ({ k with rbuf := r, chunkOff := 0, chunkSize := 0, lastSeen := true }, [], false)
  | [] => (k, [], false)
  | _ => faultIter k "malformed chunked body"

/-- "skip new line at the *end* of a chunk", then fall through to the chunk-size line -/
def chunkEnd (k : Conn) : Conn × List CEv × Bool :=
  match k.rbuf with
  | .crlf :: r =>
    let k1 := { k with rbuf := r, chunkOff := 0, chunkSize := 0 }
    if r.isEmpty then (k1, [], false)                        -- `if (0 == available) break;`
    else chunkSizeLine k1
  | [] => (k, [], false)
  | _ => faultIter k "malformed chunked body"

/-- "we are in the middle of a chunk, give as much as possible to the client" -/
def chunkMid (g : Guards) (k : Conn) : Conn × List CEv × Bool :=
  let lead := leadBytes k.rbuf
  let left := k.chunkSize - k.chunkOff
  if lead.isEmpty then
    (if k.rbuf.isEmpty then (k, [], false) else faultIter k "malformed chunked body")
  else
    let toProc := min left lead.length
    let retry0 := decide (left ≤ lead.length) && decide (k.rbuf.length > left)
    let r := callUpload g k (lead.take toProc)
    let took := r.2.2
    ({ r.1 with rbuf := r.1.rbuf.drop took, chunkOff := r.1.chunkOff + took, spp := took != 0 },
     r.2.1, retry0 && took == toProc)

/-- one pass of the `do { … } while (instant_retry)` body for a chunked upload;
    the Bool is `instant_retry` -/
def chunkIter (g : Guards) (k : Conn) : Conn × List CEv × Bool :=
  if k.chunkSize ≠ 0 ∧ k.chunkOff = k.chunkSize then chunkEnd k
  else if k.chunkSize ≠ 0 then chunkMid g k
  else chunkSizeLine k

/-- `do { … } while (instant_retry [&& ! connection->suspended]);` — fuel = an upper bound
    of the number of passes (each pass consumes a symbol or ends the loop) -/
def chunkLoop (g : Guards) : Nat → Conn → Conn × List CEv
  | 0, k => k.setFault "chunk loop fuel"
  | f + 1, k =>
    let r := chunkIter g k
    if r.2.2 && !(g.bodyRetry && r.1.suspended) && r.1.fault.isNone then
      let r2 := chunkLoop g f r.1
      (r2.1, r.2.1 ++ r2.2)
    else (r.1, r.2.1)

def procBody (g : Guards) (k : Conn) : Conn × List CEv :=
  if k.chunkedUp then chunkLoop g (2 * k.rbuf.length + 2) k else procBodyCL g k

/-! ## MHD_connection_handle_idle -/

def Conn.bodyDone (k : Conn) : Bool :=
  if k.chunkedUp then k.lastSeen else k.remaining == 0

/-- try_ready_chunked_body + state change, called in CHUNKED_BODY_UNREADY -/
def readyChunked (g : Guards) (k : Conn) : Conn × List CEv × Bool :=
  if k.eos then ({ k with st := .bodySent }, [], true) else
  let r := callReader g k (2 ^ 24 - 1)
  match r.2.2 with
  | none => ({ r.1 with eos := true, st := .bodySent }, r.2.1, true)
  | some 0 => (r.1, r.2.1, false)
  | some n => ({ r.1 with wpend := patRange k.plan.rid k.rwp n, rwp := k.rwp + n, st := .bodyReady }, r.2.1, true)

/-- try_ready_normal_body: (connection, events, ready?) -/
def tryReadyNormal (g : Guards) (k : Conn) : Conn × List CEv × Bool :=
  if k.rwp = k.plan.size then (k, [], true)
  else if k.winStart ≤ k.rwp ∧ k.rwp < k.winStart + k.winSize then (k, [], true)
  else
    let r := callReader g k (min 1024 (k.plan.size - k.rwp))
    match r.2.2 with
    | none => let f := r.1.setFault "end of stream from a known-size reader"; (f.1, r.2.1 ++ f.2, false)
    | some 0 => ({ r.1 with winStart := k.rwp, winSize := 0, st := .bodyUnready }, r.2.1, false)
    | some n => ({ r.1 with winStart := k.rwp, winSize := n }, r.2.1, true)

/-- INIT … HEADERS_RECEIVED: nothing happens until the head is complete; then
    parse_connection_headers and `state = HEADERS_PROCESSED` -/
def stRecvHead (k : Conn) : Conn × List CEv × Bool :=
  match k.rbuf with
  | .head :: r =>
    ({ k with rbuf := r, st := .hdrProcessed,
              remaining := (match k.plan.body with | .cl n => n | _ => 0) }, [], true)
  | _ => (k, [], false)

def Plan.noBody (p : Plan) : Bool :=
  match p.body with
  | .none => true
  | .cl n => n == 0
  | .chunked => false

/-- HEADERS_PROCESSED: the first call; `if (connection->suspended) continue;` -/
def stHdrProcessed (g : Guards) (k : Conn) : Conn × List CEv × Bool :=
  let r := callFirst g k
  if g.idleFirstCall && r.1.suspended then (r.1, r.2, true)
  else ({ r.1 with st := if k.plan.noBody then .fullReq else .bodyRecv }, r.2, true)

/-- BODY_RECEIVING -/
def stBodyRecv (g : Guards) (k : Conn) : Conn × List CEv × Bool :=
  let r := if k.rbuf.isEmpty then (k, []) else procBody g k
  if r.1.bodyDone then ({ r.1 with st := .bodyReceived }, r.2, true) else (r.1, r.2, false)

/-- FOOTERS_RECEIVING (… FOOTERS_RECEIVED) -/
def stFootersRecv (k : Conn) : Conn × List CEv × Bool :=
  match k.rbuf with
  | .trailerEnd :: r => ({ k with rbuf := r, st := .fullReq }, [], true)
  | _ => (k, [], false)

/-- FULL_REQ_RECEIVED: the final call; with a response START_REPLY … HEADERS_SENDING -/
def stFullReq (g : Guards) (k : Conn) : Conn × List CEv × Bool :=
  let r := callFinal g k
  if r.1.haveResp then ({ r.1 with st := .hdrSending }, r.2, false) else (r.1, r.2, false)

/-- NORMAL_BODY_UNREADY / CHUNKED_BODY_UNREADY -/
def stBodyUnready (g : Guards) (k : Conn) : Conn × List CEv × Bool :=
  if k.chunkedReply then readyChunked g k
  else if k.plan.size = 0 then ({ k with st := .replySent }, [], true)
  else
    let r := tryReadyNormal g k
    if r.2.2 then ({ r.1 with st := .bodyReady }, r.2.1, false) else (r.1, r.2.1, false)

/-- FULL_REPLY_SENT: `connection_reset (connection, reuse)`.  With keep-alive (`reuse`) the request
    and reply records are zeroed (`memset (&c->rq, 0, …)`, `memset (&c->rp, 0, …)`), the write buffer
    is dropped, the bytes already in the read buffer — read-ahead of a pipelined request — are
    preserved, `state = MHD_CONNECTION_INIT`, `event_loop_info = READ / PROCESS` by
    `read_buffer_offset`, and the loop `continue`s: the buffered next request is processed in the
    same MHD_connection_handle_idle call.  `suspended`, `resuming` and the epoll bits are connection
    state and survive.  The model leaves the last scripted request in `finished` (= INIT with no
    script left). -/
def nextRequest (k : Conn) : Conn × List CEv × Bool :=
  match k.later with
  | [] => ({ k with st := .finished }, [.completed], true)
  | p :: ps =>
    ({ k with plan := p, later := ps, done := k.done ++ [k.plan], st := .recvHead,
              remaining := 0, chunkSize := 0, chunkOff := 0, lastSeen := false, spp := false,
              haveResp := false, rwp := 0, winStart := 0, winSize := 0, wpend := [], eos := false,
              eli := if k.rbuf.isEmpty then .read else .process,
              nfirst := 0, nupload := 0, nfinal := 0, nreader := 0 }, [.completed], true)

/-- one pass of the `switch (connection->state)`; the Bool says `continue` (true) or `break` -/
def idleStep (g : Guards) (k : Conn) : Conn × List CEv × Bool :=
  match k.st with
  | .recvHead => stRecvHead k
  | .hdrProcessed => stHdrProcessed g k
  | .bodyRecv => stBodyRecv g k
  | .bodyReceived => ({ k with st := if k.chunkedUp then .footersRecv else .fullReq }, [], true)
  | .footersRecv => stFootersRecv k
  | .fullReq => stFullReq g k
  | .hdrSending => (k, [], false)
  | .hdrSent => ({ k with st := .bodyUnready }, [], true)
  | .bodyUnready => stBodyUnready g k
  | .bodyReady => (k, [], false)
  | .bodySent => ({ k with st := .footersSending }, [], true)
  | .footersSending => (k, [], false)
  | .replySent => nextRequest k
  | .finished => (k, [], false)

/-- `while (! connection->suspended) { switch … }` -/
def idleLoop (g : Guards) : Nat → Conn → Conn × List CEv
  | 0, k => k.setFault "idle loop fuel"
  | f + 1, k =>
    if (g.idleLoop && k.suspended) || k.fault.isSome then (k, []) else
    let r := idleStep g k
    if r.2.2 then
      let r2 := idleLoop g f r.1
      (r2.1, r.2.1 ++ r2.2)
    else (r.1, r.2.1)

/-- MHD_connection_update_event_loop_info -/
def updateEli (g : Guards) (k : Conn) : Conn :=
  if g.eli && k.suspended then k else
  let e : Eli :=
    match k.st with
    | .recvHead | .footersRecv | .finished => .read
    | .bodyRecv =>
      let unproc :=
        if k.chunkedUp then (k.chunkOff != k.chunkSize) && !k.rbuf.isEmpty else !k.rbuf.isEmpty
      if k.spp && unproc then
        (if k.chunkedUp then .processRead
         else if k.remaining ≥ k.rbuf.length then .process else .processRead)
      else .read
    | .fullReq | .bodyUnready => .process
    | .hdrSending | .bodyReady | .footersSending => .write
    | .hdrProcessed | .bodyReceived | .hdrSent | .bodySent | .replySent => k.eli   -- never left in these states unsuspended
  { k with eli := e }

/-- MHD_connection_epoll_update_ -/
def epollUpdate (k : Conn) : Conn :=
  let k1 := if k.eli.hasProcess && !k.inEready then { k with inEready := true } else k
  if !k1.inSet && !k1.epSusp &&
     ((k1.eli == .write && !k1.writeReady) || (k1.eli.hasRead && !k1.readReady)) then
    { k1 with inSet := true }
  else k1

def idleFuel : Nat := 24

def handleIdle (g : Guards) (epoll : Bool) (k : Conn) : Conn × List CEv :=
  let r := idleLoop g idleFuel k
  let k2 := updateEli g r.1
  let k3 := if epoll && !(g.idleEpoll && k2.suspended) then epollUpdate k2 else k2
  (k3, r.2)

/-! ## MHD_connection_handle_read / MHD_connection_handle_write -/

def handleRead (g : Guards) (k : Conn) : Conn × List CEv :=
  if g.read && k.suspended then (k, []) else
  match k.inbox with
  | [] => ({ k with readReady := false }, [.recv none])
  | x :: xs =>
    ({ k with rbuf := k.rbuf ++ (x :: xs), inbox := [], readReady := false }, [.recv (some (x :: xs).length)])

/-- NORMAL_BODY_READY in MHD_connection_handle_write -/
def writeBodyKnown (g : Guards) (k : Conn) : Conn × List CEv :=
  if k.rwp < k.plan.size then
    let r := tryReadyNormal g k
    if !r.2.2 then (r.1, r.2.1)
    else if g.writeReader && r.1.suspended then (r.1, r.2.1)
    else
      let k1 := r.1
      let n := k1.winStart + k1.winSize - k1.rwp
      ({ k1 with rwp := k1.rwp + n, st := if k1.rwp + n = k1.plan.size then .replySent else k1.st },
       r.2.1 ++ [.sendBody (patRange k1.plan.rid k1.rwp n)])
  else ({ k with st := .replySent }, [])

def handleWrite (g : Guards) (k : Conn) : Conn × List CEv :=
  if g.write && k.suspended then (k, []) else
  match k.st with
  | .hdrSending => ({ k with st := .hdrSent }, [.sendHdr])
  | .bodyReady =>
    if k.chunkedReply then ({ k with wpend := [], st := .bodyUnready }, [.sendBody k.wpend])
    else writeBodyKnown g k
  | .footersSending => ({ k with st := .replySent }, [.sendEnd])
  | _ => (k, [])

/-! ## call_handlers (daemon.c) -/

def seq2 (f h : Conn → Conn × List CEv) (k : Conn) : Conn × List CEv :=
  let a := f k
  let b := h a.1
  (b.1, a.2 ++ b.2)

/-- `if (cond) { f; MHD_connection_handle_idle; }` -/
def stepIf (g : Guards) (epoll : Bool) (cond : Bool) (f : Conn → Conn × List CEv) (k : Conn) : Conn × List CEv :=
  if cond then seq2 f (handleIdle g epoll) k else (k, [])

def callHandlers (g : Guards) (epoll : Bool) (k : Conn) (readReady writeReady : Bool) : Conn × List CEv :=
  let fast := k.st == .recvHead && k.rbuf.isEmpty          -- on_fasttrack: state was MHD_CONNECTION_INIT
  let p1 := k.eli.hasRead && readReady
  let a := stepIf g epoll p1 (handleRead g) k
  let p2 := a.1.eli == .write && writeReady
  let b := stepIf g epoll p2 (handleWrite g) a.1
  if !(p1 || p2) then
    -- not read or write ready, but external conditions may have changed
    let r := handleIdle g epoll b.1
    (r.1, a.2 ++ b.2 ++ r.2)
  else if fast then
    let c := stepIf g epoll (b.1.st == .hdrSending) (handleWrite g) b.1
    let e := stepIf g epoll (c.1.st == .bodyReady) (handleWrite g) c.1
    (e.1, a.2 ++ b.2 ++ c.2 ++ e.2)
  else (b.1, a.2 ++ b.2)

end Mhd.Susp
