/-
  Model of `parse_cookies_string` and `parse_cookie_header` (connection.c) and
  of the lookup they use (`MHD_lookup_connection_value_n`,
  `MHD_str_equal_caseless_bin_n_`).

  `parse_cookie_header` copies the value of the first `Cookie` field line into
  the pool (`cpy`, `hdr_len + 1` bytes, NUL-terminated) and tokenises the copy
  in place.  Indices below are absolute indices into the copy; `n` is
  `hdr_len` (the index of the terminating NUL), so `str[i]` of the C code,
  which is called with `cpy + i0` and `hdr_len - i0`, is `str[i0 + i]` here.
-/
import Mhd.Model.ReqField

namespace Mhd.Req
open Mhd.Gen

inductive CKRes where
  | ok | okLax | malformed | noMemory
  deriving Repr, DecidableEq

/-- early `return` of the C function or continue with a value -/
inductive Ctl (α : Type) where
  | ret (r : CKRes)
  | go (a : α)

def ckRd (str : Bytes) (i site : Nat) : Except Fault UInt8 :=
  match str[i]? with
  | some b => .ok b
  | none => .error (.read site i)

def isSpHt (b : UInt8) : Bool := b == cSP || b == cHT

/-- "Skip any whitespaces and empty cookies" -/
def ckSkipEmpty (F : CKFlags) (str : Bytes) (n : Nat) :
    Nat → Nat → Bool → Except Fault (Ctl (Nat × Bool))
  | 0, i, _ => .error (.read 90 i)
  | fuel + 1, i, ns => do
    let b ← ckRd str i 90
    if isSpHt b || b == 59 then
      if !F.allowWspEmpty then pure (.ret .malformed)
      else if i + 1 == n then pure (.ret .okLax)
      else ckSkipEmpty F str n fuel (i + 1) true
    else pure (.go (i, ns))

/-- "Find the end of the cookie-name": `do { … } while (str_len > ++i)` -/
def ckNameEnd (str : Bytes) (n : Nat) : Nat → Nat → Except Fault Nat
  | 0, i => .error (.read 91 i)
  | fuel + 1, i => do
    let l ← ckRd str i 91
    if l == 61 || l == cSP || l == cHT || l == 34 || l == 44 || l == 59 || l == 0 then pure i
    else if n > i + 1 then ckNameEnd str n fuel (i + 1) else pure (i + 1)

/-- `while (str_len > i && (' ' == str[i] || '\t' == str[i]))` around '=' -/
def ckSkipWsp (F : CKFlags) (str : Bytes) (n : Nat) :
    Nat → Nat → Bool → Except Fault (Ctl (Nat × Bool))
  | 0, i, _ => .error (.read 92 i)
  | fuel + 1, i, ns =>
    if n > i then do
      let b ← ckRd str i 92
      if isSpHt b then
        if !F.wspAroundEq then pure (.ret .malformed) else ckSkipWsp F str n fuel (i + 1) true
      else pure (.go (i, ns))
    else pure (.go (i, ns))

/-- "Find the end of the cookie-value" -/
def ckValueEnd (F : CKFlags) (str : Bytes) (n : Nat) (quoted : Bool) :
    Nat → Nat → Bool → Except Fault (Ctl (Nat × Bool))
  | 0, i, _ => .error (.read 93 i)
  | fuel + 1, i, ns =>
    if n > i then do
      let l ← ckRd str i 93
      if l == 59 || l == 34 || l == 44 || l == 92 || l == 0 then pure (.go (i, ns))
      else if isSpHt l then
        if !quoted then pure (.go (i, ns))
        else if !F.wspInQuoted then pure (.ret .malformed)
        else ckValueEnd F str n quoted fuel (i + 1) true
      else ckValueEnd F str n quoted fuel (i + 1) ns
    else pure (.go (i, ns))

/-- `do { i++; } while (str_len > i && (' ' == str[i] || '\t' == str[i]))` -/
def ckSkipTrail (str : Bytes) (n : Nat) : Nat → Nat → Except Fault Nat
  | 0, i => .error (.read 94 i)
  | fuel + 1, i =>
    if n > i then do
      let b ← ckRd str i 94
      if isSpHt b then ckSkipTrail str n fuel (i + 1) else pure i
    else pure i

structure CKOut where
  res : CKRes
  str : Bytes
  elems : List Elem
  deriving Repr, DecidableEq

/-- `parse_cookies_string`; `i` = current index, `ns` = `non_strict` -/
def parseCookiesString (F : CKFlags) (n : Nat) :
    Nat → Bytes → Nat → Bool → List Elem → Except Fault CKOut
  | 0, _, i, _, _ => .error (.read 95 i)
  | fuel + 1, str, i, ns, acc =>
    let fin (r : CKRes) (s : Bytes) (a : List Elem) : Except Fault CKOut := pure ⟨r, s, a⟩
    let okRes (ns : Bool) : CKRes := if ns then .okLax else .ok
    if !(i < n) then fin (okRes ns) str acc else do
    match ← ckSkipEmpty F str n (str.size + 1) i ns with
    | .ret r => fin r str acc
    | .go (i, ns) =>
    let nameStart := i
    let i ← ckNameEnd str n (str.size + 1) i
    let nameLen := i - nameStart
    match ← ckSkipWsp F str n (str.size + 1) i ns with
    | .ret r => fin r str acc
    | .go (i, ns) =>
    if n == i then fin .malformed str acc else do
    let e ← ckRd str i 96
    if e != 61 || nameLen == 0 then fin .malformed str acc else
    let i := i + 1
    match ← ckSkipWsp F str n (str.size + 1) i ns with
    | .ret r => fin r str acc
    | .go (i, ns) =>
    -- the cookie value
    let valR : Except Fault (Ctl (Nat × Nat × Nat × Bool)) :=
      if n == i then pure (.go (i, 0, 0, ns)) else do
        let q ← ckRd str i 97
        let quoted := q == 34
        let i := if quoted then i + 1 else i
        let valueStart := i
        match ← ckValueEnd F str n quoted (str.size + 1) i ns with
        | .ret r => pure (.ret r)
        | .go (i, ns) =>
        let valueLen := i - valueStart
        let closeR : Except Fault (Ctl Nat) :=
          if quoted then
            if n == i then pure (.ret .malformed) else do
              let c ← ckRd str i 98
              if c != 34 then pure (.ret .malformed) else pure (.go (i + 1))
          else pure (.go i)
        match ← closeR with
        | .ret r => pure (.ret r)
        | .go i =>
        -- "Skip any whitespaces"
        let trailR : Except Fault (Ctl (Nat × Bool)) :=
          if n > i then do
            let b ← ckRd str i 99
            if isSpHt b then do
              let j ← ckSkipTrail str n (str.size + 1) (i + 1)
              if n > j then
                if !F.allowWspEmpty then pure (.ret .malformed) else pure (.go (j, true))
              else pure (.go (j, ns))
            else pure (.go (i, ns))
          else pure (.go (i, ns))
        match ← trailR with
        | .ret r => pure (.ret r)
        | .go (i, ns) =>
        if n == i then pure (.go (i, valueStart, valueLen, ns)) else do
        let c ← ckRd str i 100
        if c == 59 then pure (.go (i, valueStart, valueLen, ns)) else pure (.ret .malformed)
    match ← valR with
    | .ret r => fin r str acc
    | .go (i, valueStart, valueLen, ns) =>
    -- zero-terminate name (and value) and add the element
    if !(nameStart + nameLen < str.size) then throw (Fault.write 101 (nameStart + nameLen)) else
    let str := str.setIfInBounds (nameStart + nameLen) 0
    let key : Slice := ⟨1, nameStart, nameLen⟩
    let strE : Except Fault (Bytes × Elem) :=
      if valueLen != 0 then
        if valueStart + valueLen < str.size then
          pure (str.setIfInBounds (valueStart + valueLen) 0,
                ⟨Http.kindCookie, key, some ⟨1, valueStart, valueLen⟩⟩)
        else throw (Fault.write 102 (valueStart + valueLen))
      else pure (str, ⟨Http.kindCookie, key, some ⟨2, 0, 0⟩⟩)
    let (str, el) ← strE
    let acc := acc ++ [el]
    if n > i then do
      let i := i + 1
      if n == i then
        if !F.allowWspEmpty then fin .malformed str acc
        else parseCookiesString F n fuel str i true acc
      else do
        let c ← ckRd str i 103
        if c != cSP then
          if c == cHT && F.tabAsSp then parseCookiesString F n fuel str (i + 1) true acc
          else if !F.allowNoSpace then fin .malformed str acc
          else parseCookiesString F n fuel str i true acc
        else
          let i := i + 1
          if n == i then
            if !F.allowWspEmpty then fin .malformed str acc
            else parseCookiesString F n fuel str i true acc
          else parseCookiesString F n fuel str i ns acc
    else parseCookiesString F n fuel str i ns acc

/-! ### lookup -/

def toLowerAscii (b : UInt8) : UInt8 := if 65 ≤ b ∧ b ≤ 90 then b + 32 else b

/-- bytes of a slice of the read-buffer region -/
def sliceBytes (buf : Bytes) (s : Slice) : List UInt8 := (buf.extract s.off (s.off + s.len)).toList

/-- `MHD_lookup_connection_value_n (c, kind, key, …)` for a non-NULL key: the first
    element of that kind whose name equals `key` caselessly -/
def lookupElem (buf : Bytes) (elems : List Elem) (kind : Nat) (key : List UInt8) : Option Elem :=
  elems.find? fun e =>
    (e.kind &&& kind != 0) && e.key.len == key.length &&
      ((sliceBytes buf e.key).map toLowerAscii == key.map toLowerAscii)

/-- result of `parse_cookie_header` -/
structure Cookies where
  res : CKRes
  /-- the pool copy of the Cookie value (empty when there is no such field) -/
  cpy : Bytes
  /-- the complete element list afterwards -/
  elems : List Elem
  deriving Repr, DecidableEq

/-- `parse_cookie_header`; allocation of the copy is assumed to succeed -/
def parseCookieHeader (F : CKFlags) (buf : Bytes) (elems : List Elem) : Except Fault Cookies :=
  match lookupElem buf elems Http.kindHeader Http.hdrCookieBytes with
  | none => pure ⟨.ok, #[], elems⟩
  | some e =>
    match e.value with
    | none => pure ⟨.ok, #[], elems⟩
    | some v =>
      if v.len == 0 then pure ⟨.ok, #[], elems⟩ else
      match rdRange buf v.off v.len with
      | none => throw (Fault.read 104 v.off)
      | some bs => do
        let cpy : Bytes := (bs ++ [0]).toArray
        -- "Skip all initial whitespaces"
        let i0 := (bs.takeWhile isSpHt).length
        let out ← parseCookiesString F v.len (v.len + 2) cpy i0 false []
        match out.res with
        | .malformed =>
          if !out.elems.isEmpty && !F.allowPartial then pure ⟨.malformed, out.str, elems⟩
          else pure ⟨.malformed, out.str, elems ++ out.elems⟩
        | r => pure ⟨r, out.str, elems ++ out.elems⟩

end Mhd.Req
