/-
  Model of src/microhttpd_ws/mhd_websocket.c, part 2: MHD_websocket_decode with
  decode_header_complete / decode_payload_complete, and the loop an application runs
  around it (`feed`).

  `streambuf + current` is the list `rest` of bytes not yet consumed by this call
  (so `current < streambuf_len` ⇔ `rest ≠ []`, and a read at `current + k` is `rest[k]?`);
  `current` itself only matters as the value stored in `*streambuf_read_len`, which is
  accumulated by `loop`.  One `iter` is one trip through the body of the `while` loop.
-/
import Mhd.Model.WS

namespace Mhd.WS

/-- result of one loop iteration / of a helper that may `return` from the decoder -/
inductive R where
  | cont (ws : WS) (adv : Nat)                                  -- keep looping; `current += adv`
  | ret (ws : WS) (st : Int) (adv : Nat) (pl : Option (List UInt8)) (plen : Nat)
                                                                -- `*streambuf_read_len = current + adv; return st`
  | fault (site : String)
  deriving Repr, DecidableEq

/-- `ws->validity = INVALID; [generate close frame]; *streambuf_read_len = current; return st;` -/
def errRet (ws : WS) (code : Nat) (st : Int) (adv : Nat) : R :=
  let g := genClose { ws with validity := 0 } code
  .ret g.1 st adv g.2.1 g.2.2

/-- `ws->frame_header[ws->frame_header_size++] = b` -/
def pushHdr (ws : WS) (b : UInt8) : Option WS :=
  if ws.hdrSize < ws.hdr.length then some { ws with hdr := ws.hdr.set ws.hdrSize b, hdrSize := ws.hdrSize + 1 }
  else none

/-- `payload_size = size` and the choice between the mask bytes and `HeaderCompleted` -/
def afterLength (ws : WS) (size : Nat) (masked : Bool) : WS :=
  if masked then { ws with payloadSize := size, step := 12 }
  else { ws with payloadSize := size, maskKey := [0, 0, 0, 0], step := 16 }

/-- `case MHD_WebSocket_DecodeStep_Start` -/
def stepStart (ws : WS) (b : UInt8) : R :=
  let proceed (ws : WS) : R :=
    match pushHdr ws b with
    | none => .fault "frame_header"
    | some ws' => .cont { ws' with step := 1 } 1
  if ws.validity ≠ 0 then
    if rsvBits b ≠ 0 then errRet ws 1002 (-1) 0
    else
      match opcodeOf b with
      | 0 =>
        if ws.dataType = 0 then errRet ws 1002 (-1) 0
        else if ws.validity = 2 then errRet ws 1002 (-1) 0
        else proceed ws
      | 1 | 2 =>
        if ws.dataType ≠ 0 then errRet ws 1002 (-1) 0
        else if ws.validity = 2 then errRet ws 1002 (-1) 0
        else proceed ws
      | 8 => if ¬ finBit b then errRet ws 1002 (-1) 0 else proceed { ws with validity := 2 }
      | 9 | 10 => if ¬ finBit b then errRet ws 1002 (-1) 0 else proceed ws
      | _ => errRet ws 1002 (-1) 0
  else proceed ws

/-- `case MHD_WebSocket_DecodeStep_Length1ofX` -/
def stepLen1 (ws : WS) (b : UInt8) : R :=
  match ws.hdr[0]? with
  | none => .fault "frame_header[0]"
  | some h0 =>
    let frameLen := len7 b
    let masked := finBit b
    let bad : Bool :=
      ws.validity ≠ 0 ∧
        ((masked ∧ ws.isClient) ∨ (¬ masked ∧ ¬ ws.isClient) ∨ (126 ≤ frameLen ∧ ctlBit h0)
          ∨ (frameLen = 1 ∧ opcodeOf h0 = 8))
    if bad then errRet ws 1002 (-1) 0
    else
      match pushHdr ws b with
      | none => .fault "frame_header"
      | some ws1 =>
        if frameLen = 126 then .cont { ws1 with step := 2 } 1
        else if frameLen = 127 then .cont { ws1 with step := 4 } 1
        else if ws1.maxPayload ≠ 0 ∧ ws1.maxPayload < frameLen then errRet ws1 1009 (-5) 1
        else .cont (afterLength ws1 frameLen masked) 1

/-- the plain "store the byte, next step" cases -/
def stepStore (ws : WS) (b : UInt8) : R :=
  match pushHdr ws b with
  | none => .fault "frame_header"
  | some ws1 => .cont { ws1 with step := ws1.step + 1 } 1

/-- read `n` header bytes at `off` (checked) -/
def hdrBytes (ws : WS) (off n : Nat) : Option (List UInt8) :=
  if off + n ≤ ws.hdr.length then some ((ws.hdr.drop off).take n) else none

/-- `case MHD_WebSocket_DecodeStep_Length2of2` -/
def stepLen2of2 (ws : WS) (b : UInt8) : R :=
  match pushHdr ws b with
  | none => .fault "frame_header"
  | some ws1 =>
    match hdrBytes ws1 2 2, ws1.hdr[1]? with
    | some bs, some h1 =>
      let size := beVal bs
      if size ≤ 125 then errRet ws1 1002 (-1) 1
      else if ws1.maxPayload ≠ 0 ∧ ws1.maxPayload < size then errRet ws1 1009 (-5) 1
      else .cont (afterLength ws1 size (finBit h1)) 1
    | _, _ => .fault "frame_header"

/-- `case MHD_WebSocket_DecodeStep_Length8of8` -/
def stepLen8of8 (ws : WS) (b : UInt8) : R :=
  match pushHdr ws b with
  | none => .fault "frame_header"
  | some ws1 =>
    match hdrBytes ws1 2 8, ws1.hdr[1]? with
    | some bs, some h1 =>
      let size := beVal bs
      if 0x7fffffffffffffff < size then errRet { ws1 with step := 99 } 1002 (-1) 1
      else if size ≤ 65535 then errRet ws1 1002 (-1) 1
      else if ws1.maxPayload ≠ 0 ∧ ws1.maxPayload < size then errRet ws1 1009 (-5) 1
      else .cont (afterLength ws1 size (finBit h1)) 1
    | _, _ => .fault "frame_header"

/-- `case MHD_WebSocket_DecodeStep_Mask4Of4` -/
def stepMask4 (ws : WS) (b : UInt8) : R :=
  match pushHdr ws b with
  | none => .fault "frame_header"
  | some ws1 =>
    if ws1.hdrSize < 4 then .fault "frame_header - 4"
    else
      match hdrBytes ws1 (ws1.hdrSize - 4) 4 with
      | none => .fault "frame_header"
      | some k => .cont { ws1 with maskKey := k, step := 16 } 1

/-- terminate an allocation of `n + 1` bytes: `new_buf[n] = 0` -/
def termAt (buf : List UInt8) (n : Nat) : Option (List UInt8) :=
  if n < buf.length then some (buf.set n 0) else none

/-- `MHD_websocket_decode_header_complete` -/
def headerComplete (lg : Bool) (ws : WS) : R :=
  match ws.hdr[0]? with
  | none => .fault "frame_header[0]"
  | some h0 =>
    match opcodeOf h0 with
    | 0 =>
      let total := (ws.payloadSize + ws.dataSize) % W
      if ws.maxPayload ≠ 0 ∧ ws.maxPayload < total then
        errRet { ws with step := 99 } 1009 (-5) 0
      else if total ≠ 0 then
        match realloc ws ws.dataBuf ((total + 1) % W) with
        | none => .ret ws (-3) 0 none 0
        | some nb =>
          match termAt nb total with
          | none => .fault "new_buf[new_size_total]"
          | some nb' => .cont { ws with dataBuf := some nb', dataStart := ws.dataSize, dataSize := total, step := 17 } 0
      else .cont { ws with dataBuf := none, dataStart := 0, dataSize := total, step := 17 } 0
    | 1 | 2 =>
      let total := ws.payloadSize
      if total ≠ 0 then
        match alloc ws ((total + 1) % W) with
        | none => .ret ws (-3) 0 none 0
        | some nb =>
          match termAt nb total with
          | none => .fault "new_buf[new_size_total]"
          | some nb' =>
            .cont { ws with dataBuf := some nb', dataStart := 0, dataSize := total, dataType := opcodeOf h0, step := 17 } 0
      else .cont { ws with dataBuf := none, dataStart := 0, dataSize := total, dataType := opcodeOf h0, step := 17 } 0
    | 8 | 9 | 10 =>
      let total := ws.payloadSize
      let cu := if lg then ws.ctrlUtf8 else 0
      if total ≠ 0 then
        match alloc ws ((total + 1) % W) with
        | none => .ret ws (-3) 0 none 0
        | some nb =>
          match termAt nb total with
          | none => .fault "new_buf[new_size_total]"
          | some nb' => .cont { ws with ctrlBuf := some nb', ctrlUtf8 := cu, step := 18 } 0
      else .cont { ws with ctrlBuf := none, ctrlUtf8 := cu, step := 18 } 0
    | _ => .fault "header_complete: no case (the C loop would spin)"

/-- status values with the fragment marks -/
def fragMark (dataType mark : Nat) : Int := Int.ofNat (dataType ||| mark)

/-- `MHD_websocket_decode_payload_complete`; `.cont` = it returned `MHD_WEBSOCKET_STATUS_OK` -/
def payloadComplete (lg : Bool) (ws : WS) : R :=
  match ws.hdr[0]? with
  | none => .fault "frame_header[0]"
  | some h0 =>
    let isContinue := opcodeOf h0 = 0
    if finBit h0 then
      if ws.step = 17 then
        if ¬ lg ∧ ws.dataType = 1 ∧ ws.dataUtf8 ≠ 0 then errRet ws 1007 (-6) 0
        else
          let dt := if ws.wantFragments ∧ isContinue then ws.dataType ||| 0x40 else ws.dataType
          .ret { ws with dataBuf := none, dataStart := 0, dataSize := 0, step := 0, payloadIndex := 0,
                         dataType := 0, hdrSize := 0 }
               (Int.ofNat dt) 0 ws.dataBuf ws.dataSize
      else
        if ¬ lg ∧ opcodeOf h0 = 8 ∧ ws.ctrlUtf8 ≠ 0 then errRet ws 1007 (-6) 0
        else
          .ret { ws with ctrlBuf := none, step := 0, payloadIndex := 0, hdrSize := 0 }
               (Int.ofNat (opcodeOf h0)) 0 ws.ctrlBuf ws.payloadSize
    else if ws.wantFragments then
      let st := fragMark ws.dataType (if isContinue then 0x20 else 0x10)
      if ws.dataType = 1 ∧ ws.dataUtf8 ≠ 0 then
        let given := givenUtf8 ws.dataUtf8
        let newLen := (ws.dataSize + W - given) % W
        if newLen ≠ 0 then
          match alloc ws (given + 1) with
          | none => .ret ws (-3) 0 none 0
          | some nx =>
            match ws.dataBuf with
            | none => .fault "data_payload_start is NULL"
            | some buf =>
              let pos := ws.dataStart + ws.payloadIndex
              if pos < given ∨ buf.length < pos then .fault "memcpy source before/after the data payload"
              else
                match writeAt nx 0 ((buf.drop (pos - given)).take given), termAt buf newLen with
                | some nx', some buf' =>
                  .ret { ws with dataBuf := some nx', dataSize := given, step := 0, payloadIndex := 0, hdrSize := 0 }
                       st 0 (some buf') newLen
                | _, _ => .fault "data_payload[new_len]"
        else
          .ret { ws with step := 0, payloadIndex := 0, hdrSize := 0 } st 0 none 0
      else
        .ret { ws with dataBuf := none, dataStart := 0, dataSize := 0, step := 0, payloadIndex := 0, hdrSize := 0 }
             st 0 ws.dataBuf ws.dataSize
    else .cont { ws with step := 0, hdrSize := 0, payloadIndex := 0 } 0

/-- the UTF-8 part of the payload case.  `idx0` is `payload_index` before this call took
    `take` bytes, `ws` already has the new `payload_index`.  Result: new registers or the
    offset (relative to `current` before the take) reported with the error. -/
inductive UCheck where
  | pass (ws : WS)
  | bad (adv : Nat)
  | fault
  deriving Repr, DecidableEq

def utf8OfPayload (lg : Bool) (ws : WS) (buf : List UInt8) (base idx0 take : Nat) : UCheck :=
  if ws.step = 17 then
    match checkUtf8Buf buf (base + idx0) take ws.dataUtf8 with
    | .fault => .fault
    | .res (.invalid o) => .bad o
    | .res (.ok s) => .pass { ws with dataUtf8 := s }
  else
    let start := if idx0 < 2 then 2 else idx0
    let errOff := if idx0 < 2 then (if lg then 2 else 2 - idx0) else 0
    let n := if lg then (take + W - start) % W else ws.payloadIndex - start
    match checkUtf8Buf buf (base + start) n ws.ctrlUtf8 with
    | .fault => .fault
    | .res (.invalid o) => .bad (o + errOff)
    | .res (.ok s) => .pass (if lg then { ws with dataUtf8 := s } else { ws with ctrlUtf8 := s })

/-- `if (ws->payload_size == ws->payload_index) { ret = decode_payload_complete (…); if (OK != ret) return ret; } break;` -/
def payloadFinish (lg : Bool) (take : Nat) (ws : WS) : R :=
  if ws.payloadSize = ws.payloadIndex then
    match payloadComplete lg ws with
    | .cont ws' _ => .cont ws' take
    | .ret ws' st _ pl plen => .ret ws' st take pl plen
    | .fault s => .fault s
  else .cont ws take

/-- the state after `bytes_to_take` payload bytes were copied into `buf'` -/
def payloadAdvance (ws : WS) (buf' : List UInt8) (take : Nat) : WS :=
  if ws.step = 17 then { ws with dataBuf := some buf', payloadIndex := ws.payloadIndex + take }
  else { ws with ctrlBuf := some buf', payloadIndex := ws.payloadIndex + take }

/-- `case PayloadOfDataFrame / PayloadOfControlFrame` -/
def stepPayload (lg : Bool) (ws : WS) (rest : List UInt8) : R :=
  let needed := (ws.payloadSize + W - ws.payloadIndex) % W
  let take := min needed rest.length
  if take ≠ 0 then
    match ws.hdr[0]? with
    | none => .fault "frame_header[0]"
    | some h0 =>
      let bufo := if ws.step = 17 then ws.dataBuf else ws.ctrlBuf
      let base := if ws.step = 17 then ws.dataStart else 0
      match bufo with
      | none => .fault "payload buffer is NULL"
      | some buf =>
        match writeAt buf (base + ws.payloadIndex) (copyPayload (rest.take take) ws.maskKey (ws.payloadIndex % 4)) with
        | none => .fault "payload write outside the allocation"
        | some buf' =>
          let ws1 := payloadAdvance ws buf' take
          if (ws1.step = 17 ∧ ws1.dataType = 1) ∨ (ws1.step = 18 ∧ opcodeOf h0 = 8 ∧ 2 < ws1.payloadIndex) then
            match utf8OfPayload lg ws1 buf' base ws.payloadIndex take with
            | .fault => .fault "UTF-8 check reads outside the payload allocation"
            | .bad adv => errRet ws1 1007 (-6) adv
            | .pass ws2 => payloadFinish lg take ws2
          else payloadFinish lg take ws1
  else payloadFinish lg take ws

/-- one trip through the `switch` inside `while (current < streambuf_len)` -/
def iter (lg : Bool) (ws : WS) (rest : List UInt8) : R :=
  match rest with
  | [] => .fault "streambuf[current] with current = streambuf_len"
  | b :: _ =>
    match ws.step with
    | 0 => stepStart ws b
    | 1 => stepLen1 ws b
    | 2 | 4 | 5 | 6 | 7 | 8 | 9 | 10 | 12 | 13 | 14 => stepStore ws b
    | 3 => stepLen2of2 ws b
    | 11 => stepLen8of8 ws b
    | 15 => stepMask4 ws b
    | 16 =>
      match headerComplete lg ws with
      | .cont ws' _ => .cont ws' 0
      | r => r
    | 17 | 18 => stepPayload lg ws rest
    | 99 => .ret ws (-2) 0 none 0
    | _ => .fault "decode_step: no case (the C loop would spin)"

/-- after the loop, second part: `switch (decode_step) { case Payload…: if (payload_size == payload_index) … }`
    and the final `return MHD_WEBSOCKET_STATUS_OK` -/
def tailAfter (lg : Bool) (ws : WS) (cur : Nat) : R :=
  if (ws.step = 17 ∨ ws.step = 18) ∧ ws.payloadSize = ws.payloadIndex then
    match payloadComplete lg ws with
    | .cont ws' _ => .ret ws' 0 cur none 0
    | .ret ws' st _ pl plen => .ret ws' st cur pl plen
    | .fault s => .fault s
  else .ret ws 0 cur none 0

/-- what follows the `while` loop -/
def tail (lg : Bool) (ws : WS) (cur : Nat) : R :=
  if ws.step = 16 then
    match headerComplete lg ws with
    | .cont ws' _ => tailAfter lg ws' cur
    | .ret ws' st _ pl plen => .ret ws' st cur pl plen
    | .fault s => .fault s
  else tailAfter lg ws cur

/-- the `while` loop; `fuel` bounds the number of trips (3 per byte suffice, proved) -/
def loop (lg : Bool) : Nat → WS → List UInt8 → Nat → R
  | 0, _, _, _ => .fault "fuel"
  | fuel + 1, ws, rest, cur =>
    if rest = [] then tail lg ws cur
    else
      match iter lg ws rest with
      | .cont ws' k => loop lg fuel ws' (rest.drop k) (cur + k)
      | .ret ws' st k pl plen => .ret ws' st (cur + k) pl plen
      | .fault s => .fault s

/-- `MHD_websocket_decode (ws, buf, |buf|, &read_len, &payload, &payload_len)` -/
def decode (lg : Bool) (ws : WS) (buf : List UInt8) : R :=
  if ws.validity = 0 then .ret ws (-2) 0 none 0
  else loop lg (3 * buf.length + 4) ws buf 0

/-! ### the application's receive loop -/

/-- one decode call as seen by the application -/
structure Call where
  st      : Int
  readLen : Nat
  pl      : Option (List UInt8)     -- the returned allocation (payload + terminator)
  plen    : Nat
  deriving Repr, DecidableEq

inductive FeedEnd where
  | consumed | error | stuck | fault (site : String)
  deriving Repr, DecidableEq

/-- `while (off < n) { st = decode (rest); if (st < 0) break; off += read_len; }`
    (`budget` mirrors the harness's guard against a call that makes no progress) -/
def feedLoop (lg : Bool) : Nat → WS → List UInt8 → List Call → WS × List Call × FeedEnd
  | 0, ws, _, acc => (ws, acc.reverse, .stuck)
  | budget + 1, ws, rest, acc =>
    if rest = [] then (ws, acc.reverse, .consumed)
    else
      match decode lg ws rest with
      | .fault s => (ws, acc.reverse, .fault s)
      | .cont ws' _ => (ws', acc.reverse, .fault "decode cannot continue")
      | .ret ws' st rd pl plen =>
        let acc' := ⟨st, rd, pl, plen⟩ :: acc
        if st < 0 then (ws', acc'.reverse, .error)
        else feedLoop lg budget ws' (rest.drop rd) acc'

def feed (lg : Bool) (ws : WS) (chunk : List UInt8) : WS × List Call × FeedEnd :=
  feedLoop lg (chunk.length + 9) ws chunk []

end Mhd.WS
