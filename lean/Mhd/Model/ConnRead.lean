/-
  ConnRead — the request-receiving half of one connection on ONE byte arena:
  the buffer layer of connection.c (`Mhd.Model.ConnMem`, over the pool model of C08)
  composed with the request-head parsers of C02 (`rlScanner`, `processRequestTarget`,
  `hsStep` incl. the end-of-headers shift-back).

  The arena is the pool's memory `cm.p.mem`.  Received bytes are stored at
  `read_buffer + read_buffer_offset` (`recvBytes`, cursor moved by the buffer layer's
  `.recv k`); the parsers work on the arena prefix `[0, read_buffer + read_buffer_offset)`
  — the parser state carries this prefix (`buf`, C02's buffer convention) and every parser
  call writes its buffer back into the arena (`writeBack`: NUL terminations, CR→SP
  replacements, the memmove of the shift-back).  Every change of `read_buffer`,
  `read_buffer_size`, `read_buffer_offset` goes through an operation of the buffer layer
  (`ConnMem.step`): `.consume` (skipped empty lines, the request line, each field line),
  `.alloc` (one `struct MHD_HTTP_Req_Header` per request element: query arguments and
  field lines — `MHD_connection_alloc_memory_` may take the space from the free tail of
  the read buffer), `.shiftBack`, `.grow` (`check_and_grow_read_buffer_space`),
  `.errRelease` (`transmit_error_response_len`).  An operation the buffer layer refuses
  is the explicit phase `refused`, a parser access outside its buffer the phase `fault`.

  Mirrors, as far as buffer positions and indices are concerned:
  MHD_connection_handle_read, MHD_connection_handle_idle (INIT … HEADERS_RECEIVED),
  MHD_connection_update_event_loop_info + check_and_grow_read_buffer_space,
  get_request_line, switch_to_rq_headers_processing, get_req_headers.
  What the parsers *decide* is taken from their models.
-/
import Mhd.Model.ConnMem
import Mhd.Model.ReqField

namespace Mhd.ConnRead
open Mhd.ConnMem Mhd.Req Mhd.Gen

/-- how the connection stops serving the request -/
inductive ErrKind where
  /-- `transmit_error_response_*`: an error reply is queued, the connection closes after it -/
  | reply (code : Nat)
  /-- `handle_recv_no_space` / `handle_req_headers_no_space`: the reply chosen by
      `get_no_space_err_status_code` (413 / 414 / 431 / 501, see C08) -/
  | noSpace
  /-- `connection_close_error`: closed without a reply -/
  | closed
  deriving Repr, DecidableEq

inductive Phase where
  /-- MHD_CONNECTION_INIT / REQ_LINE_RECEIVING -/
  | reqLine (s : RL)
  /-- MHD_CONNECTION_REQ_HEADERS_RECEIVING; `fieldStart` = `rq.field_lines.start` -/
  | headers (s : HS) (fieldStart : Nat)
  /-- MHD_CONNECTION_HEADERS_RECEIVED -/
  | headersDone (h : Headers)
  | error (k : ErrKind)
  /-- a parser accessed a byte outside the buffer it was given -/
  | fault (f : Fault)
  /-- the buffer layer refused an operation (`badOp`) -/
  | refused (site : Nat)
  deriving Repr

structure CR where
  cm : CM
  /-- `daemon->client_discipline` -/
  lvl : Int
  phase : Phase
  deriving Repr

/-- `MHD_connection_set_initial_state_` + state MHD_CONNECTION_INIT -/
def init (allocSize poolSize inc : Nat) (lvl : Int) : CR :=
  { cm := ConnMem.init allocSize poolSize inc, lvl := lvl, phase := .reqLine (RL.init #[] 0) }

/-! ### buffer-layer operations -/

/-- perform an operation of the buffer layer; `none` = refused -/
def op (c : CM) (o : Op) : Option CM :=
  match step c o with
  | (_, .badOp) => none
  | (c', _) => some c'

/-- `read_buffer += n` up to the absolute position `newRb` -/
def consumeTo (c : CM) (newRb : Nat) : Option CM :=
  match c.rb with
  | some r => op c (.consume (newRb - r))
  | none => none

def setMem (c : CM) (m : List UInt8) : CM := { c with p := { c.p with mem := m } }

/-- the parser's buffer (arena prefix up to the end of the received data) written back -/
def writeBack (c : CM) (buf : Bytes) : CM := setMem c (Mhd.Pool.writeAt c.p.mem 0 buf.toList)

/-- `n` request elements: `n` times `MHD_connection_alloc_memory_ (sizeof (struct MHD_HTTP_Req_Header))` -/
def allocN : Nat → CM → CM × Bool
  | 0, c => (c, true)
  | n + 1, c =>
    match step c (.alloc Mhd.Gen.ConnMem.reqHeaderSize) with
    | (c', .ptr (some _)) => allocN n c'
    | (c', _) => (c', false)

/-- leave the receiving phases -/
def errorOut (x : CR) (k : ErrKind) : CR :=
  match k with
  | .closed => { x with phase := .error .closed }
  | k =>
    match op x.cm .errRelease with
    | some c => { x with cm := c, phase := .error k }
    | none => { x with phase := .refused 1 }

def errOfReply : Option Nat → ErrKind
  | some c => .reply c
  | none => .closed

/-! ### receive -/

/-- `read_buffer_size - read_buffer_offset` -/
def CR.space (x : CR) : Nat := x.cm.rbSize - x.cm.rbOff

def Phase.extend (ph : Phase) (e : Bytes) : Phase :=
  match ph with
  | .reqLine s => .reqLine (rlExtend s e)
  | .headers s fs => .headers (hsExtend s e) fs
  | .headersDone h => .headersDone { h with buf := h.buf ++ e }
  | ph => ph

/-- `MHD_connection_handle_read`: `e` (at most `space` bytes) is stored at
    `read_buffer + read_buffer_offset`, `read_buffer_offset += |e|` -/
def recvBytes (x : CR) (e : List UInt8) : CR :=
  match op x.cm (.recv e.length) with
  | none => { x with phase := .refused 2 }
  | some c =>
    { x with cm := setMem c (Mhd.Pool.writeAt c.p.mem (x.cm.rb.getD 0 + x.cm.rbOff) e),
             phase := x.phase.extend e.toArray }

/-! ### request line -/

/-- `get_request_line` after `get_request_line_inner` returned a complete line
    (the line is already consumed) -/
def afterLine (x : CR) (r : ReqLine) : CR :=
  match lineWspCheck (RLFlags.ofLevel x.lvl) x.cm.poolSize r with
  | some e => errorOut x (errOfReply e.reply)
  | none =>
    match processRequestTarget (Discipline.unesc_strict x.lvl) r with
    | .error f => { x with phase := .fault f }
    | .ok t =>
      match allocN t.elems.length x.cm with
      | (c1, false) => errorOut { x with cm := c1 } (.reply Mhd.Gen.ConnMem.httpHeaderFieldsTooLarge)
      | (c1, true) =>
        -- MHD_CONNECTION_REQ_LINE_RECEIVED → switch_to_rq_headers_processing
        { x with cm := writeBack c1 t.buf, phase := .headers (HS.ofTarget t c1.rbSize) t.rb }

/-- `get_request_line` -/
def idleReqLine (x : CR) (s : RL) : CR :=
  match (rlScanner (RLFlags.ofLevel x.lvl)).run s with
  | .fault f => { x with phase := .fault f }
  | .more s1 =>
    -- empty lines before the request line were consumed
    match consumeTo x.cm s1.rb with
    | none => { x with phase := .refused 10 }
    | some c1 =>
      let x1 := { x with cm := writeBack c1 s1.buf, phase := .reqLine s1 }
      if versionTooLong s1 then errorOut x1 (.reply Http.codeBadRequest) else x1
  | .done (.err e) => errorOut x (errOfReply e.reply)
  | .done (.ok r) =>
    match consumeTo x.cm r.rb with
    | none => { x with phase := .refused 11 }
    | some c1 => afterLine { x with cm := writeBack c1 r.buf } r

/-! ### field lines -/

/-- one iteration of the `do … while` loop of `get_req_headers (c, false)` (= one `hsStep`);
    `k` continues with the next iteration -/
def hdrBody (lvl : Int) (fs : Nat) (k : CM → HS → CR) (c : CM) (s0 : HS) : CR :=
  match hsStep (FLFlags.ofLevel lvl) fs s0 with
  | .needMore => { cm := writeBack c s0.buf, lvl := lvl, phase := .headers s0 fs }
  | .fault f => { cm := c, lvl := lvl, phase := .fault f }
  | .done (.err _) => errorOut { cm := c, lvl := lvl, phase := .headers s0 fs } (.reply Http.codeBadRequest)
  | .done (.ok h) =>
    -- the empty line is consumed, then the window is moved back over the header tail
    match consumeTo c (h.rb + h.shifted) with
    | none => { cm := c, lvl := lvl, phase := .refused 21 }
    | some c1 =>
      match op c1 (.shiftBack h.shifted) with
      | none => { cm := c1, lvl := lvl, phase := .refused 22 }
      | some c2 => { cm := writeBack c2 h.buf, lvl := lvl, phase := .headersDone h }
  | .advance s1 =>
    match consumeTo c s1.rb with
    | none => { cm := c, lvl := lvl, phase := .refused 23 }
    | some c1 =>
      if s0.elems.length < s1.elems.length then
        -- a field line was completed: MHD_set_connection_value_n_nocheck_
        match step c1 (.alloc Mhd.Gen.ConnMem.reqHeaderSize) with
        | (c2, .ptr (some _)) => k c2 s1
        | (c2, _) => errorOut { cm := c2, lvl := lvl, phase := .headers s1 fs } .noSpace
      else k c1 s1

/-- `get_req_headers (c, false)`; `read_buffer_size` is taken from the buffer layer before
    every step (allocations may have shrunk it) -/
def hdrLoop (lvl : Int) (fs : Nat) : Nat → CM → HS → CR
  | 0, c, _ => { cm := c, lvl := lvl, phase := .refused 20 }
  | n + 1, c, s => hdrBody lvl fs (hdrLoop lvl fs n) c { s with rbSize := c.rbSize }

def idleHeaders (x : CR) (s : HS) (fs : Nat) : CR :=
  hdrLoop x.lvl fs ((hsScanner (FLFlags.ofLevel x.lvl) fs).measure s + 1) x.cm s

/-! ### the idle loop -/

/-- the `while` loop of `MHD_connection_handle_idle` over the receiving states -/
def idleStates (x : CR) : CR :=
  match x.phase with
  | .reqLine s =>
    let x1 := idleReqLine x s
    match x1.phase with
    | .headers hs fs => idleHeaders x1 hs fs
    | _ => x1
  | .headers hs fs => idleHeaders x hs fs
  | _ => x

/-- the connection waits for more data (MHD_EVENT_LOOP_INFO_READ) -/
def CR.reading (x : CR) : Bool :=
  match x.phase with
  | .reqLine _ | .headers _ _ => true
  | _ => false

/-- `check_and_grow_read_buffer_space` (called by `MHD_connection_update_event_loop_info`
    when the next thing to do is reading) -/
def checkGrow (x : CR) : CR :=
  if !x.reading then x else
  let required := x.cm.rbOff == x.cm.rbSize
  let desired := required || decide (x.cm.rbOff + x.cm.inc > x.cm.rbSize)
  if !desired then x else
  match step x.cm (.grow required) with
  | (_, .badOp) => { x with phase := .refused 30 }
  | (c, .bool true) => { x with cm := c }
  | (c, _) => if !required then { x with cm := c } else errorOut { x with cm := c } .noSpace

/-- `MHD_connection_handle_idle` -/
def idle (x : CR) : CR := checkGrow (idleStates x)

/-! ### feeding client bytes -/

/-- the bytes of one chunk: as long as the connection is reading, `handle_read` takes what
    fits into the free part of the window, `handle_idle` runs, the rest stays in the socket
    for the next round -/
def feedFuel : Nat → CR → List UInt8 → CR
  | 0, x, _ => x
  | n + 1, x, bs =>
    if bs.isEmpty || !x.reading || x.space == 0 then x
    else
      let k := min bs.length x.space
      feedFuel n (idle (recvBytes x (bs.take k))) (bs.drop k)

def feed (x : CR) (chunk : List UInt8) : CR := feedFuel (chunk.length + 1) x chunk

def run (x : CR) (chunks : List (List UInt8)) : CR := chunks.foldl feed x

end Mhd.ConnRead
