/-
  ConnRead — the request-receiving half of one connection on ONE byte arena:
  the buffer layer of connection.c (`Mhd.Model.ConnMem`, over the pool model of C08)
  composed with the request-head parsers of C02 (`rlScanner`, `processRequestTarget`,
  `hsStep` incl. the end-of-headers shift-back).

  The arena is the pool's memory `cm.p.mem`.  Received bytes are stored at
  `read_buffer + read_buffer_offset` (`recvBytes`, cursor moved by the buffer layer's
  `.recv k`); the parsers work on the arena prefix `[0, read_buffer + read_buffer_offset)`
  — the parser state carries this prefix (`buf`, C02's buffer convention) and every parser
  call writes its buffer back into the arena (`writeBack`: NUL terminations, CR→SP
  replacements, the memmove of the shift-back).  Every change of `read_buffer`,
  `read_buffer_size`, `read_buffer_offset` goes through an operation of the buffer layer
  (`ConnMem.step`): `.consume` (skipped empty lines, the request line, each field line),
  `.alloc` (one `struct MHD_HTTP_Req_Header` per request element: query arguments and
  field lines — `MHD_connection_alloc_memory_` may take the space from the free tail of
  the read buffer), `.shiftBack`, `.grow` (`check_and_grow_read_buffer_space`),
  `.errRelease` (`transmit_error_response_len`).  An operation the buffer layer refuses
  is the explicit phase `refused`, a parser access outside its buffer the phase `fault`.

  Mirrors, as far as buffer positions and indices are concerned:
  MHD_connection_handle_read, MHD_connection_handle_idle (INIT … FULL_REQ_RECEIVED, then the
  reply is taken as sent: connection_switch_from_recv_to_send + connection_reset),
  MHD_connection_update_event_loop_info + check_and_grow_read_buffer_space,
  get_request_line, switch_to_rq_headers_processing, get_req_headers (headers and footers),
  process_request_body (identity and chunked; the chunk decoder is C03's `chunkAct`).
  What the parsers *decide* is taken from their models; what `parse_connection_headers`
  decides about the body, whether the connection is kept alive and how many bytes the
  application takes per upload call are parameters (`Cfg`): the theorems hold for every
  choice, the driver instantiates them with C03's `decideBody`.
-/
import Mhd.Model.ConnMem
import Mhd.Model.ReqField
import Mhd.Model.Chunked

namespace Mhd.ConnRead
open Mhd.ConnMem Mhd.Req Mhd.Gen

/-- how the connection stops serving the request -/
inductive ErrKind where
  /-- `transmit_error_response_*`: an error reply is queued, the connection closes after it -/
  | reply (code : Nat)
  /-- `handle_recv_no_space` / `handle_req_headers_no_space`: the reply chosen by
      `get_no_space_err_status_code` (413 / 414 / 431 / 501, see C08) -/
  | noSpace
  /-- `connection_close_error`: closed without a reply -/
  | closed
  deriving Repr, DecidableEq

/-- what `parse_connection_headers` decides about the request body -/
inductive Framing where
  /-- not modelled further (a `Cookie:` header: `parse_cookie_header` allocates in the pool):
      the model stops in HEADERS_RECEIVED -/
  | stop
  | none
  | len (n : Nat)
  | chunked
  | reject (code : Nat)
  deriving Repr, DecidableEq

/-- the parts of the request the later phases need: `rq.method`, `rq.version`, the element list -/
structure Rq where
  method : Nat
  version : Nat
  elems : List Elem
  deriving Repr, DecidableEq

/-- MHD_CONNECTION_BODY_RECEIVING -/
structure Body where
  /-- arena prefix up to the end of the received data -/
  buf : Bytes
  /-- `read_buffer` (does not move while the body is received) -/
  rb : Nat
  rq : Rq
  /-- `rq.have_chunked_upload` -/
  chunked : Bool
  /-- `rq.remaining_upload_size` (chunked: 1 = unknown, 0 = the last chunk was seen) -/
  remaining : Nat
  /-- `rq.current_chunk_size`, `rq.current_chunk_offset` -/
  cur : Nat
  off : Nat
  /-- `rq.some_payload_processed` -/
  processed : Bool
  /-- number of calls of the access handler so far (index into the take pattern) -/
  calls : Nat
  /-- MHD_EVENT_LOOP_INFO_READ is set (`false`: MHD_EVENT_LOOP_INFO_PROCESS only) -/
  evRead : Bool
  deriving Repr, DecidableEq

inductive Phase where
  /-- MHD_CONNECTION_INIT / REQ_LINE_RECEIVING -/
  | reqLine (s : RL)
  /-- MHD_CONNECTION_REQ_HEADERS_RECEIVING; `fieldStart` = `rq.field_lines.start` -/
  | headers (s : HS) (fieldStart : Nat)
  /-- MHD_CONNECTION_HEADERS_RECEIVED -/
  | headersDone (h : Headers) (rq : Rq)
  /-- MHD_CONNECTION_CONTINUE_SENDING: `100 Continue` is being written, nothing is read -/
  | cont100 (b : Body)
  /-- MHD_CONNECTION_BODY_RECEIVING -/
  | body (b : Body)
  /-- MHD_CONNECTION_FOOTERS_RECEIVING -/
  | footers (s : HS) (rq : Rq)
  /-- MHD_CONNECTION_FULL_REQ_RECEIVED, the access handler had its final call; `buf`/`rb`: the
      arena prefix and `read_buffer` (read-ahead of the next request behind it) -/
  | reqDone (buf : Bytes) (rb : Nat) (rq : Rq)
  | error (k : ErrKind)
  /-- a parser accessed a byte outside the buffer it was given -/
  | fault (f : Fault)
  /-- the buffer layer refused an operation (`badOp`) -/
  | refused (site : Nat)
  deriving Repr

/-- what a call of the access handler does, as far as the request is concerned -/
inductive HRes where
  | cont
  | reply
  | no
  deriving Repr, DecidableEq

/-- the decisions that are not the business of the buffer positions -/
structure Cfg where
  /-- `parse_connection_headers`: the framing of the body (C03: `decideBody`) -/
  frame : Bytes → Rq → Framing
  /-- `keepalive_possible` etc.: the connection is re-used after the reply -/
  keepAlive : Bytes → Rq → Bool
  /-- the first call of the access handler (MHD_CONNECTION_HEADERS_PROCESSED): go on / queue a reply early
      (`discard_request`: the body is not read, the connection is closed after the reply) / MHD_NO -/
  first : Bytes → Rq → HRes := fun _ _ => .cont
  /-- `need_100_continue`: the request expects `100 Continue` (sent only while the read buffer is empty) -/
  expect100 : Bytes → Rq → Bool := fun _ _ => false
  /-- an upload call of the access handler: call index, bytes offered ↦ bytes taken (clamped to the offer) -/
  take : Nat → Nat → Nat
  /-- the upload call with this index returns MHD_NO (the connection is closed and its pool destroyed at once) -/
  refuse : Nat → Bool := fun _ => false
  /-- the final call of the access handler: `true` = a reply is queued, `false` = MHD_NO -/
  final : Bytes → Rq → Bool := fun _ _ => true

structure CR where
  cm : CM
  /-- `daemon->client_discipline` -/
  lvl : Int
  phase : Phase
  deriving Repr

/-- `MHD_connection_set_initial_state_` + state MHD_CONNECTION_INIT -/
def init (allocSize poolSize inc : Nat) (lvl : Int) : CR :=
  { cm := ConnMem.init allocSize poolSize inc, lvl := lvl, phase := .reqLine (RL.init #[] 0) }

/-! ### buffer-layer operations -/

/-- perform an operation of the buffer layer; `none` = refused -/
def op (c : CM) (o : Op) : Option CM :=
  match step c o with
  | (_, .badOp) => none
  | (c', _) => some c'

/-- `read_buffer += n` up to the absolute position `newRb` -/
def consumeTo (c : CM) (newRb : Nat) : Option CM :=
  match c.rb with
  | some r => op c (.consume (newRb - r))
  | none => none

def setMem (c : CM) (m : List UInt8) : CM := { c with p := { c.p with mem := m } }

/-- the parser's buffer (arena prefix up to the end of the received data) written back -/
def writeBack (c : CM) (buf : Bytes) : CM := setMem c (Mhd.Pool.writeAt c.p.mem 0 buf.toList)

/-- `n` request elements: `n` times `MHD_connection_alloc_memory_ (sizeof (struct MHD_HTTP_Req_Header))` -/
def allocN : Nat → CM → CM × Bool
  | 0, c => (c, true)
  | n + 1, c =>
    match step c (.alloc Mhd.Gen.ConnMem.reqHeaderSize) with
    | (c', .ptr (some _)) => allocN n c'
    | (c', _) => (c', false)

/-- leave the receiving phases -/
def errorOut (x : CR) (k : ErrKind) : CR :=
  match k with
  | .closed => { x with phase := .error .closed }
  | k =>
    match op x.cm .errRelease with
    | some c => { x with cm := c, phase := .error k }
    | none => { x with phase := .refused 1 }

def errOfReply : Option Nat → ErrKind
  | some c => .reply c
  | none => .closed

/-! ### receive -/

/-- `read_buffer_size - read_buffer_offset` -/
def CR.space (x : CR) : Nat := x.cm.rbSize - x.cm.rbOff

def Phase.extend (ph : Phase) (e : Bytes) : Phase :=
  match ph with
  | .reqLine s => .reqLine (rlExtend s e)
  | .headers s fs => .headers (hsExtend s e) fs
  | .headersDone h rq => .headersDone { h with buf := h.buf ++ e } rq
  | .body b => .body { b with buf := b.buf ++ e }
  | .cont100 b => .cont100 { b with buf := b.buf ++ e }
  | .footers s n => .footers (hsExtend s e) n
  | .reqDone buf rb rq => .reqDone (buf ++ e) rb rq
  | ph => ph

/-- `MHD_connection_handle_read`: `e` (at most `space` bytes) is stored at
    `read_buffer + read_buffer_offset`, `read_buffer_offset += |e|` -/
def recvBytes (x : CR) (e : List UInt8) : CR :=
  match op x.cm (.recv e.length) with
  | none => { x with phase := .refused 2 }
  | some c =>
    { x with cm := setMem c (Mhd.Pool.writeAt c.p.mem (x.cm.rb.getD 0 + x.cm.rbOff) e),
             phase := x.phase.extend e.toArray }

/-! ### request line -/

/-- `get_request_line` after `get_request_line_inner` returned a complete line
    (the line is already consumed) -/
def afterLine (x : CR) (r : ReqLine) : CR :=
  match lineWspCheck (RLFlags.ofLevel x.lvl) x.cm.poolSize r with
  | some e => errorOut x (errOfReply e.reply)
  | none =>
    match processRequestTarget (Discipline.unesc_strict x.lvl) r with
    | .error f => { x with phase := .fault f }
    | .ok t =>
      match allocN t.elems.length x.cm with
      | (c1, false) => errorOut { x with cm := c1 } (.reply Mhd.Gen.ConnMem.httpHeaderFieldsTooLarge)
      | (c1, true) =>
        -- MHD_CONNECTION_REQ_LINE_RECEIVED → switch_to_rq_headers_processing
        { x with cm := writeBack c1 t.buf, phase := .headers (HS.ofTarget t c1.rbSize) t.rb }

/-- `get_request_line` -/
def idleReqLine (x : CR) (s : RL) : CR :=
  match (rlScanner (RLFlags.ofLevel x.lvl)).run s with
  | .fault f => { x with phase := .fault f }
  | .more s1 =>
    -- empty lines before the request line were consumed
    match consumeTo x.cm s1.rb with
    | none => { x with phase := .refused 10 }
    | some c1 =>
      let x1 := { x with cm := writeBack c1 s1.buf, phase := .reqLine s1 }
      if versionTooLong s1 then errorOut x1 (.reply Http.codeBadRequest) else x1
  | .done (.err e) => errorOut x (errOfReply e.reply)
  | .done (.ok r) =>
    match consumeTo x.cm r.rb with
    | none => { x with phase := .refused 11 }
    | some c1 => afterLine { x with cm := writeBack c1 r.buf } r

/-! ### field lines -/

/-- the phase while field lines (`ft = none`) / footer lines (`ft = some rq`, `rq` = the request so far) are received -/
def linesPhase (ft : Option Rq) (s : HS) (fs : Nat) : Phase :=
  match ft with
  | none => .headers s fs
  | some n => .footers s n

/-- one iteration of the `do … while` loop of `get_req_headers` (= one `hsStep`); `k` continues
    with the next iteration.  `ft = some rq`: `process_footers` — the end of the section
    neither computes `header_size` nor moves the window back, the request is complete. -/
def hdrBody (lvl : Int) (fs : Nat) (ft : Option Rq) (k : CM → HS → CR) (c : CM) (s0 : HS) : CR :=
  match hsStep (FLFlags.ofLevel lvl) fs s0 with
  | .needMore => { cm := writeBack c s0.buf, lvl := lvl, phase := linesPhase ft s0 fs }
  | .fault f => { cm := c, lvl := lvl, phase := .fault f }
  | .done (.err _) => errorOut { cm := c, lvl := lvl, phase := linesPhase ft s0 fs } (.reply Http.codeBadRequest)
  | .done (.ok h) =>
    -- the empty line is consumed …
    match consumeTo c (h.rb + h.shifted) with
    | none => { cm := c, lvl := lvl, phase := .refused 21 }
    | some c1 =>
      match ft with
      | none =>
        -- … then the window is moved back over the header tail
        match op c1 (.shiftBack h.shifted) with
        | none => { cm := c1, lvl := lvl, phase := .refused 22 }
        | some c2 => { cm := writeBack c2 h.buf, lvl := lvl,
                       phase := .headersDone h ⟨s0.method, s0.version, h.elems⟩ }
      | some rq =>
        -- MHD_CONNECTION_FOOTERS_RECEIVED → FULL_REQ_RECEIVED: the final call of the access handler
        { cm := writeBack c1 s0.buf, lvl := lvl, phase := .reqDone s0.buf (h.rb + h.shifted) rq }
  | .advance s1 =>
    match consumeTo c s1.rb with
    | none => { cm := c, lvl := lvl, phase := .refused 23 }
    | some c1 =>
      if s0.elems.length < s1.elems.length then
        -- a field line was completed: MHD_set_connection_value_n_nocheck_
        match step c1 (.alloc Mhd.Gen.ConnMem.reqHeaderSize) with
        | (c2, .ptr (some _)) => k c2 s1
        | (c2, _) => errorOut { cm := c2, lvl := lvl, phase := linesPhase ft s1 fs } .noSpace
      else k c1 s1

/-- `get_req_headers`; `read_buffer_size` is taken from the buffer layer before every step
    (allocations may have shrunk it) -/
def hdrLoop (lvl : Int) (fs : Nat) (ft : Option Rq) : Nat → CM → HS → CR
  | 0, c, _ => { cm := c, lvl := lvl, phase := .refused 20 }
  | n + 1, c, s => hdrBody lvl fs ft (hdrLoop lvl fs ft n) c { s with rbSize := c.rbSize }

def idleHeaders (x : CR) (s : HS) (fs : Nat) : CR :=
  hdrLoop x.lvl fs none ((hsScanner (FLFlags.ofLevel x.lvl) fs).measure s + 1) x.cm s

def idleFooters (x : CR) (s : HS) (rq : Rq) : CR :=
  hdrLoop x.lvl 0 (some rq) ((hsScanner (FLFlags.ofLevel x.lvl) 0).measure s + 1) x.cm s

/-! ### request body -/

/-- the loop variables of `process_request_body` -/
structure BL where
  cur : Nat
  off : Nat
  remaining : Nat
  calls : Nat
  processed : Bool
  /-- `buffer_head - read_buffer` -/
  head : Nat
  deriving Repr, DecidableEq

inductive BLRes where
  | ok (s : BL)
  /-- `transmit_error_response_static` -/
  | err (status : Nat)
  /-- the access handler returned MHD_NO: the connection is closed, its pool destroyed -/
  | closed
  /-- the decoder claimed more bytes than are available -/
  | overrun (site : Nat)
  deriving Repr, DecidableEq

/-- the `do … while (instant_retry)` loop of `process_request_body` on the window contents `w`
    (`available = |w| − head`); one chunk-decoder action (`Mhd.Framing.chunkAct`) per round -/
def bodyLoop (lvl : Int) (take : Nat → Nat → Option Nat) (chunked : Bool) (w : List UInt8) : Nat → BL → BLRes
  | 0, s => .ok s
  | f + 1, s =>
    let b := w.drop s.head
    if b.isEmpty then .ok s
    else if chunked then
      match Mhd.Framing.chunkAct lvl s.cur s.off b with
      | .needMore => .ok s
      | .term n =>
        if n ≤ b.length then bodyLoop lvl take chunked w f { s with head := s.head + n, cur := 0, off := 0 }
        else .overrun 1
      | .line len size =>
        if len ≤ b.length then
          if size = 0 then .ok { s with head := s.head + len, cur := 0, off := 0, remaining := 0 }
          else bodyLoop lvl take chunked w f { s with head := s.head + len, cur := size, off := 0 }
        else .overrun 2
      | .data n =>
        if n ≤ b.length then
          match take s.calls n with
          | none => .closed
          | some tk =>
            let t := min n tk
            let s' := { s with head := s.head + t, off := s.off + t, calls := s.calls + 1, processed := t != 0 }
            if t < n then .ok s' else bodyLoop lvl take chunked w f s'
        else .overrun 3
      | .err status => .err status
    else
      let n := min s.remaining b.length
      match take s.calls n with
      | none => .closed
      | some tk =>
        let t := min n tk
        .ok { s with head := s.head + t, remaining := s.remaining - t, calls := s.calls + 1, processed := t != 0 }

/-- `process_request_body`: the loop, then the memmove of the unprocessed bytes to the window start -/
def processBody (cfg : Cfg) (x : CR) (b : Body) : CR :=
  let w := (b.buf.extract b.rb b.buf.size).toList
  match bodyLoop x.lvl (fun k n => if cfg.refuse k then none else some (cfg.take k n)) b.chunked w (w.length + 1)
      ⟨b.cur, b.off, b.remaining, b.calls, b.processed, 0⟩ with
  | .overrun n => { x with phase := .fault (.read (900 + n) b.rb) }
  | .err status => errorOut x (.reply status)
  -- MHD_NO: CONNECTION_CLOSE_ERROR destroyed the pool; the function returns without touching the buffer again
  | .closed => { x with phase := .error .closed }
  | .ok s =>
    match op x.cm (.bodyDrop s.head) with
    | none => { x with phase := .refused 40 }
    | some c1 =>
      let buf' := b.buf.extract 0 b.rb ++ b.buf.extract (b.rb + s.head) b.buf.size
      { x with cm := writeBack c1 buf',
               phase := .body { b with buf := buf', cur := s.cur, off := s.off, remaining := s.remaining,
                                       calls := s.calls, processed := s.processed } }

/-- `reset_rq_header_processing_state`, state MHD_CONNECTION_FOOTERS_RECEIVING.  The element list starts
    empty here: for footers it only serves to notice a completed line (one allocation each); the
    end-of-section block that looks at the list tail is not executed for footers. -/
def footersStart (b : Body) (rbSize : Nat) : HS :=
  { buf := b.buf, rb := b.rb, rbSize := rbSize, elems := [], method := b.rq.method, version := b.rq.version }

/-- the case MHD_CONNECTION_BODY_RECEIVING (and BODY_RECEIVED) of the idle loop -/
def idleBody (cfg : Cfg) (x : CR) (b : Body) : CR :=
  let x1 := if x.cm.rbOff ≠ 0 then processBody cfg x b else x
  match x1.phase with
  | .body b1 =>
    if b1.remaining = 0 then
      if b1.chunked then { x1 with phase := .footers (footersStart b1 x1.cm.rbSize) b1.rq }
      else { x1 with phase := .reqDone b1.buf b1.rb b1.rq }
    else x1
  | _ => x1

/-- the state after the first handler call let the request go on: nothing (more) to upload / `100 Continue`
    first (only while the read buffer is empty) / the body -/
def startBody (cfg : Cfg) (x : CR) (h : Headers) (rq : Rq) (chunked : Bool) (remaining : Nat) : CR :=
  if remaining = 0 then { x with phase := .reqDone h.buf h.rb rq }
  else
    let b : Body := ⟨h.buf, h.rb, rq, chunked, remaining, 0, 0, false, 1, true⟩
    if cfg.expect100 h.buf rq && x.cm.rbOff == 0 then { x with phase := .cont100 b }
    else { x with phase := .body b }

/-- MHD_CONNECTION_HEADERS_RECEIVED … HEADERS_PROCESSED: `parse_connection_headers`, then the first call of the
    access handler: MHD_NO closes the connection; a reply queued now sets `discard_request` (the body is never
    read, the connection is closed after the reply) -/
def afterHeaders (cfg : Cfg) (x : CR) (h : Headers) (rq : Rq) : CR :=
  match cfg.frame h.buf rq with
  | .stop => x
  | .reject code => errorOut x (.reply code)
  | fr =>
    match cfg.first h.buf rq with
    | .no => { x with phase := .error .closed }
    | .reply => { x with phase := .error .closed }
    | .cont =>
      match fr with
      | .len n => startBody cfg x h rq false n
      | .chunked => startBody cfg x h rq true 1
      | _ => startBody cfg x h rq false 0

/-- after the reply (taken as sent at once: nothing is received while a reply is sent):
    `connection_switch_from_recv_to_send`, then `connection_reset`: with keep-alive the pool is reset,
    the read-ahead is moved to the arena base and becomes the start of the next request -/
def finishRequest (x : CR) (buf : Bytes) (rb : Nat) : CR × Bool :=
  match op x.cm .shrinkRead with
  | none => ({ x with phase := .refused 50 }, false)
  | some c1 =>
    match op c1 .resetConn with
    | none => ({ x with phase := .refused 51 }, false)
    | some c2 =>
      let ahead := buf.extract rb buf.size
      ({ x with cm := writeBack c2 ahead, phase := .reqLine (RL.init ahead 0) }, true)

/-! ### the idle loop -/

/-- the cases of the `switch` of `MHD_connection_handle_idle`, in the order in which one request passes them:
    MHD_CONNECTION_INIT / REQ_LINE_RECEIVING; also (first case of a pass, so not in the pass that entered it)
    MHD_CONNECTION_CONTINUE_SENDING with the interim reply written: → BODY_RECEIVING -/
def stLine (x : CR) : CR :=
  match x.phase with
  | .reqLine s => idleReqLine x s
  | .cont100 b => { x with phase := .body b }
  | _ => x
def stHeaders (x : CR) : CR := match x.phase with | .headers hs fs => idleHeaders x hs fs | _ => x
def stAfter (cfg : Cfg) (x : CR) : CR := match x.phase with | .headersDone h rq => afterHeaders cfg x h rq | _ => x
def stBody (cfg : Cfg) (x : CR) : CR := match x.phase with | .body b => idleBody cfg x b | _ => x
def stFooters (x : CR) : CR := match x.phase with | .footers s n => idleFooters x s n | _ => x
def stDone (cfg : Cfg) (x : CR) : CR × Bool :=
  match x.phase with
  | .reqDone buf rb rq =>
    -- the final call of the access handler: MHD_NO closes the connection
    if cfg.final buf rq && cfg.keepAlive buf rq then finishRequest x buf rb
    else ({ x with phase := .error .closed }, false)
  | _ => (x, false)

/-- one pass of the `while` loop of `MHD_connection_handle_idle` over the receiving states of one request;
    the flag tells that the connection was reset for the next request (the loop goes on) -/
def idlePass (cfg : Cfg) (x : CR) : CR × Bool :=
  stDone cfg (stFooters (stBody cfg (stAfter cfg (stHeaders (stLine x)))))

def idleStates (cfg : Cfg) : Nat → CR → CR
  | 0, x => x
  | n + 1, x =>
    match idlePass cfg x with
    | (x', true) => idleStates cfg n x'
    | (x', false) => x'

/-- the connection is in one of the receiving states -/
def CR.reading (x : CR) : Bool :=
  match x.phase with
  | .reqLine _ | .headers _ _ | .body _ | .cont100 _ | .footers _ _ => true
  | _ => false

/-- `has_unprocessed_upload_body_data_in_buffer` -/
def hasUnprocessed (b : Body) (rbOff : Nat) : Bool :=
  if !b.chunked then rbOff != 0
  else if b.off == b.cur then false
  else rbOff != 0

/-- `MHD_connection_update_event_loop_info`, case BODY_RECEIVING: is MHD_EVENT_LOOP_INFO_READ set? -/
def bodyWantsRead (b : Body) (rbOff : Nat) : Bool :=
  if b.processed && hasUnprocessed b rbOff then
    if !b.chunked then !decide (b.remaining ≥ rbOff) else true
  else true

/-- the connection will read from the socket (MHD_EVENT_LOOP_INFO_READ) -/
def CR.wantsRead (x : CR) : Bool :=
  match x.phase with
  | .reqLine _ | .headers _ _ | .footers _ _ => true
  | .body b => b.evRead
  | _ => false

/-- the "do not grow more than necessary" rule of `check_and_grow_read_buffer_space` for the body -/
def bodyGrowDesired (b : Body) (rbSize : Nat) : Bool :=
  if !b.chunked then decide (b.remaining > rbSize)
  else if b.cur = 0 then decide (Mhd.Gen.ConnMem.chunkHeaderReasonableLen > rbSize)
  else decide (b.cur - b.off + 2 > rbSize)

/-- the state-dependent part of "grow desired" -/
def growRefine (x : CR) : Bool :=
  match x.phase with
  | .body b => bodyGrowDesired b x.cm.rbSize
  | _ => true

/-- the mandatory grow failed: "The application is handling processing cycles. The data could be
    processed later." (body data waiting for the application), otherwise the no-space error reply -/
def noSpaceOut (x : CR) : CR :=
  match x.phase with
  | .body b =>
    if hasUnprocessed b x.cm.rbOff then { x with phase := .body { b with evRead := false } }
    else errorOut x .noSpace
  | _ => errorOut x .noSpace

/-- `check_and_grow_read_buffer_space` (called by `MHD_connection_update_event_loop_info`
    when the next thing to do is reading) -/
def checkGrow (x : CR) : CR :=
  if !x.wantsRead then x else
  let required := x.cm.rbOff == x.cm.rbSize
  let desired := required || (decide (x.cm.rbOff + x.cm.inc > x.cm.rbSize) && growRefine x)
  if !desired then x else
  match step x.cm (.grow required) with
  | (_, .badOp) => { x with phase := .refused 30 }
  | (c, .bool true) => { x with cm := c }
  | (c, _) => if !required then { x with cm := c } else noSpaceOut { x with cm := c }

/-- `MHD_connection_update_event_loop_info` -/
def updateEv (x : CR) : CR :=
  match x.phase with
  | .body b => checkGrow { x with phase := .body { b with evRead := bodyWantsRead b x.cm.rbOff } }
  | _ => checkGrow x

/-- `MHD_connection_handle_idle` -/
def idle (cfg : Cfg) (x : CR) : CR := updateEv (idleStates cfg (x.cm.rbOff + 2) x)

/-! ### feeding client bytes -/

/-- the bytes of one chunk: as long as the connection wants to read, `handle_read` takes what fits into
    the free part of the window and `handle_idle` runs, the rest stays in the socket for the next round;
    while only processing is pending (the application has not taken the upload data yet) `handle_idle`
    runs without reading. -/
def feedFuel (cfg : Cfg) : Nat → CR → List UInt8 → CR
  | 0, x, _ => x
  | n + 1, x, bs =>
    if !x.reading || bs.isEmpty then x
    else if x.wantsRead && x.space != 0 then
      let k := min bs.length x.space
      feedFuel cfg n (idle cfg (recvBytes x (bs.take k))) (bs.drop k)
    else feedFuel cfg n (idle cfg x) bs

/-- one chunk; the empty chunk is one round of `handle_idle` without data -/
def feed (cfg : Cfg) (x : CR) (chunk : List UInt8) : CR :=
  if chunk.isEmpty then (if x.reading then idle cfg x else x) else feedFuel cfg (chunk.length + 1) x chunk

def run (cfg : Cfg) (x : CR) (chunks : List (List UInt8)) : CR := chunks.foldl (feed cfg) x

end Mhd.ConnRead
