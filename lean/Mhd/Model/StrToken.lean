/-
  Model of src/microhttpd/mhd_str.c, part 3: caseless comparison and the
  comma-list token functions (has / remove one / remove several in place).

  The model follows the code *with the repairs of build/fixes/F17b.diff
  (`MHD_str_has_token_caseless_`: a comma consumed by a failed match no longer
  hides the next element) and F17c.diff (`MHD_str_remove_token_caseless_`:
  whitespace after a matched prefix is normalised, not copied verbatim)*.
-/
import Mhd.Model.Str

namespace Mhd.Str

/-! ### caseless comparison -/

/-- `MHD_str_equal_caseless_ (str1, str2)` (both z-terminated) -/
def equalCaselessStep (a b : Bytes) (i : Nat) : M (Nat ⊕ Bool) := do
  let c1 ← rd a i
  let c2 ← rd b i
  if c1 ≠ 0 then
    if charsEqualCaseless c1 c2 then return .inl (i + 1) else return .inr false
  else return .inr (c2 == 0)

def equalCaseless (a b : Bytes) : M Bool :=
  iter (equalCaselessStep a b) (a.length + 1) 0

/-- `MHD_str_equal_caseless_n_ (str1, str2, maxlen)` -/
def equalCaselessNStep (a b : Bytes) (maxlen : Nat) (i : Nat) : M (Nat ⊕ Bool) := do
  if i < maxlen then
    let c1 ← rd a i
    let c2 ← rd b i
    if c2 = 0 then return .inr (c1 == 0)
    if charsEqualCaseless c1 c2 then return .inl (i + 1) else return .inr false
  else return .inr true

def equalCaselessN (a b : Bytes) (maxlen : Nat) : M Bool :=
  iter (equalCaselessNStep a b maxlen) (a.length + 2) 0

/-- `MHD_str_equal_caseless_bin_n_ (str1 + oa, str2 + ob, len)` -/
def equalCaselessBinStep (a : Bytes) (oa : Nat) (b : Bytes) (ob : Nat) (len : Nat) (i : Nat) : M (Nat ⊕ Bool) := do
  if i < len then
    let c1 ← rd a (oa + i)
    let c2 ← rd b (ob + i)
    if charsEqualCaseless c1 c2 then return .inl (i + 1) else return .inr false
  else return .inr true

def equalCaselessBinAt (a : Bytes) (oa : Nat) (b : Bytes) (ob : Nat) (len : Nat) : M Bool :=
  iter (equalCaselessBinStep a oa b ob len) (len + 1) 0

def equalCaselessBinN (a b : Bytes) (len : Nat) : M Bool := equalCaselessBinAt a 0 b 0 len

/-! ### scanning helpers -/

def isWs (c : UInt8) : Bool := c == 0x20 || c == 0x09
def isWsComma (c : UInt8) : Bool := c == 0x20 || c == 0x09 || c == 0x2c

/-- `while (p (*str)) str++;` on a z-terminated string (every byte is read) -/
def skipZ (s : Bytes) (p : UInt8 → Bool) (i : Nat) : M Nat :=
  iter (fun i => do
    let c ← rd s i
    if p c then return .inl (i + 1) else return .inr i) (s.length + 1) i

/-- `while ((pos < len) && p (s[pos])) pos++;` -/
def skipN (s : Bytes) (p : UInt8 → Bool) (i : Nat) : M Nat :=
  iter (fun i => do
    if i < s.length then
      let c ← rd s i
      if p c then return .inl (i + 1) else return .inr i
    else return .inr i) (s.length + 1) i

/-! ### MHD_str_has_token_caseless_ -/

inductive TokRes where
  | ret (b : Bool)     -- `return b;`
  | brk (p : Nat)      -- `break;` with `str` at `p`

/-- the `while (1)` matching loop; state `(p, i)` = (`str`, `i`) -/
def hasTokenMatchStep (s token : Bytes) (st : Nat × Nat) : M ((Nat × Nat) ⊕ TokRes) := do
  let sc ← rd s st.1
  let tc ← rd token st.2
  let p := st.1 + 1
  let i := st.2 + 1
  if sc = 0 then return .inr (.ret false)
  if !charsEqualCaseless sc tc then
    -- F17b: `if (',' == sc) str--;`
    return .inr (.brk (if sc = 0x2c then p - 1 else p))
  if i ≥ token.length then
    let p' ← skipZ s isWs p
    let c ← rd s p'
    if c = 0 ∨ c = 0x2c then return .inr (.ret true)
    return .inr (.brk p')
  return .inl (p, i)

def hasTokenStep (s token : Bytes) (p : Nat) : M (Nat ⊕ Bool) := do
  let c ← rd s p
  if c ≠ 0 then
    let p1 ← skipZ s isWsComma p
    match ← iter (hasTokenMatchStep s token) (s.length + 1) (p1, 0) with
    | .ret b => return .inr b
    | .brk p2 =>
      let p3 ← skipZ s (fun c => c != 0 && c != 0x2c) p2
      return .inl p3
  else return .inr false

/-- `MHD_str_has_token_caseless_ (str, token, token_len)`; `s` z-terminated -/
def hasTokenCaseless (s token : Bytes) : M Bool :=
  if token.length = 0 then .ok false
  else iter (hasTokenStep s token) (s.length + 1) 0

/-! ### MHD_str_remove_token_caseless_ -/

/-- `memcpy (dst + w, src + r, n)` / forward `memmove` with `w ≤ r` in the same buffer -/
def copyBytes (src : Bytes) (r : Nat) (dst : Bytes) (w : Nat) (n : Nat) : M Bytes :=
  (List.range n).foldlM (fun o k => do
    let c ← rd src (r + k)
    wr o (w + k) c) dst

structure RmSt where
  s1 : Nat
  w : Nat
  out : Bytes
  removed : Bool

inductive RmRes where
  | fail                       -- `*buf_size = -1; return false;`
  | done (st : RmSt)

/-- `while (s1 < len && token_len > t_pos && charsequalcaseless (*s1, token[t_pos])) { s1++; t_pos++; }` -/
def rmMatchStep (str token : Bytes) (st : Nat × Nat) : M ((Nat × Nat) ⊕ (Nat × Nat)) := do
  if st.1 < str.length ∧ token.length > st.2 then
    let a ← rd str st.1
    let b ← rd token st.2
    if charsEqualCaseless a b then return .inl (st.1 + 1, st.2 + 1) else return .inr st
  else return .inr st

/-- copy all non-whitespace, non-comma chars: returns `none` when the buffer is full -/
def rmCopyWordStep (str : Bytes) (st : RmSt) : M (RmSt ⊕ Option RmSt) := do
  if st.s1 < str.length then
    let c ← rd str st.s1
    if c ≠ 0x2c ∧ c ≠ 0x20 ∧ c ≠ 0x09 then
      if st.out.length ≤ st.w then return .inr none
      let o ← wr st.out st.w c
      return .inl { st with s1 := st.s1 + 1, w := st.w + 1, out := o }
    else return .inr (some st)
  else return .inr (some st)

/-- `while (s1 < len && ',' != *s1) { copy word; skip whitespace; maybe emit ' ' }` -/
def rmCopyRestStep (str : Bytes) (st : RmSt) : M (RmSt ⊕ Option RmSt) := do
  let go ← (if st.s1 < str.length then do
              let c ← rd str st.s1
              pure (c != 0x2c)
            else pure false : M Bool)
  if go then
    match ← iter (rmCopyWordStep str) (str.length + 1) st with
    | none => return .inr none
    | some st =>
      let s1 ← skipN str isWs st.s1
      let more ← (if s1 < str.length then do
                    let c ← rd str s1
                    pure (c != 0x2c)
                  else pure false : M Bool)
      if more then
        if st.out.length ≤ st.w then return .inr none
        let o ← wr st.out st.w 0x20
        return .inl { st with s1 := s1, w := st.w + 1, out := o }
      else return .inl { st with s1 := s1 }
  else return .inr (some st)

def rmOuterStep (str token : Bytes) (st : RmSt) : M (RmSt ⊕ RmRes) := do
  if st.s1 < str.length then
    let s1 ← skipN str isWsComma st.s1
    if s1 ≥ str.length then return .inr (.done { st with s1 := s1 })
    let cur := s1
    let (s1, tPos) ← iter (rmMatchStep str token) (str.length + 1) (s1, 0)
    -- full match?
    let (s1, full) ← (if tPos = token.length ∧ token.length ≠ 0 then do
                        let matchEnd := s1
                        let s1' ← skipN str isWs s1
                        let isEnd ← (if s1' = str.length then pure true else do
                                        let c ← rd str s1'
                                        pure (c == 0x2c) : M Bool)
                        if isEnd then pure (s1', true) else pure (matchEnd, false)   -- F17c
                      else pure (s1, false) : M (Nat × Bool))
    if full then return .inl { st with s1 := s1, removed := true }
    let copySize := s1 - cur
    let r ← (if st.w = 0 then
               if st.out.length < copySize then (pure none : M (Option (Nat × Bytes))) else pure (some (st.w, st.out))
             else
               if st.out.length < st.w + copySize + 2 then pure none
               else do
                 let o ← wr st.out st.w 0x2c
                 let o ← wr o (st.w + 1) 0x20
                 pure (some (st.w + 2, o)))
    match r with
    | none => return .inr .fail
    | some (w, out) =>
      let out ← (if copySize ≠ 0 then copyBytes str cur out w copySize else pure out)
      let st1 : RmSt := { st with s1 := s1, w := w + copySize, out := out }
      match ← iter (rmCopyRestStep str) (str.length + 1) st1 with
      | none => return .inr .fail
      | some st2 => return .inl st2
  else return .inr (.done st)

/-- `MHD_str_remove_token_caseless_ (str, str_len, token, token_len, buf, &buf_size)`:
    result `(return value, *buf_size on return, buffer)` -/
def removeTokenCaseless (str token out : Bytes) : M (Bool × Int × Bytes) := do
  if Mhd.Gen.Str.ssizeMax ≤ ((str.length / 2) * 3 + 3) % 2 ^ 64 then return (false, -1, out)
  match ← iter (rmOuterStep str token) (str.length + 1) ⟨0, 0, out, false⟩ with
  | .fail => return (false, -1, out)
  | .done st => return (st.removed, (st.w : Int), st.out)

/-! ### MHD_str_remove_tokens_caseless_ (in place) -/

structure RtSt where
  pt : Nat
  len : Nat          -- `*str_len`
  buf : Bytes        -- `str` (allocated size = initial `*str_len`)
  removed : Bool

/-- `do { pt++; } while (pt < tokens_len && t[pt] is not space/tab/comma)` -/
def rtWordEnd (t : Bytes) (pt : Nat) : M Nat :=
  skipN t (fun c => !isWsComma c) (pt + 1)

/-- the outer `do { word; tkn_len = …; skip spaces/tabs } while (pt < tokens_len && ',' != t[pt])`;
    state `(pt, tkn_len)` -/
def rtTokenEndStep (t : Bytes) (tkn : Nat) (st : Nat × Nat) : M ((Nat × Nat) ⊕ (Nat × Nat)) := do
  let pt ← rtWordEnd t st.1
  let tknLen := pt - tkn
  let pt ← skipN t isWs pt
  let again ← (if pt < t.length then do
                 let c ← rd t pt
                 pure (c != 0x2c)
               else pure false : M Bool)
  if again then return .inl (pt, tknLen) else return .inr (pt, tknLen)

structure RtIn where
  pr : Nat
  pw : Nat
  buf : Bytes
  removed : Bool

/-- `if (0 != pw) { if (pr != pw + 2) { str[pw++] = ','; str[pw++] = ' '; } else pw += 2; }` -/
def rtSep (pr pw : Nat) (buf : Bytes) : M (Nat × Bytes) := do
  if pw ≠ 0 then
    if pr ≠ pw + 2 then
      let b ← wr buf pw 0x2c
      let b ← wr b (pw + 1) 0x20
      return (pw + 2, b)
    else return (pw + 2, buf)
  else return (pw, buf)

/-- `do { if (pr != pw) str[pw] = str[pr]; pr++; pw++; } while (pr < *str_len && ',' != str[pr]);` -/
def rtCopyElemStep (len : Nat) (st : Nat × Nat × Bytes) : M ((Nat × Nat × Bytes) ⊕ (Nat × Nat × Bytes)) := do
  let (pr, pw, buf) := st
  let buf ← (if pr ≠ pw then do
               let c ← rd buf pr
               wr buf pw c
             else pure buf)
  let pr := pr + 1
  let pw := pw + 1
  let again ← (if pr < len then do
                 let c ← rd buf pr
                 pure (c != 0x2c)
               else pure false : M Bool)
  if again then return .inl (pr, pw, buf) else return .inr (pr, pw, buf)

/-- one round of the `do { … } while (1)` removal loop; `.inr` carries the new `*str_len` -/
def rtInnerStep (tokens : Bytes) (tkn tknLen len : Nat) (st : RtIn) : M (RtIn ⊕ (Nat × Bytes × Bool)) := do
  let atEnd ← (if len = st.pr + tknLen then pure true else do
                 let c ← rd st.buf (st.pr + tknLen)
                 pure (c == 0x2c) : M Bool)
  let isMatch ← (if atEnd then equalCaselessBinAt st.buf st.pr tokens tkn tknLen else pure false)
  let st1 ← (if isMatch then
               pure { st with removed := true, pr := st.pr + tknLen + 2 }
             else do
               let (pw, buf) ← rtSep st.pr st.pw st.buf
               let (pr, pw, buf) ← iter (rtCopyElemStep len) (len + 1) (st.pr, pw, buf)
               pure { st with pr := pr + 2, pw := pw, buf := buf } : M RtIn)
  if len < st1.pr + tknLen then
    if len > st1.pr then
      let copySize := len - st1.pr
      let (pw, buf) ← rtSep st1.pr st1.pw st1.buf
      let buf ← (if st1.pr ≠ pw then copyBytes buf st1.pr buf pw copySize else pure buf)
      return .inr (pw + copySize, buf, st1.removed)
    else return .inr (st1.pw, st1.buf, st1.removed)
  else return .inl st1

def rtOuterStep (tokens : Bytes) (st : RtSt) : M (RtSt ⊕ (Bool × Nat × Bytes)) := do
  if st.pt < tokens.length ∧ st.len ≠ 0 then
    let pt ← skipN tokens isWsComma st.pt
    if pt ≥ tokens.length then return .inr (st.removed, st.len, st.buf)
    let tkn := pt
    let (pt, tknLen) ← iter (rtTokenEndStep tokens tkn) (tokens.length + 1) (pt, 0)
    if st.len = tknLen then
      if ← equalCaselessBinAt st.buf 0 tokens tkn tknLen then
        return .inl { st with pt := pt, len := 0, removed := true }
      else return .inl { st with pt := pt }
    if st.len > tknLen + 2 then
      let (len, buf, removed) ← iter (rtInnerStep tokens tkn tknLen st.len) (st.len + 1) ⟨0, 0, st.buf, st.removed⟩
      return .inl ⟨pt, len, buf, removed⟩
    return .inl { st with pt := pt }
  else return .inr (st.removed, st.len, st.buf)

/-- `MHD_str_remove_tokens_caseless_ (str, &str_len, tokens, tokens_len)`:
    result `(return value, *str_len, buffer)` -/
def removeTokensCaseless (str tokens : Bytes) : M (Bool × Nat × Bytes) :=
  iter (rtOuterStep tokens) (tokens.length + 1) ⟨0, str.length, str, false⟩

end Mhd.Str
