/-
  Model of the nonce-nc map of src/microhttpd/digestauth.c:

    get_nonce_timestamp, fast_simple_hash, get_nonce_nc_idx, check_nonce_nc,
    is_slot_available, the table part of calculate_add_nonce, and the nonce /
    nonce-count vetting sequence of digest_auth_check_all (default substitution)
    + digest_auth_check_all_inner (nc parsing, max_nc, nonce format, expiry,
    check_nonce_nc).

  A slot is the C `struct MHD_NonceNc`: the `nonce` member is the whole
  `char[MAX_DIGEST_NONCE_LENGTH + 1]` buffer (bytes after the terminating NUL
  are *kept*, exactly as memcpy leaves them), `nc` is the `uint32_t`, `nmask`
  the `uint64_t` window.  Every buffer read is checked: an index outside the
  buffer gives the explicit `fault` result, never a default.

  `uint64_t`/`uint32_t`/`unsigned int` arithmetic is `Nat` with explicit
  reduction at the C operations that can wrap (`now - timestamp`,
  `nonce_time - slot_ts`, `(uint32_t) nc - nn->nc`, `nonce_timeout * 1000`).

  All constants come from `Mhd.Gen.Nonce` (regenerated from the source).
  Core Lean only.
-/
import Mhd.Gen.Nonce

namespace Mhd.Nonce
open Mhd.Gen.Nonce

abbrev Bytes := List UInt8

/-- 2^32 : range of `nn->nc` -/
def W32 : Nat := 2 ^ ncBits
/-- 2^64 : range of `uint64_t` -/
def W64 : Nat := 2 ^ 64
/-- bits of the timestamp kept in a nonce (48) -/
def tsBits : Nat := timestampBinSize * 8
/-- `TIMESTAMP_CHARS_LEN` -/
def tsChars : Nat := timestampBinSize * 2
/-- `TRIM_TO_TIMESTAMP (v)` -/
def trim (v : Nat) : Nat := v % 2 ^ tsBits
/-- `a - b` on `uint64_t` (both operands `< 2^64`) -/
def sub64 (a b : Nat) : Nat := (a + W64 - b) % W64
/-- the first `nc` value refused outright: `nc >= UINT32_MAX - 64` -/
def ncGuard : Nat := W32 - 1 - ncGuardSub

/-! ### fast_simple_hash / get_nonce_nc_idx -/

/-- `_MHD_ROTL32 (x, k)` for `x < 2^32`, `0 < k < 32` -/
def rotl32 (x k : Nat) : Nat := ((x <<< k) % 2 ^ 32) ||| (x >>> (32 - k))

/-- `fast_simple_hash` -/
def fastSimpleHash : Bytes → Nat
  | [] => 0
  | b :: rest => rest.foldl (fun h d => rotl32 h 7 ^^^ d.toNat) b.toNat

/-- `get_nonce_nc_idx` -/
def slotIdx (size : Nat) (nonce : Bytes) : Nat := fastSimpleHash nonce % size

/-! ### MHD_strx_to_uint64_n_ (local copy of the mhd_str.c function) and strlen -/

/-- `toxdigitvalue` -/
def hexVal (c : UInt8) : Option Nat :=
  if 48 ≤ c.toNat ∧ c.toNat ≤ 57 then some (c.toNat - 48)
  else if 65 ≤ c.toNat ∧ c.toNat ≤ 70 then some (c.toNat - 55)
  else if 97 ≤ c.toNat ∧ c.toNat ≤ 102 then some (c.toNat - 87)
  else none

/-- loop of `MHD_strx_to_uint64_n_` over the (already `maxlen`-limited) input:
    `none` = overflow exit (`return 0`), `some (i, res)` otherwise -/
def strxGo : Bytes → Nat → Nat → Option (Nat × Nat)
  | [], i, r => some (i, r)
  | c :: cs, i, r =>
    match hexVal c with
    | none => some (i, r)
    | some d =>
      if r > (W64 - 1) / 16 ∨ (r = (W64 - 1) / 16 ∧ d > (W64 - 1) % 16) then none
      else strxGo cs (i + 1) (r * 16 + d)

/-- `MHD_strx_to_uint64_n_ (str, maxlen, &out)`: (return value, `*out` if written) -/
def strxToUint64N (s : Bytes) (maxlen : Nat) : Nat × Option Nat :=
  match strxGo (s.take maxlen) 0 0 with
  | none => (0, none)
  | some (i, r) => (i, if i = 0 then none else some r)

/-- `strlen` on a buffer: `none` = no NUL inside the buffer (over-read) -/
def strlen : Bytes → Option Nat
  | [] => none
  | c :: cs => if c = 0 then some 0 else (strlen cs).map (· + 1)

/-! ### get_nonce_timestamp -/

inductive TsRes
  | ts (t : Nat)
  | invalid
  | fault
  deriving Repr, DecidableEq

/-- `get_nonce_timestamp (nonce, noncelen, &ts)` where `buf` is the object
    `nonce` points into -/
def getNonceTimestamp (buf : Bytes) (noncelen : Nat) : TsRes :=
  match (if noncelen = 0 then strlen buf else some noncelen) with
  | none => .fault
  | some len =>
    if len ≠ stdLenMd5 ∧ len ≠ stdLenSha then .invalid
    else if buf.length < len then .fault
    else
      match strxToUint64N (buf.drop (len - tsChars)) tsChars with
      | (cnt, some v) => if cnt = tsChars then .ts v else .invalid
      | (_, none) => .invalid

/-! ### the table -/

/-- `struct MHD_NonceNc` -/
structure Slot where
  nonce : Bytes
  nc : Nat
  nmask : BitVec 64
  deriving Repr, DecidableEq

abbrev Table := List Slot

def Slot.empty : Slot := { nonce := List.replicate nonceBufSize 0, nc := 0, nmask := 0 }

/-- `MHD_calloc_ (nonce_nc_size, sizeof (struct MHD_NonceNc))` -/
def Table.init (size : Nat) : Table := List.replicate size Slot.empty

inductive NcRes
  | ok
  | stale
  | wrong
  | fault
  deriving Repr, DecidableEq

/-- the (nc, nmask) pair of a slot -/
structure Win where
  nc : Nat
  nmask : BitVec 64
  deriving Repr, DecidableEq

/-- the three window branches of `check_nonce_nc` (`nc > nn->nc`, `nc < nn->nc`,
    equal); second component: `MHD_CHECK_NONCENC_OK` -/
def windowStep (w : Win) (nc : Nat) : Win × Bool :=
  if nc > w.nc then
    let jump := (nc % W32 + W32 - w.nc) % W32
    let m : BitVec 64 :=
      if jump < 64 then (w.nmask <<< jump) ||| ((1#64) <<< (jump - 1))
      else if jump = 64 then (1#64) <<< 63
      else 0#64
    ({ nc := nc % W32, nmask := m }, true)
  else if nc < w.nc then
    if nc + 64 ≥ w.nc ∧ (((1#64) <<< (w.nc - nc - 1)) &&& w.nmask) = 0#64 then
      ({ w with nmask := w.nmask ||| ((1#64) <<< (w.nc - nc - 1)) }, true)
    else (w, false)
  else (w, false)

/-- `0 == memcmp (nn->nonce, nonce, noncelen) && 0 == nn->nonce[noncelen]`;
    `none` = read outside the slot buffer -/
def slotMatches (nn : Slot) (nonce : Bytes) : Option Bool :=
  match nn.nonce[nonce.length]? with
  | none => none
  | some z => some (decide (nn.nonce.take nonce.length = nonce ∧ z = 0))

/-- the classification done when the slot holds something else -/
def classifyMismatch (nn : Slot) (noncelen nonceTime : Nat) : NcRes :=
  match nn.nonce[0]?, nn.nonce[noncelen]? with
  | some b0, some z =>
    if b0 = 0 then .wrong
    else if z ≠ 0 then .stale
    else
      match getNonceTimestamp nn.nonce noncelen with
      | .fault => .fault
      | .invalid => .stale
      | .ts slotTs =>
        let d := trim (sub64 nonceTime slotTs)
        if reuseTimeout * 1000 ≥ d then .stale
        else if trim (W64 - 1) / 2 ≥ d then .stale
        else .wrong
  | _, _ => .fault

/-- `check_nonce_nc (connection, nonce, noncelen, nonce_time, nc)`; the table is
    `daemon->nnc`, its length `daemon->nonce_nc_size`.  The body between
    `MHD_mutex_lock_chk_ (&daemon->nnc_lock)` and the unlock is one atomic step. -/
def checkNonceNc (tbl : Table) (nonce : Bytes) (nonceTime nc : Nat) : Table × NcRes :=
  if maxNonceLen < nonce.length then (tbl, .wrong)
  else if tbl.length = 0 then (tbl, .stale)
  else if nc ≥ ncGuard then (tbl, .stale)
  else
    let i := slotIdx tbl.length nonce
    match tbl[i]? with
    | none => (tbl, .fault)
    | some nn =>
      match slotMatches nn nonce with
      | none => (tbl, .fault)
      | some false => (tbl, classifyMismatch nn nonce.length nonceTime)
      | some true =>
        let r := windowStep ⟨nn.nc, nn.nmask⟩ nc
        (tbl.set i { nn with nc := r.1.nc, nmask := r.1.nmask }, if r.2 then .ok else .stale)

/-- `is_slot_available (nn, now, new_nonce, new_nonce_len)`; `none` = fault -/
def isSlotAvailable (nn : Slot) (now : Nat) (newNonce : Bytes) : Option Bool :=
  match nn.nonce[0]? with
  | none => none
  | some b0 =>
    if b0 = 0 then some true
    else if nn.nonce.length < newNonce.length then none
    else if nn.nonce.take newNonce.length = newNonce then some false
    else if nn.nc ≠ 0 then some true
    else
      match nn.nonce[nonceBufSize - 1]? with
      | none => none
      | some e =>
        if e ≠ 0 then some true
        else
          match getNonceTimestamp nn.nonce 0 with
          | .fault => none
          | .invalid => some true
          | .ts t => some (decide (reuseTimeout * 1000 < trim (sub64 now t)))

inductive AddRes
  | added
  | refused
  | fault
  deriving Repr, DecidableEq

/-- `memcpy (nn->nonce, nonce, nonce_size); nn->nonce[nonce_size] = 0;` -/
def writeNonce (buf nonce : Bytes) : Bytes := nonce ++ 0 :: buf.drop (nonce.length + 1)

/-- the part of `calculate_add_nonce` after `calculate_nonce`: `nonce` is the
    freshly calculated nonce, `ts` the timestamp it was calculated for -/
def addNonce (tbl : Table) (ts : Nat) (nonce : Bytes) : Table × AddRes :=
  if tbl.length = 0 then (tbl, .refused)
  else
    let i := slotIdx tbl.length nonce
    match tbl[i]? with
    | none => (tbl, .fault)
    | some nn =>
      match isSlotAvailable nn ts nonce with
      | none => (tbl, .fault)
      | some false => (tbl, .refused)
      | some true =>
        if nn.nonce.length < nonce.length + 1 then (tbl, .fault)
        else (tbl.set i { nonce := writeNonce nn.nonce nonce, nc := 0, nmask := 0 }, .added)

/-! ### the vetting sequence of digest_auth_check_all / _inner -/

inductive Out
  | added
  | refused
  | ok
  | stale
  | wrong
  /-- `MHD_DAUTH_WRONG_HEADER` (bad `nc` text) -/
  | hdr
  | fault
  deriving Repr, DecidableEq

def Out.ofNc : NcRes → Out
  | .ok => .ok
  | .stale => .stale
  | .wrong => .wrong
  | .fault => .fault

def Out.ofAdd : AddRes → Out
  | .added => .added
  | .refused => .refused
  | .fault => .fault

/-- `unquoted.len != MHD_strx_to_uint64_n_ (unquoted.str, unquoted.len, &nci)`
    (`none` = `MHD_DAUTH_WRONG_HEADER`): all hexadecimal, fits `uint64_t` -/
def parseNc (txt : Bytes) : Option Nat :=
  match strxToUint64N txt txt.length with
  | (cnt, some v) => if cnt = txt.length then some v else none
  | (_, none) => none

/-- `digest_auth_check_all` (zero → daemon default) followed by the lines of
    `digest_auth_check_all_inner` from `if (0 == nci)` to the end of the
    `check_nonce_nc` block.  `stdLen` = `NONCE_STD_LEN (digest_size)` of the
    client's algorithm, `now` = `MHD_monotonic_msec_counter ()`. -/
def present (tbl : Table) (now timeout maxNc stdLen : Nat) (nonce : Bytes) (nci : Nat) :
    Table × Out :=
  let timeout := if timeout = 0 then defTimeout else timeout
  let maxNc := if maxNc = 0 then defMaxNc else maxNc
  if nci = 0 then (tbl, .hdr)
  else if maxNc ≠ 0 ∧ maxNc < nci then (tbl, .stale)
  else if stdLen ≠ nonce.length then (tbl, .wrong)
  else
    match getNonceTimestamp nonce nonce.length with
    | .fault => (tbl, .fault)
    | .invalid => (tbl, .wrong)
    | .ts t =>
      if trim (sub64 now t) > (timeout * 1000) % 2 ^ timeoutBits then (tbl, .stale)
      else
        let r := checkNonceNc tbl nonce t nci
        (r.1, Out.ofNc r.2)

/-- the same with the `nc` parameter still as text, in the order in which
    `digest_auth_check_all_inner` looks at the parameters: `nc` length, `nonce`
    length, (other parameters), `nc` value, then `present` -/
def presentText (tbl : Table) (now timeout maxNc stdLen : Nat) (nonce ncTxt : Bytes) :
    Table × Out :=
  if ncTxt.length = 0 ∨ 4 * 8 < ncTxt.length then (tbl, .hdr)
  else if nonce.length = 0 ∨ stdLen * 2 < nonce.length then (tbl, .wrong)
  else
    match parseNc ncTxt with
    | none => (tbl, .hdr)
    | some nci => present tbl now timeout maxNc stdLen nonce nci

/-! ### the public entry points and what they hand to digest_auth_check_all -/

/-- `MHD_digest_auth_check3`, `_check_digest3`, and the legacy `_check2`, `_check`,
    `_check_digest2`, `_check_digest` -/
inductive Api
  | check3
  | checkDigest3
  | check2
  | check
  | checkDigest2
  | checkDigest
  deriving Repr, DecidableEq

/-- the `(nonce_timeout, max_nc)` pair an entry point called with `(nonce_timeout, max_nc)`
    passes on (the legacy ones have no `max_nc` parameter and pass 0 = daemon default) -/
def Api.args : Api → Nat → Nat → Nat × Nat
  | .check3, t, m => (t, m)                -- MHD_digest_auth_check3 → digest_auth_check_all (…, nonce_timeout, max_nc, …)
  | .checkDigest3, t, m => (t, m)          -- MHD_digest_auth_check_digest3 → digest_auth_check_all (…, nonce_timeout, max_nc, …)
  | .check2, t, _ => (t, 0)                -- MHD_digest_auth_check2 → MHD_digest_auth_check3 (…, nonce_timeout, 0, …)
  | .check, t, _ => (t, 0)                 -- MHD_digest_auth_check → MHD_digest_auth_check2 (…, nonce_timeout, MD5)
  | .checkDigest2, t, _ => (t, 0)          -- MHD_digest_auth_check_digest2 → MHD_digest_auth_check_digest3 (…, nonce_timeout, 0, …)
  | .checkDigest, t, _ => (t, 0)           -- MHD_digest_auth_check_digest → MHD_digest_auth_check_digest2 (…, nonce_timeout, MD5)

def Api.legacy : Api → Bool
  | .check3 => false
  | .checkDigest3 => false
  | _ => true

/-- what the application sees -/
inductive ApiOut
  | res (o : Out)
  /-- `MHD_YES` -/
  | yes
  /-- `MHD_INVALID_NONCE` -/
  | invalidNonce
  /-- `MHD_NO` -/
  | no
  deriving Repr, DecidableEq

/-- the legacy entry points fold the result: OK → MHD_YES, NONCE_STALE / NONCE_WRONG →
    MHD_INVALID_NONCE, anything else → MHD_NO -/
def Api.result (a : Api) (o : Out) : ApiOut :=
  if a.legacy then
    match o with
    | .ok => .yes
    | .stale => .invalidNonce
    | .wrong => .invalidNonce
    | _ => .no
  else .res o

/-- a presentation through entry point `a` -/
def presentApi (a : Api) (tbl : Table) (now timeout maxNc stdLen : Nat) (nonce : Bytes) (nci : Nat) :
    Table × Out :=
  present tbl now (a.args timeout maxNc).1 (a.args timeout maxNc).2 stdLen nonce nci

def presentTextApi (a : Api) (tbl : Table) (now timeout maxNc stdLen : Nat) (nonce ncTxt : Bytes) :
    Table × Out :=
  presentText tbl now (a.args timeout maxNc).1 (a.args timeout maxNc).2 stdLen nonce ncTxt

/-! ### operation sequences -/

inductive Op
  /-- `calculate_add_nonce` produced `nonce` for timestamp `ts` -/
  | add (ts : Nat) (nonce : Bytes)
  /-- `check_nonce_nc` with an explicit `nonce_time` -/
  | check (nonce : Bytes) (nonceTime : Nat) (nc : Nat)
  /-- a whole presentation through `MHD_digest_auth_check3` -/
  | present (now timeout maxNc stdLen : Nat) (nonce : Bytes) (nci : Nat)
  deriving Repr, DecidableEq

def step (tbl : Table) : Op → Table × Out
  | .add ts n => let r := addNonce tbl ts n; (r.1, Out.ofAdd r.2)
  | .check n t c => let r := checkNonceNc tbl n t c; (r.1, Out.ofNc r.2)
  | .present now tmo mx sl n c => present tbl now tmo mx sl n c

/-- one event of a history -/
structure Ev where
  op : Op
  out : Out
  deriving Repr, DecidableEq

/-- run a sequence; the history is returned most-recent-first -/
def runH (tbl : Table) (h : List Ev) : List Op → Table × List Ev
  | [] => (tbl, h)
  | o :: os => let r := step tbl o; runH r.1 (⟨o, r.2⟩ :: h) os

def run (size : Nat) (ops : List Op) : Table × List Ev := runH (Table.init size) [] ops

/-! ### the format of a nonce made by calculate_nonce -/

def hexChar (n : Nat) : UInt8 := if n < 10 then UInt8.ofNat (48 + n) else UInt8.ofNat (87 + n)

/-- `MHD_bin_to_hex` of the 6 big-endian bytes of the 48-bit timestamp -/
def hexTs (ts : Nat) : Bytes :=
  (List.range tsChars).map fun j => hexChar ((trim ts / 16 ^ (tsChars - 1 - j)) % 16)

/-- `calculate_nonce` as far as this property needs it: lower-case hex of the
    hash (opaque here) followed by the hex timestamp -/
def mkNonce (hashHex : Bytes) (ts : Nat) : Bytes := hashHex ++ hexTs ts

def isLowerHex (c : UInt8) : Bool := (48 ≤ c.toNat && c.toNat ≤ 57) || (97 ≤ c.toNat && c.toNat ≤ 102)

/-- what the driver checks of a nonce reported by the real `calculate_add_nonce` -/
def nonceFormatOk (stdLen ts : Nat) (nonce : Bytes) : Bool :=
  nonce.length == stdLen && nonce.all isLowerHex && nonce.drop (stdLen - tsChars) == hexTs ts

end Mhd.Nonce
