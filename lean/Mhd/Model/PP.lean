/-
  Model of the public API of src/microhttpd/postprocessor.c:
  `MHD_create_post_processor`, `MHD_post_process`, `MHD_destroy_post_processor`,
  plus the reference encoders used by the round-trip theorems.
-/
import Mhd.Model.PPMulti

namespace Mhd.PP

/-- `MHD_create_post_processor (connection, buffer_size, iter, cls)` where `ctype` is the
    value of the request's `Content-Type` header (a C string).  `none` = NULL.
    Precondition of the API (else `MHD_PANIC`): `bufferSize ≥ 256`. -/
def create (bufferSize : Nat) (ctype : Bytes) : Option PP :=
  let urlc := Mhd.Gen.PP.encUrl
  let mpc := Mhd.Gen.PP.encMultipart
  if eqCaselessN urlc ctype urlc.length then
    some { isUrl := true, bufferSize := bufferSize + Mhd.Gen.PP.bufferSlack }
  else if ¬ eqCaselessN mpc ctype mpc.length then none
  else
    match strstr sBoundaryEq (ctype.drop mpc.length) with
    | none => none
    | some r =>
      let b := r.drop sBoundaryEq.length
      let blen := b.length
      if blen < 2 ∨ blen * 2 + 2 > bufferSize then none
      else
        let b' := if b.head? = some cQuote ∧ b.getLast? = some cQuote then (b.drop 1).take (blen - 2) else b
        some { isUrl := false, bufferSize := bufferSize + Mhd.Gen.PP.bufferSlack, boundary := b' }

/-- `MHD_post_process (pp, post_data, post_data_len)`; result = `MHD_YES`? -/
def feed (pp : PP) (d : Bytes) : PP × Bool :=
  if pp.fault.isSome then (pp, false)
  else if d.length = 0 then (pp, true)
  else if pp.isUrl then postProcessUrlencoded pp d
  else postProcessMultipart pp d

/-- `MHD_destroy_post_processor (pp)`: the final state (for its event log) and the result -/
def destroy (pp : PP) : PP × Bool :=
  if pp.fault.isSome then (pp, false) else
  let pp1 := if pp.state = .processValue then (postProcessUrlencoded pp [cLF]).1 else pp
  (pp1, !(decide (pp1.xbuf.length > 0) || (pp1.state != .done && pp1.state != .init)))

/-- feed a list of chunks -/
def feedAll (pp : PP) (chunks : List Bytes) : PP :=
  chunks.foldl (fun p c => (feed p c).1) pp

/-- create, feed every chunk, destroy: the complete life of a post processor -/
def run (bufferSize : Nat) (ctype : Bytes) (chunks : List Bytes) : Option (PP × Bool) :=
  (create bufferSize ctype).map fun pp => destroy (feedAll pp chunks)

/-! ### Reference encoders -/

def hexDigitU (n : Nat) : UInt8 := if n < 10 then UInt8.ofNat (0x30 + n) else UInt8.ofNat (0x41 + n - 10)

def isUnreserved (c : UInt8) : Bool :=
  (0x30 ≤ c && c ≤ 0x39) || (0x41 ≤ c && c ≤ 0x5A) || (0x61 ≤ c && c ≤ 0x7A)
  || c == 0x2D || c == 0x2E || c == 0x5F || c == 0x7E

/-- one byte of a key or value in `application/x-www-form-urlencoded` -/
def encByte (c : UInt8) : Bytes :=
  if isUnreserved c then [c]
  else if c = cSp then [cPlus]
  else [cPct, hexDigitU (c.toNat / 16), hexDigitU (c.toNat % 16)]

def encStr (s : Bytes) : Bytes := (s.map encByte).flatten

/-- `k1=v1&k2=v2&…` -/
def encodeUrl : List (Bytes × Bytes) → Bytes
  | [] => []
  | [(k, v)] => encStr k ++ [cEq] ++ encStr v
  | (k, v) :: rest => encStr k ++ [cEq] ++ encStr v ++ [cAmp] ++ encodeUrl rest

/-- one part of a `multipart/form-data` body -/
structure Part where
  name : Bytes
  filename : Option Bytes := none
  ctype : Option Bytes := none
  enc : Option Bytes := none
  value : Bytes
  deriving DecidableEq, Repr

def sCRLF : Bytes := [cCR, cLF]

def encPartHeaders (p : Part) : Bytes :=
  ofStr "Content-Disposition: form-data; name=\"" ++ p.name ++ [cQuote]
  ++ (match p.filename with | some f => ofStr "; filename=\"" ++ f ++ [cQuote] | none => [])
  ++ sCRLF
  ++ (match p.ctype with | some t => ofStr "Content-Type: " ++ t ++ sCRLF | none => [])
  ++ (match p.enc with | some e => ofStr "Content-Transfer-Encoding: " ++ e ++ sCRLF | none => [])
  ++ sCRLF

/-- `--B CRLF headers CRLF value CRLF … --B-- CRLF` -/
def encodeMultipart (boundary : Bytes) : List Part → Bytes
  | [] => sDashDash ++ boundary ++ sDashDash ++ sCRLF
  | p :: rest =>
    sDashDash ++ boundary ++ sCRLF ++ encPartHeaders p ++ p.value ++ sCRLF ++ encodeMultipart boundary rest

/-- `needle` occurs in `hay` -/
def occursIn (needle : Bytes) : Bytes → Bool
  | [] => needle.isEmpty
  | c :: t => needle.isPrefixOf (c :: t) || occursIn needle t

/-- boundary-freshness side condition: the delimiter `CRLF--B` does not occur inside any value
    (nor across the end of a value and the delimiter that follows it) -/
def boundaryFresh (boundary : Bytes) (parts : List Part) : Bool :=
  parts.all fun p =>
    let delim := sCRLFDashDash ++ boundary
    ! occursIn delim (p.value ++ delim.take (delim.length - 1))

end Mhd.PP
