/-
  Model of src/microhttpd_ws/mhd_websocket.c, part 1: stream state, the incremental
  UTF-8 validator, payload copy (mask), allocation callbacks, the encoders and
  MHD_websocket_split_close_reason.  The decoder is in `Mhd.Model.WSDecode`.

  Conventions
  * a C buffer is a `List UInt8` holding the *whole allocation* (payload buffers are
    allocated with one extra terminator byte, exactly as the code does); `NULL` is `none`;
    a pointer into a buffer is (buffer, offset).  Every read and write is checked against
    the length of the allocation; an access outside yields `fault`, never a default.
  * `size_t` subtraction/addition that the code performs without a guard is taken modulo
    `W = 2^64` at exactly that place.
  * External calls are parameters of the state: `malloc/realloc (n)` succeed iff
    `n ≤ allocLimit` (the harness installs such callbacks), the random number generator
    for client masks hands out the scripted bytes `rng` (zeros when exhausted).
  * The enum values the literals below stand for are regenerated from the source into
    `Mhd.Gen.WS`; `gen_literals_agree` (end of this file) breaks the build when the source
    changes one of them.
  * `lg = true` selects the code as it was before the fixes F7/F7c (kept for the
    witness theorems of the defect); every theorem of C19 is about `lg = false`, the code
    after `build/fixes/F7.diff` + `F7c.diff`.
-/
import Mhd.Gen.WS

namespace Mhd.WS

/-- `size_t` is 64 bit in the configured build (`Mhd.Gen.WS.sizeofSizeT = 8`). -/
def W : Nat := 2 ^ 64

structure WS where
  flags        : Nat
  maxPayload   : Nat
  allocLimit   : Nat
  rng          : List UInt8
  step         : Nat := 0                      -- decode_step
  validity     : Nat := 1
  dataUtf8     : Nat := 0                      -- data_utf8_step
  ctrlUtf8     : Nat := 0                      -- control_utf8_step
  dataType     : Nat := 0
  dataStart    : Nat := 0                      -- data_payload_start - data_payload
  dataBuf      : Option (List UInt8) := none   -- data_payload (allocation incl. terminator)
  ctrlBuf      : Option (List UInt8) := none   -- control_payload
  hdrSize      : Nat := 0                      -- frame_header_size
  dataSize     : Nat := 0                      -- data_payload_size
  payloadSize  : Nat := 0
  payloadIndex : Nat := 0
  hdr          : List UInt8 := List.replicate 32 0   -- frame_header[32]
  maskKey      : List UInt8 := [0, 0, 0, 0]
  deriving Repr, DecidableEq

/-- `MHD_websocket_stream_init2`: `none` = PARAMETER_ERROR -/
def WS.init (flags maxPayload allocLimit : Nat) : Option WS :=
  if flags ≥ 8 ∨ maxPayload > 0x7FFFFFFFFFFFFFFF then none
  else some { flags := flags, maxPayload := maxPayload, allocLimit := allocLimit, rng := [] }

def WS.isClient (ws : WS) : Bool := ws.flags % 2 = 1
def WS.wantFragments (ws : WS) : Bool := ws.flags / 2 % 2 = 1
def WS.genCloseFlag (ws : WS) : Bool := ws.flags / 4 % 2 = 1

/-! ### bit fields of the two fixed header bytes (arithmetic form of the C `&` tests) -/
def rsvBits (b : UInt8) : Nat := b.toNat / 16 % 8       -- b & 0x70
def opcodeOf (b : UInt8) : Nat := b.toNat % 16          -- b & 0x0F
def finBit (b : UInt8) : Bool := 128 ≤ b.toNat          -- b & 0x80
def ctlBit (b : UInt8) : Bool := b.toNat / 8 % 2 = 1    -- b & 0x08
def len7 (b : UInt8) : Nat := b.toNat % 128             -- b & 0x7F

/-! ### MHD_websocket_check_utf8 -/

/-- one character of the validator; `none` = `MHD_WebSocket_UTF8Result_Invalid` -/
def utf8Next (step : Nat) (ch : UInt8) : Option Nat :=
  let c := ch.toNat
  match step with
  | 0 =>
    if c ≤ 0x7F then some 0
    else if 0xC2 ≤ c ∧ c ≤ 0xDF then some 1
    else if c = 0xE0 then some 2
    else if c = 0xED then some 3
    else if (0xE1 ≤ c ∧ c ≤ 0xEC) ∨ (0xEE ≤ c ∧ c ≤ 0xEF) then some 4
    else if c = 0xF0 then some 6
    else if c = 0xF4 then some 7
    else if 0xF1 ≤ c ∧ c ≤ 0xF3 then some 8
    else none
  | 2 => if 0xA0 ≤ c ∧ c ≤ 0xBF then some 5 else none
  | 3 => if 0x80 ≤ c ∧ c ≤ 0x9F then some 5 else none
  | 4 => if 0x80 ≤ c ∧ c ≤ 0xBF then some 5 else none
  | 6 => if 0x90 ≤ c ∧ c ≤ 0xBF then some 9 else none
  | 7 => if 0x80 ≤ c ∧ c ≤ 0x8F then some 9 else none
  | 8 => if 0x80 ≤ c ∧ c ≤ 0xBF then some 9 else none
  | 9 => if 0x80 ≤ c ∧ c ≤ 0xBF then some 10 else none
  | 1 => if 0x80 ≤ c ∧ c ≤ 0xBF then some 0 else none
  | 5 => if 0x80 ≤ c ∧ c ≤ 0xBF then some 0 else none
  | 10 => if 0x80 ≤ c ∧ c ≤ 0xBF then some 0 else none
  | _ => none

inductive Utf8Res where
  | invalid (off : Nat)     -- Invalid, `*buf_offset = off`
  | ok (step : Nat)         -- Valid (`step = 0`) or Incomplete; `*utf8_step = step`
  deriving Repr, DecidableEq

/-- the `for` loop of `MHD_websocket_check_utf8` over the bytes `bs`, first index `i` -/
def checkUtf8 : List UInt8 → Nat → Nat → Utf8Res
  | [], s, _ => .ok s
  | c :: cs, s, i =>
    match utf8Next s c with
    | none => .invalid i
    | some s' => checkUtf8 cs s' (i + 1)

inductive BufCheck where
  | res (r : Utf8Res)
  | fault
  deriving Repr, DecidableEq

/-- `MHD_websocket_check_utf8 (buf + start, n, …)` on an allocation `buf`: the loop reads
    `buf[start + i]` for `i < n` until it meets an invalid byte; reading outside the
    allocation is a fault. -/
def checkUtf8Buf (buf : List UInt8) (start n step : Nat) : BufCheck :=
  if start + n ≤ buf.length then .res (checkUtf8 ((buf.drop start).take n) step 0)
  else
    match checkUtf8 (buf.drop start) step 0 with
    | .invalid o => .res (.invalid o)
    | .ok _ => .fault

/-- the number of bytes of an incomplete sequence (`given_utf8` in decode_payload_complete) -/
def givenUtf8 (step : Nat) : Nat :=
  match step with
  | 1 | 2 | 3 | 4 | 6 | 7 | 8 => 1
  | 5 | 9 => 2
  | 10 => 3
  | _ => 0

/-! ### MHD_websocket_copy_payload -/

def xorMask (mask : List UInt8) (off : Nat) (src : List UInt8) : List UInt8 :=
  src.mapIdx (fun i b => b ^^^ (mask.getD ((i + off) % 4) 0))

/-- `0 == mask` ⇒ `memcpy`, else the byte loop with `mask_[(i + mask_offset) & 3]` -/
def copyPayload (src mask : List UInt8) (off : Nat) : List UInt8 :=
  if mask.all (· == 0) then src else xorMask mask off src

/-- write `bs` at `off` into the allocation `buf`; `none` = outside the allocation -/
def writeAt (buf : List UInt8) (off : Nat) (bs : List UInt8) : Option (List UInt8) :=
  if off + bs.length ≤ buf.length then some (buf.take off ++ bs ++ buf.drop (off + bs.length)) else none

/-! ### allocation callbacks -/

def alloc (ws : WS) (n : Nat) : Option (List UInt8) :=
  if n ≤ ws.allocLimit then some (List.replicate n 0) else none

def realloc (ws : WS) (old : Option (List UInt8)) (n : Nat) : Option (List UInt8) :=
  if n ≤ ws.allocLimit then
    let o := old.getD []
    some (o.take n ++ List.replicate (n - o.length) 0)
  else none

/-! ### encoders -/

/-- `MHD_websocket_generate_mask` -/
def genMask (ws : WS) : WS × List UInt8 :=
  ({ ws with rng := ws.rng.drop 4 }, (ws.rng.take 4 ++ List.replicate 4 0).take 4)

/-- `is_masked != 0 ? MHD_websocket_generate_mask (ws) : 0` -/
def maskFor (ws : WS) : WS × List UInt8 :=
  if ws.isClient then genMask ws else (ws, [0, 0, 0, 0])

def overheadSize (ws : WS) (n : Nat) : Nat :=
  2 + (if ws.isClient then 4 else 0) + (if 125 < n then (if 65535 < n then 8 else 2) else 0)

/-- big-endian bytes of `n`, `k` of them -/
def beBytes : Nat → Nat → List UInt8
  | 0, _ => []
  | k + 1, n => UInt8.ofNat (n / 256 ^ k % 256) :: beBytes k n

def beVal (bs : List UInt8) : Nat := bs.foldl (fun a b => a * 256 + b.toNat) 0

/-- second header byte and extended length as written by the encoders -/
def lenBytes (masked : Bool) (n : Nat) : List UInt8 :=
  let m : Nat := if masked then 128 else 0
  if n < 126 then [UInt8.ofNat (m + n)]
  else if n < 65536 then UInt8.ofNat (m + 126) :: beBytes 2 n
  else UInt8.ofNat (m + 127) :: beBytes 8 n

structure EncRes where
  ws     : WS
  st     : Int
  frame  : Option (List UInt8)     -- the allocation (frame + terminator)
  len    : Nat
  fault  : Bool := false
  deriving Repr, DecidableEq

/-- what the encoders write through `*(result++)`: first byte, length, mask, payload -/
def frameBytes (masked : Bool) (b0 : UInt8) (n : Nat) (mask body : List UInt8) : List UInt8 :=
  b0 :: lenBytes masked n ++ (if masked then mask else []) ++ body

/-- common tail of all encoders: mask, allocate, assemble.  `body off mask` gives the
    payload bytes as copied by the `MHD_websocket_copy_payload` calls. -/
def encodeFrame (ws : WS) (b0 : UInt8) (n : Nat) (body : List UInt8 → List UInt8) : EncRes :=
  let masked := ws.isClient
  let total := overheadSize ws n + n
  let mm := maskFor ws
  match alloc mm.1 (total + 1) with
  | none => { ws := mm.1, st := -3, frame := none, len := 0 }
  | some _ =>
    let bytes := frameBytes masked b0 n mm.2 (body mm.2)
    -- the code writes through `result++` into `total + 1` bytes: any disagreement
    -- between the computed overhead and what is written is an out-of-bounds write
    if bytes.length = total then { ws := mm.1, st := 0, frame := some (bytes ++ [0]), len := total }
    else { ws := mm.1, st := 0, frame := none, len := 0, fault := true }

/-- `MHD_websocket_encode_data` (fragmentation already validated by the callers) -/
def encodeData (ws : WS) (payload : List UInt8) (frag opcode : Nat) : EncRes :=
  let b0 : Option Nat := match frag with
    | 0 => some (0x80 + opcode) | 1 => some opcode | 2 => some 0 | 3 => some 0x80 | _ => none
  match b0 with
  | none => { ws := ws, st := 0, frame := none, len := 0, fault := true }
  | some b => encodeFrame ws (UInt8.ofNat b) payload.length (fun mask => copyPayload payload mask 0)

/-- `MHD_websocket_encode_binary` -/
def encodeBinary (ws : WS) (payload : List UInt8) (frag : Nat) : EncRes :=
  if frag > 3 then { ws := ws, st := -4, frame := none, len := 0 }
  else if payload.length > 0x7FFFFFFFFFFFFFFF then { ws := ws, st := -5, frame := none, len := 0 }
  else encodeData ws payload frag 2

/-- `MHD_websocket_encode_text`; `stepIn = none` is a NULL `utf8_step`.  Returns the
    result and the value left in `*utf8_step`. -/
def encodeText (ws : WS) (payload : List UInt8) (frag : Nat) (stepIn : Option Nat) : EncRes × Option Nat :=
  let step0 := if stepIn.isSome ∧ (frag = 1 ∨ frag = 0) then some 0 else stepIn
  if frag > 3 ∨ (frag ≠ 0 ∧ stepIn.isNone) then ({ ws := ws, st := -4, frame := none, len := 0 }, step0)
  else if payload.length > 0x7FFFFFFFFFFFFFFF then ({ ws := ws, st := -5, frame := none, len := 0 }, step0)
  else
    match checkUtf8 payload (step0.getD 0) 0 with
    | .invalid _ => ({ ws := ws, st := -6, frame := none, len := 0 }, step0)
    | .ok s =>
      let step1 := step0.map (fun _ => s)
      if s ≠ 0 ∧ frag = 0 then ({ ws := ws, st := -6, frame := none, len := 0 }, step1)
      else (encodeData ws payload frag 1, step1)

/-- `MHD_websocket_encode_ping_pong` -/
def encodePingPong (ws : WS) (payload : List UInt8) (opcode : Nat) : EncRes :=
  if 125 < payload.length then { ws := ws, st := -5, frame := none, len := 0 }
  else encodeFrame ws (UInt8.ofNat (0x80 + opcode)) payload.length (fun mask => copyPayload payload mask 0)

/-- `MHD_websocket_encode_close` -/
def encodeClose (ws : WS) (code : Nat) (reason : List UInt8) : EncRes :=
  if (code ≠ 0 ∧ code < 1000) ∨ (reason.length ≠ 0 ∧ code = 0) then { ws := ws, st := -4, frame := none, len := 0 }
  else if 123 < reason.length then { ws := ws, st := -5, frame := none, len := 0 }
  else if reason.length ≠ 0 ∧ checkUtf8 reason 0 0 ≠ .ok 0 then { ws := ws, st := -6, frame := none, len := 0 }
  else
    let n := if code ≠ 0 then 2 + reason.length else 0
    encodeFrame ws 0x88 n (fun mask =>
      if code ≠ 0 then copyPayload (beBytes 2 code) mask 0 ++ (if reason.length ≠ 0 then copyPayload reason mask 2 else [])
      else [])

/-- the `if (flags & GENERATE_CLOSE_FRAMES_ON_ERROR) MHD_websocket_encode_close (ws, code, 0, 0, payload, payload_len)`
    idiom of the decoder: new state (the rng may be consumed), `*payload`, `*payload_len` -/
def genClose (ws : WS) (code : Nat) : WS × Option (List UInt8) × Nat :=
  if ws.genCloseFlag then
    let r := encodeClose ws code []
    (r.ws, r.frame, r.len)
  else (ws, none, 0)

/-! ### MHD_websocket_split_close_reason -/

structure SplitRes where
  st     : Int
  code   : Nat
  reason : Option (Nat × List UInt8)    -- offset into the payload, bytes
  deriving Repr, DecidableEq

def splitCloseReason (payload : List UInt8) : SplitRes :=
  if payload.length = 1 then ⟨-1, 0, none⟩
  else if 125 < payload.length then ⟨-5, 0, none⟩
  else
    let code := if payload.length < 2 then 0 else beVal (payload.take 2)
    if payload.length ≤ 2 then ⟨0, code, none⟩ else ⟨0, code, some (2, payload.drop 2)⟩

/-- The literals used in this model are the values the source defines now. -/
theorem gen_literals_agree :
    Mhd.Gen.WS.flagClient = 1 ∧ Mhd.Gen.WS.flagWantFragments = 2 ∧ Mhd.Gen.WS.flagGenClose = 4 ∧
    Mhd.Gen.WS.flagMaskAll = 7 ∧
    Mhd.Gen.WS.fragNone = 0 ∧ Mhd.Gen.WS.fragFirst = 1 ∧ Mhd.Gen.WS.fragFollowing = 2 ∧ Mhd.Gen.WS.fragLast = 3 ∧
    Mhd.Gen.WS.stOk = 0 ∧ Mhd.Gen.WS.stText = 1 ∧ Mhd.Gen.WS.stBinary = 2 ∧ Mhd.Gen.WS.stClose = 8 ∧
    Mhd.Gen.WS.stPing = 9 ∧ Mhd.Gen.WS.stPong = 10 ∧
    Mhd.Gen.WS.stTextFirst = 0x11 ∧ Mhd.Gen.WS.stBinaryFirst = 0x12 ∧ Mhd.Gen.WS.stTextNext = 0x21 ∧
    Mhd.Gen.WS.stBinaryNext = 0x22 ∧ Mhd.Gen.WS.stTextLast = 0x41 ∧ Mhd.Gen.WS.stBinaryLast = 0x42 ∧
    Mhd.Gen.WS.stProtocolError = -1 ∧ Mhd.Gen.WS.stStreamBroken = -2 ∧ Mhd.Gen.WS.stMemoryError = -3 ∧
    Mhd.Gen.WS.stParameterError = -4 ∧ Mhd.Gen.WS.stMaximumSizeExceeded = -5 ∧ Mhd.Gen.WS.stUtf8EncodingError = -6 ∧
    Mhd.Gen.WS.crNoReason = 0 ∧ Mhd.Gen.WS.crProtocolError = 1002 ∧ Mhd.Gen.WS.crMalformedUtf8 = 1007 ∧
    Mhd.Gen.WS.crMaxPayload = 1009 ∧
    Mhd.Gen.WS.validInvalid = 0 ∧ Mhd.Gen.WS.validValid = 1 ∧ Mhd.Gen.WS.validOnlyControl = 2 ∧
    Mhd.Gen.WS.u8Normal = 0 ∧ Mhd.Gen.WS.u8Utf2Tail1of1 = 1 ∧ Mhd.Gen.WS.u8Utf3Tail1_1of2 = 2 ∧
    Mhd.Gen.WS.u8Utf3Tail2_1of2 = 3 ∧ Mhd.Gen.WS.u8Utf3Tail_1of2 = 4 ∧ Mhd.Gen.WS.u8Utf3Tail_2of2 = 5 ∧
    Mhd.Gen.WS.u8Utf4Tail1_1of3 = 6 ∧ Mhd.Gen.WS.u8Utf4Tail2_1of3 = 7 ∧ Mhd.Gen.WS.u8Utf4Tail_1of3 = 8 ∧
    Mhd.Gen.WS.u8Utf4Tail_2of3 = 9 ∧ Mhd.Gen.WS.u8Utf4Tail_3of3 = 10 ∧
    Mhd.Gen.WS.u8ResInvalid = 0 ∧ Mhd.Gen.WS.u8ResValid = 1 ∧ Mhd.Gen.WS.u8ResIncomplete = 2 ∧
    Mhd.Gen.WS.opContinuation = 0 ∧ Mhd.Gen.WS.opText = 1 ∧ Mhd.Gen.WS.opBinary = 2 ∧
    Mhd.Gen.WS.opClose = 8 ∧ Mhd.Gen.WS.opPing = 9 ∧ Mhd.Gen.WS.opPong = 10 ∧
    Mhd.Gen.WS.dsStart = 0 ∧ Mhd.Gen.WS.dsLength1ofX = 1 ∧ Mhd.Gen.WS.dsLength1of2 = 2 ∧
    Mhd.Gen.WS.dsLength2of2 = 3 ∧ Mhd.Gen.WS.dsLength1of8 = 4 ∧ Mhd.Gen.WS.dsLength8of8 = 11 ∧
    Mhd.Gen.WS.dsMask1Of4 = 12 ∧ Mhd.Gen.WS.dsMask4Of4 = 15 ∧ Mhd.Gen.WS.dsHeaderCompleted = 16 ∧
    Mhd.Gen.WS.dsPayloadOfDataFrame = 17 ∧ Mhd.Gen.WS.dsPayloadOfControlFrame = 18 ∧
    Mhd.Gen.WS.dsBrokenStream = 99 ∧
    Mhd.Gen.WS.frameHeaderBytes = 32 ∧ Mhd.Gen.WS.sizeofSizeT = 8 := by
  repeat' constructor

end Mhd.WS
