/-
  C06 — event-loop model, part 2: the rounds.

  resume_suspended_connections, new_connections_list_process_,
  MHD_cleanup_connections, internal_get_fdset2, MHD_get_timeout64 (which of
  "0 / a deadline / no timeout" it answers), internal_run_from_select with
  MHD_run_from_select2's prefix, MHD_poll_all, MHD_epoll.

  The three connection traversals follow the `prev` / `prevE` pointers.  Whether
  the pointer is read before or after the handlers run is a parameter
  (`savePrev`); the round functions take it from the regenerated
  `Mhd.Gen.Loop.*SavesPrev`, i.e. from the source text of /repo.

  Not modelled (stated in the check's assumptions): the listen socket / accept
  (the harness uses MHD_USE_NO_LISTEN_SOCKET), ITC, TLS and upgraded
  connections (urh lists), thread-per-connection, the connection limit.  The
  two timeout lists are C10's subject: with connection_timeout = 0 and no
  per-connection override the default-timeout list has exactly the order of
  `connections`, which is what the timeout scan of MHD_epoll uses here.
-/
import Mhd.Model.Loop

namespace Mhd.Loop
open Mhd.Gen.Loop

variable {W : Type}

/-- readiness handed to a round: connection ids per fd_set / revents class -/
structure Ready where
  r : List CId := []
  w : List CId := []
  e : List CId := []
  deriving Repr, DecidableEq

/-! ### between the traversals -/

/-- one iteration of the loop in resume_suspended_connections (upgrade branch not modelled) -/
def resumeOne (d : Daemon W) (c : Conn W) : Daemon W :=
  if !c.resuming then d else
  let c1 : Conn W := { c with resuming := false }
  let c2 : Conn W :=
    if d.epoll then { c1 with inEready := true, epSusp := false,
                              loc := { c1.loc with rdReady := true, wrReady := true } }
    else c1
  { d with susp := eraseConn d.susp c.id,
           conns := c2 :: d.conns,
           eready := if d.epoll then c.id :: d.eready else d.eready }

/-- resume_suspended_connections: tail → head over `suspended`, `prev` saved first -/
def resumeSuspended (d : Daemon W) : Daemon W :=
  let work := if d.resuming then d.susp.reverse else []
  work.foldl resumeOne { d with resuming := false }

/-- new_connection_process_, success path without thread-per-connection -/
def newConnOne (d : Daemon W) (c : Conn W) : Daemon W :=
  let c1 : Conn W := { c with loc := { c.loc with eli := .read }, inEpollSet := d.epoll }
  { d with conns := c1 :: d.conns }

/-- new_connections_list_process_: detach the list, process in FIFO order (from the tail) -/
def newConnsProcess (d : Daemon W) : Daemon W :=
  d.newc.reverse.foldl newConnOne { d with newc := [], haveNew := false }

/-- MHD_cleanup_connections -/
def cleanupConns (d : Daemon W) : Daemon W :=
  { d with eready := d.eready.filter (fun id => (findConn d.cleanup id).isNone), cleanup := [] }

/-- MHD_add_connection from the application thread of a thread-safe daemon -/
def addConn (d : Daemon W) (c : Conn W) : Daemon W :=
  { d with newc := c :: d.newc, haveNew := true }

/-- MHD_resume_connection -/
def resumeReq (d : Daemon W) (id : CId) : Daemon W :=
  { d with susp := d.susp.map (fun c => if c.id = id then { c with resuming := true } else c),
           resuming := true }

/-! ### what the daemon asks the application to wait for -/

/-- internal_get_fdset2 (tail → head, saves prev) -/
def getFdset (d : Daemon W) : Ready :=
  if d.shutdown then {} else
  d.conns.reverse.foldl (fun acc c =>
    match c.loc.eli with
    | .read | .processRead => { acc with r := acc.r ++ [c.id], e := acc.e ++ [c.id] }
    | .write => { acc with w := acc.w ++ [c.id], e := acc.e ++ [c.id] }
    | .process => { acc with e := acc.e ++ [c.id] }
    | .cleanup => acc) {}

inductive Hint where
  | none | zero | deadline
  deriving DecidableEq, Repr

/-- MHD_get_timeout64: MHD_NO / 0 / a value computed from the timeout lists (C10) -/
def getTimeout (d : Daemon W) : Hint :=
  if d.dap || !d.cleanup.isEmpty || d.resuming || d.haveNew || d.shutdown then .zero
  else if d.epoll && !d.eready.isEmpty then .zero
  else if d.conns.any (fun c => c.tmo != 0) then .deadline
  else .none

/-! ### select -/

def rdyR (rdy : Ready) (id : CId) : Bool := rdy.r.contains id
def rdyW (rdy : Ready) (id : CId) : Bool := rdy.w.contains id
def rdyE (rdy : Ready) (id : CId) : Bool := rdy.e.contains id

/-- the loop `for (pos = connections_tail; NULL != pos; pos = pos->prev)` of
    internal_run_from_select.  `savePrev = false`: the pointer is read after
    call_handlers returned (in whichever list `pos` is then). -/
def selectTrav (ops : Ops W) (savePrev : Bool) (rdy : Ready) :
    Nat → Option CId → Daemon W → Daemon W
  | _, none, d => d
  | 0, some _, d => { d with fault := some "select traversal: out of fuel" }
  | fuel + 1, some p, d =>
    match d.lookup p, d.prevOf p with
    | some (c, _), some saved =>
      let d1 := if c.sockValid then callHandlers ops d p (rdyR rdy p) (rdyW rdy p) (rdyE rdy p) else d
      if savePrev then selectTrav ops savePrev rdy fuel saved d1
      else
        match d1.prevOf p with
        | some nxt => selectTrav ops savePrev rdy fuel nxt d1
        | none => { d1 with fault := some "select traversal: pos->prev of a freed connection" }
    | _, _ => { d with fault := some "select traversal: pos is in no list" }

/-- internal_run_from_select (without the resume prefix) -/
def internalRunFromSelect (ops : Ops W) (savePrev : Bool) (d : Daemon W) (rdy : Ready) : Daemon W :=
  let d1 := { d with dap := false }
  let d2 := if d1.haveNew then newConnsProcess d1 else d1
  let d3 := selectTrav ops savePrev rdy (d2.conns.length + 1) (tailId d2.conns) d2
  cleanupConns d3

/-- MHD_run_from_select2 for a select daemon -/
def runFromSelectWith (ops : Ops W) (savePrev : Bool) (d : Daemon W) (rdy : Ready) : Daemon W :=
  let d1 := if d.allowSuspend then resumeSuspended d else d
  internalRunFromSelect ops savePrev d1 rdy

/-- … as the code in /repo does it now -/
def runFromSelect (ops : Ops W) (d : Daemon W) (rdy : Ready) : Daemon W :=
  runFromSelectWith ops selectSavesPrev d rdy

/-! ### poll -/

/-- the handler loop of MHD_poll_all: index guard, fd check, `prev` saved first -/
def pollTrav (ops : Ops W) (savePrev : Bool) (parr : List CId) (rdy : Ready) :
    Nat → Nat → Option CId → Daemon W → Daemon W
  | _, _, none, d => d
  | 0, _, some _, d => { d with fault := some "poll traversal: out of fuel" }
  | fuel + 1, i, some p, d =>
    match d.prevOf p with
    | none => { d with fault := some "poll traversal: pos is in no list" }
    | some saved =>
      if i ≥ parr.length then d                                   -- break
      else if parr[i]? ≠ some p then
        pollTrav ops savePrev parr rdy fuel i saved d               -- continue (nothing was called)
      else
        let d1 := callHandlers ops d p (rdyR rdy p) (rdyW rdy p) (rdyE rdy p)
        if savePrev then pollTrav ops savePrev parr rdy fuel (i + 1) saved d1
        else
          match d1.prevOf p with
          | some nxt => pollTrav ops savePrev parr rdy fuel (i + 1) nxt d1
          | none => { d1 with fault := some "poll traversal: pos->prev of a freed connection" }

/-- MHD_poll_all followed by MHD_cleanup_connections (as MHD_run_wait / the polling thread do).
    `rdy` = the revents poll() delivered for the array built before the call. -/
def pollAllWith (ops : Ops W) (savePrev : Bool) (d : Daemon W) (rdy : Ready) : Daemon W :=
  let d1 := if d.allowSuspend then resumeSuspended d else d
  let parr := d1.conns.reverse.map (·.id)
  let d2 := if d1.haveNew then newConnsProcess d1 else d1
  let d3 := { d2 with dap := false }
  let d4 := pollTrav ops savePrev parr rdy (d3.conns.length + 1) 0 (tailId d3.conns) d3
  cleanupConns d4

def pollAll (ops : Ops W) (d : Daemon W) (rdy : Ready) : Daemon W :=
  pollAllWith ops pollSavesPrev d rdy

/-! ### poll with the internal thread

  MHD_polling_thread runs `MHD_poll_all (daemon, -1); MHD_cleanup_connections` for ever.  The
  thread is blocked inside poll(): seen from there one cycle is "poll returns — new connections —
  reset of data_already_pending — handler traversal over the array built before the call — cleanup —
  (next call of MHD_poll_all:) resume — build the array — compute the timeout — poll".  The
  timeout argument is the daemon's own answer to "may I sleep?": 0 if a connection was resumed
  just now or a connection of the array is in CLEANUP, else MHD_get_timeout64. -/

/-- what MHD_poll_all does before it calls poll(): the resumed daemon and the timeout class -/
def pollPark (d : Daemon W) : Daemon W × Hint :=
  let d1 := if d.allowSuspend then resumeSuspended d else d
  let resumed := d1.conns.length != d.conns.length
  let hint := if resumed || d1.conns.any (fun c => c.loc.eli.isCleanup) then Hint.zero else getTimeout d1
  (d1, hint)

/-- from one poll() to the next; `d` is the daemon as it is while the thread sits in poll()
    (resume already done, array = `d.conns`), `rdy` the revents -/
def pollThreadCycleWith (ops : Ops W) (savePrev : Bool) (d : Daemon W) (rdy : Ready) : Daemon W × Hint :=
  let parr := d.conns.reverse.map (·.id)
  let d2 := if d.haveNew then newConnsProcess d else d
  let d3 := { d2 with dap := false }
  let d4 := pollTrav ops savePrev parr rdy (d3.conns.length + 1) 0 (tailId d3.conns) d3
  pollPark (cleanupConns d4)

def pollThreadCycle (ops : Ops W) (d : Daemon W) (rdy : Ready) : Daemon W × Hint :=
  pollThreadCycleWith ops pollSavesPrev d rdy

/-! ### epoll -/

/-- one epoll_event for a connection: EPOLLIN, EPOLLOUT, EPOLLPRI|EPOLLERR|EPOLLHUP -/
structure EpEv where
  id : CId
  inp : Bool
  out : Bool
  err : Bool
  deriving Repr, DecidableEq

/-- the epoll_state bits of a connection after the event-loop body of MHD_epoll handled one event
    for it, statement by statement:
      PRI|ERR|HUP:  ERROR, and IN_EREADY;
      otherwise EPOLLIN:  READ_READY, and IN_EREADY if it waits for reading or has buffer space;
                EPOLLOUT: WRITE_READY, and IN_EREADY if it waits for writing -/
def evConn (c : Conn W) (ev : EpEv) : Conn W :=
  if ev.err then { c with epError := true, inEready := true }
  else
    let c1 : Conn W := if ev.inp then { c with loc := { c.loc with rdReady := true } } else c
    let c2 : Conn W := if ev.inp && (c1.loc.eli.hasRead || c1.loc.bufSpace) then { c1 with inEready := true } else c1
    let c3 : Conn W := if ev.out then { c2 with loc := { c2.loc with wrReady := true } } else c2
    if ev.out && c3.loc.eli.isWrite then { c3 with inEready := true } else c3

/-- the body of the event loop in MHD_epoll for an event of a normal connection; every
    EDLL_insert there is guarded by "not yet IN_EREADY" and sets the bit, so the list gets the
    connection exactly when the bit goes from 0 to 1 (`syncEready`) -/
def applyEvent (d : Daemon W) (ev : EpEv) : Daemon W :=
  match findConn d.conns ev.id with
  | none => d      -- only connections in the epoll set (active ones) get events
  | some c =>
    let c' := evConn c ev
    syncEready (d.place c' .active .active) c.id c.inEready c'.inEready

/-- "Handle timed-out connections" in MHD_epoll for the default-timeout list
    (here: the order of `connections`): idle from the tail until the first
    connection that is not closed afterwards; prevX saved first. -/
def timeoutScan (ops : Ops W) : Nat → Option CId → Daemon W → Daemon W
  | _, none, d => d
  | 0, some _, d => { d with fault := some "timeout scan: out of fuel" }
  | fuel + 1, some p, d =>
    match prevIn d.conns p with
    | none => { d with fault := some "timeout scan: pos not in the timeout list" }
    | some saved =>
      let d1 := idleAt ops d p
      match d1.lookup p with
      | none => { d1 with fault := some "timeout scan: connection vanished" }
      | some (c, _) => if c.loc.st ≠ stClosed then d1 else timeoutScan ops fuel saved d1

def prevInIds : List CId → CId → Option (Option CId)
  | [], _ => none
  | x :: rest, id => if x = id then some none else go x rest id
where
  go (p : CId) : List CId → CId → Option (Option CId)
    | [], _ => none
    | x :: rest, id => if x = id then some (some p) else go x rest id

/-- `pos->prevE`: NULL when `pos` is not (any more) in the EDLL -/
def prevE (d : Daemon W) (id : CId) : Option CId :=
  match prevInIds d.eready id with
  | some r => r
  | none => none

/-- the read test in that post-processing, as the source text has it -/
def readWait (e : Eli) : Bool := if ereadyDropExactRead then e.isRead else e.hasRead

/-- the post-processing of one eready entry after call_handlers -/
def ereadyAfter (d : Daemon W) (id : CId) : Daemon W :=
  match d.lookup id with
  | none => d
  | some (c, wh) =>
    if c.inEready && !c.epSusp &&
       ((readWait c.loc.eli && !c.loc.rdReady) || (c.loc.eli.isWrite && !c.loc.wrReady) || c.loc.eli.isCleanup)
    then (d.place { c with inEready := false } wh wh |> fun d1 => { d1 with eready := d1.eready.erase id })
    else d

/-- "process events for connections": tail → head over eready -/
def ereadyTrav (ops : Ops W) (savePrev : Bool) : Nat → Option CId → Daemon W → Daemon W
  | _, none, d => d
  | 0, some _, d => { d with fault := some "eready traversal: out of fuel" }
  | fuel + 1, some p, d =>
    match d.lookup p with
    | none => { d with fault := some "eready traversal: connection is in no list" }
    | some (c, _) =>
      let saved := prevE d p
      let d1 := callHandlers ops d p c.loc.rdReady c.loc.wrReady c.epError
      let d2 := ereadyAfter d1 p
      ereadyTrav ops savePrev fuel (if savePrev then saved else prevE d2 p) d2

/-- MHD_epoll followed by MHD_cleanup_connections.  `evs` = what epoll_wait delivered. -/
def epollRoundWith (ops : Ops W) (savePrev : Bool) (d : Daemon W) (evs : List EpEv) : Daemon W :=
  let d1 := if d.allowSuspend then resumeSuspended d else d
  let d2 := { d1 with dap := false }
  let d3 := evs.foldl applyEvent d2
  let d4 := if d3.haveNew then newConnsProcess d3 else d3
  let d5 := timeoutScan ops (d4.conns.length + 1) (tailId d4.conns) d4
  let d6 := ereadyTrav ops savePrev (d5.eready.length + 1) d5.eready.getLast? d5
  cleanupConns d6

def epollRound (ops : Ops W) (d : Daemon W) (evs : List EpEv) : Daemon W :=
  epollRoundWith ops epollSavesPrev d evs

end Mhd.Loop
