/-
  The standard instantiation of the decisions `Mhd.ConnRead.Cfg` leaves open: the framing decision of
  `parse_connection_headers` (C03's `decideBody`), `keepalive_possible` (the `Connection` tokens) and the
  take pattern of a scripted access handler — all computed from the request as it lies in the arena.

  The internal look-ups (`MHD_lookup_connection_value_n (c, MHD_HEADER_KIND, …)`,
  `MHD_lookup_header_token_ci`) consult elements of kind MHD_HEADER_KIND only: `fieldsOf` is the list of
  header-kind elements; a query argument, cookie or trailer named like a header field is not in it.
-/
import Mhd.Model.ConnRead

namespace Mhd.ConnRead
open Mhd.Req

/-- the fields of the request as C03's framing decision wants them -/
def fieldsOf (buf : Mhd.Req.Bytes) (elems : List Mhd.Req.Elem) : List Mhd.Framing.Field :=
  elems.filterMap fun e =>
    if e.kind == Mhd.Gen.Http.kindHeader then
      let sl (x : Mhd.Req.Slice) : List UInt8 := (buf.extract x.off (x.off + x.len)).toList
      some ⟨sl e.key, (e.value.map sl).getD []⟩
    else none

/-- `MHD_IS_HTTP_VER_1_1_COMPAT` on the version string `HTTP/1.x` -/
def http11Of (buf : Mhd.Req.Bytes) (version : Nat) : Bool :=
  buf.getD (version + 5) 0 == 49 && buf.getD (version + 7) 0 != 48

def cookieName : List UInt8 := [67, 111, 111, 107, 105, 101]

/-- the decisions of `parse_connection_headers` (C03: `decideBody`) and `keepalive_possible`, `need_100_continue`, the
    scripted access handler -/
def expectName : List UInt8 := [69, 120, 112, 101, 99, 116]
def tok100 : List UInt8 := [49, 48, 48, 45, 99, 111, 110, 116, 105, 110, 117, 101]

/-- `pat`: bytes taken per upload call (`none` = MHD_NO), `first`/`final`: what the first / final handler call does -/
def mkCfg (lvl : Int) (pat : List (Option Nat)) (first : HRes := .cont) (final : Bool := true) : Mhd.ConnRead.Cfg :=
  { frame := fun buf rq =>
      let fs := fieldsOf buf rq.elems
      if (Mhd.Framing.lookup fs cookieName).isSome then .stop
      else match Mhd.Framing.decideBody lvl (http11Of buf rq.version) fs with
        | .none => .none
        | .len n => .len n
        | .chunked _ => .chunked
        | .reject st => .reject st,
    keepAlive := fun buf rq =>
      let fs := fieldsOf buf rq.elems
      let h11 := http11Of buf rq.version
      let mustClose := match Mhd.Framing.decideBody lvl h11 fs with
        | .chunked mc => mc
        | _ => false
      if mustClose then false
      else if Mhd.Framing.lookupToken fs Mhd.Gen.Framing.hdrConnection Mhd.Gen.Framing.tokClose then false
      else if !h11 then Mhd.Framing.lookupToken fs Mhd.Gen.Framing.hdrConnection Mhd.Gen.Framing.tokKeepAlive
      else true,
    first := fun _ _ => first,
    final := fun _ _ => final,
    expect100 := fun buf rq =>
      http11Of buf rq.version &&
        (match Mhd.Framing.lookup (fieldsOf buf rq.elems) expectName with
         | some v => Mhd.Framing.eqCI v tok100
         | none => false),
    take := fun k _ => if pat.isEmpty then 1000000000 else (pat.getD (k % pat.length) (some 0)).getD 0,
    refuse := fun k => if pat.isEmpty then false else (pat.getD (k % pat.length) (some 0)).isNone }


end Mhd.ConnRead
