/-
  Model of the request-target side of Digest authentication
  (src/microhttpd/digestauth.c `check_uri_match`, `check_argument_match`,
  `test_header`; src/microhttpd/internal.c `MHD_parse_arguments_`,
  `MHD_unescape_plus`; src/microhttpd/daemon.c `unescape_wrapper`).

  Representation.  The C functions work in place on a zero-terminated copy of
  the credential's `uri`.  The model works on the *content* of such strings:
  `zcut s` is what a C string function sees of the bytes `s` followed by a NUL.
  The two in-place percent-decoders (`MHD_str_pct_decode_in_place_strict_` /
  `_lenient_`, verified against their reference functions by C17) are the pure
  functions `pctS` / `pctL` here; `unescape_wrapper` chooses between them by
  `0 <= daemon->client_discipline`.

  The request's own arguments (`connection->rq.headers_received`, entries of
  kind `MHD_GET_ARGUMENT_KIND`, in list order) are an *input* of the model
  (`List (Bytes × Option Bytes)`, `none` = `value == NULL`); how the request
  line parser produced them is the subject of C02.  Core Lean only.
-/
import Mhd.Model.AuthInfo

namespace Mhd.Dauth
open Mhd.Auth

abbrev Bytes := List UInt8

/-- what `strlen`/`strchr` see of `s` followed by a NUL -/
def zcut : Bytes → Bytes
  | [] => []
  | c :: r => if c = 0 then [] else c :: zcut r

/-- strict percent-decoding; `none` = broken encoding -/
def pctS : Bytes → Option Bytes
  | [] => some []
  | c :: r =>
    if c = 37 then
      match r with
      | a :: b :: r' =>
        match hexVal a, hexVal b with
        | some h, some l => (pctS r').map (UInt8.ofNat (h * 16 + l) :: ·)
        | _, _ => none
      | _ => none
    else (pctS r).map (c :: ·)

/-- lenient percent-decoding: a '%' that is not followed by two hexadecimal
    digits is copied as it is -/
def pctL : Bytes → Bytes
  | [] => []
  | c :: r =>
    if c = 37 then
      match r with
      | a :: b :: r' =>
        match hexVal a, hexVal b with
        | some h, some l => UInt8.ofNat (h * 16 + l) :: pctL r'
        | _, _ => c :: pctL (a :: b :: r')
      | [x] => c :: pctL [x]
      | [] => [c]
    else c :: pctL r

/-- `daemon->unescape_callback (cls, connection, val)` (= `unescape_wrapper`) on
    the C string with content `zcut s`: the decoded string (its length is the
    return value).  `strict` = `0 <= daemon->client_discipline`; on broken
    encoding the strict decoder truncates the string to "" and returns 0. -/
def unescape (strict : Bool) (s : Bytes) : Bytes :=
  if strict then (pctS (zcut s)).getD [] else pctL (zcut s)

/-- `MHD_unescape_plus` -/
def plusToSpace (s : Bytes) : Bytes := s.map fun c => if c = 43 then 32 else c

/-- split at the first occurrence of `sep` (`strchr`): the part before it and,
    if it occurs, the part after it -/
def splitFirst (sep : UInt8) : Bytes → Bytes × Option Bytes
  | [] => ([], none)
  | c :: r =>
    if c = sep then ([], some r)
    else
      let x := splitFirst sep r
      (c :: x.1, x.2)

/-- all pieces between occurrences of `sep` (k occurrences give k + 1 pieces) -/
def splitAll (sep : UInt8) : Bytes → List Bytes
  | [] => [[]]
  | c :: r =>
    if c = sep then [] :: splitAll sep r
    else
      match splitAll sep r with
      | [] => [[c]]
      | p :: ps => (c :: p) :: ps

/-- the pieces `MHD_parse_arguments_` looks at: the loop `while ('\0' != args[0])`
    ends when nothing is left, so an empty *last* piece is not reported, while an
    empty piece followed by '&' is (as a key of length 0 without value) -/
def argPieces (s : Bytes) : List Bytes :=
  let l := splitAll 38 s
  if l.getLast? = some [] then l.dropLast else l

/-- one reported key/value pair: split at the first '=', '+' → ' ', unescape -/
def argItem (strict : Bool) (piece : Bytes) : Bytes × Option Bytes :=
  match splitFirst 61 piece with
  | (k, none) => (unescape strict (plusToSpace k), none)
  | (k, some v) => (unescape strict (plusToSpace k), some (unescape strict (plusToSpace v)))

/-- the sequence of callback invocations of `MHD_parse_arguments_ (…, args, cb, cls)`
    for the C string with content `zcut s` -/
def parseArgs (strict : Bool) (s : Bytes) : List (Bytes × Option Bytes) :=
  (argPieces (zcut s)).map (argItem strict)

/-- what `test_header` compares of a pair: key bytes and value bytes, where a
    missing value and an empty value are the same (`value_size == 0`) -/
def argNorm (kv : Bytes × Option Bytes) : Bytes × Bytes := (kv.1, kv.2.getD [])

/-- `check_argument_match`: every reported pair equals the request argument at the
    same position, and the numbers of pairs are equal -/
def argsMatch (cred req : List (Bytes × Option Bytes)) : Bool :=
  cred.map argNorm == req.map argNorm

/-- `check_uri_match (connection, uri, uri_len)`: `uri` = the unquoted `uri`
    parameter, `url` = `connection->rq.url[0 .. url_len)`, `reqArgs` = the request's
    GET arguments -/
def checkUriMatch (strict : Bool) (uri url : Bytes) (reqArgs : List (Bytes × Option Bytes)) : Bool :=
  let sp := splitFirst 63 uri                -- memchr (uri, '?', uri_len)
  let path := unescape strict sp.1
  if path ≠ url then false
  else
    -- args = qmark + 1, or the terminating NUL of the decoded path
    let args := match sp.2 with
      | some a => a
      | none => []
    argsMatch (parseArgs strict args) reqArgs

end Mhd.Dauth
