/-
  Operation-sequence layer over `Mhd.Model.Pool`: the pool together with the
  *abstract* set of live blocks that a client of the API holds.  This is the
  executable `step` used by the correspondence driver and the object of the
  invariant theorems in `Mhd.Props.C08`.
-/
import Mhd.Model.Pool

namespace Mhd.Pool

/-- a block the API user holds: offset, length, allocated from the front? -/
structure Blk where
  off : Nat
  len : Nat
  front : Bool
  deriving Repr, DecidableEq

structure St where
  p : Pool
  live : List Blk
  deriving Repr

inductive Op
  | alloc (n : Nat) (fromEnd : Bool)
  | tryAlloc (n : Nat)
  /-- reallocate live block `i` (a front block) to `n` bytes; `none` = NULL,0 -/
  | realloc (i : Option Nat) (n : Nat)
  | dealloc (i : Nat)
  /-- reset keeping the first `copy` bytes of live block `i` -/
  | reset (i : Option Nat) (copy : Nat) (n : Nat)
  deriving Repr

inductive Res
  | block (off len : Nat)
  | null
  | nullNeed (need : Nat)
  | unit
  | badOp
  deriving Repr, DecidableEq

def St.init (allocSize : Nat) : St := { p := create allocSize, live := [] }

def step (s : St) : Op → St × Res
  | .alloc n fromEnd =>
    match allocate s.p n fromEnd with
    | (p', some off) => ({ p := p', live := s.live ++ [⟨off, n, !fromEnd⟩] }, .block off n)
    | (p', none) => ({ s with p := p' }, .null)
  | .tryAlloc n =>
    match tryAlloc s.p n with
    | (p', some off, _) => ({ p := p', live := s.live ++ [⟨off, n, false⟩] }, .block off n)
    | (p', none, some need) => ({ s with p := p' }, .nullNeed need)
    | (p', none, none) => ({ s with p := p' }, .null)
  | .realloc none n =>
    match reallocate s.p none 0 n with
    | (p', some off) => ({ p := p', live := s.live ++ [⟨off, n, true⟩] }, .block off n)
    | (p', none) => ({ s with p := p' }, .null)
  | .realloc (some i) n =>
    match s.live[i]? with
    | none => (s, .badOp)
    | some b =>
      if !b.front then (s, .badOp) else
      match reallocate s.p (some b.off) b.len n with
      | (p', some off) => ({ p := p', live := s.live.eraseIdx i ++ [⟨off, n, true⟩] }, .block off n)
      | (p', none) => ({ s with p := p' }, .null)
  | .dealloc i =>
    match s.live[i]? with
    | none => (s, .badOp)
    | some b => ({ p := deallocate s.p (some b.off) b.len, live := s.live.eraseIdx i }, .unit)
  | .reset none _ n =>
    if n > s.p.size then (s, .badOp) else
    ({ p := reset s.p none 0 n, live := [⟨0, n, true⟩] }, .block 0 n)
  | .reset (some i) copy n =>
    match s.live[i]? with
    | none => (s, .badOp)
    | some b =>
      if copy > b.len ∨ copy > n ∨ n > s.p.size then (s, .badOp) else
      ({ p := reset s.p (some b.off) copy n, live := [⟨0, n, true⟩] }, .block 0 n)

def run (s : St) (ops : List Op) : St := ops.foldl (fun s o => (step s o).1) s

end Mhd.Pool
