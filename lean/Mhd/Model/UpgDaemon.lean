/-
  Daemon level of the upgrade model (C20): several connections, the daemon's `resuming`
  and `shutdown` flags, scripted rounds, application actions on handed-over sockets,
  MHD_stop_daemon.

  Every connection carries its own event log.  A round is described by a *schedule*
  (which connections the polling function reports, and how many bytes one recv / send
  moves): the theorems quantify over every schedule, so every traversal order and every
  readiness pattern of select / poll / epoll is covered (including rounds in which the
  traversal stops early).
-/
import Mhd.Model.Upg

namespace Mhd.Upg

structure Daemon where
  base : Cfg                      -- daemon options, parser, responses (`beh` of it is unused)
  behs : Nat → Nat → Beh          -- handler script: connection, request number
  conn : Nat → Conn
  ids : List Nat                  -- connections ever added, in order of arrival
  resuming : Bool := false        -- daemon->resuming
  shutdown : Bool := false        -- daemon->shutdown (set by MHD_stop_daemon)

inductive Op
  | arrive (c : Nat)
  | clientSend (c : Nat) (bs : Bytes)
  | round (sched : Nat → Option IoAct)
  | upClose (c : Nat)
  | upRecv (c : Nat) (max : Nat)
  | upSend (c : Nat) (bs : Bytes)
  | stop

/-- configuration as seen by connection `c` -/
def Daemon.cfg (d : Daemon) (c : Nat) : Cfg := { d.base with beh := d.behs c }

def Daemon.allowUpgrade (d : Daemon) : Bool := d.base.allowUpgrade

def Daemon.init (base : Cfg) (behs : Nat → Nat → Beh) : Daemon :=
  { base := base, behs := behs, conn := fun _ => {}, ids := [] }

def setConn (f : Nat → Conn) (c : Nat) (x : Conn) : Nat → Conn :=
  fun k => if k = c then x else f k

/-- the application still owns a handed-over socket: upgraded, CLOSE not yet issued -/
def Conn.appOwns (x : Conn) : Bool :=
  match x.urh with
  | some u => ! u.wasClosed
  | none => false

def step (d : Daemon) : Op → Daemon
  | .arrive c =>
    if d.shutdown then d else
    { d with conn := setConn d.conn c (arriveConn (d.conn c)),
             ids := if c ∈ d.ids then d.ids else d.ids ++ [c] }
  | .clientSend c bs => { d with conn := setConn d.conn c (clientSendConn (d.conn c) bs) }
  | .round sched =>
    if d.shutdown then d else
    let scan := d.allowUpgrade && d.resuming
    let res := fun c => roundConn (d.cfg c) d.shutdown scan (sched c) (d.conn c)
    { d with conn := fun c => (res c).1,
             resuming := (if d.allowUpgrade then false else d.resuming) || d.ids.any fun c => (res c).2 }
  | .upClose c =>
    if d.shutdown then d else
    let (x, r) := upgradeActionClose (d.conn c)
    { d with conn := setConn d.conn c x, resuming := d.resuming || r }
  | .upRecv c max =>
    if (d.conn c).appOwns then { d with conn := setConn d.conn c (appRecvConn (d.conn c) max) }
    else { d with conn := setConn d.conn c ((d.conn c).emit (.fault "app-read-without-socket")) }
  | .upSend c bs =>
    if (d.conn c).appOwns then { d with conn := setConn d.conn c (appSendConn (d.conn c) bs) }
    else { d with conn := setConn d.conn c ((d.conn c).emit (.fault "app-write-without-socket")) }
  | .stop =>
    if d.shutdown then d else
    { d with shutdown := true, resuming := false,
             conn := fun c => stopConn (d.cfg c) (d.conn c) }

def run (d : Daemon) (ops : List Op) : Daemon := ops.foldl step d

end Mhd.Upg
