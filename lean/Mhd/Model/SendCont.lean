/-
  C07 — the interim "HTTP/1.1 100 Continue" message as a send phase of its own
  (connection.c: MHD_CONNECTION_CONTINUE_SENDING in MHD_connection_handle_write and
  MHD_connection_handle_idle).

  `handle_write` sends `&HTTP_100_CONTINUE[continue_message_write_offset]`, the rest of the
  message, with MHD_send_data_ and ACCUMULATES what was taken in the offset; `handle_idle`
  switches to BODY_RECEIVING when the accumulated offset equals the length of the message.
  An exchange with `Expect: 100-continue` whose body is held back therefore produces the
  stream  interim message ++ final reply.
-/
import Mhd.Model.SendConn

namespace Mhd.Send
open Mhd.Gen.Send

inductive CSt where
  | continueSending | bodyReceiving | closed
  deriving DecidableEq, Repr, Inhabited

structure Cont where
  st : CSt
  off : Nat              -- continue_message_write_offset
  out : Bytes            -- ghost: what the socket took
  fault : Bool           -- the offset points behind the message
  deriving Repr, Inhabited

/-- HEADERS_PROCESSED → CONTINUE_SENDING (need_100_continue, nothing of the body buffered yet) -/
def contInit : Cont := { st := .continueSending, off := 0, out := [], fault := false }

/-- CONTINUE_SENDING case of `MHD_connection_handle_write` (connection.c:6762) -/
def contWrite (c : Cont) (s : SockRes) : Cont :=
  match c.st with
  | .continueSending =>
    if http100Continue.length < c.off then { c with st := .closed, fault := true }
    else
      let o := sendData false (http100Continue.drop c.off) s
      let c1 := { c with out := c.out ++ o.wire }
      match o.ret with
      | .error .again => c1
      | .error _ => { c1 with st := .closed }                 -- CONNECTION_CLOSE_ERROR
      | .ok n => { c1 with off := c1.off + n }
  | _ => c

/-- CONTINUE_SENDING case of `MHD_connection_handle_idle` (connection.c:7426) -/
def contIdle (c : Cont) : Cont :=
  match c.st with
  | .continueSending => if c.off = http100Continue.length then { c with st := .bodyReceiving } else c
  | _ => c

/-- one turn of the event loop while the interim message is being sent -/
structure CRound where
  wr : Bool := true
  s : SockRes := .full
  deriving Repr, Inhabited

def contRound (c : Cont) (x : CRound) : Cont := contIdle (if x.wr then contWrite c x.s else c)

def contRun (c : Cont) (xs : List CRound) : Cont := xs.foldl contRound c

/-- An exchange with `Expect: 100-continue`: the interim phase with its fault script, then — only if
    the interim message went out completely and the connection was not closed — the final reply with
    its own fault script (the request body is received in between: `upRun`).  Result: every byte the
    socket took, in order. -/
def exchangeOut (r : Resp) (allocStart : Bool) (cs : List CRound) (xs : List Round) : Bytes :=
  let c := contRun contInit cs
  c.out ++ (if c.st = .bodyReceiving then (run r (startReply r allocStart) xs).out else [])

end Mhd.Send
