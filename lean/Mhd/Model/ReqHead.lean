/-
  The request head as a whole: request line → target → field lines → cookies,
  and the view the application gets (`appView`): the strings behind the
  pointers passed to the access handler and iterated by
  `MHD_get_connection_values_n`, plus `header_size`.
-/
import Mhd.Model.ReqCookie

namespace Mhd.Req
open Mhd.Gen

/-- bytes behind a slice (region 0 = read buffer, 1 = cookie copy, 2 = static "") -/
def sliceView (buf cpy : Bytes) (s : Slice) : List UInt8 :=
  match s.region with
  | 0 => sliceBytes buf s
  | 1 => sliceBytes cpy s
  | _ => []

/-- what the application observes of one request head -/
structure HeadView where
  method : List UInt8
  url : List UInt8
  version : List UInt8
  /-- `MHD_get_connection_values_n` over all kinds, in list order: kind, key, value (`none` = NULL) -/
  kv : List (Nat × List UInt8 × Option (List UInt8))
  headerSize : Nat
  /-- the raw target given to the URI-log callback -/
  rawTarget : List UInt8
  httpVer : Int
  deriving Repr, DecidableEq

/-- C string at `off`: bytes up to the first NUL (`strlen` semantics, used by the
    handler for method / url / version) -/
def cstrAt (buf : Bytes) (off : Nat) : List UInt8 :=
  ((buf.extract off buf.size).toList).takeWhile (· != 0)

/-- a completely parsed head, before the framing decisions of `parse_connection_headers` -/
structure Head where
  t : Target
  h : Headers
  ck : Cookies
  deriving Repr, DecidableEq

def Head.view (x : Head) : HeadView :=
  { method := cstrAt x.h.buf x.t.method, url := cstrAt x.h.buf x.t.url,
    version := cstrAt x.h.buf x.t.version,
    kv := x.ck.elems.map fun e =>
      (e.kind, sliceView x.h.buf x.ck.cpy e.key, e.value.map (sliceView x.h.buf x.ck.cpy)),
    headerSize := x.h.headerSize, rawTarget := x.t.rawTarget, httpVer := x.t.httpVer }

/-- `MHD_IS_HTTP_VER_1_1_COMPAT` -/
def ver11Compat (v : Int) : Bool := v == Http.ver11 || v == Http.ver12_19

/-- the `Host` rule of `parse_connection_headers` -/
def hostMissing (lvl : Int) (x : Head) : Bool :=
  Discipline.pch_host_required lvl && ver11Compat x.t.httpVer &&
    (lookupElem x.h.buf x.ck.elems Http.kindHeader Http.hdrHostBytes).isNone

inductive HeadRes where
  | more
  /-- refused: `some code` = error reply, `none` = connection closed without reply -/
  | err (reply : Option Nat)
  | ok (x : Head)
  | fault (f : Fault)
  deriving Repr

/-- the whole head parsed from a stream given at once (one-shot) -/
def parseHead (lvl : Int) (poolSize rbSize : Nat) (stream : Bytes) (rb : Nat) : HeadRes :=
  let F := RLFlags.ofLevel lvl
  let strict := Discipline.unesc_strict lvl
  match getRequestLineOuter F strict poolSize ((rlScanner F).run (RL.init stream rb)) with
  | .more _ => .more
  | .err e => .err e.reply
  | .fault f => .fault f
  | .ok t =>
    let hs0 := HS.ofTarget t (rbSize - (t.rb - rb))
    match (hsScanner (FLFlags.ofLevel lvl) t.rb).run hs0 with
    | .more _ => .more
    | .fault f => .fault f
    | .done (.err _) => .err (some Http.codeBadRequest)
    | .done (.ok h) =>
      match parseCookieHeader (CKFlags.ofLevel lvl) h.buf h.elems with
      | .error f => .fault f
      | .ok ck => .ok ⟨t, h, ck⟩

end Mhd.Req
