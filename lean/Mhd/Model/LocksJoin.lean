/-
  C18 — thread-per-connection mode: the "collect per-connection threads" loop of
  close_all_connections() (daemon.c), with the iteration discipline as a parameter that is
  *regenerated* from the source (`Mhd.Gen.Locks.unlockLoops`, tools/locktable.py).  Core Lean only.

      pos = daemon->connections_tail;
      while (NULL != pos) {
        if (! pos->thread_joined) {
          unlock (cleanup_connection_mutex);
          join (pos->tid);                       -- blocks until the thread of `pos` has ended
          lock (cleanup_connection_mutex);
          pos->thread_joined = true;
          pos = daemon->connections_tail;        -- rereadHead
          continue;
        }
        pos = pos->prev;
      }
      …
      while (NULL != (pos = daemon->connections_tail)) {
        if (! pos->thread_joined) MHD_PANIC ("Failed to join a thread.");
        close_connection (pos);
      }
      MHD_cleanup_connections (daemon);          -- joins what is in the cleanup list and not yet joined

  While the mutex is released for the join, *any* other connection thread may run its exit path
  (cleanup_connection(): under the mutex, remove the connection from the `connections` DLL and
  insert it at the head of the `cleanup` DLL).  The adversary is the schedule: for every window,
  the list of threads that run their exit path during it, in order (the joined thread itself runs
  its exit path in the window at the latest — that is what join waits for).

  Lists are written tail first (the walk `pos = pos->prev` goes from the tail to the head;
  DLL_insert inserts at the head = appends at the end of the list).
-/
import Mhd.Gen.Locks

namespace Mhd.StopJoin
open Mhd.Gen.Locks

structure JS where
  conn : List Nat        -- `connections` DLL (ids), tail first
  cleanup : List Nat     -- `cleanup` DLL, tail first
  joined : List Nat      -- connections with `thread_joined == true`
  deriving DecidableEq, Repr

/-- exit path of the thread of connection `c` (atomic: under cleanup_connection_mutex) -/
def exitThread (s : JS) (c : Nat) : JS :=
  if c ∈ s.conn then { s with conn := s.conn.filter (· != c), cleanup := s.cleanup ++ [c] } else s

/-- element that follows `c` (towards the head) -/
def after (c : Nat) : List Nat → Option Nat
  | [] => none
  | x :: xs => if x = c then xs.head? else after c xs

/-- `c->prev`, in whichever list the connection is *now* -/
def prevOf (s : JS) (c : Nat) : Option Nat :=
  if c ∈ s.conn then after c s.conn else after c s.cleanup

/-- what happens while the mutex is released around `join (p)` -/
def window (s : JS) (p : Nat) (evs : List Nat) : JS :=
  exitThread (evs.foldl exitThread s) p

/-- the join loop; `none` = out of fuel -/
def joinLoop (d : CursorKind) : Nat → JS → Option Nat → List (List Nat) → Option JS
  | 0, _, _, _ => none
  | _ + 1, s, none, _ => some s
  | fuel + 1, s, some p, sched =>
    if p ∈ s.joined then joinLoop d fuel s (prevOf s p) sched
    else
      let saved := prevOf s p                          -- `prev = pos->prev` read before the unlock
      let s' := window s p (sched.headD [])
      let s'' : JS := { s' with joined := p :: s'.joined }
      let next := match d with
        | .rereadHead => s''.conn.head?                -- `pos = daemon->connections_tail`
        | .freshLinkOfCarriedNode => prevOf s'' p      -- `pos = pos->prev` after the re-lock
        | .carriedValue => saved                       -- `pos = prev`
      joinLoop d fuel s'' next sched.tail

inductive Outcome where
  | ok (s : JS)          -- the final loop found every remaining connection joined
  | panic (c : Nat)      -- MHD_PANIC ("Failed to join a thread."): connection `c` is still in the list, its thread never joined
  | nofuel
  deriving DecidableEq, Repr

/-- join loop followed by the test of the "now that we're alone" loop -/
def closeAllTpc (d : CursorKind) (conns : List Nat) (sched : List (List Nat)) : Outcome :=
  match joinLoop d (2 * conns.length + 2) ⟨conns, [], []⟩ conns.head? sched with
  | none => .nofuel
  | some s =>
    match s.conn.find? (fun c => !s.joined.contains c) with
    | some c => .panic c
    | none => .ok s

/-- the threads that MHD_cleanup_connections() joins (`! pos->thread_joined`) -/
def joinedInCleanup (s : JS) : List Nat := s.cleanup.filter (fun c => !s.joined.contains c)

/-! ## the regenerated facts -/

abbrev Loop := String × Nat × Lock × Field × CursorKind

def cursorOf (loops : List Loop) (fn : String) (l : Field) : Option CursorKind :=
  (loops.find? (fun x => x.1 == fn && x.2.2.2.1 == l)).map (fun x => x.2.2.2.2)

/-- the one loop that may carry its *node* (never a saved link) across the window: the walk over the
    suspended list in close_all_connections() (TLS-upgraded connections in thread-per-connection mode).
    Hand-written exception, part of the trusted base: at that point the list holds upgraded connections
    only (`mhd_assert (NULL != pos->urh)`), whose threads skip the usual clean-up and never unlink
    their connection — only the daemon thread itself (resume_suspended_connections) removes them. -/
def pinnedNodeLoop (fn : String) (l : Field) : Bool :=
  fn == "close_all_connections" && l == Field.susp_list

/-- **no list cursor is carried across an unlock … lock window**: after the window every loop reads its
    position again from the list head/tail under the mutex (the one pinned-node exception re-reads the
    link under the mutex); a value read before the unlock is never used as the next position. -/
def cursorRuleOk (loops : List Loop) : Bool :=
  loops.all (fun x => x.2.2.2.2 == CursorKind.rereadHead ||
    (x.2.2.2.2 == CursorKind.freshLinkOfCarriedNode && pinnedNodeLoop x.1 x.2.2.2.1))

/-- the discipline of the join loop over the `connections` list, as found in the source
    (`carriedValue` if the loop is not there at all: the worst case) -/
def joinLoopCursor (loops : List Loop) : CursorKind :=
  (cursorOf loops "close_all_connections" Field.conn_list).getD CursorKind.carriedValue

end Mhd.StopJoin
