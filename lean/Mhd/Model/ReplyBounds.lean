/-
  The write-buffer discipline of the reply-head builder (`build_header_response`, `add_user_headers` of
  connection.c), one level finer than C04's model `Mhd.Reply.headSegs` (read-only here): there each guarded
  write is a `Seg` (space demanded, bytes written) and the application's own `Connection:` header with MHD's
  token merged in (`close, ` / `Keep-Alive, `) is ONE segment.  The C code writes that line in three pieces
  under two checks — `name: ` after `buf_size < *ppos + el_size` (the plain line), the token after
  `el_size += strlen (token); buf_size < initial_pos + el_size` (the whole line), then value and CRLF with no
  further check.  Here every space check and every (unchecked) write is an action of its own, and the run
  records the highest buffer index written (`hw`): a builder whose checks do not cover its writes has
  `hw > bufSize` — the write buffer is the last front block of the arena, what lies behind it is the red zone
  resp. the blocks allocated from the arena's end.

  `recheck`: the regenerated behaviour probe `Mhd.Gen.ReplyBounds.mergeTokenRechecksLine` — the check in front of
  the token covers the rest of the line (token + value + CRLF), not just the token.
-/
import Mhd.Model.Reply

namespace Mhd.ReplyBounds
open Mhd.Reply Mhd.ReplyStr Mhd.Resp

inductive Act where
  /-- `if (buf_size < pos + need) return MHD_NO;` -/
  | check (need : Nat)
  /-- bytes stored at `pos`, `pos` advanced — no check of its own -/
  | write (bs : Bytes)
  deriving Repr, DecidableEq

structure WB where
  /-- the bytes written so far (`pos = buf.length`) -/
  buf : Bytes
  /-- one more than the highest index written so far -/
  hw : Nat
  deriving Repr, DecidableEq

/-- run the actions; the flag tells whether the builder completed (`false`: refused, MHD_NO) -/
def runActs (bufSize : Nat) : List Act → WB → WB × Bool
  | [], w => (w, true)
  | .check n :: rest, w => if bufSize < w.buf.length + n then (w, false) else runActs bufSize rest w
  | .write bs :: rest, w => runActs bufSize rest ⟨w.buf ++ bs, max w.hw (w.buf.length + bs.length)⟩

/-- a guarded write of C04's model: one check, one write -/
def segActs (s : Seg) : List Act := [.check s.need, .write s.piece]

/-- one user header line in `add_user_headers`; `pre` = the token MHD merges in front of the value -/
def userFieldActs (recheck : Bool) (name pre value : Bytes) : List Act :=
  [.check (name.length + 2 + value.length + 2), .write (name ++ colonSp)] ++
  (if pre.isEmpty then []
   else [.check (if recheck then pre.length + value.length + 2 else pre.length), .write pre]) ++
  [.write (value ++ crlf)]

/-- the `for` loop of `add_user_headers` (same control flow as `Mhd.Reply.userFieldsLoop`) -/
def userActsLoop (recheck insanity : Bool) : List Hdr → UH → List Act
  | [], _ => []
  | h :: rest, st =>
    if h.kind != .header then userActsLoop recheck insanity rest st
    else if st.filterTE && nameIs h.name sTransferEncoding then
      userActsLoop recheck insanity rest { st with filterTE := false }
    else if st.filterCL && nameIs h.name sContentLength then
      userActsLoop recheck insanity rest { st with filterCL := ! insanity }
    else
      let pre : Bytes := if st.addClose then sCloseSep else if st.addKA then sKeepAliveSep else []
      userFieldActs recheck h.name pre h.value ++
        userActsLoop recheck insanity rest { st with addClose := false, addKA := false }

def userActs (recheck : Bool) (c : Conn) (r : Resp) (ka : KA) (props : Props) : List Act :=
  userActsLoop recheck r.flags.insanity r.hdrs
    (userInit r (! props.chunked) (! props.useReplyBodyHeaders && ! r.flags.insanity)
       (useConnClose ka) (useConnKAlive c r ka))

/-- the segments of `build_header_response` in front of / behind the user headers -/
def preSegs (c : Conn) (r : Resp) (rcode : Nat) (icy : Bool) (date : Option Bytes) (ka : KA) : List Seg :=
  [segStr (versionStr r icy), ⟨5, [32] ++ codeDigits rcode ++ [32]⟩, segStr (reasonPhrase rcode), ⟨2, crlf⟩]
  ++ dateSegs c r date ++ (connFields c r ka).map fieldSeg

def postSegs (r : Resp) (props : Props) : List Seg := bodyHdrSegs r props ++ [⟨2, crlf⟩]

/-- every check and every write of `build_header_response`, in order -/
def headActs (recheck : Bool) (c : Conn) (r : Resp) (rcode : Nat) (icy : Bool) (date : Option Bytes) (ka : KA)
    (props : Props) : List Act :=
  (preSegs c r rcode icy date ka).flatMap segActs ++ userActs recheck c r ka props ++ (postSegs r props).flatMap segActs

end Mhd.ReplyBounds
