/-
  C06 — event-loop model, part 4: the end of MHD_connection_handle_idle for a connection whose reply has just been
  sent completely and that is kept alive (case MHD_CONNECTION_FULL_REPLY_SENT).

    connection_reset ():  state = INIT; event_loop_info = (read_buffer_offset != 0) ? PROCESS : READ
    continue              -- the state loop goes on: case INIT, get_request_line looks at the buffered bytes
      (or: the loop is left here — the regenerated `Mhd.Gen.Loop.replySentContinues` says which)
    MHD_connection_update_event_loop_info ():  the wait class of the state (regenerated table; INIT: READ)

  `w : Bool` of the local state = "the read buffer holds bytes the parser has not looked at yet" (pipelined next
  request).  Where the parser gets with them is the parameter `parse`.
-/
import Mhd.Model.Loop

namespace Mhd.Loop
open Mhd.Gen.Loop

/-- connection_reset (reuse = true) -/
def resetLoc (l : Local Bool) : Local Bool :=
  { l with st := stInit, eli := if l.w then .process else .read }

/-- case INIT / REQ_LINE_RECEIVING … of the state loop on a non-empty buffer: the bytes are examined -/
def examineLoc (parse : Local Bool → Nat) (l : Local Bool) : Local Bool :=
  if l.w then { l with st := parse l, w := false } else l

/-- MHD_connection_update_event_loop_info: the wait class of the state, from the regenerated table -/
def tableEli (l : Local Bool) : Local Bool :=
  if l.st ∈ writeStates then { l with eli := .write }
  else if l.st ∈ processStates then { l with eli := .process }
  else if l.st ∈ readStates then { l with eli := .read }
  else l

def replySentIdleWith (continues : Bool) (parse : Local Bool → Nat) (l : Local Bool) : Local Bool :=
  let l1 := resetLoc l
  tableEli (if continues then examineLoc parse l1 else l1)

/-- … as the code in /repo does it -/
def replySentIdle (parse : Local Bool → Nat) (l : Local Bool) : Local Bool :=
  replySentIdleWith replySentContinues parse l

end Mhd.Loop
