/-
  Model of src/microhttpd/mhd_str.c, part 2: percent-decoding (copying and
  in place), quoted-string comparison / unquoting / quoting, base64 decoding.

  The model follows the code *with the repairs of build/fixes/F12.diff
  (`3 > len - r`), F17a.diff (in-place lenient re-processes the two characters
  after an invalid '%') and F17d.diff (in-place strict truncates on failure)*.
-/
import Mhd.Model.Str

namespace Mhd.Str

/-! ### percent decoding, copying -/

/-- one iteration of either loop of `MHD_str_pct_decode_strict_n_`; `check` is
    true in the second loop (taken when `buf_size < pct_encoded_len`), which
    tests `w >= buf_size` first -/
def pctStrictStep (s : Bytes) (check : Bool) (st : RW) : M (RW ⊕ (Nat × Bytes)) := do
  if st.r < s.length then
    let chr ← rd s st.r
    if check ∧ st.w ≥ st.out.length then return .inr (0, st.out)
    if chr = 0x25 then
      if 3 > s.length - st.r then return .inr (0, st.out)
      else
        let c1 ← rd s (st.r + 1)
        let c2 ← rd s (st.r + 2)
        let h := toxdigitvalue c1
        let l := toxdigitvalue c2
        if h < 0 ∨ l < 0 then return .inr (0, st.out)
        let o ← wr st.out st.w (hexByte h l)
        return .inl ⟨st.r + 3, st.w + 1, o⟩
    else
      let o ← wr st.out st.w chr
      return .inl ⟨st.r + 1, st.w + 1, o⟩
  else return .inr (st.w, st.out)

/-- `MHD_str_pct_decode_strict_n_ (pct_encoded, len, decoded, buf_size)` -/
def pctDecodeStrictN (s out : Bytes) : M (Nat × Bytes) :=
  iter (pctStrictStep s (decide (out.length < s.length))) (s.length + 1) ⟨0, 0, out⟩

structure RWB where
  r : Nat
  w : Nat
  out : Bytes
  broken : Bool

def pctLenientStep (s : Bytes) (check : Bool) (st : RWB) : M (RWB ⊕ (Nat × Bytes × Bool)) := do
  if st.r < s.length then
    let chr ← rd s st.r
    if check ∧ st.w ≥ st.out.length then return .inr (0, st.out, st.broken)
    if chr = 0x25 then
      if 3 > s.length - st.r then
        let o ← wr st.out st.w chr
        return .inl ⟨st.r + 1, st.w + 1, o, true⟩
      else
        let c1 ← rd s (st.r + 1)
        let c2 ← rd s (st.r + 2)
        let h := toxdigitvalue c1
        let l := toxdigitvalue c2
        if h < 0 ∨ l < 0 then
          -- r -= 2; copy '%' as is
          let o ← wr st.out st.w chr
          return .inl ⟨st.r + 1, st.w + 1, o, true⟩
        else
          let o ← wr st.out st.w (hexByte h l)
          return .inl ⟨st.r + 3, st.w + 1, o, st.broken⟩
    else
      let o ← wr st.out st.w chr
      return .inl ⟨st.r + 1, st.w + 1, o, st.broken⟩
  else return .inr (st.w, st.out, st.broken)

/-- `MHD_str_pct_decode_lenient_n_`; result `(return value, buffer, *broken_encoding)` -/
def pctDecodeLenientN (s out : Bytes) : M (Nat × Bytes × Bool) :=
  iter (pctLenientStep s (decide (out.length < s.length))) (s.length + 1) ⟨0, 0, out, false⟩

/-! ### percent decoding, in place (z-terminated buffer) -/

structure IP where
  r : Nat
  w : Nat
  buf : Bytes

/-- `str[0] = 0; return 0;` (F17d) -/
def ipFail (buf : Bytes) : M (IP ⊕ (Nat × Bytes)) := do
  let b ← wr buf 0 0
  return .inr (0, b)

def pctInPlaceStrictStep (st : IP) : M (IP ⊕ (Nat × Bytes)) := do
  let c0 ← rd st.buf st.r
  if c0 ≠ 0 then
    let chr := c0
    if chr = 0x25 then
      let d1 ← rd st.buf (st.r + 1)
      if d1 = 0 then ipFail st.buf
      else
        let d2 ← rd st.buf (st.r + 2)
        if d2 = 0 then ipFail st.buf
        else
          let h := toxdigitvalue d1
          let l := toxdigitvalue d2
          if h < 0 ∨ l < 0 then ipFail st.buf
          else
            let b ← wr st.buf st.w (hexByte h l)
            return .inl ⟨st.r + 3, st.w + 1, b⟩
    else
      let b ← wr st.buf st.w chr
      return .inl ⟨st.r + 1, st.w + 1, b⟩
  else
    let b ← wr st.buf st.w 0
    return .inr (st.w, b)

/-- `MHD_str_pct_decode_in_place_strict_ (str)` -/
def pctDecodeInPlaceStrict (buf : Bytes) : M (Nat × Bytes) :=
  iter pctInPlaceStrictStep (buf.length + 1) ⟨0, 0, buf⟩

structure IPB where
  r : Nat
  w : Nat
  buf : Bytes
  broken : Bool

def pctInPlaceLenientStep (st : IPB) : M (IPB ⊕ (Nat × Bytes × Bool)) := do
  let c0 ← rd st.buf st.r
  if c0 ≠ 0 then
    let chr := c0
    if chr = 0x25 then
      let d1 ← rd st.buf (st.r + 1)
      if d1 = 0 then
        let b ← wr st.buf st.w chr
        let b ← wr b (st.w + 1) 0
        return .inr (st.w + 1, b, true)
      else
        let d2 ← rd st.buf (st.r + 2)
        if d2 = 0 then
          let b ← wr st.buf st.w chr
          let b ← wr b (st.w + 1) d1
          let b ← wr b (st.w + 2) 0
          return .inr (st.w + 2, b, true)
        else
          let h := toxdigitvalue d1
          let l := toxdigitvalue d2
          if h < 0 ∨ l < 0 then
            -- F17a: copy '%' as is, `r -= 2`
            let b ← wr st.buf st.w chr
            return .inl ⟨st.r + 1, st.w + 1, b, true⟩
          else
            let b ← wr st.buf st.w (hexByte h l)
            return .inl ⟨st.r + 3, st.w + 1, b, st.broken⟩
    else
      let b ← wr st.buf st.w chr
      return .inl ⟨st.r + 1, st.w + 1, b, st.broken⟩
  else
    let b ← wr st.buf st.w 0
    return .inr (st.w, b, st.broken)

/-- `MHD_str_pct_decode_in_place_lenient_ (str, &broken)` -/
def pctDecodeInPlaceLenient (buf : Bytes) : M (Nat × Bytes × Bool) :=
  iter pctInPlaceLenientStep (buf.length + 1) ⟨0, 0, buf, false⟩

/-! ### quoted strings -/

structure IJ where
  i : Nat
  j : Nat

/-- the `for` loop of `MHD_str_equal_quoted_bin_n` / `…_caseless_quoted_bin_n`
    (`eq` is `==` / `charsequalcaseless`) -/
def equalQuotedStep (eq : UInt8 → UInt8 → Bool) (q u : Bytes) (st : IJ) : M (IJ ⊕ Bool) := do
  if q.length > st.i ∧ u.length > st.j then
    let c ← rd q st.i
    let i ← (if c = 0x5c then
              if q.length = st.i + 1 then (pure none : M (Option Nat)) else pure (some (st.i + 1))
             else pure (some st.i))
    match i with
    | none => return .inr false
    | some i =>
      let a ← rd q i
      let b ← rd u st.j
      if !eq a b then return .inr false
      return .inl ⟨i + 1, st.j + 1⟩
  else return .inr (decide (q.length = st.i ∧ u.length = st.j))

def equalQuotedGen (eq : UInt8 → UInt8 → Bool) (q u : Bytes) : M Bool :=
  if u.length < q.length / 2 then .ok false
  else iter (equalQuotedStep eq q u) (q.length + 1) ⟨0, 0⟩

/-- `MHD_str_equal_quoted_bin_n` -/
def equalQuotedBinN := equalQuotedGen (· == ·)
/-- `MHD_str_equal_caseless_quoted_bin_n` -/
def equalCaselessQuotedBinN := equalQuotedGen charsEqualCaseless

def unquoteStep (q : Bytes) (st : RW) : M (RW ⊕ (Nat × Bytes)) := do
  if q.length > st.r then
    let c ← rd q st.r
    let r ← (if c = 0x5c then
              if q.length = st.r + 1 then (pure none : M (Option Nat)) else pure (some (st.r + 1))
             else pure (some st.r))
    match r with
    | none => return .inr (0, st.out)
    | some r =>
      let a ← rd q r
      let o ← wr st.out st.w a
      return .inl ⟨r + 1, st.w + 1, o⟩
  else return .inr (st.w, st.out)

/-- `MHD_str_unquote (quoted, quoted_len, result)`; `result` is `out`
    (documented size ≥ quoted_len) -/
def unquote (q out : Bytes) : M (Nat × Bytes) :=
  iter (unquoteStep q) (q.length + 1) ⟨0, 0, out⟩

def isQuoteSpecial (c : UInt8) : Bool := c == 0x5c || c == 0x22

def quoteFastStep (u : Bytes) (st : RW) : M (RW ⊕ (Nat × Bytes)) := do
  if u.length > st.r then
    let chr ← rd u st.r
    if isQuoteSpecial chr then
      let o ← wr st.out st.w 0x5c
      let o ← wr o (st.w + 1) chr
      return .inl ⟨st.r + 1, st.w + 2, o⟩
    else
      let o ← wr st.out st.w chr
      return .inl ⟨st.r + 1, st.w + 1, o⟩
  else return .inr (st.w, st.out)

def quoteSlowStep (u : Bytes) (st : RW) : M (RW ⊕ (Nat × Bytes)) := do
  if u.length > st.r then
    if st.out.length ≤ st.w then return .inr (0, st.out)
    let chr ← rd u st.r
    if isQuoteSpecial chr then
      let o ← wr st.out st.w 0x5c
      if o.length ≤ st.w + 1 then return .inr (0, o)
      let o ← wr o (st.w + 1) chr
      return .inl ⟨st.r + 1, st.w + 2, o⟩
    else
      let o ← wr st.out st.w chr
      return .inl ⟨st.r + 1, st.w + 1, o⟩
  else return .inr (st.w, st.out)

/-- `MHD_str_quote (unquoted, unquoted_len, result, buf_size)`;
    `unquoted_len * 2` is a `size_t` product -/
def quote (u out : Bytes) : M (Nat × Bytes) :=
  if (u.length * 2) % 2 ^ 64 ≤ out.length then
    iter (quoteFastStep u) (u.length + 1) ⟨0, 0, out⟩
  else if u.length > out.length then .ok (0, out)
  else iter (quoteSlowStep u) (u.length + 1) ⟨0, 0, out⟩

/-! ### base64 -/

/-- `map[c]` (MHD_BASE64_FUNC_VERSION 3: 256 entries of type `int`) -/
def b64Value (c : UInt8) : Int := Mhd.Gen.Str.base64Map.getD c.toNat (-1)

def u8 (v : Int) : UInt8 := UInt8.ofNat v.toNat

structure B64St where
  i : Nat
  j : Nat
  out : Bytes

/-- main loop over all four-character groups but the last -/
def b64LoopStep (s : Bytes) (st : B64St) : M (B64St ⊕ (Bool × B64St)) := do
  if st.i < s.length - 4 then
    let v1 := b64Value (← rd s st.i)
    let v2 := b64Value (← rd s (st.i + 1))
    let v3 := b64Value (← rd s (st.i + 2))
    let v4 := b64Value (← rd s (st.i + 3))
    if v1 < 0 ∨ v2 < 0 ∨ v3 < 0 ∨ v4 < 0 then return .inr (false, st)
    let o ← wr st.out st.j ((u8 v1 <<< 2) ||| (u8 v2 >>> 4))
    let o ← wr o (st.j + 1) ((u8 v2 <<< 4) ||| (u8 v3 >>> 2))
    let o ← wr o (st.j + 2) ((u8 v3 <<< 6) ||| u8 v4)
    return .inl ⟨st.i + 4, st.j + 3, o⟩
  else return .inr (true, st)

/-- the last four-character block -/
def b64Last (s : Bytes) (st : B64St) : M (Nat × Bytes) := do
  let v1 := b64Value (← rd s st.i)
  let v2 := b64Value (← rd s (st.i + 1))
  let v3 := b64Value (← rd s (st.i + 2))
  let v4 := b64Value (← rd s (st.i + 3))
  if v1 < 0 ∨ v2 < 0 then return (0, st.out)
  let o ← wr st.out st.j ((u8 v1 <<< 2) ||| (u8 v2 >>> 4))
  let j := st.j + 1
  if v3 < 0 then
    if v3 ≠ -2 ∨ v4 ≠ -2 then return (0, o)
    if (u8 v2 <<< 4) ≠ 0 then return (0, o)
    return (j, o)
  if j ≥ o.length then return (0, o)
  let o ← wr o j ((u8 v2 <<< 4) ||| (u8 v3 >>> 2))
  let j := j + 1
  if v4 < 0 then
    if v4 ≠ -2 then return (0, o)
    if (u8 v3 <<< 6) ≠ 0 then return (0, o)
    return (j, o)
  if j ≥ o.length then return (0, o)
  let o ← wr o j ((u8 v3 <<< 6) ||| u8 v4)
  return (j + 1, o)

/-- `MHD_base64_to_bin_n (base64, base64_len, bin, bin_size)` -/
def base64ToBinN (s out : Bytes) : M (Nat × Bytes) := do
  if s.length = 0 then return (0, out)
  if s.length % 4 ≠ 0 then return (0, out)
  if s.length / 4 * 3 - 2 > out.length then return (0, out)
  let (ok, st) ← iter (b64LoopStep s) (s.length + 1) ⟨0, 0, out⟩
  if ok then b64Last s st else return (0, st.out)

end Mhd.Str
