/-
  Which refusal a connection answers with when a request does not fit its arena — a thin *observer*
  over C01's composed model `Mhd.ConnRead` (request line + headers + body + footers + keep-alive
  reset on ONE arena).  `Mhd.ConnRead` ends such a request in the phase `.error .noSpace` without
  saying which reply is chosen; here the run is traced (`runT`): the traced state carries the CR
  state of `Mhd.ConnRead` *unchanged* (`runT_x : (runT …).x = ConnRead.run …` — every theorem of
  C01 about the run transfers), the few request properties `get_no_space_err_status_code` looks at
  and `ConnRead` does not keep (`Aux`: `rq.req_target_len`, `rq.http_mthd`, `strlen (rq.method)`,
  `rq.field_lines.size`), and the refusal decided at the moment `ConnRead` enters `.error .noSpace`:

  * `check_and_grow_read_buffer_space` fails with a full read buffer  →  `handle_recv_no_space (c, stage)`
    (`refusalGrow`): request line → 414 when the method is one of GET … DELETE, otherwise the
    connection is closed without a reply; header section → `handle_req_headers_no_space
    (c, read_buffer, read_buffer_offset)`; body → chunk-size line with an extension → 413, chunk-size
    line → `get_no_space_err_status_code (BODY_CHUNKED, …)`, otherwise `handle_req_headers_no_space
    (c, NULL, 0)`; footers → 431;
  * `MHD_set_connection_value_n_nocheck_` fails for a completed field line in `get_req_headers`  →
    `handle_req_headers_no_space (c, hdr_name.str, add_element_size)` (`refusalAdd`), for a footer
    line 431.

  The status itself is `Mhd.NoSpace.status` (the model of `get_no_space_err_status_code`, tied to
  the real function by the `nospace` line of engine `mem`); this file supplies its inputs.
-/
import Mhd.Model.ConnRead
import Mhd.Model.NoSpace

namespace Mhd.ArenaBound
open Mhd.ConnRead Mhd.ConnMem Mhd.Req Mhd.Gen Mhd.Gen.ConnMem

inductive Refusal where
  /-- `connection_close_error`: no reply -/
  | close
  /-- `transmit_error_response_static (c, code, …)` + close -/
  | status (code : Nat)
  deriving Repr, DecidableEq

/-- what `get_no_space_err_status_code` reads from the request and `Mhd.ConnRead` does not carry -/
structure Aux where
  /-- `rq.req_target_len` -/
  uri : Nat := 0
  /-- `rq.http_mthd` -/
  mthd : Nat := Http.mthdNoMethod
  /-- `strlen (rq.method)` -/
  methodLen : Nat := 0
  /-- `rq.field_lines.size` (set when the header section is complete) -/
  fls : Nat := 0
  deriving Repr, DecidableEq

def lower (b : UInt8) : UInt8 := if 65 ≤ b ∧ b ≤ 90 then b + 32 else b

/-- `MHD_str_equal_caseless_bin_n_ ("Host", buf + off, 4)` -/
def hostAt (buf : Bytes) (off : Nat) : Bool :=
  (List.range 4).all fun j => lower (buf.getD (off + j) 0) == [104, 111, 115, 116].getD j 0

/-- `is_host_header` of `get_no_space_err_status_code` for the element at `off` of `size` bytes -/
def isHostElem (buf : Bytes) (off size : Nat) : Bool :=
  decide (hostNameLen + 1 ≤ size) &&
  (buf.getD (off + hostNameLen) 1 == 0 || buf.getD (off + hostNameLen) 1 == 58) && hostAt buf off

/-- `MHD_lookup_connection_value_n (c, MHD_HEADER_KIND, "Host", 4, NULL, &len)` on the element list -/
def hostVal (buf : Bytes) (elems : List Elem) : Option Nat :=
  elems.findSome? fun e =>
    if e.kind == Http.kindHeader && e.key.len == hostNameLen && hostAt buf e.key.off
    then some ((e.value.map (·.len)).getD 0) else none

def nsInput (stage addSize : Nat) (host : Bool) (parsed : Bool) (optHdr : Nat) (hv : Option Nat) (a : Aux) :
    Mhd.NoSpace.Input :=
  { stage := stage, addSize := addSize,
    addKind := if addSize = 0 then .none else if !host then .other else if parsed then .hostParsed else .hostUnparsed,
    optHdr := optHdr, hostVal := hv, uri := a.uri, methodOther := a.mthd == Http.mthdOther, methodLen := a.methodLen }

/-- `handle_recv_no_space (c, stage)` on the state in which `check_and_grow_read_buffer_space` gave up -/
def refusalGrow (x : CR) (a : Aux) : Refusal :=
  let r := x.cm.rb.getD 0
  let n := x.cm.rbOff
  match x.phase with
  | .reqLine s =>
    -- MHD_PROC_RECV_INIT / _METHOD: close; _URI / _HTTPVER: 414 for a standard method, else close
    if s.looksHttp then .status httpUriTooLong else .close
  | .headers hs fs =>
    .status (Mhd.NoSpace.status (nsInput stageHeaders n (isHostElem hs.buf r n) false (r + n - fs) (hostVal hs.buf hs.elems) a))
  | .body b =>
    if b.chunked ∧ b.off = b.cur ∧ b.cur = 0 then
      -- reading the line with the chunk size
      if ((b.buf.extract r (r + n)).toList.contains 59) then .status httpContentTooLarge
      else .status (Mhd.NoSpace.status (nsInput stageBodyChunked n false false a.fls (hostVal b.buf b.rq.elems) a))
    else .status (Mhd.NoSpace.status (nsInput stageHeaders 0 false false a.fls (hostVal b.buf b.rq.elems) a))
  | .footers _ _ => .status httpHeaderFieldsTooLarge
  | _ => .close

/-- `handle_req_headers_no_space (c, hdr_name.str, add_element_size)`: the field line `e` was parsed
    (name and value NUL-terminated in `buf`) but its element could not be allocated; `c`: the buffer
    layer after the line was consumed, `before`: the elements added so far -/
def refusalAdd (buf : Bytes) (c : CM) (fs : Nat) (before : List Elem) (e : Elem) (a : Aux) : Refusal :=
  let name := e.key.off
  let v := e.value.getD ⟨0, name, 0⟩
  let size := v.len + (v.off - name)
  .status (Mhd.NoSpace.status (nsInput stageHeaders size (isHostElem buf name size) true
            (c.rb.getD 0 + c.rbOff - fs) (hostVal buf before) a))

/-- where `get_req_headers` (header section) gives up for lack of pool space: follows the iterations
    of `Mhd.ConnRead.hdrLoop` and returns the refusal at the failing allocation -/
def hdrFail (lvl : Int) (fs : Nat) (a : Aux) : Nat → CM → HS → Option Refusal
  | 0, _, _ => none
  | n + 1, c, s =>
    let s0 := { s with rbSize := c.rbSize }
    match hsStep (FLFlags.ofLevel lvl) fs s0 with
    | .advance s1 =>
      match consumeTo c s1.rb with
      | none => none
      | some c1 =>
        if s0.elems.length < s1.elems.length then
          match step c1 (.alloc reqHeaderSize) with
          | (c2, .ptr (some _)) => hdrFail lvl fs a n c2 s1
          | (c2, _) => some (refusalAdd s1.buf c2 fs s0.elems (s1.elems.getLastD default) a)
        else hdrFail lvl fs a n c1 s1
    | _ => none

/-- the request-line facts, taken when `get_request_line` completes the line in this pass -/
def lineAux (x : CR) (a : Aux) : Aux :=
  match x.phase with
  | .reqLine s =>
    match (rlScanner (RLFlags.ofLevel x.lvl)).run s with
    | .done (.ok r) => { a with uri := r.tgtLen, mthd := r.mthd, methodLen := r.methodLen }
    | _ => a
  | _ => a

/-- `rq.field_lines.size`, taken when the header section is complete -/
def hdrsAux (x : CR) (a : Aux) : Aux :=
  match x.phase with
  | .headersDone h _ => { a with fls := h.fieldLinesSize }
  | _ => a

def isNoSpace (ph : Phase) : Bool :=
  match ph with
  | .error .noSpace => true
  | _ => false

/-- one pass of the idle loop (`Mhd.ConnRead.idlePass`): the refusal decided in it, the request facts after it -/
def passLog (cfg : Cfg) (x : CR) (a : Aux) : Option Refusal × Aux :=
  let a1 := lineAux x a
  let x1 := stLine x
  let r1 := match x1.phase with
    | .headers hs fs => hdrFail x1.lvl fs a1 ((hsScanner (FLFlags.ofLevel x1.lvl) fs).measure hs + 1) x1.cm hs
    | _ => none
  let x2 := stHeaders x1
  let a2 := hdrsAux x2 a1
  let x4 := stBody cfg (stAfter cfg x2)
  let r2 := match x4.phase with
    | .footers _ _ => if isNoSpace (stFooters x4).phase then some (Refusal.status httpHeaderFieldsTooLarge) else none
    | _ => none
  (r1.or r2, a2)

def idleStatesLog (cfg : Cfg) : Nat → CR → Aux → Option Refusal × Aux
  | 0, _, a => (none, a)
  | n + 1, x, a =>
    match passLog cfg x a, idlePass cfg x with
    | (some r, a1), _ => (some r, a1)
    | (none, a1), (x', true) => idleStatesLog cfg n x' a1
    | (none, a1), (_, false) => (none, a1)

/-- the state `MHD_connection_update_event_loop_info` hands to `check_and_grow_read_buffer_space` -/
def evState (x : CR) : CR :=
  match x.phase with
  | .body b => { x with phase := .body { b with evRead := bodyWantsRead b x.cm.rbOff } }
  | _ => x

/-- `check_and_grow_read_buffer_space` → `handle_recv_no_space` -/
def growLog (x : CR) (a : Aux) : Option Refusal :=
  if !x.wantsRead then none
  else if !(x.cm.rbOff == x.cm.rbSize) then none
  else
    match step x.cm (.grow true) with
    | (_, .badOp) => none
    | (_, .bool true) => none
    | (c, _) =>
      let y := { x with cm := c }
      match y.phase with
      | .body b => if hasUnprocessed b y.cm.rbOff then none else some (refusalGrow y a)
      | _ => some (refusalGrow y a)

/-- `MHD_connection_handle_idle` -/
def idleLog (cfg : Cfg) (x : CR) (a : Aux) : Option Refusal × Aux :=
  let (r, a1) := idleStatesLog cfg (x.cm.rbOff + 2) x a
  (r.or (growLog (evState (idleStates cfg (x.cm.rbOff + 2) x)) a1), a1)

/-- traced state: C01's state, the request facts, the first refusal decided -/
structure TR where
  x : CR
  aux : Aux := {}
  log : Option Refusal := none
  deriving Repr

def idleT (cfg : Cfg) (t : TR) : TR :=
  let (r, a1) := idleLog cfg t.x t.aux
  { x := idle cfg t.x, aux := a1, log := t.log.or r }

def feedFuelT (cfg : Cfg) : Nat → TR → List UInt8 → TR
  | 0, t, _ => t
  | n + 1, t, bs =>
    if !t.x.reading || bs.isEmpty then t
    else if t.x.wantsRead && t.x.space != 0 then
      let k := min bs.length t.x.space
      feedFuelT cfg n (idleT cfg { t with x := recvBytes t.x (bs.take k) }) (bs.drop k)
    else feedFuelT cfg n (idleT cfg t) bs

def feedT (cfg : Cfg) (t : TR) (chunk : List UInt8) : TR :=
  if chunk.isEmpty then (if t.x.reading then idleT cfg t else t) else feedFuelT cfg (chunk.length + 1) t chunk

def runT (cfg : Cfg) (t : TR) (chunks : List (List UInt8)) : TR := chunks.foldl (feedT cfg) t

def initT (allocSize poolSize inc : Nat) (lvl : Int) : TR := { x := Mhd.ConnRead.init allocSize poolSize inc lvl }

end Mhd.ArenaBound
