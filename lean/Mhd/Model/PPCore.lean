/-
  Model of src/microhttpd/postprocessor.c — state record, `process_value`,
  `post_process_urlencoded`.

  Representation choices (see also `PPMulti.lean`):
  * pointers into `post_data` are offsets (`Option Nat`, `none` = NULL);
  * the buffer behind the struct (`&pp[1]`, `buffer_size + 1` bytes, calloc'ed) is
    `buf`.  In urlencoded mode it is the key buffer: `buf` lists the bytes written
    so far, every byte beyond `buf.length` is still the zero of `calloc`
    (`getZ`/`writeZ`), indices are checked against `bufferSize + 1`.
    In multipart mode `buf` is exactly the window `buf[0 .. buffer_pos)`.
  * `pp->xbuf` (2 bytes) + `xbuf_pos` is the list `xbuf` of its live bytes;
  * the on-stack `xbuf[XBUF_SIZE + 1]` of `process_value` is the list of its first
    `xoff` bytes; `XBUF_SIZE` comes from `Mhd.Gen.PP`;
  * the iterator callback always returns `MHD_YES`; its calls are appended to `evs`;
  * any access outside an object sets `fault` (and stops the machine).
-/
import Mhd.Gen.PP
import Mhd.Model.PPBytes

namespace Mhd.PP

abbrev XBUF : Nat := Mhd.Gen.PP.xbufSize

inductive St
  | error | done | init | nextBoundary
  | processKey | processValue | callback
  | processEntryHeaders | performCheckMultipart | processValueToBoundary | performCleanup
  | nestedInit | nestedPerformMarking | nestedProcessEntryHeaders
  | nestedProcessValueToBoundary | nestedPerformCleanup
  deriving DecidableEq, Repr

inductive RN
  | inactive | optN | full | dash | dash2
  deriving DecidableEq, Repr

/-- one call of the application's `MHD_PostDataIterator` -/
structure Event where
  key : Option Bytes
  filename : Option Bytes
  ctype : Option Bytes
  enc : Option Bytes
  off : Nat
  data : Bytes
  deriving DecidableEq, Repr

structure PP where
  isUrl : Bool
  bufferSize : Nat
  boundary : Bytes := []
  nested : Option Bytes := none
  cname : Option Bytes := none
  ctype : Option Bytes := none
  cfile : Option Bytes := none
  cenc : Option Bytes := none
  xbuf : Bytes := []
  buf : Bytes := []
  /-- `buffer_pos` (urlencoded mode; in multipart mode `buffer_pos = buf.length`) -/
  bufferPos : Nat := 0
  valueOffset : Nat := 0
  mustIkvi : Bool := false
  mustUnescapeKey : Bool := false
  state : St := .init
  skipRn : RN := .inactive
  dashState : St := .error
  haveName : Bool := false
  haveType : Bool := false
  haveFile : Bool := false
  haveEnc : Bool := false
  evs : List Event := []
  fault : Option String := none
  deriving Repr

def PP.setFault (pp : PP) (site : String) : PP :=
  { pp with fault := some site, state := .error }

/-- read `arr[i]` of the calloc'ed array of `bufferSize + 1` bytes -/
def getZ (l : Bytes) (i : Nat) : UInt8 := l.getD i 0

/-- `memcpy (&arr[off], bs, bs.length)` into the zero-initialised array -/
def writeZ (l : Bytes) (off : Nat) (bs : Bytes) : Bytes :=
  (l ++ List.replicate (off - l.length) 0).take off ++ bs ++ l.drop (off + bs.length)

/-- the key as the callback sees it: the C string at `&pp[1]` -/
def PP.keyStr (pp : PP) : Bytes := cstr pp.buf

/-- `kbuf[buffer_pos] = 0; MHD_unescape_plus (kbuf); MHD_http_unescape (kbuf)`:
    the decoded bytes and the new terminator overwrite the front of the array. -/
def unescapeKey (pp : PP) : PP :=
  if pp.bufferPos > pp.bufferSize then pp.setFault "key-terminator-oob" else
  let a := writeZ pp.buf pp.bufferPos [0]
  let dec := unescape a
  { pp with buf := writeZ a 0 (dec ++ [0]), mustUnescapeKey := false }

/-- the iterator call of `process_value` -/
def emitUrl (pp : PP) (data : Bytes) : PP :=
  { pp with evs := pp.evs ++ [{ key := some pp.keyStr, filename := none, ctype := none, enc := none,
                                off := pp.valueOffset, data := data }] }

/-- outcome of the "escape sequence at the end of the processing buffer" test:
    new `xoff`, `cut`, `clen` -/
def escTail (xb : Bytes) : Nat × Bool × Nat :=
  let xoff := xb.length
  if xoff > 0 ∧ xb[xoff - 1]? = some cPct then (xoff - 1, xoff != XBUF, if xoff != XBUF then 0 else 1)
  else if xoff > 1 ∧ xb[xoff - 2]? = some cPct then (xoff - 2, xoff != XBUF, if xoff != XBUF then 0 else 2)
  else (xoff, false, 0)

/-- the `while` loop of `process_value`; `xb` = `xbuf[0..xoff)`, `vs`/`ve` =
    `value_start`/`value_end` as offsets into the chunk `d`; `last` = the value ends at `ve`
    (fix F15c: then an incomplete escape at the very end is not held back) -/
def pvLoop : Nat → Bytes → PP → Bytes → Nat → Nat → Bool → PP
  | 0, _, pp, _, _, _, _ => pp.setFault "process_value-fuel"
  | fuel + 1, d, pp, xb, vs, ve, last =>
    if ¬ (vs ≠ ve ∨ pp.mustIkvi ∨ xb.length > 0) then pp else
    if xb.length > XBUF ∨ ve < vs ∨ ve > d.length then pp.setFault "process_value-range" else
    let delta := min (ve - vs) (XBUF - xb.length)
    let xb1 := xb ++ slice d vs (vs + delta)
    let vs1 := vs + delta
    let (xoff2, cut, clen) := if last = true ∧ vs1 = ve then (xb1.length, false, 0) else escTail xb1
    let pp1 := if cut then { pp with xbuf := xb1.drop xoff2 } else pp
    let dec := if xoff2 ≠ 0 then unescape (xb1.take xoff2) else []
    let pp2 := if pp1.mustIkvi ∨ dec.length ≠ 0 then emitUrl { pp1 with mustIkvi := false } dec else pp1
    let pp3 := { pp2 with valueOffset := pp2.valueOffset + dec.length }
    if cut then pp3
    else pvLoop fuel d pp3 (if clen ≠ 0 then xb1.drop xoff2 else []) vs1 ve last

/-- `process_value (pp, value_start, value_end, last_escape, last)`.
    (fix F15d: `last_escape` is no longer used — a '%' at the end of the range is found by the
    loop itself; putting it aside beforehand lost it when the rest ended with another escape) -/
def processValue (d : Bytes) (pp : PP) (vs ve _le : Option Nat) (last : Bool) : PP :=
  if pp.xbuf.length > Mhd.Gen.PP.ppXbufLen then pp.setFault "pp-xbuf-oob" else
  let xb := pp.xbuf
  let pp0 := { pp with xbuf := [] }
  match vs, ve with
  | none, none => pvLoop 3 d pp0 xb 0 0 last
  | some s, some e =>
    if e < s ∨ e > d.length then pp.setFault "process_value-range"
    else pvLoop (e - s + 3) d pp0 xb s e last
  | _, _ => pp.setFault "process_value-null-range"

/-- locals of `post_process_urlencoded` -/
structure UL where
  poff : Nat := 0
  startKey : Option Nat := none
  endKey : Option Nat := none
  startValue : Option Nat := none
  endValue : Option Nat := none
  lastEscape : Option Nat := none
  deriving Repr

/-- `end - start` for two pointers that are both NULL or both set -/
def ptrLen (s e : Option Nat) : Option Nat :=
  match s, e with
  | none, none => some 0
  | some a, some b => if a ≤ b then some (b - a) else none
  | _, _ => none

def urlInit (c : UInt8) (pp : PP) (l : UL) : PP × UL :=
  if c = cEq then ({ pp with state := .error }, l)
  else if c = cAmp then (pp, { l with poff := l.poff + 1 })
  else if c = cLF ∨ c = cCR then ({ pp with state := .done }, { l with poff := l.poff + 1 })
  else ({ pp with state := .processKey, mustIkvi := true },
        { l with startKey := some l.poff, poff := l.poff + 1 })

def urlKey (c : UInt8) (pp : PP) (l : UL) : PP × UL :=
  let ek := if l.poff ≠ 0 then some l.poff else l.endKey
  if c = cEq then ({ pp with state := .processValue }, { l with endKey := ek, poff := l.poff + 1 })
  else if c = cAmp then ({ pp with state := .callback }, { l with endKey := ek, poff := l.poff + 1 })
  else if c = cLF ∨ c = cCR then ({ pp with state := .callback }, { l with endKey := ek })
  else (pp, { l with startKey := if l.poff = 0 then some 0 else l.startKey, poff := l.poff + 1 })

def isDigit (c : UInt8) : Bool := 0x30 ≤ c && c ≤ 0x39

def urlValue (c : UInt8) (pp : PP) (l0 : UL) : PP × UL :=
  let l := if l0.startValue.isNone then { l0 with startValue := some l0.poff } else l0
  if c = cEq then ({ pp with state := .error }, l)
  else if c = cAmp then
    let l1 := { l with endValue := some l.poff, poff := l.poff + 1 }
    if pp.mustIkvi ∨ l.startValue ≠ some l.poff ∨ pp.xbuf.length ≠ 0 then ({ pp with state := .callback }, l1)
    else ({ pp with bufferPos := 0, valueOffset := 0, state := .init },
          { l1 with startValue := none, endValue := none })
  else if c = cLF ∨ c = cCR then
    let l1 := { l with endValue := some l.poff }
    if pp.mustIkvi ∨ l.startValue ≠ some l.poff ∨ pp.xbuf.length ≠ 0 then ({ pp with state := .callback }, l1)
    else ({ pp with state := .done }, { l1 with poff := l.poff + 1 })
  else if c = cPct then (pp, { l with lastEscape := some l.poff, poff := l.poff + 1 })
  else if isDigit c then (pp, { l with poff := l.poff + 1 })
  else (pp, { l with lastEscape := none, poff := l.poff + 1 })

def urlDone (c : UInt8) (pp : PP) (l : UL) : PP × UL :=
  if c = cLF ∨ c = cCR then (pp, { l with poff := l.poff + 1 })
  else ({ pp with state := .error }, l)

/-- append `post_data[s .. s+n)` to the key buffer (after the caller's size check) -/
def appendKey (d : Bytes) (pp : PP) (s n : Nat) : PP :=
  if s + n > d.length then pp.setFault "key-copy-src-oob" else
  { pp with buf := writeZ pp.buf pp.bufferPos (slice d s (s + n)),
            bufferPos := pp.bufferPos + n, mustUnescapeKey := true }

/-- first half of `case PP_Callback:` — complete and unescape the key.
    Failure (key too long, or a fault) leaves `state = PP_Error`. -/
def urlCallbackKey (d : Bytes) (pp : PP) (l : UL) : PP × UL :=
  match ptrLen l.startKey l.endKey with
  | none => (pp.setFault "callback-key-ptr", l)
  | some klen =>
    if klen ≠ 0 ∧ pp.bufferPos + klen ≥ pp.bufferSize then ({ pp with state := .error }, l) else
    let (pp1, l1) :=
      if klen ≠ 0 then (appendKey d pp (l.startKey.getD 0) klen, { l with startKey := none, endKey := none })
      else (pp, l)
    if pp1.fault.isSome then (pp1, l1) else
    (if pp1.mustUnescapeKey then unescapeKey pp1 else pp1, l1)

/-- `case PP_Callback:` -/
def urlCallback (d : Bytes) (pp : PP) (l : UL) : PP × UL :=
  let (pp2, l1) := urlCallbackKey d pp l
  if pp2.state = .error then (pp2, l1) else
  let pp3 := processValue d pp2 l1.startValue l1.endValue none true
  if pp3.state = .error then (pp3, l1) else
  ({ pp3 with valueOffset := 0, bufferPos := 0, state := .init },
   { l1 with startValue := none, endValue := none })

/-- one iteration of the `while` loop of `post_process_urlencoded` -/
def urlIter (d : Bytes) (pp : PP) (l : UL) : PP × UL :=
  match pp.state with
  | .callback => urlCallback d pp l
  | .init => match d[l.poff]? with
    | some c => urlInit c pp l
    | none => (pp.setFault "post_data-oob", l)
  | .processKey => match d[l.poff]? with
    | some c => urlKey c pp l
    | none => (pp.setFault "post_data-oob", l)
  | .processValue => match d[l.poff]? with
    | some c => urlValue c pp l
    | none => (pp.setFault "post_data-oob", l)
  | .done => match d[l.poff]? with
    | some c => urlDone c pp l
    | none => (pp.setFault "post_data-oob", l)
  | _ => (pp.setFault "panic-internal-error", l)   -- MHD_PANIC / abort ()

def urlLoop : Nat → Bytes → PP → UL → PP × UL
  | 0, _, pp, l => (pp.setFault "urlencoded-fuel", l)
  | fuel + 1, d, pp, l =>
    if (l.poff < d.length ∨ pp.state = .callback) ∧ pp.state ≠ .error then
      let (pp', l') := urlIter d pp l
      urlLoop fuel d pp' l'
    else (pp, l)

/-- after the loop: `if (NULL != start_key) { … save the key piece … }`; `false` = `return MHD_NO` -/
def urlTailKey (d : Bytes) (pp : PP) (l : UL) : PP × Bool :=
  match l.startKey with
  | none => (pp, true)
  | some sk =>
    let ek := l.endKey.getD l.poff
    if ek < sk then (pp.setFault "tail-key-ptr", false) else
    if pp.bufferPos + (ek - sk) ≥ pp.bufferSize then ({ pp with state := .error }, false)
    else (appendKey d pp sk (ek - sk), true)

/-- `if ((NULL != last_escape) && (2 < (end_value - last_escape))) last_escape = NULL;` -/
def tailEscape (le : Option Nat) (ev : Nat) : Option Nat :=
  match le with
  | some x => if 2 < ev - x then none else some x
  | none => none

/-- after the loop: `if ((NULL != start_value) && (PP_ProcessValue == pp->state)) { … }` -/
def urlTailValue (d : Bytes) (pp1 : PP) (l : UL) : PP :=
  if l.startValue.isSome ∧ pp1.state = .processValue then
    let pp1a := if pp1.mustUnescapeKey then unescapeKey pp1 else pp1
    if pp1a.fault.isSome then pp1a else
    let ev := l.endValue.getD l.poff
    let pp1b := processValue d pp1a l.startValue (some ev) (tailEscape l.lastEscape ev) false
    { pp1b with mustIkvi := false }
  else pp1

/-- the part of `post_process_urlencoded` after the loop ("save remaining data") -/
def urlTail (d : Bytes) (pp : PP) (l : UL) : PP × Bool :=
  if pp.state = .error then (pp, false) else
  let r := urlTailKey d pp l
  if r.2 = false ∨ r.1.fault.isSome then (r.1, false) else
  let pp2 := urlTailValue d r.1 l
  if pp2.state = .error then (pp2, false) else (pp2, true)

/-- `post_process_urlencoded (pp, post_data, post_data_len)`; result = `MHD_YES`? -/
def postProcessUrlencoded (pp : PP) (d : Bytes) : PP × Bool :=
  let (pp1, l1) := urlLoop (3 * d.length + 4) d pp {}
  if pp1.fault.isSome then (pp1, false) else
  urlTail d pp1 l1

end Mhd.PP
