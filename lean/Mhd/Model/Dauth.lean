/-
  Model of Digest authentication checking, src/microhttpd/digestauth.c:

    digest_auth_check_all_inner, digest_auth_check_all, MHD_digest_auth_check3,
    MHD_digest_auth_check_digest3, MHD_digest_auth_check, _check2, _check_digest,
    _check_digest2, is_param_equal, is_param_equal_caseless, get_unquoted_param,
    get_unquoted_param_copy, get_buffer_for_size, get_rq_extended_uname_copy_z,
    calc_userdigest, calc_userhash (and their public wrappers), calculate_nonce,
    and MHD_get_rq_dauth_params_ (gen_auth.c).

  It is the composition, in the order of the C code, of
    * the Authorization header lookup and parameter scanner of C14 (`Mhd.Auth`),
    * the nonce-nc table of C13 (`Mhd.Nonce.checkNonceNc`, `getNonceTimestamp`),
    * the request-target comparison of `Mhd.Model.DauthArgs`,
    * the hash functions, used through their specifications
      (`Mhd.Hash.Spec.*.hash`; C16 proves that the incremental C implementation
      fed with any sequence of `digest_update` chunks computes exactly these).

  The code modelled is the code after the repairs F6, F24 (FC12c), F25 (FC12a), F26 (FC12b).

  Conventions.  C strings supplied by the application (`realm`, `username`,
  `password`) are given by their content (no NUL).  Fixed-size stack buffers are
  checked: a write beyond `hash1_bin[MAX_DIGEST]` or `tmp1[128]` and a read beyond
  `connection->addr[addr_len]` or `userdigest[digest_size]` is the explicit result
  `fault`; `MHD_PANIC` is the explicit result `panic`.  `malloc` failure inside
  `get_buffer_for_size` (result `MHD_DAUTH_ERROR`) and pool exhaustion inside
  `MHD_get_rq_dauth_params_` are not modelled.  Core Lean only.
-/
import Mhd.Gen.Dauth
import Mhd.Model.DauthArgs
import Mhd.Model.Nonce
import Mhd.Model.Hash.SpecMd5
import Mhd.Model.Hash.SpecSha256
import Mhd.Model.Hash.SpecSha512

namespace Mhd.Dauth
open Mhd.Auth Mhd.Gen.Auth Mhd.Gen.Dauth

/-! ### results -/

inductive Site
  | nullParam       -- a parameter the code dereferences is absent (`mhd_assert`ed in C)
  | uninitNc        -- `nci` read without having been written (`MHD_strx_to_uint64_n_` on length 0)
  | hash1Overflow   -- `MHD_hex_to_bin` writes beyond `hash1_bin[MAX_DIGEST]`
  | tmp1Overflow    -- write beyond `tmp1[_MHD_STATIC_UNQ_BUFFER_SIZE]`
  | addrRead        -- read beyond `connection->addr[0 .. addr_len)`
  | digestRead      -- read beyond `userdigest[0 .. userdigest_size)`
  | nonceTable      -- fault inside `check_nonce_nc` / `get_nonce_timestamp` (C13 model)
  | headerScan      -- fault inside `parse_dauth_params` (C14 model)
  deriving DecidableEq, Repr

/-- `enum MHD_DigestAuthResult`, plus the two ways of not returning normally -/
inductive Res
  | ok | error | wrongHeader | wrongUsername | wrongRealm | wrongUri | wrongQop | wrongAlgo
  | tooLarge | nonceStale | nonceOtherCond | nonceWrong | responseWrong
  | panic
  | fault (s : Site)
  deriving DecidableEq, Repr

def Res.name : Res → String
  | .ok => "OK" | .error => "ERROR" | .wrongHeader => "WRONG_HEADER" | .wrongUsername => "WRONG_USERNAME"
  | .wrongRealm => "WRONG_REALM" | .wrongUri => "WRONG_URI" | .wrongQop => "WRONG_QOP" | .wrongAlgo => "WRONG_ALGO"
  | .tooLarge => "TOO_LARGE" | .nonceStale => "NONCE_STALE" | .nonceOtherCond => "NONCE_OTHER_COND"
  | .nonceWrong => "NONCE_WRONG" | .responseWrong => "RESPONSE_WRONG" | .panic => "PANIC" | .fault _ => "FAULT"

/-! ### hashes -/

inductive Algo
  | md5 | sha256 | sha512
  deriving DecidableEq, Repr

/-- `digest_get_size` -/
def Algo.size : Algo → Nat
  | .md5 => md5Size
  | .sha256 => sha256Size
  | .sha512 => sha512Size

/-- `digest_init_one_time`/`digest_reset`, a sequence of `digest_update`s, `digest_calc_hash`:
    the hash of the concatenation of the chunks (C16) -/
def Algo.hash : Algo → Bytes → Bytes
  | .md5 => Mhd.Hash.Spec.Md5.hash
  | .sha256 => Mhd.Hash.Spec.Sha256.hash
  | .sha512 => Mhd.Hash.Spec.Sha512.hash

/-- `NONCE_STD_LEN (digest_size)` -/
def Algo.stdLen (a : Algo) : Nat := a.size * 2 + tsBin * 2

def hexDigitL (n : Nat) : UInt8 := if n < 10 then UInt8.ofNat (48 + n) else UInt8.ofNat (87 + n)

/-- `MHD_bin_to_hex` -/
def binToHex : Bytes → Bytes
  | [] => []
  | b :: r => hexDigitL (b.toNat / 16) :: hexDigitL (b.toNat % 16) :: binToHex r

/-- `get_base_digest_algo` followed by `digest_init_one_time`; `none` = the latter returns false -/
def baseAlgo (algo3 : Nat) : Option Algo :=
  let b := (algo3 % 4294967296) &&& (4294967295 - (algoNonSession ||| algoSession))
  if b = baseMd5 then some .md5
  else if b = baseSha256 then some .sha256
  else if b = baseSha512 then some .sha512
  else none

/-! ### configuration, request, call -/

/-- the fields of `struct MHD_Daemon` the check reads -/
structure Cfg where
  /-- `dauth_bind_type` (`MHD_OPTION_DIGEST_AUTH_NONCE_BIND_TYPE`) -/
  bindType : Nat
  /-- `digest_auth_random[0 .. digest_auth_rand_size)` -/
  rnd : Bytes
  /-- `dauth_def_nonce_timeout` -/
  defTimeout : Nat
  /-- `dauth_def_max_nc` -/
  defMaxNc : Nat
  /-- `0 <= client_discipline` -/
  strictUnescape : Bool
  deriving Repr

/-- the fields of `struct MHD_Connection` the check reads -/
structure Req where
  /-- `rq.method` -/
  method : Bytes
  /-- `rq.http_mthd` -/
  mthd : Nat
  /-- `rq.url[0 .. url_len)` -/
  url : Bytes
  /-- entries of `rq.headers_received` with kind `MHD_GET_ARGUMENT_KIND`, in list order -/
  args : List (Bytes × Option Bytes)
  /-- `rq.headers_received` as `find_auth_rq_header_` sees it -/
  hdrs : List Hdr
  /-- `addr[0 .. addr_len)` -/
  addr : Bytes
  deriving Repr

inductive Secret
  | password (p : Bytes)
  | userdigest (d : Bytes)
  deriving DecidableEq, Repr

/-- arguments of `MHD_digest_auth_check3` / `MHD_digest_auth_check_digest3` -/
structure Call where
  realm : Bytes
  username : Bytes
  secret : Secret
  nonceTimeout : Nat
  maxNc : Nat
  mqop : Nat
  malgo3 : Nat
  deriving Repr

/-- `MHD_OPTION_DIGEST_AUTH_NONCE_BIND_TYPE` as stored by `parse_options_va`:
    `MHD_DAUTH_BIND_NONCE_URI_PARAMS` implies `MHD_DAUTH_BIND_NONCE_URI` -/
def bindOfOption (v : Nat) : Nat := if (v &&& bindUriParams) ≠ 0 then v ||| bindUri else v

/-- `parse_http_std_method` -/
def mthdOf (method : Bytes) : Nat :=
  match stdMethods.find? (fun x => x.1 == method) with
  | some x => x.2
  | none => mthdOther

/-! ### parameter access -/

def eqQuotedLoopCs : Bytes → Bytes → Bool
  | [], [] => true
  | [], _ :: _ => false
  | _ :: _, [] => false
  | q :: qs, u :: us =>
    if q = 92 then
      match qs with
      | [] => false
      | q2 :: qs' => q2 == u && eqQuotedLoopCs qs' us
    else q == u && eqQuotedLoopCs qs us

/-- `MHD_str_equal_quoted_bin_n` -/
def eqQuotedCs (quoted unquoted : Bytes) : Bool :=
  if unquoted.length < quoted.length / 2 then false else eqQuotedLoopCs quoted unquoted

/-- `is_param_equal` -/
def isParamEq (p : Param) (s : Bytes) : Bool :=
  if p.quoted then eqQuotedCs p.raw s else decide (p.raw = s)

/-- `is_param_equal_caseless` (after fix F6) -/
def isParamEqCl (p : Param) (s : Bytes) : Bool :=
  if p.quoted then eqQuotedCl p.raw s else eqClS s p.raw

/-- `get_buffer_for_size` returns NULL (allocation failure apart) -/
def noBuffer (required : Nat) : Bool := decide (required > tmp1Size ∧ required > maxParam)

/-- `get_unquoted_param`: the unquoted value; every failure is answered `MHD_DAUTH_ERROR` by the caller -/
def getUnq (p : Param) : Except Res Bytes :=
  if !p.quoted then .ok p.raw
  else if noBuffer p.raw.length then .error .error
  else .ok (unquote p.raw)

/-- a parameter that the code uses without a NULL test -/
def need (o : Option Param) : Except Res Param :=
  match o with
  | some p => .ok p
  | none => .error (.fault .nullParam)

/-- `get_rq_extended_uname_copy_z (ext, len, buf, len + 1 - MHD_DAUTH_EXT_PARAM_MIN_LEN)`; `none` = -1 -/
def extName (ext : Bytes) : Option Bytes :=
  if extMinLen > ext.length then none
  else if !prefixCl ext extPrefix then none
  else
    match skipLang (ext.drop extPrefix.length) with
    | none => none
    | some enc =>
      match pctS enc with
      | none => none                                     -- returns 0 for a non-empty input
      | some out => if out.length = 0 ∧ enc.length ≠ 0 then none else some out

/-! ### calculate_nonce -/

/-- the six big-endian bytes of the low 48 bits of `nonce_time` -/
def tsBytes (t : Nat) : Bytes :=
  (List.range tsBin).map fun j => UInt8.ofNat ((t / 256 ^ (tsBin - 1 - j)) % 256)

/-- `saddr->ss_family` -/
def addrFamily (addr : Bytes) : Option Nat :=
  match addr[familyOff]?, addr[familyOff + 1]? with
  | some b0, some b1 => some (if littleEndian = 1 then b0.toNat + 256 * b1.toNat else b1.toNat + 256 * b0.toNat)
  | _, _ => none

def slice (b : Bytes) (off len : Nat) : Option Bytes :=
  if off + len ≤ b.length then some ((b.drop off).take len) else none

/-- the bytes hashed for `MHD_DAUTH_BIND_NONCE_CLIENT_IP`; `none` = read outside `addr` -/
def ipBytes (addr : Bytes) : Option Bytes :=
  match addrFamily addr with
  | none => none
  | some f =>
    if f = afInet then slice addr sinAddrOff sinAddrLen
    else if f = afInet6 then slice addr sin6AddrOff sin6AddrLen
    else some []

/-- the method as it enters the nonce: one byte for the standard methods (HEAD as GET), else the token -/
def methodForNonce (r : Req) : Bytes :=
  if r.mthd ≠ mthdOther then
    [UInt8.ofNat (if r.mthd ≠ mthdHead then r.mthd else mthdGet)]
  else r.method

def argsForNonce (args : List (Bytes × Option Bytes)) : Bytes :=
  args.flatMap fun kv => [0, 0] ++ kv.1 ++ [0] ++ kv.2.getD []

def has (bits flag : Nat) : Bool := (bits &&& flag) ≠ 0

/-- the byte string hashed by `calculate_nonce`; `none` = read outside `addr` -/
def nonceInput (cfg : Cfg) (r : Req) (realm : Bytes) (t : Nat) : Option Bytes :=
  let b := cfg.bindType
  let ip : Option Bytes :=
    if has b bindClientIp ∧ r.addr.length ≠ 0 then (ipBytes r.addr).map (58 :: ·) else some []
  match ip with
  | none => none
  | some ipPart =>
    some (tsBytes t
      ++ (if cfg.rnd.length > 0 then 58 :: cfg.rnd else [])
      ++ (if b = bindNone ∧ r.addr.length ≠ 0 then 58 :: r.addr else [])
      ++ ipPart
      ++ (if b = bindNone ∨ has b bindUri then 58 :: methodForNonce r else [])
      ++ (if has b bindUri then 58 :: r.url else [])
      ++ (if has b bindUriParams then 58 :: argsForNonce r.args else [])
      ++ (if b = bindNone ∨ has b bindRealm then 58 :: realm else []))

/-- `calculate_nonce`: the `NONCE_STD_LEN` characters stored at `nonce` -/
def calcNonce (cfg : Cfg) (r : Req) (realm : Bytes) (a : Algo) (t : Nat) : Option Bytes :=
  (nonceInput cfg r realm t).map fun inp => binToHex (a.hash inp) ++ binToHex (tsBytes t)

/-! ### calc_userhash, calc_userdigest -/

/-- `MHD_digest_auth_calc_userhash` -/
def userhash (a : Algo) (username realm : Bytes) : Bytes := a.hash (username ++ 58 :: realm)

/-- `MHD_digest_auth_calc_userdigest` -/
def userdigest (a : Algo) (username realm password : Bytes) : Bytes :=
  a.hash (username ++ 58 :: (realm ++ 58 :: password))

/-! ### MHD_get_rq_dauth_params_ -/

/-- `none` = NULL (no Digest header, or it does not parse) -/
def getParams (r : Req) : Except Res (Option DAuth) :=
  match findAuthHeader true digestBase r.hdrs with
  | none => .ok none
  | some (_, _, av) =>
    match parseDigest av (some 0) with
    | .ok d => .ok (some d)
    | .reject => .ok none
    | .fault _ => .error (.fault .headerScan)

/-! ### digest_auth_check_all_inner, stage by stage -/

def isPassword : Secret → Bool
  | .password _ => true
  | .userdigest _ => false

/-- "Initial parameters checks": the client's algorithm (`params->algo3`) -/
def stageAlgoN (call : Call) (algo3 : Nat) : Except Res Algo :=
  if algo3 = algoInvalid then .error .wrongAlgo                       -- fix F25
  else if algo3 ≠ (algo3 &&& call.malgo3) then .error .wrongAlgo
  else if (algo3 &&& algoSession) ≠ 0 then .error .wrongAlgo
  else
    match baseAlgo algo3 with
    | none => .error .panic
    | some a => .ok a

def stageAlgo (call : Call) (d : DAuth) : Except Res Algo := stageAlgoN call d.algo3

/-- … and the client's qop (`params->qop`) -/
def stageQopN (call : Call) (qop : Nat) : Except Res Unit :=
  if qop = qopInvalid then .error .wrongQop                          -- fix F26
  else if qop ≠ (qop &&& call.mqop) then .error .wrongQop
  else if (qop &&& qopAuthInt) ≠ 0 then .error .wrongQop
  else .ok ()

def stageQop (call : Call) (d : DAuth) : Except Res Unit := stageQopN call d.qop

/-- what the presence checks look at: `value.str != NULL` and `value.len` of parameter `k` -/
abbrev LenView := Nat → Option Nat

def lenView (d : DAuth) : LenView := fun k => (d.slots k).map fun p => p.raw.length

/-- "A quick check for presence of all required parameters": user name -/
def presUsername (ds : Nat) (lv : LenView) (uh : Bool) : Except Res Unit :=
  match lv kUsername, lv kUsernameExt with
  | none, none => .error .wrongUsername
  | some _, some _ => .error .wrongUsername
  | none, some el =>
    if extMinLen > el then .error .wrongUsername
    else if uh then .error .wrongUsername
    else .ok ()
  | some ul, none =>
    if uh ∧ ds * 2 > ul then .error .wrongUsername
    else if uh ∧ ds * 4 < ul then .error .wrongUsername
    else .ok ()

def presRealm (call : Call) (lv : LenView) (uh : Bool) : Except Res Unit :=
  match lv kRealm with
  | none => .error .wrongRealm
  | some l =>
    if (isPassword call.secret ∨ uh) ∧ maxParam < l then .error .tooLarge else .ok ()

def presNcCnonce (lv : LenView) (qop : Nat) : Except Res Unit :=
  if qop ≠ qopNone then
    match lv kNc with
    | none => .error .wrongHeader
    | some l =>
      if l = 0 then .error .wrongHeader
      else if ncMaxRaw < l then .error .wrongHeader
      else
        match lv kCnonce with
        | none => .error .wrongHeader
        | some c =>
          if c = 0 then .error .wrongHeader
          else if maxParam < c then .error .tooLarge
          else .ok ()
  else .ok ()

def presUri (lv : LenView) : Except Res Unit :=
  match lv kUri with
  | none => .error .wrongUri
  | some l => if l = 0 then .error .wrongUri else if maxParam < l then .error .tooLarge else .ok ()

def presNonce (a : Algo) (lv : LenView) : Except Res Unit :=
  match lv kNonce with
  | none => .error .nonceWrong
  | some l => if l = 0 then .error .nonceWrong else if a.stdLen * 2 < l then .error .nonceWrong else .ok ()

def presResponse (ds : Nat) (lv : LenView) : Except Res Unit :=
  match lv kResponse with
  | none => .error .responseWrong
  | some l => if l = 0 then .error .responseWrong else if ds * 4 < l then .error .responseWrong else .ok ()

def presenceV (a : Algo) (call : Call) (lv : LenView) (qop : Nat) (uh : Bool) : Except Res Unit := do
  presUsername a.size lv uh
  presRealm call lv uh
  presNcCnonce lv qop
  presUri lv
  presNonce a lv
  presResponse a.size lv

def stagePresence (a : Algo) (call : Call) (d : DAuth) : Except Res Unit :=
  presenceV a call (lenView d) d.qop d.userhash

/-- "Check 'realm'" -/
def stageRealm (call : Call) (d : DAuth) : Except Res Unit := do
  let p ← need (d.slots kRealm)
  if isParamEq p call.realm then .ok () else .error .wrongRealm

/-- "Check 'username'" -/
def stageUsername (a : Algo) (call : Call) (d : DAuth) : Except Res Unit :=
  if !d.userhash then
    match d.slots kUsername with
    | some u => if isParamEq u call.username then .ok () else .error .wrongUsername
    | none => do
      let e ← need (d.slots kUsernameExt)
      if noBuffer (e.raw.length + 1 - extMinLen) then .error .tooLarge
      else
        match extName e.raw with
        | none => .error .wrongHeader
        | some name => if name = call.username then .ok () else .error .wrongUsername
  else do
    let u ← need (d.slots kUsername)
    if tmp1Size < 2 * a.size then .error (.fault .tmp1Overflow)
    else if isParamEqCl u (binToHex (userhash a call.username call.realm)) then .ok ()
    else .error .wrongUsername

/-- "Get 'nc' digital value" -/
def stageNc (maxNc : Nat) (d : DAuth) : Except Res Nat :=
  if d.qop ≠ qopNone then do
    let p ← need (d.slots kNc)
    let txt ← getUnq p
    if txt.length = 0 then .error (.fault .uninitNc)
    else
      match Mhd.Nonce.parseNc txt with
      | none => .error .wrongHeader
      | some nci =>
        if nci = 0 then .error .wrongHeader
        else if maxNc ≠ 0 ∧ maxNc < nci then .error .nonceStale
        else .ok nci
  else .ok 1

/-- "Get 'nonce' with basic checks" and the first-level staleness test: the unquoted nonce and its time stamp -/
def stageNonce (a : Algo) (now timeout : Nat) (d : DAuth) : Except Res (Bytes × Nat) := do
  let p ← need (d.slots kNonce)
  let n ← getUnq p
  if a.stdLen ≠ n.length then .error .nonceWrong
  else
    match Mhd.Nonce.getNonceTimestamp n n.length with
    | .fault => .error (.fault .nonceTable)
    | .invalid => .error .nonceWrong
    | .ts t =>
      if Mhd.Nonce.trim (Mhd.Nonce.sub64 now t) > (timeout * 1000) % 2 ^ Mhd.Gen.Nonce.timeoutBits then
        .error .nonceStale
      else .ok (n, t)

/-- everything before `check_nonce_nc`: the algorithm, `nci`, the unquoted nonce, `nonce_time` -/
def stagePre (now timeout maxNc : Nat) (call : Call) (d : DAuth) : Except Res (Algo × Nat × Bytes × Nat) := do
  let a ← stageAlgo call d
  stageQop call d
  stagePresence a call d
  stageRealm call d
  stageUsername a call d
  let nci ← stageNc maxNc d
  let nt ← stageNonce a now timeout d
  .ok (a, nci, nt.1, nt.2)

/-- "Get 'uri'": the unquoted copy and `check_uri_match` -/
def stageUri (cfg : Cfg) (r : Req) (d : DAuth) : Except Res Bytes := do
  let p ← need (d.slots kUri)
  if noBuffer (p.raw.length + 1) then .error .error
  else
    let uri := if p.quoted then unquote p.raw else p.raw
    if checkUriMatch cfg.strictUnescape uri r.url r.args then .ok uri else .error .wrongUri

/-- the hex text of H(A1) -/
def ha1Hex (a : Algo) (call : Call) : Except Res Bytes :=
  match call.secret with
  | .password pw => .ok (binToHex (userdigest a call.username call.realm pw))
  | .userdigest dg => if dg.length < a.size then .error (.fault .digestRead) else .ok (binToHex (dg.take a.size))

/-- the text between `nonce ":"` and `H(A2)` of the response input -/
def qopPart (d : DAuth) : Except Res Bytes :=
  if d.qop ≠ qopNone then do
    let nc ← (need (d.slots kNc)).bind getUnq
    let cn ← (need (d.slots kCnonce)).bind getUnq
    let q ← (need (d.slots kQop)).bind getUnq
    .ok (nc ++ 58 :: (cn ++ 58 :: (q ++ [58])))
  else .ok []

/-- "Check 'response'" -/
def stageResponse (a : Algo) (r : Req) (call : Call) (d : DAuth) (uri : Bytes) : Except Res Unit := do
  let ha2 := a.hash (r.method ++ 58 :: uri)
  let h1 ← ha1Hex a call
  let rp ← need (d.slots kResponse)
  let resp ← getUnq rp
  if a.size * 2 < resp.length then .error .responseWrong               -- fix F24
  else if maxDigest < (resp.length + 1) / 2 then .error (.fault .hash1Overflow)
  else
    match hexToBin resp with
    | none => .error .responseWrong
    | some bin =>
      if bin.length ≠ a.size then .error .responseWrong
      else do
        let np ← need (d.slots kNonce)
        let nonce ← getUnq np
        let mid ← qopPart d
        if tmp1Size < 2 * a.size then .error (.fault .tmp1Overflow)
        else if bin = a.hash (h1 ++ 58 :: (nonce ++ 58 :: (mid ++ binToHex ha2))) then .ok ()
        else .error .responseWrong

/-- the nonce-binding re-check -/
def stageBind (cfg : Cfg) (a : Algo) (r : Req) (call : Call) (d : DAuth) (nonceTime : Nat) : Except Res Unit :=
  if cfg.bindType ≠ bindNone then
    if tmp1Size < a.stdLen + 1 then .error (.fault .tmp1Overflow)
    else
      match calcNonce cfg r call.realm a nonceTime with
      | none => .error (.fault .addrRead)
      | some nn => do
        let np ← need (d.slots kNonce)
        if isParamEq np nn then .ok () else .error .nonceOtherCond
  else .ok ()

/-- everything after `check_nonce_nc` -/
def stagePost (cfg : Cfg) (r : Req) (call : Call) (d : DAuth) (a : Algo) (nonceTime : Nat) : Res :=
  match (do
    let uri ← stageUri cfg r d
    stageResponse a r call d uri
    stageBind cfg a r call d nonceTime : Except Res Unit) with
  | .ok () => .ok
  | .error e => e

def ofNc : Mhd.Nonce.NcRes → Res
  | .ok => .ok
  | .stale => .nonceStale
  | .wrong => .nonceWrong
  | .fault => .fault .nonceTable

/-- `digest_auth_check_all_inner` (nonce_timeout and max_nc literal) for parsed parameters `params` -/
def checkInner (cfg : Cfg) (tbl : Mhd.Nonce.Table) (now : Nat) (r : Req) (call : Call) (timeout maxNc : Nat)
    (params : Option DAuth) : Mhd.Nonce.Table × Res :=
  match params with
  | none => (tbl, .wrongHeader)
  | some d =>
    match stagePre now timeout maxNc call d with
    | .error e => (tbl, e)
    | .ok (a, nci, nonce, nonceTime) =>
      let c := Mhd.Nonce.checkNonceNc tbl nonce nonceTime nci
      match c.2 with
      | .ok => (c.1, stagePost cfg r call d a nonceTime)
      | other => (c.1, ofNc other)

/-- `digest_auth_check_all`: zero means the daemon's default -/
def checkAll (cfg : Cfg) (tbl : Mhd.Nonce.Table) (now : Nat) (r : Req) (call : Call) : Mhd.Nonce.Table × Res :=
  let timeout := if call.nonceTimeout = 0 then cfg.defTimeout else call.nonceTimeout
  let maxNc := if call.maxNc = 0 then cfg.defMaxNc else call.maxNc
  match getParams r with
  | .error e => (tbl, e)
  | .ok params => checkInner cfg tbl now r call timeout maxNc params

def bit (x f : Nat) : Nat := if (x &&& f) ≠ 0 then 1 else 0

/-- `digest_get_hash_size ((enum MHD_DigestAuthAlgo3) malgo3)` -/
def hashSizeOf (algo3 : Nat) : Nat :=
  if (algo3 &&& baseMd5) ≠ 0 then md5Size
  else if (algo3 &&& (baseSha256 ||| baseSha512)) ≠ 0 then sha256Size
  else 0

/-- `MHD_digest_auth_check3` (secret = password) and `MHD_digest_auth_check_digest3`
    (secret = userdigest of `userdigest_size` bytes): the public entry points -/
def digestCheck (cfg : Cfg) (tbl : Mhd.Nonce.Table) (now : Nat) (r : Req) (call : Call) : Mhd.Nonce.Table × Res :=
  match call.secret with
  | .password _ => checkAll cfg tbl now r call
  | .userdigest dg =>
    if bit call.malgo3 baseMd5 + bit call.malgo3 baseSha256 + bit call.malgo3 baseSha512 ≠ 1 then (tbl, .panic)
    else if hashSizeOf call.malgo3 ≠ dg.length then (tbl, .panic)
    else checkAll cfg tbl now r call

/-! ### the deprecated wrappers -/

inductive Legacy
  | yes | no | invalidNonce | panic | fault
  deriving DecidableEq, Repr

def Legacy.ofRes : Res → Legacy
  | .ok => .yes
  | .nonceStale => .invalidNonce
  | .nonceWrong => .invalidNonce
  | .nonceOtherCond => .invalidNonce
  | .panic => .panic
  | .fault _ => .fault
  | _ => .no

/-- `enum MHD_DigestAuthAlgorithm` → `malgo3`; `none` = MHD_PANIC -/
def legacyMalgo (algo : Nat) : Option Nat :=
  if algo = algAuto then some malgoAnyNonSession
  else if algo = algMd5 then some malgoMd5
  else if algo = algSha256 then some malgoSha256
  else none

/-- `MHD_digest_auth_check2` (and `MHD_digest_auth_check` with `algo = MHD_DIGEST_ALG_MD5`),
    `MHD_digest_auth_check_digest2` (and `MHD_digest_auth_check_digest`) -/
def legacyCheck (cfg : Cfg) (tbl : Mhd.Nonce.Table) (now : Nat) (r : Req) (realm username : Bytes) (secret : Secret)
    (nonceTimeout algo : Nat) : Mhd.Nonce.Table × Legacy :=
  match legacyMalgo algo with
  | none => (tbl, .panic)
  | some m =>
    let x := digestCheck cfg tbl now r ⟨realm, username, secret, nonceTimeout, 0, mqopAuth, m⟩
    (x.1, Legacy.ofRes x.2)

end Mhd.Dauth
