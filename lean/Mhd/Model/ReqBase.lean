/-
  Common vocabulary of the request-head parser models (C02):
  byte buffers with *checked* access, the fault type, the generic incremental
  scanner (DESIGN.md Appendix A.1 / A.2) and the strictness flags, which are
  all taken from the regenerated `Mhd.Gen.Discipline`.

  Buffer convention (DESIGN.md §2): `buf` holds the bytes of the connection
  arena region from its base up to the end of the data received so far;
  `rb` is `read_buffer` (an absolute index into `buf`), so
  `read_buffer_offset = buf.size - rb`.  Reading or writing at an index
  `≥ buf.size` is a *fault* (never a default value).
-/
import Mhd.Gen.Discipline
import Mhd.Gen.Http

namespace Mhd.Req

abbrev Bytes := Array UInt8

/-- explicit result of an out-of-range access / NULL dereference in the model -/
inductive Fault where
  | read (site idx : Nat)
  | write (site idx : Nat)
  | null (site : Nat)
  deriving Repr, DecidableEq, Inhabited

/-- one step of an incremental scanner -/
inductive Step (σ ρ : Type) where
  | advance (s : σ)
  | done (r : ρ)
  | needMore
  | fault (f : Fault)
  deriving Repr

/-- outcome of running a scanner until it stops -/
inductive Out (σ ρ : Type) where
  | more (s : σ)
  | done (r : ρ)
  | fault (f : Fault)
  deriving Repr

/-- An incremental scanner: a step function on a state that contains the
    buffer, a termination measure and "more bytes arrived". -/
structure Scanner (σ ρ : Type) where
  step : σ → Step σ ρ
  measure : σ → Nat
  extend : σ → Bytes → σ
  extendR : ρ → Bytes → ρ

namespace Scanner
variable {σ ρ : Type}

/-- iterate `step` (fuel = an upper bound on the number of steps) -/
def runFuel (sc : Scanner σ ρ) : Nat → σ → Out σ ρ
  | 0, s => .more s
  | n + 1, s =>
    match sc.step s with
    | .advance s' => runFuel sc n s'
    | .done r => .done r
    | .needMore => .more s
    | .fault f => .fault f

/-- run until the scanner finishes or needs more data -/
def run (sc : Scanner σ ρ) (s : σ) : Out σ ρ := sc.runFuel (sc.measure s + 1) s

/-- more bytes arrive, then the parser is called again (what
    `MHD_connection_handle_read` + `MHD_connection_handle_idle` do) -/
def feed (sc : Scanner σ ρ) (o : Out σ ρ) (e : Bytes) : Out σ ρ :=
  match o with
  | .more s => sc.run (sc.extend s e)
  | .done r => .done (sc.extendR r e)
  | .fault f => .fault f

/-- feed a whole segmentation -/
def feedAll (sc : Scanner σ ρ) (o : Out σ ρ) (chunks : List Bytes) : Out σ ρ :=
  chunks.foldl sc.feed o

end Scanner

/-- checked write: continue with the updated buffer or fault -/
@[inline] def wr {α : Type} (buf : Bytes) (i : Nat) (v : UInt8) (site : Nat)
    (fault : Fault → α) (k : Bytes → α) : α :=
  if i < buf.size then k (buf.setIfInBounds i v) else fault (.write site i)

/-- checked read of `n` bytes at `off` -/
def rdRange (buf : Bytes) (off n : Nat) : Option (List UInt8) :=
  if off + n ≤ buf.size then some (buf.extract off (off + n)).toList else none

def strBytes (s : String) : List UInt8 := s.toList.map (fun c => UInt8.ofNat c.toNat)

/-! ### ASCII -/
def cCR : UInt8 := 13
def cLF : UInt8 := 10
def cSP : UInt8 := 32
def cHT : UInt8 := 9
def cVT : UInt8 := 11
def cFF : UInt8 := 12

/-! ### Strictness flags (all from `Mhd.Gen.Discipline`) -/

/-- flags of `get_request_line_inner` / `get_request_line` -/
structure RLFlags where
  skipEmpty : Bool
  skipSeveral : Bool
  skipUnlimited : Bool
  bareLfAsCrlf : Bool
  tabAsWsp : Bool
  otherWspAsWsp : Bool
  wspBlocks : Bool
  wspInUri : Bool
  wspInUriKeep : Bool
  bareCrKeep : Bool
  bareCrAsSp : Bool
  /-- `wsp_in_uri` as computed by the outer `get_request_line` -/
  outerWspInUri : Bool
  /-- `wsp_in_uri_keep` as computed by the outer `get_request_line` -/
  outerWspInUriKeep : Bool
  deriving Repr, DecidableEq

open Mhd.Gen.Discipline in
def RLFlags.ofLevel (lvl : Int) : RLFlags :=
  { skipEmpty := rl_skip_empty_lines lvl, skipSeveral := rl_skip_several_empty_lines lvl,
    skipUnlimited := rl_skip_unlimited_empty_lines lvl, bareLfAsCrlf := rl_bare_lf_as_crlf lvl,
    tabAsWsp := rl_tab_as_wsp lvl, otherWspAsWsp := rl_other_wsp_as_wsp lvl,
    wspBlocks := rl_wsp_blocks lvl, wspInUri := rl_wsp_in_uri lvl,
    wspInUriKeep := rl_wsp_in_uri_keep lvl, bareCrKeep := rl_bare_cr_keep lvl,
    bareCrAsSp := rl_bare_cr_as_sp lvl,
    outerWspInUri := rlo_wsp_in_uri lvl, outerWspInUriKeep := rlo_wsp_in_uri_keep lvl }

/-- flags of `get_req_header` -/
structure FLFlags where
  bareLfAsCrlf : Bool
  bareCrKeep : Bool
  bareCrAsSp : Bool
  nulAsSp : Bool
  allowFolded : Bool
  allowWspAtStart : Bool
  allowWspInName : Bool
  allowEmptyName : Bool
  allowWspBeforeColon : Bool
  allowLineWithoutColon : Bool
  deriving Repr, DecidableEq

open Mhd.Gen.Discipline in
def FLFlags.ofLevel (lvl : Int) : FLFlags :=
  { bareLfAsCrlf := fl_bare_lf_as_crlf lvl, bareCrKeep := fl_bare_cr_keep lvl,
    bareCrAsSp := fl_bare_cr_as_sp lvl, nulAsSp := fl_nul_as_sp lvl,
    allowFolded := fl_allow_folded lvl, allowWspAtStart := fl_allow_wsp_at_start lvl,
    allowWspInName := fl_allow_wsp_in_name lvl, allowEmptyName := fl_allow_empty_name lvl,
    allowWspBeforeColon := fl_allow_wsp_before_colon lvl,
    allowLineWithoutColon := fl_allow_line_without_colon lvl }

/-- flags of `parse_cookies_string` / `parse_cookie_header` -/
structure CKFlags where
  allowWspEmpty : Bool
  wspAroundEq : Bool
  wspInQuoted : Bool
  tabAsSp : Bool
  allowNoSpace : Bool
  allowPartial : Bool
  deriving Repr, DecidableEq

open Mhd.Gen.Discipline in
def CKFlags.ofLevel (lvl : Int) : CKFlags :=
  { allowWspEmpty := ck_allow_wsp_empty lvl, wspAroundEq := ck_wsp_around_eq lvl,
    wspInQuoted := ck_wsp_in_quoted lvl, tabAsSp := ck_tab_as_sp lvl,
    allowNoSpace := ck_allow_no_space lvl,
    allowPartial := ckh_allow_partially_correct_cookie lvl }

/-- the seven documented strictness levels -/
def levels : List Int := [-3, -2, -1, 0, 1, 2, 3]

/-! ### Elements handed to the application -/

/-- a string shown to the application: `len` bytes at absolute offset `off`
    (followed by a terminating NUL at `off + len`); `region` tells which buffer:
    0 = the read-buffer region, 1 = the pool copy made by `parse_cookie_header`,
    2 = a static empty string -/
structure Slice where
  region : Nat := 0
  off : Nat
  len : Nat
  deriving Repr, DecidableEq, Inhabited

/-- one entry of `rq.headers_received` -/
structure Elem where
  kind : Nat
  key : Slice
  value : Option Slice
  deriving Repr, DecidableEq, Inhabited

end Mhd.Req
