/-
  Model of `get_request_line_inner`, `parse_http_version`, `parse_http_std_method`
  and the outer `get_request_line` of src/microhttpd/connection.c.

  The C loop `while (p < read_buffer_offset) { ... p++; }` is one `charStep`
  per iteration.  The idiom `continue; /* re-start processing of the current
  character */` after replacing a bare CR by a space is modelled by processing
  the replaced character (a space: neither CR nor LF) in the same step.  The
  empty-line skipping loop, which the C code enters on every call while
  `proc_pos == 0`, is `skipStep`; one skipped line per step.

  Positions (`p`, `wsStart`, `wsEnd`, `tgt`, `qmark`, `version`) are offsets
  relative to `read_buffer`, exactly the values the C code computes with
  `(size_t) (ptr - c->read_buffer)`; `read_buffer` itself (`rb`) moves only
  while `p = 0` (skipped lines) and when the line is consumed.
-/
import Mhd.Model.ReqBase

namespace Mhd.Req
open Mhd.Gen

/-- parser state: the read buffer + `c->rq.hdrs.rq_line` + the request fields
    the request-line parser sets -/
structure RL where
  buf : Bytes
  rb : Nat
  p : Nat := 0                 -- rq_line.proc_pos (the local `p` of the loop)
  wsStart : Nat := 0           -- rq_line.last_ws_start
  wsEnd : Nat := 0             -- rq_line.last_ws_end
  numWs : Nat := 0             -- rq_line.num_ws_in_uri
  skipped : Nat := 0           -- rq_line.skipped_empty_lines
  crSp : Nat := 0              -- rq.num_cr_sp_replaced
  hasMethod : Bool := false    -- rq.method != NULL (then rq.method == read_buffer)
  methodLen : Nat := 0
  mthd : Nat := Http.mthdNoMethod
  tgt : Option Nat := none     -- rq_line.rq_tgt - read_buffer
  qmark : Option Nat := none   -- rq_line.rq_tgt_qmark - read_buffer
  version : Option Nat := none -- rq.version - read_buffer
  tgtLen : Nat := 0            -- rq.req_target_len
  deriving Repr, DecidableEq

def RL.init (buf : Bytes) (rb : Nat) : RL := { buf := buf, rb := rb }

/-- `read_buffer_offset` -/
def RL.fill (s : RL) : Nat := s.buf.size - s.rb

inductive RLErrKind where
  | tooManyEmptyLines | bareCR | bareLF | malformed | startsWithWsp | tooManyWsp
  | invalidChar | nul | badVersion | versionTooLong | targetWsp | redirectTooLarge
  | unescapeFailed
  deriving Repr, DecidableEq

/-- error outcome: `reply = some code` — an error response with that status is
    queued (`transmit_error_response_*`); `none` — `connection_close_error` -/
structure RLErr where
  kind : RLErrKind
  reply : Option Nat
  deriving Repr, DecidableEq

/-- the successfully parsed request line; offsets are absolute now, the line
    is consumed (`rb` points behind its line end) -/
structure ReqLine where
  buf : Bytes
  rb : Nat
  method : Nat
  methodLen : Nat
  mthd : Nat
  tgt : Nat
  tgtLen : Nat
  qmark : Option Nat
  version : Nat
  httpVer : Int
  numWs : Nat
  crSp : Nat
  skipped : Nat
  deriving Repr, DecidableEq

inductive RLDone where
  | err (e : RLErr)
  | ok (r : ReqLine)
  deriving Repr, DecidableEq

/-- "A quick simple check whether this line looks like an HTTP request" -/
def RL.looksHttp (s : RL) : Bool := Http.mthdGet ≤ s.mthd && s.mthd ≤ Http.mthdDelete

/-- 400 when the method is one of GET..DELETE, otherwise the connection is closed -/
def RL.errReply (s : RL) (k : RLErrKind) : Step RL RLDone :=
  .done (.err ⟨k, if s.looksHttp then some Http.codeBadRequest else none⟩)

def RL.errClose (k : RLErrKind) : Step RL RLDone := .done (.err ⟨k, none⟩)

/-- `parse_http_std_method` on the `len` bytes of the method -/
def stdMethodOf (m : List UInt8) : Nat :=
  match Http.stdMethodBytes.find? (fun e => e.1 == m) with
  | some e => e.2
  | none => Http.mthdOther

/-- `parse_http_version`: `.ok http_ver` or `.error (reply code)` -/
def parseHttpVersion (v : List UInt8) : Except Nat Int :=
  let d5 := v.getD 5 0
  let d7 := v.getD 7 0
  if v.length ≠ Discipline.httpVerLen ∨ v.getD 0 0 ≠ 72 ∨ v.getD 1 0 ≠ 84 ∨ v.getD 2 0 ≠ 84 ∨ v.getD 3 0 ≠ 80
      ∨ v.getD 4 0 ≠ 47 ∨ v.getD 6 0 ≠ 46 ∨ d5 < 48 ∨ 57 < d5 ∨ d7 < 48 ∨ 57 < d7 then
    .error Http.codeBadRequest
  else if d5 == 49 then
    if d7 == 49 then .ok Http.ver11 else if d7 == 48 then .ok Http.ver10 else .ok Http.ver12_19
  else if d5 == 48 then .error Http.codeVersionNotSupported
  else .error Http.codeVersionNotSupported

/-- is the character a whitespace delimiter at this strictness? -/
def rlIsWsp (F : RLFlags) (chr : UInt8) : Bool :=
  chr == cSP || (chr == cHT && F.tabAsWsp) || (F.otherWspAsWsp && (chr == cVT || chr == cFF))

/-! ### empty lines before the request line -/

/-- after one empty line has been consumed: the per-level limit -/
def afterEmptyLine (F : RLFlags) (s : RL) : Step RL RLDone :=
  if !F.skipUnlimited &&
      decide ((if F.skipSeveral then Discipline.maxEmptyLinesSkip else 1) < s.skipped) then
    RL.errClose .tooManyEmptyLines
  else .advance s

/-- one iteration of the `do { … } while (is_empty_line)` loop; `none` = the
    line at the buffer start is not empty, go on with the request line -/
def skipStep (F : RLFlags) (s : RL) : Option (Step RL RLDone) :=
  match s.buf[s.rb]? with
  | none => some .needMore
  | some c0 =>
    if c0 == cCR then
      if s.fill == 1 then some .needMore
      else
        match s.buf[s.rb + 1]? with
        | none => some (.fault (.read 1 (s.rb + 1)))
        | some c1 =>
          if c1 == cLF then
            some (afterEmptyLine F { s with rb := s.rb + 2, skipped := s.skipped + 1 })
          else none
    else if c0 == cLF && F.bareLfAsCrlf then
      some (afterEmptyLine F { s with rb := s.rb + 1, skipped := s.skipped + 1 })
    else none

/-! ### end of the request line -/

/-- consume the line: `read_buffer += p` etc. and hand out the request line -/
def finishLine (s : RL) (chr : UInt8) (tgt version : Nat) : Step RL RLDone :=
  match rdRange s.buf (s.rb + version) (s.p - version) with
  | none => .fault (.read 20 (s.rb + version))
  | some vs =>
    match parseHttpVersion vs with
    | .error code => .done (.err ⟨.badVersion, some code⟩)
    | .ok hv =>
      wr s.buf (s.rb + s.p) 0 21 .fault fun buf =>
        let p' := if chr == cCR then s.p + 2 else s.p + 1
        .done (.ok { buf := buf, rb := s.rb + p', method := s.rb, methodLen := s.methodLen,
                     mthd := s.mthd, tgt := s.rb + tgt, tgtLen := s.tgtLen,
                     qmark := s.qmark.map (s.rb + ·), version := s.rb + version, httpVer := hv,
                     numWs := s.numWs, crSp := s.crSp, skipped := s.skipped })

/-- `wsp_in_uri`: the end of the URI and the start of the version are determined now -/
def eolResolveWspInUri (s : RL) (k : RL → Step RL RLDone) : Step RL RLDone :=
  if s.wsEnd ≠ 0 then
    match s.tgt with
    | some t =>
      wr s.buf (s.rb + s.wsStart) 0 22 .fault fun buf =>
        k { s with buf := buf, tgtLen := s.wsStart - t, version := some s.wsEnd }
    | none =>
      if s.wsStart + 1 < s.wsEnd ∧ Discipline.httpVerLen = s.p - s.wsEnd then
        -- only method and version with more than one whitespace between them: zero-length URI
        wr s.buf (s.rb + (s.wsStart + 1)) 0 23 .fault fun buf =>
          k { s with buf := buf, wsStart := s.wsStart + 1, tgt := some (s.wsStart + 1), tgtLen := 0,
                     numWs := 0, qmark := none, version := some s.wsEnd }
      else k s
  else k s

/-- not `wsp_in_uri`: URI end and version start are already known, except for
    the "method and version only" special case -/
def eolResolveStrict (s : RL) (k : RL → Step RL RLDone) : Step RL RLDone :=
  match s.version, s.tgt with
  | none, some t =>
    if Discipline.httpVerLen = s.p - t then
      if t = 0 then .fault (.read 24 0) else
      match s.buf[s.rb + t - 1]? with
      | none => .fault (.read 24 (s.rb + t - 1))
      | some b =>
        if b ≠ 0 then
          wr s.buf (s.rb + (t - 1)) 0 25 .fault fun buf =>
            k { s with buf := buf, version := some t, tgt := some (t - 1), tgtLen := 0, numWs := 0,
                       qmark := none }
        else k s
    else k s
  | _, _ => k s

/-- after URI end / version start are resolved: "if (NULL != c->rq.version)" … else the
    request line is malformed -/
def eolFinish (chr : UInt8) (s' : RL) : Step RL RLDone :=
  match s'.version with
  | some v =>
    match s'.tgt with
    | some t => finishLine s' chr t v
    | none => .fault (.null 26)
  | none => s'.errReply .malformed

/-- "Handle the end of the request line" -/
def handleEol (F : RLFlags) (s : RL) (chr : UInt8) : Step RL RLDone :=
  if s.hasMethod then
    if F.wspInUri then eolResolveWspInUri s (eolFinish chr) else eolResolveStrict s (eolFinish chr)
  else s.errReply .malformed

/-! ### an ordinary character -/

/-- "Process possible end of the previously found whitespace delimiter"
    (whitespace blocks not allowed) -/
def endOfWspStrict (F : RLFlags) (s : RL) : RL :=
  if !F.wspBlocks && s.p == s.wsEnd && s.wsEnd != 0 then
    match s.tgt with
    | none => { s with tgt := some s.p, wsStart := 0, wsEnd := 0 }
    | some _ =>
      if !F.wspInUri then { s with version := some s.p, wsStart := 0, wsEnd := 0 } else s
  else s

/-- "The end of the whitespace block" (whitespace blocks allowed) -/
def endOfWspBlock (F : RLFlags) (s : RL) : RL :=
  if s.p == s.wsEnd && s.wsEnd != 0 && F.wspBlocks then
    match s.tgt with
    | none => { s with tgt := some s.p, wsStart := 0, wsEnd := 0 }
    | some _ =>
      if !F.wspInUri then { s with version := some s.p, wsStart := 0, wsEnd := 0 } else s
  else s

/-- a whitespace character -/
def onWsp (F : RLFlags) (s : RL) : Step RL RLDone :=
  if s.wsEnd == 0 || s.p != s.wsEnd || !F.wspBlocks then
    -- first whitespace char of a new whitespace block
    let mark : RL → Step RL RLDone := fun s' =>
      .advance { s' with wsStart := s'.p, wsEnd := s'.p + 1, p := s'.p + 1 }
    if !s.hasMethod then
      if s.p == 0 then RL.errClose .startsWithWsp
      else
        wr s.buf (s.rb + s.p) 0 30 .fault fun buf =>
          match rdRange buf s.rb s.p with
          | none => .fault (.read 31 s.rb)
          | some m => mark { s with buf := buf, hasMethod := true, methodLen := s.p, mthd := stdMethodOf m }
    else if !F.wspInUri then
      match s.version with
      | none =>
        match s.tgt with
        | none => .fault (.null 32)
        | some t =>
          wr s.buf (s.rb + s.p) 0 33 .fault fun buf =>
            mark { s with buf := buf, tgtLen := s.p - t }
      | some _ => s.errReply .tooManyWsp
    else
      if s.wsEnd != 0 then mark { s with numWs := s.numWs + (s.wsEnd - s.wsStart) }
      else mark s
  else
    .advance { s with wsEnd := s.p + 1, p := s.p + 1 }

/-- a non-whitespace character that is not the end of the line -/
def onOther (F : RLFlags) (s0 : RL) (chr : UInt8) : Step RL RLDone :=
  let s := endOfWspBlock F s0
  if chr == 63 then  -- '?'
    if s.qmark.isNone && s.tgt.isSome then .advance { s with qmark := some s.p, p := s.p + 1 }
    else .advance { s with p := s.p + 1 }
  else if chr == cVT || chr == cFF then
    if s.tgt.isSome && s.version.isNone && F.wspInUri then
      .advance { s with numWs := s.numWs + 1, p := s.p + 1 }
    else RL.errClose .invalidChar
  else if chr == 0 then RL.errClose .nul
  else .advance { s with p := s.p + 1 }

def processChar (F : RLFlags) (s0 : RL) (chr : UInt8) : Step RL RLDone :=
  let s := endOfWspStrict F s0
  if rlIsWsp F chr then onWsp F s else onOther F s chr

/-- one iteration of `while (p < c->read_buffer_offset)` -/
def charStep (F : RLFlags) (s : RL) : Step RL RLDone :=
  match s.buf[s.rb + s.p]? with
  | none => .needMore                       -- loop condition `p < read_buffer_offset`
  | some chr =>
    if chr == cCR then
      if s.p + 1 == s.fill then .needMore   -- proc_pos = p
      else
        match s.buf[s.rb + s.p + 1]? with
        | none => .fault (.read 2 (s.rb + s.p + 1))
        | some nxt =>
          if nxt == cLF then handleEol F s chr
          else if F.bareCrAsSp then
            wr s.buf (s.rb + s.p) cSP 3 .fault fun buf =>
              processChar F { s with buf := buf, crSp := s.crSp + 1 } cSP
          else if !F.bareCrKeep then s.errReply .bareCR
          else processChar F s chr
    else if chr == cLF then
      if F.bareLfAsCrlf then handleEol F s chr else s.errReply .bareLF
    else processChar F s chr

/-- one step of `get_request_line_inner` -/
def rlStep (F : RLFlags) (s : RL) : Step RL RLDone :=
  if s.p == 0 && F.skipEmpty then
    match skipStep F s with
    | some r => r
    | none => charStep F s
  else charStep F s

def rlExtend (s : RL) (e : Bytes) : RL := { s with buf := s.buf ++ e }

def rlExtendR (r : RLDone) (e : Bytes) : RLDone :=
  match r with
  | .ok l => .ok { l with buf := l.buf ++ e }
  | .err x => .err x

/-- `get_request_line_inner` as an incremental scanner -/
def rlScanner (F : RLFlags) : Scanner RL RLDone :=
  { step := rlStep F, measure := fun s => s.buf.size - (s.rb + s.p), extend := rlExtend,
    extendR := rlExtendR }

/-! ### the outer `get_request_line` (without `process_request_target`, see `ReqTarget`) -/

/-- the check made when `get_request_line_inner` returned "not enough data":
    the version string is already longer than any valid one -/
def versionTooLong (s : RL) : Bool :=
  match s.version with
  | some v => decide (Discipline.httpVerLen < s.p - v)
  | none => false

/-- what `get_request_line` decides after a successfully parsed line, before
    the target is processed: whitespace in the URI -/
def lineWspCheck (F : RLFlags) (poolSize : Nat) (r : ReqLine) : Option RLErr :=
  if r.numWs ≠ 0 then
    if !F.outerWspInUri then some ⟨.targetWsp, some Http.codeBadRequest⟩
    else if !F.outerWspInUriKeep then
      let fixedLen := r.tgtLen + 2 * r.numWs
      if fixedLen + 200 > poolSize ∨ fixedLen > Discipline.maxFixedUriLen then
        some ⟨.redirectTooLarge, none⟩
      else some ⟨.targetWsp, some Http.codeMovedPermanently⟩
    else none
  else none

end Mhd.Req
