/-
  Model of nonce *generation* in src/microhttpd/digestauth.c:

    calculate_nonce (through `Mhd.Dauth.calcNonce`, byte level: the hash of
    C16's specification composed with MHD_bin_to_hex and the 48-bit time stamp),
    calculate_add_nonce, calculate_add_nonce_with_retry (the second attempt with
    a back-dated time stamp), on the nonce-nc table of `Mhd.Nonce`.

  `calculate_nonce` writes `NONCE_STD_LEN (digest_size)` characters:
      hex (H (timestamp[6] [":" rnd] [":" saddr] [":" ip] [":" method] [":" uri]
              [":" args] [":" realm]))  ‖  hex (timestamp[6])
  where `timestamp[6]` are the low 48 bits of the time, big endian, and which
  parts are present is decided by `daemon->dauth_bind_type` (see
  `Mhd.Dauth.nonceInput`).

  Environment inputs of `calculate_add_nonce_with_retry` are explicit: the two
  successive readings `t1`, `t2` of `MHD_monotonic_msec_counter ()` and the value
  `rnd` returned by `random ()`.  Core Lean only.
-/
import Mhd.Model.Dauth
import Mhd.Gen.NonceGen

namespace Mhd.NonceGen
open Mhd.Nonce Mhd.Dauth Mhd.Gen.Dauth Mhd.Gen.NonceGen

abbrev Bytes := List UInt8

/-- what `calculate_add_nonce` leaves behind: the characters written to `nonce`
    and the return value -/
structure Gen where
  nonce : Bytes
  added : Bool
  deriving Repr, DecidableEq

/-- `calculate_add_nonce (connection, timestamp, realm, realm_len, da, nonce)`;
    `none` = a read outside `connection->addr` or outside a slot buffer -/
def calcAddNonce (cfg : Cfg) (tbl : Table) (r : Req) (realm : Bytes) (a : Algo) (ts : Nat) :
    Table × Option Gen :=
  match calcNonce cfg r realm a ts with
  | none => (tbl, none)
  | some n =>
    let x := addNonce tbl ts n
    (x.1, match x.2 with
          | .added => some ⟨n, true⟩
          | .refused => some ⟨n, false⟩
          | .fault => none)

/-- `_MHD_ROTL32 (x, k)` as the macro is written: `k = 0` gives `x` -/
def rotl32' (x k : Nat) : Nat := if k = 0 then x else Mhd.Nonce.rotl32 x k

/-- the `base4 & DAUTH_JUMPBACK_MAX` of calculate_add_nonce_with_retry for
    `random () = rnd` (branch `HAVE_RANDOM` / `HAVE_RAND` of the source, constants regenerated) -/
def jumpBack (rnd : Nat) : Nat :=
  let base1 := (rnd % W64) ^^^ retryXor
  let base2 := ((base1 >>> 32) % 2 ^ 32) ^^^ (base1 % 2 ^ 32)
  let b4 := retryBase4
  let base2 := rotl32' base2 (((b4 >>> 4) ^^^ b4) % 32)
  let base3 := ((base2 >>> 16) % 2 ^ 16) ^^^ (base2 % 2 ^ 16)
  let base4 := ((base3 >>> 8) % 2 ^ 8) ^^^ (base3 % 2 ^ 8)
  base4 &&& Mhd.Gen.Nonce.jumpbackMax

/-- the time stamp of the second attempt: `timestamp2`, made different from
    `timestamp1` by jumping back at most `DAUTH_JUMPBACK_MAX` ms (`uint64_t` arithmetic) -/
def retryTime (t1 t2 rnd : Nat) : Nat :=
  if t1 = t2 then
    let j := sub64 t2 (jumpBack rnd)
    if t1 = j then sub64 j retryFallback else j
  else t2

/-- `calculate_add_nonce_with_retry (connection, realm, da, nonce)`: `t1`, `t2` are the
    first and the second value of the clock, `rnd` is `random ()` -/
def calcAddNonceRetry (cfg : Cfg) (tbl : Table) (r : Req) (realm : Bytes) (a : Algo) (t1 t2 rnd : Nat) :
    Table × Option Gen :=
  match calcAddNonce cfg tbl r realm a t1 with
  | (_, none) => (tbl, none)
  | (tbl1, some g1) =>
    if g1.added then (tbl1, some g1)
    else if tbl.length = 0 then (tbl1, some g1)            -- "No need to re-try"
    else
      match calcAddNonce cfg tbl1 r realm a (retryTime t1 t2 rnd) with
      | (_, none) => (tbl1, none)
      | (tbl2, some g2) =>
        if g2.added then (tbl2, some g2)                   -- memcpy (nonce, nonce2, …)
        else (tbl2, some g1)                               -- the first nonce is used, unregistered

end Mhd.NonceGen
