/-
  C06 — event-loop model, part 1: connections, lists, `call_handlers`.

  Mirrors src/microhttpd/daemon.c (call_handlers, the DLL discipline of
  `connections` / `suspended_connections` / `cleanup`, which share the
  next/prev link fields) and the parts of MHD_connection_handle_idle that act on
  the daemon (list moves, MHD_connection_epoll_update_).

  What a handler does to the connection itself is NOT modelled here: it is the
  parameter `Ops` (the abstract `connStep`).  The correspondence run instantiates
  it with the outcomes observed on the real code; the theorems quantify over it
  under the explicit law records of Mhd/Proofs/Loop*.lean.

  Lists are Lean lists in `next` order (head first); DLL_insert is `cons`;
  `prev` of a node is the element before it in whichever list holds the node,
  NULL for the head.  No Mathlib.
-/
import Mhd.Gen.Loop

namespace Mhd.Loop
open Mhd.Gen.Loop

abbrev CId := Nat

/-- enum MHD_ConnectionEventLoopInfo -/
inductive Eli where
  | read | write | process | processRead | cleanup
  deriving DecidableEq, Repr, Inhabited

def Eli.code : Eli → Nat
  | .read => eliRead
  | .write => eliWrite
  | .process => eliProcess
  | .processRead => eliProcessRead
  | .cleanup => eliCleanup

def Eli.ofCode? (n : Nat) : Option Eli :=
  if n = eliRead then some .read
  else if n = eliWrite then some .write
  else if n = eliProcess then some .process
  else if n = eliProcessRead then some .processRead
  else if n = eliCleanup then some .cleanup
  else none

/-- `0 != (MHD_EVENT_LOOP_INFO_READ & info)` -/
def Eli.hasRead (e : Eli) : Bool := (e.code &&& eliRead) != 0
/-- `0 != (MHD_EVENT_LOOP_INFO_PROCESS & info)` -/
def Eli.hasProcess (e : Eli) : Bool := (e.code &&& eliProcess) != 0
/-- `MHD_EVENT_LOOP_INFO_WRITE == info` -/
def Eli.isWrite (e : Eli) : Bool := e.code == eliWrite
/-- `MHD_EVENT_LOOP_INFO_READ == info` -/
def Eli.isRead (e : Eli) : Bool := e.code == eliRead
/-- `MHD_EVENT_LOOP_INFO_CLEANUP == info` -/
def Eli.isCleanup (e : Eli) : Bool := e.code == eliCleanup

/-- which of the three lists that share next/prev holds a connection -/
inductive Wh where
  | active | susp | cleanup
  deriving DecidableEq, Repr, Inhabited

/-- the part of a connection the handlers own -/
structure Local (W : Type) where
  st : Nat            -- enum MHD_CONNECTION_STATE (numeric; the loops compare with five values)
  eli : Eli           -- event_loop_info
  rdReady : Bool      -- MHD_EPOLL_STATE_READ_READY  (cleared by recv on EAGAIN)
  wrReady : Bool      -- MHD_EPOLL_STATE_WRITE_READY (cleared by send on EAGAIN)
  bufSpace : Bool     -- read_buffer_size > read_buffer_offset
  w : W               -- everything else (request/response progress, application state)

/-- The abstract per-connection step.  Arguments: connection id, number of
    handler calls made on this connection so far (index into the environment),
    current values.  `idle` also says in which list the connection is afterwards
    (suspended by a callback → `susp`, closed → `cleanup`). -/
structure Ops (W : Type) where
  read  : CId → Nat → Bool → Local W → Local W
  write : CId → Nat → Local W → Local W
  idle  : CId → Nat → Wh → Local W → Local W × Wh
  close : CId → Nat → Local W → Local W

structure Conn (W : Type) where
  id : CId
  k : Nat := 0            -- handler calls so far (model bookkeeping: index into `Ops`)
  loc : Local W
  nonblock : Bool := true -- sk_nonblck
  resuming : Bool := false
  sockValid : Bool := true
  inEready : Bool := false
  inEpollSet : Bool := false
  epSusp : Bool := false
  epError : Bool := false
  tmo : Nat := 0          -- connection_timeout_ms

inductive Ev where
  | read (c : CId) | write (c : CId) | idle (c : CId) | close (c : CId)
  deriving DecidableEq, Repr

structure Daemon (W : Type) where
  epoll : Bool := false
  allowSuspend : Bool := true
  conns : List (Conn W) := []      -- connections_head … connections_tail
  susp : List (Conn W) := []       -- suspended_connections_head …
  cleanup : List (Conn W) := []    -- cleanup_head …
  newc : List (Conn W) := []       -- new_connections_head …
  eready : List CId := []          -- eready_head … (EDLL)
  dap : Bool := false              -- data_already_pending
  resuming : Bool := false
  haveNew : Bool := false
  shutdown : Bool := false
  log : List Ev := []              -- handler calls, newest first
  fault : Option String := none    -- explicit fault: dangling pointer / runaway loop

/-- `prev` pointer of the node `id` inside one list: `none` = not in this list,
    `some none` = it is the head (NULL), `some (some p)`. -/
def prevGo {W : Type} (p : CId) : List (Conn W) → CId → Option (Option CId)
  | [], _ => none
  | c :: rest, id => if c.id = id then some (some p) else prevGo c.id rest id

def prevIn {W : Type} : List (Conn W) → CId → Option (Option CId)
  | [], _ => none
  | c :: rest, id => if c.id = id then some none else prevGo c.id rest id

def findConn {W : Type} : List (Conn W) → CId → Option (Conn W)
  | [], _ => none
  | c :: rest, id => if c.id = id then some c else findConn rest id

def eraseConn {W : Type} : List (Conn W) → CId → List (Conn W)
  | [], _ => []
  | c :: rest, id => if c.id = id then rest else c :: eraseConn rest id

def setConn {W : Type} : List (Conn W) → Conn W → List (Conn W)
  | [], _ => []
  | c :: rest, n => if c.id = n.id then n :: rest else c :: setConn rest n

def tailId {W : Type} (l : List (Conn W)) : Option CId := l.getLast?.map (·.id)

namespace Daemon
variable {W : Type}

/-- the connection and the list that currently holds it -/
def lookup (d : Daemon W) (id : CId) : Option (Conn W × Wh) :=
  match findConn d.conns id with
  | some c => some (c, .active)
  | none =>
    match findConn d.susp id with
    | some c => some (c, .susp)
    | none =>
      match findConn d.cleanup id with
      | some c => some (c, .cleanup)
      | none => none

/-- `pos->prev`, resolved in whichever of the three lists holds `pos`;
    `none` = the node is in none of them (freed) -/
def prevOf (d : Daemon W) (id : CId) : Option (Option CId) :=
  match prevIn d.conns id with
  | some r => some r
  | none =>
    match prevIn d.susp id with
    | some r => some r
    | none => prevIn d.cleanup id

def listOf (d : Daemon W) : Wh → List (Conn W)
  | .active => d.conns
  | .susp => d.susp
  | .cleanup => d.cleanup

def setList (d : Daemon W) (wh : Wh) (l : List (Conn W)) : Daemon W :=
  match wh with
  | .active => { d with conns := l }
  | .susp => { d with susp := l }
  | .cleanup => { d with cleanup := l }

/-- write a connection back: same list → in place; other list → DLL_remove + DLL_insert (head) -/
def place (d : Daemon W) (c : Conn W) (wh0 wh1 : Wh) : Daemon W :=
  if wh0 = wh1 then d.setList wh0 (setConn (d.listOf wh0) c)
  else
    let d1 := d.setList wh0 (eraseConn (d.listOf wh0) c.id)
    d1.setList wh1 (c :: d1.listOf wh1)

end Daemon

/-! ### handler calls on one connection -/

structure CS (W : Type) where
  c : Conn W
  wh : Wh
  evs : List Ev

variable {W : Type}

def doRead (ops : Ops W) (force : Bool) (s : CS W) : CS W :=
  { s with c := { s.c with k := s.c.k + 1, loc := ops.read s.c.id s.c.k force s.c.loc },
           evs := .read s.c.id :: s.evs }

def doWrite (ops : Ops W) (s : CS W) : CS W :=
  { s with c := { s.c with k := s.c.k + 1, loc := ops.write s.c.id s.c.k s.c.loc },
           evs := .write s.c.id :: s.evs }

/-- `MHD_connection_close_` as called by call_handlers: whatever it does to the
    request (notification …) is `ops.close`; it always ends in mark_closed_. -/
def doClose (ops : Ops W) (s : CS W) : CS W :=
  { s with c := { s.c with k := s.c.k + 1,
                           loc := { ops.close s.c.id s.c.k s.c.loc with st := stClosed, eli := .cleanup } },
           evs := .close s.c.id :: s.evs }

/-- MHD_connection_epoll_update_ (the epoll_ctl failure exit is not modelled) -/
def epollUpdate (c : Conn W) : Conn W :=
  let c1 := if c.loc.eli.hasProcess && !c.inEready then { c with inEready := true } else c
  if !c1.inEpollSet && !c1.epSusp &&
     ((c1.loc.eli.isWrite && !c1.loc.wrReady) || (c1.loc.eli.hasRead && !c1.loc.rdReady))
  then { c1 with inEpollSet := true } else c1

/-- internal_suspend_connection_, epoll part -/
def epollSuspend (c : Conn W) : Conn W :=
  { c with inEready := false, inEpollSet := false, epSusp := true }

/-- MHD_connection_handle_idle seen from the daemon: the abstract step, then the
    list move it implies, then (epoll, still active) epoll_update_. -/
def doIdle (ops : Ops W) (epoll : Bool) (s : CS W) : CS W :=
  let r := ops.idle s.c.id s.c.k s.wh s.c.loc
  let c1 : Conn W := { s.c with k := s.c.k + 1, loc := r.1 }
  let c2 := if epoll && s.wh = .active && r.2 = .susp then epollSuspend c1 else c1
  let c3 := if epoll && r.2 = .active then epollUpdate c2 else c2
  { c := c3, wh := r.2, evs := .idle s.c.id :: s.evs }

structure ChRes (W : Type) where
  c : Conn W
  wh : Wh
  evs : List Ev
  dapCheck : Bool      -- was the final `data_already_pending` block reached?

/-- call_handlers after the read block, `force_close` = false -/
def chTail (ops : Ops W) (epoll onFast wr : Bool) (s : CS W) (processed : Bool) : ChRes W :=
  let wrote := s.c.loc.eli.isWrite && wr
  let s1 := if wrote then doIdle ops epoll (doWrite ops s) else s
  let processed1 := processed || wrote
  let s2 :=
    if !processed1 then doIdle ops epoll s1
    else if onFast && s1.c.nonblock then
      let s3 := if s1.c.loc.st = stHeadersSending then doIdle ops epoll (doWrite ops s1) else s1
      if s3.c.loc.st = stNormalBodyReady || s3.c.loc.st = stChunkedBodyReady
      then doIdle ops epoll (doWrite ops s3) else s3
    else s1
  { c := s2.c, wh := s2.wh, evs := s2.evs, dapCheck := true }

/-- call_handlers on a detached connection (TLS read-ahead and thread-per-connection not modelled) -/
def chLocal (ops : Ops W) (epoll : Bool) (c0 : Conn W) (wh0 : Wh) (rr wr fc : Bool) : ChRes W :=
  let s0 : CS W := { c := c0, wh := wh0, evs := [] }
  let onFast := c0.loc.st = stInit
  if c0.loc.eli.hasRead && (rr || (fc && c0.nonblock)) then
    let s1 := doIdle ops epoll (doRead ops fc s0)
    if fc then { c := s1.c, wh := s1.wh, evs := s1.evs, dapCheck := false }
    else chTail ops epoll onFast wr s1 true
  else if fc then
    let s1 := doIdle ops epoll (doClose ops s0)
    { c := s1.c, wh := s1.wh, evs := s1.evs, dapCheck := false }
  else chTail ops epoll onFast wr s0 false

/-- keep `eready` (EDLL) consistent with the connection's IN_EREADY bit -/
def syncEready (d : Daemon W) (id : CId) (was now : Bool) : Daemon W :=
  if now && !was then { d with eready := id :: d.eready }
  else if !now && was then { d with eready := d.eready.erase id }
  else d

/-- call_handlers (con, read_ready, write_ready, force_close) -/
def callHandlers (ops : Ops W) (d : Daemon W) (id : CId) (rr wr fc : Bool) : Daemon W :=
  match d.lookup id with
  | none => { d with fault := some "call_handlers: connection is in no list" }
  | some (c, wh) =>
    let r := chLocal ops d.epoll c wh rr wr fc
    let d1 := d.place r.c wh r.wh
    let d2 := syncEready d1 id c.inEready r.c.inEready
    let d3 := if r.dapCheck && !d2.dap && r.c.loc.eli.hasProcess then { d2 with dap := true } else d2
    { d3 with log := r.evs ++ d3.log }

/-- a lone MHD_connection_handle_idle (pos) as in the timeout scan of MHD_epoll -/
def idleAt (ops : Ops W) (d : Daemon W) (id : CId) : Daemon W :=
  match d.lookup id with
  | none => { d with fault := some "handle_idle: connection is in no list" }
  | some (c, wh) =>
    let s := doIdle ops d.epoll { c := c, wh := wh, evs := [] }
    let d1 := d.place s.c wh s.wh
    let d2 := syncEready d1 id c.inEready s.c.inEready
    { d2 with log := s.evs ++ d2.log }

end Mhd.Loop
