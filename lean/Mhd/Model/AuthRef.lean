/-
  Grammar-level reference reader of Digest credentials (specification side of C14; nothing here
  mirrors C code).  A recursive-descent reader written from the ABNF:

      credentials-params = OWS #auth-param                                   (RFC 7235 §2.1, RFC 7230 §7)
      #element           = [ ( "," / element ) *( OWS "," [ OWS element ] ) ]
      auth-param         = token BWS "=" BWS ( token / quoted-string )
      token              = 1*tchar
      quoted-string      = DQUOTE *( qdtext / quoted-pair ) DQUOTE
      qdtext             = HTAB / SP / %x21 / %x23-5B / %x5D-7E / obs-text
      quoted-pair        = "\" ( HTAB / SP / VCHAR / obs-text )

  It returns the parse tree (`List GElem`: for every list element its name in the letter case used,
  the white space at every position, the form of the value and which characters were written as
  quoted-pair) — or `none` when the string is not in the grammar.  Parameter names are compared
  caselessly with the twelve names RFC 7616 defines; all others are extension parameters and are
  skipped; of a repeated parameter the last occurrence counts (`viewG`).
-/
import Mhd.Model.AuthGrammar

namespace Mhd.Auth.Ref
open Mhd.Auth Mhd.Gen.Auth

/-- RFC 7230 `tchar` -/
def tchar (c : UInt8) : Bool :=
  c = 33 || (35 ≤ c.toNat && c.toNat ≤ 39) || c = 42 || c = 43 || c = 45 || c = 46 ||
    (48 ≤ c.toNat && c.toNat ≤ 57) || (65 ≤ c.toNat && c.toNat ≤ 90) || (94 ≤ c.toNat && c.toNat ≤ 122) ||
    c = 124 || c = 126

/-- RFC 7230 `qdtext` -/
def qdtext (c : UInt8) : Bool :=
  c = 9 || c = 32 || c = 33 || (35 ≤ c.toNat && c.toNat ≤ 91) || (93 ≤ c.toNat && c.toNat ≤ 126) || 128 ≤ c.toNat

/-- what may follow the backslash of a `quoted-pair` -/
def qpchar (c : UInt8) : Bool := c = 9 || (32 ≤ c.toNat && c.toNat ≤ 126) || 128 ≤ c.toNat

/-- longest prefix of bytes satisfying `p`, and the rest -/
def spanP (p : UInt8 → Bool) : Bytes → Bytes × Bytes
  | [] => ([], [])
  | c :: r => if p c then ((spanP p r).1.cons c, (spanP p r).2) else ([], c :: r)

/-- after the opening DQUOTE: (value, which characters were quoted-pairs, rest after the closing DQUOTE) -/
def qstring : Bytes → Option (Bytes × List Bool × Bytes)
  | [] => none
  | c :: r =>
    if c = 34 then some ([], [], r)
    else if c = 92 then
      match r with
      | [] => none
      | c2 :: r2 => if qpchar c2 then (qstring r2).map fun x => (c2 :: x.1, true :: x.2.1, x.2.2) else none
    else if qdtext c then (qstring r).map fun x => (c :: x.1, false :: x.2.1, x.2.2)
    else none

def isUpperB (c : UInt8) : Bool := decide (65 ≤ c.toNat ∧ c.toNat ≤ 90)

/-- index of a (lower-cased) name in the table of RFC 7616 parameter names -/
def slotOf (lname : Bytes) : List Bytes → Nat → Option Nat
  | [], _ => none
  | nm :: t, k => if nm = lname then some k else slotOf lname t (k + 1)

/-- one `auth-param` as read: name in the letter case used, BWS, BWS, form and meaning of the value, OWS -/
structure P where
  name : Bytes
  ws1 : Bytes
  ws2 : Bytes
  f : Form
  v : Bytes
  ws3 : Bytes
  deriving DecidableEq, Repr

/-- `token / quoted-string`: form, meaning, rest -/
def pvalue : Bytes → Option (Form × Bytes × Bytes)
  | [] => none
  | q :: r5 =>
    if q = 34 then (qstring r5).map fun x => (.quoted x.2.1, x.1, x.2.2)
    else if (spanP tchar (q :: r5)).1 = [] then none
    else some (.token, (spanP tchar (q :: r5)).1, (spanP tchar (q :: r5)).2)

/-- `token BWS "=" BWS ( token / quoted-string ) OWS`: the parameter and the rest -/
def param (s : Bytes) : Option (P × Bytes) :=
  if (spanP tchar s).1 = [] then none
  else
    match (spanP isWs (spanP tchar s).2).2 with
    | [] => none
    | e :: r3 =>
      if e ≠ 61 then none
      else
        match pvalue (spanP isWs r3).2 with
        | none => none
        | some (f, v, r6) =>
          some (⟨(spanP tchar s).1, (spanP isWs (spanP tchar s).2).1, (spanP isWs r3).1, f, v, (spanP isWs r6).1⟩,
                (spanP isWs r6).2)

/-- the tree node of one `auth-param`; `ws4` = OWS after the comma that follows -/
def mk (p : P) (ws4 : Bytes) : GElem :=
  match slotOf (p.name.map toLowerB) paramNames 0 with
  | some k => .known ⟨⟨k, p.v⟩, ⟨p.name.map isUpperB, p.ws1, p.ws2, p.f, p.ws3, ws4⟩⟩
  | none => .ext p.name ⟨[], p.ws1, p.ws2, p.f, p.ws3, ws4⟩ p.v

/-- the list, input positioned at the start of an element (OWS already consumed); `fuel` bounds the
    number of elements -/
def elems : Nat → Bytes → Option (List GElem)
  | 0, _ => none
  | _ + 1, [] => some [.empty []]
  | fuel + 1, c :: r =>
    if c = 44 then (elems fuel (spanP isWs r).2).map (.empty (spanP isWs r).1 :: ·)
    else
      match param (c :: r) with
      | none => none
      | some (p, []) => some [mk p []]
      | some (p, d :: r8) =>
        if d ≠ 44 then none
        else (elems fuel (spanP isWs r8).2).map (mk p (spanP isWs r8).1 :: ·)

/-- the reference reader: leading OWS and the parse tree of the list -/
def parse (s : Bytes) : Option (Bytes × List GElem) :=
  (elems ((spanP isWs s).2.length + 1) (spanP isWs s).2).map fun gs => ((spanP isWs s).1, gs)

/-- value of parameter `k` according to the reference reader (`none` also when `s` is outside the grammar) -/
def value (s : Bytes) (k : Nat) : Option Bytes :=
  match parse s with
  | some (_, gs) => viewG gs k
  | none => none

end Mhd.Auth.Ref
