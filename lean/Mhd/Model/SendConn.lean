/-
  C07 — the write side of a connection while one reply is being sent
  (connection.c: MHD_connection_handle_write, the reply states of
  MHD_connection_handle_idle, try_ready_normal_body, try_ready_chunked_body,
  check_write_done) on top of the senders of `Mhd.Model.Send`.

  The reply is described by `Resp` (what MHD_queue_response /
  build_header_response left behind: header bytes, the body, how the body is
  stored); `Conn` holds exactly the fields the C code updates.  `out` is the
  ghost field "bytes that left through the socket so far".
-/
import Mhd.Model.Send

namespace Mhd.Send
open Mhd.Gen.Send

/-- how the body of the response is stored -/
inductive Kind where
  | buffer      -- `data` buffer, no content reader, no iovec   (static / copy / empty)
  | iovec       -- `data_iov`
  | file        -- fd response: content reader = `file_reader`, sendfile possible
  | callback    -- application content reader
  deriving DecidableEq, Repr, Inhabited

/-- reply states of `enum MHD_CONNECTION_STATE`; `done` = the reply is complete and the
    connection has been reset or closed orderly, `closed` = closed because of an error -/
inductive St where
  | headersSending | headersSent | normalBodyUnready | normalBodyReady
  | chunkedBodyUnready | chunkedBodyReady | chunkedBodySent | footersSending
  | fullReplySent | done | closed
  deriving DecidableEq, Repr, Inhabited

/-- the reply that has been queued (constant while it is sent) -/
structure Resp where
  hdr : Bytes            -- what build_header_response() wrote into the write buffer
  body : Bytes           -- the complete content
  kind : Kind
  iov : List Bytes       -- the elements of an iovec response (`body = iov.flatten`)
  sizeKnown : Bool       -- total_size ≠ MHD_SIZE_UNKNOWN
  chunked : Bool         -- rp.props.chunked
  sendBody : Bool        -- rp.props.send_reply_body
  footer : Bytes         -- what build_connection_chunked_response_footer() writes
  bufSize : Nat          -- response->data_buffer_size
  wbSize : Nat           -- write buffer available for chunks (write_buffer_size + free pool)
  cbMax : Nat            -- the content reader hands out at most this much per call (0: no limit)
  fdOff : Nat            -- response->fd_off
  sendfile : Bool        -- rp.resp_sender as chosen by MHD_queue_response
  thrPerConn : Bool
  noVec : Bool           -- TLS: vector send disallowed
  nonblk : Bool          -- connection->sk_nonblck
  aware : Bool := true   -- rq.client_aware when the reply starts: the request has been presented to the application
  reuse : Bool := true   -- at FULL_REPLY_SENT: keepalive = USE_KEEPALIVE ∧ ¬ read_closed ∧ ¬ discard_request
  stopErr : Bool := false -- connection->stop_with_error (automatic error reply; implies ¬ reuse)
  failEos : Bool := false -- how the content reader ends the body when it fails (`AppAns.err`): `true` = it returns
                          -- MHD_CONTENT_READER_END_OF_STREAM although less than the declared size has been delivered
                          -- (known-size, non-chunked replies only: elsewhere END_OF_STREAM defines the content),
                          -- `false` = MHD_CONTENT_READER_END_WITH_ERROR
  deriving Repr, Inhabited

/-- the `enum MHD_RequestTerminationCode` values the reply path reports -/
inductive Term where
  | completedOk | withError
  deriving DecidableEq, Repr, Inhabited

/-- The close path's bookkeeping: the fields MHD_connection_close_, connection_reset and
    cleanup_connection test and clear, plus ghost counters of what they did. -/
structure Bk where
  aware : Bool           -- rq.client_aware
  respHeld : Bool        -- rp.response ≠ NULL: the connection's reference to the queued response
  poolLive : Bool        -- connection->pool ≠ NULL
  cstClosed : Bool       -- connection->state = MHD_CONNECTION_CLOSED (`St.done` covers INIT-after-reset and CLOSED)
  inCleanup : Bool       -- connection->in_cleanup
  notes : List Term      -- ghost: the completion notifications delivered to the application, in order
  respDrops : Nat        -- ghost: MHD_destroy_response calls of this connection on the queued response
  poolDestroys : Nat     -- ghost: MHD_pool_destroy calls
  poolResets : Nat       -- ghost: MHD_pool_reset calls
  cleanups : Nat         -- ghost: insertions into the daemon's clean-up list
  deriving DecidableEq, Repr, Inhabited

/-- `MHD_connection_close_ (connection, t)` (connection.c:1261): notify if the application knows
    the request, drop the response reference if still held, destroy the pool if still there,
    mark closed. -/
def Bk.close (b : Bk) (t : Term) : Bk :=
  { b with notes := if b.aware then b.notes ++ [t] else b.notes, aware := false,
           respDrops := if b.respHeld then b.respDrops + 1 else b.respDrops, respHeld := false,
           poolDestroys := if b.poolLive then b.poolDestroys + 1 else b.poolDestroys, poolLive := false,
           cstClosed := true }

/-- `connection_reset (connection, reuse)` (connection.c:7198) -/
def Bk.reset (b : Bk) (reuse stopErr : Bool) : Bk :=
  if reuse then
    { b with notes := if b.aware then b.notes ++ [.completedOk] else b.notes, aware := false,
             respDrops := if b.respHeld then b.respDrops + 1 else b.respDrops, respHeld := false,
             poolResets := b.poolResets + 1 }
  else b.close (if stopErr then .withError else .completedOk)

/-- `cleanup_connection` (connection.c:7080), reached from the CLOSED case of
    MHD_connection_handle_idle: guarded against a second run; drops the response if it is
    still referenced; moves the connection to the clean-up list. -/
def Bk.cleanup (b : Bk) : Bk :=
  if b.inCleanup then b
  else { b with inCleanup := true, respDrops := if b.respHeld then b.respDrops + 1 else b.respDrops,
                respHeld := false, cleanups := b.cleanups + 1 }

/-- what the connection holds when a reply starts -/
def Bk.init (aware : Bool) : Bk :=
  { aware := aware, respHeld := true, poolLive := true, cstClosed := false, inCleanup := false, notes := [],
    respDrops := 0, poolDestroys := 0, poolResets := 0, cleanups := 0 }

structure Conn where
  st : St
  wb : Bytes             -- write_buffer[0 .. write_buffer_append_offset)
  so : Nat               -- write_buffer_send_offset
  ao : Nat               -- write_buffer_append_offset
  rp : Nat               -- rp.rsp_write_position
  tot : Nat              -- response->total_size (the code overwrites it at end of stream)
  ds : Nat               -- response->data_start
  dz : Nat               -- response->data_size
  iovSet : Bool          -- rp.resp_iov.iov ≠ NULL
  isent : Nat            -- rp.resp_iov.sent
  irest : List Bytes     -- rp.resp_iov.iov[sent ..], current element trimmed
  sf : Bool              -- rp.resp_sender = MHD_resp_sender_sendfile
  out : Bytes            -- ghost: everything the socket took
  fault : Bool           -- an access outside a buffer / MHD_PANIC would have happened
  bk : Bk                -- close-path bookkeeping
  deriving Repr, Inhabited

/-- what the application's content reader does when it is asked -/
inductive AppAns where
  | ready | notReady | err
  deriving DecidableEq, Repr, Inhabited

/-- result of a content reader call -/
inductive CbRes where
  | data (n : Nat) | eos | err
  deriving DecidableEq, Repr, Inhabited

def capMax (cbMax n : Nat) : Nat := if cbMax = 0 then n else min cbMax n

/-- a content reader that is ready: it serves the bytes of `body` at `pos`, at most `max`
    (and at most `cbMax`); at the end of the content it reports end-of-stream -/
def readerGives (body : Bytes) (cbMax pos max : Nat) : CbRes :=
  if body.length ≤ pos then .eos
  else .data (capMax cbMax (min max (body.length - pos)))

/-- `response->crc (crc_cls, pos, buf, max)`: the application reader for `callback`
    responses, `file_reader` (always ready, no per-call cap) for `file` responses -/
def crcCall (r : Resp) (pos max : Nat) (app : AppAns) : CbRes :=
  match r.kind with
  | .callback =>
    match app with
    | .err => .err
    | .notReady => .data 0
    | .ready => readerGives r.body r.cbMax pos max
  | _ => readerGives r.body 0 pos max

def hexDigitUp (n : Nat) : UInt8 := if n < 10 then UInt8.ofNat (48 + n) else UInt8.ofNat (55 + n)

/-- the seven leading nibbles of a `uint32_t` -/
def leadNibbles (n : Nat) : List Nat :=
  [n / 268435456 % 16, n / 16777216 % 16, n / 1048576 % 16, n / 65536 % 16, n / 4096 % 16,
   n / 256 % 16, n / 16 % 16]

/-- `MHD_uint32_to_strx`: upper-case hex, leading zeros skipped, at least one digit -/
def hexOf (n : Nat) : Bytes :=
  ((leadNibbles n).dropWhile (· = 0) ++ [n % 16]).map hexDigitUp

def crlf : Bytes := [13, 10]

/-- `[a, a+n)` of `l` -/
def slice (l : Bytes) (a n : Nat) : Bytes := (l.drop a).take n

def chunkFrame (d : Bytes) : Bytes := hexOf d.length ++ crlf ++ d ++ crlf

/-- "FFFFFF" + "\r\n" -/
def maxChunkHdrLen : Nat := chunkHdrDigits + 2
/-- "FFFFFF" + "\r\n" + "\r\n" -/
def maxChunkOverhead : Nat := chunkHdrDigits + 2 + 2

/-- `size_to_fill` of try_ready_chunked_body before the `left_to_send` limit -/
def sizeToFill0 (r : Resp) : Nat :=
  let s := r.wbSize - maxChunkOverhead
  if maxChunk < s then maxChunk else s

def initConn (r : Resp) : Conn :=
  { st := .headersSending, wb := r.hdr, so := 0, ao := r.hdr.length,
    -- HEAD / 1xx / 204 / 304: "pretend that we have already sent the full message body"
    rp := if r.sendBody then 0 else (if r.sizeKnown then r.body.length else sizeUnknown),
    tot := if r.sizeKnown then r.body.length else sizeUnknown,
    ds := 0, dz := if r.kind = .buffer then r.body.length else 0,
    iovSet := false, isent := 0, irest := [], sf := r.sendfile, out := [], fault := false,
    bk := Bk.init r.aware }

/-- `START_REPLY`: build_header_response() needs pool memory; failure closes the connection -/
def startReply (r : Resp) (allocOk : Bool) : Conn :=
  if allocOk then initConn r
  else { initConn r with st := .closed, wb := [], ao := 0, bk := (Bk.init r.aware).close .withError }

/-- CONNECTION_CLOSE_ERROR: MHD_connection_close_ (…, MHD_REQUEST_TERMINATED_WITH_ERROR) -/
def closeErr (c : Conn) : Conn := { c with st := .closed, bk := c.bk.close .withError }
/-- MHD_connection_close_ (…, MHD_REQUEST_TERMINATED_COMPLETED_OK) at the end of a
    close-delimited body -/
def closeOk (c : Conn) : Conn := { c with st := .done, bk := c.bk.close .completedOk }
/-- `if (0 > ret)` of try_ready_normal_body (connection.c:1480): the reader ended the body before
    `total_size`.  Both flavours close the connection (the Content-Length that was announced cannot be
    met, the connection must not be kept); they differ in the termination code only:
    END_OF_STREAM ⇒ MHD_connection_close_ (…, COMPLETED_OK), otherwise CONNECTION_CLOSE_ERROR. -/
def readerTerm (r : Resp) : Term := if r.failEos then .completedOk else .withError
def closeReader (r : Resp) (c : Conn) : Conn := { c with st := .closed, bk := c.bk.close (readerTerm r) }
def setFault (c : Conn) : Conn := { c with st := .closed, fault := true, bk := c.bk.close .withError }

/-- `check_write_done` -/
def checkWriteDone (c : Conn) (next : St) : Conn :=
  if c.ao ≠ c.so then c else { c with ao := 0, so := 0, st := next }

/-- `&write_buffer[send_offset]`, `append_offset - send_offset` bytes — checked -/
def wbPending (c : Conn) : Option Bytes :=
  if c.so ≤ c.ao ∧ c.ao ≤ c.wb.length then some (slice c.wb c.so (c.ao - c.so)) else none

/-- `try_ready_normal_body` (connection.c:1403).  Second component: MHD_YES / MHD_NO. -/
def tryReadyNormalBody (r : Resp) (c : Conn) (app : AppAns) (allocOk : Bool) : Conn × Bool :=
  if c.tot = 0 ∨ c.rp = c.tot then (c, true)
  else if r.kind = .iovec then
    if c.iovSet then (c, true)
    else if allocOk then ({ c with iovSet := true, isent := 0, irest := r.iov }, true)
    else (closeErr c, false)                       -- not enough memory
  else if r.kind = .buffer then (c, true)           -- NULL == response->crc
  else if c.ds ≤ c.rp ∧ c.rp < c.dz + c.ds then (c, true)   -- response already ready
  else if c.sf then (c, true)                       -- will use sendfile
  else
    match crcCall r c.rp (min r.bufSize (c.tot - c.rp)) app with
    | .err => (closeReader r { c with tot := c.rp }, false)
    | .eos => (closeOk { c with tot := c.rp }, false)
    | .data 0 => ({ c with ds := c.rp, dz := 0, st := .normalBodyUnready }, false)
    | .data n => ({ c with ds := c.rp, dz := n }, true)

/-- `try_ready_chunked_body` (connection.c:1505).
    Second component: `none` = MHD_NO, `some finished` = MHD_YES. -/
def tryReadyChunkedBody (r : Resp) (c : Conn) (app : AppAns) : Conn × Option Bool :=
  if r.wbSize < minChunkBuf then (closeErr c, none)          -- not enough memory
  else
    let left := if c.tot = sizeUnknown then sizeUnknown else c.tot - c.rp
    let stf := if left < sizeToFill0 r then left else sizeToFill0 r
    let res : Option CbRes :=
      if left = 0 then some .eos
      else if c.ds ≤ c.rp ∧ c.rp < c.ds + c.dz then
        -- buffer already ready, use what is there for the chunk
        let avail := c.dz - (c.rp - c.ds)
        some (.data (if stf < avail then stf else avail))
      else if r.kind = .buffer ∨ r.kind = .iovec then none   -- "No callback for the chunked data"
      else some (crcCall r c.rp stf app)
    match res with
    | none => (closeErr c, none)
    | some .err => (closeErr { c with tot := c.rp }, none)
    | some .eos => ({ c with tot := c.rp }, some true)
    | some (.data 0) => ({ c with st := .chunkedBodyUnready }, none)
    | some (.data n) =>
      if stf < n then (closeErr c, none)                     -- more data than requested
      else if r.wbSize < maxChunkHdrLen + n + 2 then (setFault c, none)
      else
        let hx := hexOf n
        let so := maxChunkHdrLen - (hx.length + 2)
        ({ c with wb := List.replicate so 0 ++ hx ++ crlf ++ slice r.body c.rp n ++ crlf,
                  so := so, ao := maxChunkHdrLen + n + 2, rp := c.rp + n }, some false)

/-- one transition of the reply part of `MHD_connection_handle_idle` -/
def idleStep (r : Resp) (c : Conn) (app : AppAns) (allocOk : Bool) : Conn :=
  match c.st with
  | .headersSent =>
    if r.sendBody then
      (if r.chunked then { c with st := .chunkedBodyUnready } else { c with st := .normalBodyUnready })
    else { c with st := .fullReplySent }
  | .normalBodyUnready =>
    if c.tot = 0 then { c with st := if r.chunked then .chunkedBodySent else .fullReplySent }
    else
      let (c', ok) := tryReadyNormalBody r c app allocOk
      if ok then { c' with st := .normalBodyReady } else c'
  | .chunkedBodyUnready =>
    if c.tot = 0 ∨ c.rp = c.tot then { c with st := .chunkedBodySent }
    else
      match tryReadyChunkedBody r c app with
      | (c', some fin) => { c' with st := if fin then .chunkedBodySent else .chunkedBodyReady }
      | (c', none) => c'
  | .chunkedBodySent =>
    -- build_connection_chunked_response_footer (needs write-buffer space)
    if allocOk then { c with wb := r.footer, so := 0, ao := r.footer.length, st := .footersSending }
    else closeErr c
  | .fullReplySent => { c with st := .done, bk := c.bk.reset r.reuse r.stopErr }   -- connection_reset
  | _ => c

/-- the CLOSED case of the loop in MHD_connection_handle_idle: `cleanup_connection` -/
def idleClosed (c : Conn) : Conn := if c.bk.cstClosed then { c with bk := c.bk.cleanup } else c

/-- `MHD_connection_handle_idle`: the `while` loop runs transitions until a state `break`s;
    four iterations cover the longest chain (HEADERS_SENT → … → FOOTERS_SENDING); a connection that
    is (or has just been) closed ends in the CLOSED case -/
def handleIdle (r : Resp) (c : Conn) (app : AppAns) (allocOk : Bool) : Conn :=
  idleClosed (idleStep r (idleStep r (idleStep r (idleStep r c app allocOk) app allocOk) app allocOk) app allocOk)

/-- common tail of the three write-buffer states: account `ret`, then `check_write_done` -/
def wbAccount (c : Conn) (o : SendOut) (next : St) : Conn :=
  let c1 := { c with out := c.out ++ o.wire }
  match o.ret with
  | .error .again => c1
  | .error _ => closeErr c1
  | .ok n => checkWriteDone { c1 with so := c1.so + n } next

/-- HEADERS_SENDING branch of `MHD_connection_handle_write` (connection.c:6659) -/
def hwHeaders (r : Resp) (c : Conn) (s1 s2 : SockRes) : Conn :=
  match wbPending c with
  | none => setFault c
  | some hdrPart =>
    let wbReady := c.ao - c.so
    let o :=
      if r.sendBody ∧ r.kind = .buffer ∧ c.rp = 0 ∧ ¬ r.chunked then
        -- send response headers alongside the response body
        sendHdrAndBody false r.noVec r.nonblk hdrPart (slice r.body 0 c.dz) s1 s2
      else sendHdrAndBody false r.noVec r.nonblk hdrPart [] s1 s2
    let c1 := { c with out := c.out ++ o.wire }
    match o.ret with
    | .error .again => c1
    | .error _ => closeErr c1
    | .ok ret =>
      let c2 := if wbReady < ret then { c1 with so := c1.so + wbReady, rp := ret - wbReady }
                else { c1 with so := c1.so + ret }
      checkWriteDone c2 .headersSent

/-- NORMAL_BODY_READY branch (connection.c:6750) -/
def hwNormalBody (r : Resp) (c : Conn) (s : SockRes) (app : AppAns) (allocOk : Bool) : Conn :=
  let finish (c : Conn) : Conn := if c.rp = c.tot then { c with st := .fullReplySent } else c
  if c.rp < c.tot then
    match tryReadyNormalBody r c app allocOk with
    | (c', false) => c'
    | (c', true) =>
      if c'.sf then
        let x := sendSendfile r.thrPerConn r.body r.fdOff c'.rp c'.tot s
        let c1 := { c' with out := c'.out ++ x.out.wire, sf := x.sf }
        match x.out.ret with
        | .error .again => c1
        | .error _ => closeErr c1
        | .ok n => finish { c1 with rp := c1.rp + n }
      else if r.kind = .iovec then
        let x := sendIovec false c'.isent c'.irest s
        let c1 := { c' with out := c'.out ++ x.out.wire, isent := x.sent, irest := x.rest }
        if x.fault then setFault c1 else
        match x.out.ret with
        | .error .again => c1
        | .error _ => closeErr c1
        | .ok n => finish { c1 with rp := c1.rp + n }
      else
        -- &response->data[rp - data_start], data_size - (rp - data_start)
        let off := c'.rp - c'.ds
        if c'.rp < c'.ds ∨ c'.dz < off ∨ r.body.length < c'.ds + c'.dz then setFault c' else
        let o := sendData false (slice r.body (c'.ds + off) (c'.dz - off)) s
        let c1 := { c' with out := c'.out ++ o.wire }
        match o.ret with
        | .error .again => c1
        | .error _ => closeErr c1
        | .ok n => finish { c1 with rp := c1.rp + n }
  else finish c

/-- `MHD_connection_handle_write` (connection.c:6586); `s1`, `s2` answer the system calls
    it makes (at most two), `app`/`allocOk` a content-reader call / pool allocation it makes -/
def handleWrite (r : Resp) (c : Conn) (s1 s2 : SockRes) (app : AppAns) (allocOk : Bool) : Conn :=
  match c.st with
  | .headersSending => hwHeaders r c s1 s2
  | .normalBodyReady => hwNormalBody r c s1 app allocOk
  | .chunkedBodyReady =>
    match wbPending c with
    | none => setFault c
    | some b =>
      wbAccount c (sendData false b s1)
        (if c.tot = c.rp then .chunkedBodySent else .chunkedBodyUnready)
  | .footersSending =>
    match wbPending c with
    | none => setFault c
    | some b => wbAccount c (sendData false b s1) .fullReplySent
  | _ => c

/-- one turn of the event loop for this connection (daemon.c: call_handlers): if the socket
    is write-ready `MHD_connection_handle_write`, then always `MHD_connection_handle_idle`.
    The fields are the answers of the environment to what the two functions may ask:
    the operating system (`s1`, `s2`), the content reader (`appW`, `appI`) and the
    allocator (`allocW`, `allocI`). -/
structure Round where
  wr : Bool := true
  s1 : SockRes := .full
  s2 : SockRes := .full
  appW : AppAns := .ready
  allocW : Bool := true
  appI : AppAns := .ready
  allocI : Bool := true
  deriving Repr, Inhabited

def round (r : Resp) (c : Conn) (x : Round) : Conn :=
  handleIdle r (if x.wr then handleWrite r c x.s1 x.s2 x.appW x.allocW else c) x.appI x.allocI

def run (r : Resp) (c : Conn) (xs : List Round) : Conn := xs.foldl (round r) c

/-! ### The reply stream `R` and what is still pending according to the offsets -/

/-- the chunk frames the reply consists of from body position `p` on (`fuel` bounds the
    number of chunks; every chunk advances the position) -/
def framesAux (r : Resp) : Nat → Nat → Bytes
  | 0, _ => []
  | fuel + 1, p =>
    if p < r.body.length then
      let n := capMax r.cbMax (min (sizeToFill0 r) (r.body.length - p))
      if n = 0 then [] else chunkFrame (slice r.body p n) ++ framesAux r fuel (p + n)
    else []

def frames (r : Resp) (p : Nat) : Bytes := framesAux r (r.body.length - p) p

/-- what follows the header block -/
def afterHeaders (r : Resp) (p : Nat) : Bytes :=
  if r.sendBody then (if r.chunked then frames r p ++ r.footer else r.body.drop p) else []

/-- the reply stream -/
def stream (r : Resp) : Bytes := r.hdr ++ afterHeaders r 0

/-- the part of the reply stream that has not left yet, read off the connection's offsets -/
def pending (r : Resp) (c : Conn) : Bytes :=
  match c.st with
  | .headersSending => slice c.wb c.so (c.ao - c.so) ++ afterHeaders r c.rp
  | .headersSent => afterHeaders r c.rp
  | .normalBodyUnready | .normalBodyReady => r.body.drop c.rp
  | .chunkedBodyUnready => frames r c.rp ++ r.footer
  | .chunkedBodyReady => slice c.wb c.so (c.ao - c.so) ++ frames r c.rp ++ r.footer
  | .chunkedBodySent => r.footer
  | .footersSending => slice c.wb c.so (c.ao - c.so)
  | .fullReplySent | .done | .closed => []

/-! ### Upload side: identity-encoded request body -/

structure Up where
  closed : Bool
  buf : Bytes            -- read_buffer[0 .. read_buffer_offset)
  cap : Nat              -- read_buffer_size
  remaining : Nat        -- rq.remaining_upload_size
  pendingIn : Bytes      -- sent by the client, not yet read from the socket
  handed : Bytes         -- ghost: upload bytes the application has consumed
  deriving Repr, Inhabited

inductive UpOp where
  | read (r : RecvRes)            -- MHD_connection_handle_read
  | process (take : Nat)          -- process_request_body: the application consumes `take` bytes
  deriving Repr, Inhabited

/-- `MHD_connection_handle_read` (connection.c:6413), the part that moves bytes -/
def upRead (u : Up) (r : RecvRes) : Up :=
  if u.closed then u
  else if u.cap = u.buf.length then u                       -- no space for receiving data
  else
    match recvAdapter false (u.cap - u.buf.length) u.pendingIn r with
    | (.error .again, _) => u
    | (.error _, _) => { u with closed := true }
    | (.ok 0, _) => { u with closed := true }                 -- remote side closed connection
    | (.ok n, got) => { u with buf := u.buf ++ got, pendingIn := u.pendingIn.drop n }

/-- `process_request_body` (connection.c:4401), not chunked: the handler is offered
    `min remaining available` bytes and leaves `left_unprocessed`; the rest is moved to the
    start of the buffer -/
def upProcess (u : Up) (take : Nat) : Up :=
  if u.closed ∨ u.remaining = 0 ∨ u.buf.length = 0 then u
  else
    let toBe := if u.remaining < u.buf.length then u.remaining else u.buf.length
    let processed := min take toBe
    { u with handed := u.handed ++ u.buf.take processed, buf := u.buf.drop processed,
             remaining := u.remaining - processed }

def upStep (u : Up) : UpOp → Up
  | .read r => upRead u r
  | .process t => upProcess u t

def upRun (u : Up) (ops : List UpOp) : Up := ops.foldl upStep u

def upInit (cap : Nat) (body rest : Bytes) : Up :=
  { closed := false, buf := [], cap := cap, remaining := body.length, pendingIn := body ++ rest, handed := [] }

end Mhd.Send
