/-
  C11 — suspend / resume: the daemon side (src/microhttpd/daemon.c).

    internal_suspend_connection_   (list moves: `sync`; flag part: `Conn.doSuspend`)
    MHD_resume_connection          (`resumeReq`)
    resume_suspended_connections   (`resumeSuspended`)
    new_connections_list_process_  (`processNew`)
    internal_run_from_select / MHD_run_from_select2 (`roundSelect`), MHD_poll_all (`roundPoll`),
    MHD_epoll (`roundEpoll`) — as far as they decide *which* connection gets a turn.

  Lists are Lean lists of connection indices in pointer order (head first).  The kernel's
  answers (select/poll readiness, epoll events) are parameters of the round operations, so
  every theorem holds for every kernel behaviour.
-/
import Mhd.Model.SuspConn

namespace Mhd.Susp

inductive Mode
  | select | epoll | poll
  deriving DecidableEq, Repr

abbrev Ev := Nat × CEv

structure Daemon where
  mode : Mode := .select
  conn : Nat → Conn := fun _ => {}
  newConns : List Nat := []     -- new_connections list, oldest first
  active : List Nat := []       -- connections_head … connections_tail
  susp : List Nat := []         -- suspended_connections_head … _tail
  eready : List Nat := []       -- eready_head … eready_tail
  normalTO : List Nat := []     -- normal_timeout_head … _tail
  resuming : Bool := false      -- daemon->resuming
  pending : Bool := false       -- daemon->data_already_pending

def Daemon.isEpoll (d : Daemon) : Bool := d.mode == .epoll

/-- MHD_get_timeout64 answers 0 — "do not block in select / poll / epoll_wait": `data_already_pending`,
    `daemon->resuming`, `have_new`, or (epoll) a non-empty eready list.  (No connection timeouts in this model.)
    Caveat: in epoll mode the model's `pending` over-approximates `data_already_pending` (`turnWith` also sets it
    for the timeout scan's direct MHD_connection_handle_idle call); the correspondence run compares this
    function with the real MHD_get_timeout64 in select mode only, and the theorems about it use the
    `resuming` / `eready` disjuncts only. -/
def Daemon.hintZero (d : Daemon) : Bool :=
  d.pending || d.resuming || !d.newConns.isEmpty || (d.isEpoll && !d.eready.isEmpty)

def setConn (f : Nat → Conn) (c : Nat) (k : Conn) : Nat → Conn :=
  fun i => if i = c then k else f i

def tag (c : Nat) (evs : List CEv) : List Ev := evs.map (fun e => (c, e))

/-- sequencing of daemon-level steps: run `f` on the result so far, append its events -/
def bindD (f : Daemon → Daemon × List Ev) (r : Daemon × List Ev) : Daemon × List Ev :=
  ((f r.1).1, r.2 ++ (f r.1).2)

/-- a step without events -/
def pureD (f : Daemon → Daemon) (d : Daemon) : Daemon × List Ev := (f d, [])

/-- list side of `internal_suspend_connection_` and of the EDLL updates of
    `MHD_connection_epoll_update_`, applied right after the turn of connection `c` -/
def sync (d : Daemon) (c : Nat) : Daemon :=
  let k := d.conn c
  let d1 : Daemon :=
    if k.suspended && d.active.contains c then
      { d with active := d.active.erase c, susp := c :: d.susp,
               normalTO := d.normalTO.erase c, eready := d.eready.erase c }
    else d
  if k.inEready && !d1.eready.contains c && d1.active.contains c then { d1 with eready := c :: d1.eready }
  else if !k.inEready && d1.eready.contains c then { d1 with eready := d1.eready.erase c }
  else d1

/-- give connection `c` a turn with function `f` -/
def turnWith (f : Conn → Conn × List CEv) (d : Daemon) (c : Nat) : Daemon × List Ev :=
  let r := f { (d.conn c) with dres := false }
  let d1 := { d with conn := setConn d.conn c r.1,
                     resuming := d.resuming || r.1.dres,
                     pending := d.pending || r.1.eli.hasProcess }
  (sync d1 c, tag c r.2)

/-- call_handlers on connection `c` -/
def turn (g : Guards) (d : Daemon) (c : Nat) (rr wr : Bool) : Daemon × List Ev :=
  turnWith (fun k => callHandlers g d.isEpoll k rr wr) d c

/-- MHD_connection_handle_idle on connection `c` (epoll timeout scan) -/
def idleTurn (g : Guards) (d : Daemon) (c : Nat) : Daemon × List Ev :=
  turnWith (handleIdle g d.isEpoll) d c

/-- MHD_resume_connection called from outside a callback -/
def resumeReq (d : Daemon) (c : Nat) : Daemon × List Ev :=
  ({ d with conn := setConn d.conn c { (d.conn c) with resuming := true }, resuming := true }, [(c, .resumeReq)])

/-- move one connection back (body of the loop of resume_suspended_connections) -/
def moveBack (g : Guards) (d : Daemon) (c : Nat) : Daemon :=
  let k := d.conn c
  let k1 := { k with suspended := false, resuming := false }
  let k2 := if d.isEpoll then
      { k1 with inEready := true, readReady := k1.readReady || g.resumeReady,
                writeReady := k1.writeReady || g.resumeReady, epSusp := false }
    else k1
  { d with conn := setConn d.conn c k2, susp := d.susp.erase c, active := c :: d.active,
           normalTO := c :: d.normalTO,
           eready := if d.isEpoll then c :: d.eready else d.eready }

def resumeScan (g : Guards) : List Nat → Daemon → Daemon × List Ev
  | [], d => (d, [])
  | c :: rest, d =>
    if (d.conn c).resuming then
      let r := resumeScan g rest (moveBack g d c)
      (r.1, (c, .resumed) :: r.2)
    else resumeScan g rest d

/-- resume_suspended_connections -/
def resumeSuspended (g : Guards) (d : Daemon) : Daemon × List Ev :=
  if d.resuming then resumeScan g d.susp.reverse { d with resuming := false }
  else (d, [])

/-- the script thread's timers: at the start of a round it resumes every connection whose
    countdown reached zero -/
def timerScan : List Nat → Daemon → Daemon × List Ev
  | [], d => (d, [])
  | c :: rest, d =>
    match (d.conn c).timer with
    | some 0 =>
      let d1 := { d with conn := setConn d.conn c { (d.conn c) with timer := none } }
      let r := resumeReq d1 c
      let r2 := timerScan rest r.1
      (r2.1, r.2 ++ r2.2)
    | some (n + 1) =>
      timerScan rest { d with conn := setConn d.conn c { (d.conn c) with timer := some n } }
    | none => timerScan rest d

def timers (d : Daemon) (ids : List Nat) : Daemon × List Ev := timerScan ids d

/-- new_connections_list_process_ : FIFO, each inserted at the head -/
def processNew : List Nat → Daemon → Daemon × List Ev
  | [], d => ({ d with newConns := [] }, [])
  | c :: rest, d =>
    let k := { (d.conn c) with eli := .read, inSet := d.isEpoll }
    let r := processNew rest { d with conn := setConn d.conn c k, active := c :: d.active, normalTO := c :: d.normalTO }
    (r.1, (c, .connStart) :: r.2)

/-! ### select: MHD_get_fdset2 … MHD_run_from_select2 -/

/-- traversal of internal_run_from_select over the snapshot `cs` (tail first).  With
    `selectPrevAfter` the loop reads `pos->prev` after the call: a connection that was moved to
    another list during its turn ends the traversal. -/
def travSelect (g : Guards) (fr fw rd wr : Nat → Bool) : List Nat → Daemon → Daemon × List Ev
  | [], d => (d, [])
  | c :: rest, d =>
    let r := turn g d c (fr c && rd c) (fw c && wr c)
    if g.selectPrevAfter && !r.1.active.contains c then r
    else
      let r2 := travSelect g fr fw rd wr rest r.1
      (r2.1, r.2 ++ r2.2)

/-- new_connections_list_process_ after `data_already_pending = false` -/
def newPhase (d : Daemon) : Daemon × List Ev := processNew d.newConns { d with pending := false }

def roundSelect (g : Guards) (d : Daemon) (ids : List Nat) (rd wr : Nat → Bool) : Daemon × List Ev :=
  let t := timers d ids
  -- MHD_get_fdset2 (before the pending resumes are processed)
  let act0 := t.1.active
  let conn0 := t.1.conn
  let fr := fun c => act0.contains c && (conn0 c).eli.hasRead
  let fw := fun c => act0.contains c && (conn0 c).eli == .write
  -- MHD_run_from_select2
  bindD (fun d => travSelect g fr fw rd wr d.active.reverse d) (bindD newPhase (bindD (resumeSuspended g) t))

/-! ### poll: MHD_poll_all (internal thread) -/

def travAll (g : Guards) (fr fw rd wr : Nat → Bool) : List Nat → Daemon → Daemon × List Ev
  | [], d => (d, [])
  | c :: rest, d =>
    let r := turn g d c (fr c && rd c) (fw c && wr c)
    let r2 := travAll g fr fw rd wr rest r.1
    (r2.1, r.2 ++ r2.2)

def pollPhase (g : Guards) (rd wr : Nat → Bool) (d : Daemon) : Daemon × List Ev :=
  let snap := d.active.reverse
  let conn1 := d.conn
  let fr := fun c => (conn1 c).eli.hasRead
  let fw := fun c => (conn1 c).eli == .write
  bindD (travAll g fr fw rd wr snap) (newPhase d)

def roundPoll (g : Guards) (d : Daemon) (ids : List Nat) (rd wr : Nat → Bool) : Daemon × List Ev :=
  bindD (pollPhase g rd wr) (bindD (resumeSuspended g) (timers d ids))

/-! ### epoll: MHD_epoll -/

/-- one event of epoll_wait for a connection: EPOLLIN (`i`) and / or EPOLLOUT (`o`) -/
def epollMark (k : Conn) (i o : Bool) : Conn :=
  let k1 := if i then { k with readReady := true, inEready := true } else k
  if o then { k1 with writeReady := true, inEready := k1.inEready || k1.eli == .write } else k1

/-- effect of the events returned by epoll_wait -/
def epollEvents : List (Nat × Bool × Bool) → Daemon → Daemon
  | [], d => d
  | (c, i, o) :: rest, d =>
    if !(d.conn c).inSet || !d.active.contains c then epollEvents rest d else
    epollEvents rest (sync { d with conn := setConn d.conn c (epollMark (d.conn c) i o) } c)

/-- after call_handlers in the eready loop: drop a blocked connection from the eready list -/
def ereadyPost (d : Daemon) (c : Nat) : Daemon :=
  let k := d.conn c
  if k.inEready && !k.epSusp &&
     ((k.eli == .read && !k.readReady) || (k.eli == .write && !k.writeReady) || k.eli == .cleanup) then
    sync { d with conn := setConn d.conn c { k with inEready := false } } c
  else d

def travEready (g : Guards) : List Nat → Daemon → Daemon × List Ev
  | [], d => (d, [])
  | c :: rest, d =>
    let k := d.conn c
    let r := turn g d c k.readReady k.writeReady
    let r2 := travEready g rest (ereadyPost r.1 c)
    (r2.1, r.2 ++ r2.2)

/-- connections with the default timeout: MHD_connection_handle_idle from the tail until the first survivor -/
def timeoutScan (g : Guards) (d : Daemon) : Daemon × List Ev :=
  match d.normalTO.getLast? with
  | some c => idleTurn g d c
  | none => (d, [])

def roundEpoll (g : Guards) (d : Daemon) (ids : List Nat) (evs : List (Nat × Bool × Bool)) : Daemon × List Ev :=
  bindD (fun d => travEready g d.eready.reverse d)
    (bindD (timeoutScan g)
      (bindD newPhase
        (bindD (pureD (fun d => epollEvents evs { d with pending := false }))
          (bindD (resumeSuspended g) (timers d ids)))))

/-! ### operations -/

inductive Op
  | arrive (c : Nat)
  | send (c : Nat) (syms : List Sym)
  | resume (c : Nat)
  | round (ids : List Nat) (rd wr : Nat → Bool)                     -- select / poll round
  | eround (ids : List Nat) (evs : List (Nat × Bool × Bool))       -- epoll round

def step (g : Guards) (d : Daemon) : Op → Daemon × List Ev
  | .arrive c =>
    -- a connection index is used once (the harness refuses a second `arrive` for it); its
    -- application script was fixed when the daemon was started (`Daemon.init`)
    if d.newConns.contains c || d.active.contains c || d.susp.contains c then (d, [])
    else ({ d with newConns := d.newConns ++ [c] }, [])
  | .send c syms =>
    let k := d.conn c
    ({ d with conn := setConn d.conn c { k with inbox := k.inbox ++ syms, sent := k.sent ++ syms } }, [])
  | .resume c =>
    -- the script's explicit resume also cancels a timer of the script thread
    resumeReq { d with conn := setConn d.conn c { (d.conn c) with timer := none } } c
  | .round ids rd wr =>
    match d.mode with
    | .select => roundSelect g d ids rd wr
    | .poll => roundPoll g d ids rd wr
    | .epoll => (d, [])
  | .eround ids evs =>
    match d.mode with
    | .epoll => roundEpoll g d ids evs
    | _ => (d, [])

def run (g : Guards) : Daemon → List Op → Daemon × List Ev
  | d, [] => (d, [])
  | d, op :: ops =>
    let r := step g d op
    let r2 := run g r.1 ops
    (r2.1, r.2 ++ r2.2)

/-- a daemon in mode `m`; `plans c` is the application's script for the first request of the connection
    with index `c`, `later c` the scripts for the requests that follow on the same connection -/
def Daemon.init (m : Mode) (plans : Nat → Plan) (later : Nat → List Plan := fun _ => []) : Daemon :=
  { mode := m, conn := fun c => { plan := plans c, later := later c } }

end Mhd.Susp
