/-
  `get_no_space_err_status_code` of src/microhttpd/connection.c: which status code the
  daemon answers when a request element does not fit the connection's arena.
  All sizes are `size_t` (the one subtraction that can wrap is modelled modulo 2^64).
  Thresholds and status codes come from `Mhd.Gen.ConnMem` (regenerated from the source).
-/
import Mhd.Gen.ConnMem

namespace Mhd.NoSpace
open Mhd.Gen.ConnMem

/-- what `add_element` is, as far as the function looks at it -/
inductive AddKind
  | none          -- add_element_size = 0
  | other         -- some element that is not a "Host" field line
  | hostUnparsed  -- the raw, not yet parsed "Host:" line that fills the read buffer
  | hostParsed    -- an already parsed (zero-terminated) "Host" name
  deriving Repr, DecidableEq

structure Input where
  stage       : Nat            -- enum MHD_ProcRecvDataStage value
  addSize     : Nat
  addKind     : AddKind
  optHdr      : Nat            -- size of the field lines seen so far
  hostVal     : Option Nat     -- length of the value of an already stored "Host" header
  uri         : Nat            -- rq.req_target_len
  methodOther : Bool           -- http_mthd == MHD_HTTP_MTHD_OTHER
  methodLen   : Nat            -- strlen (rq.method)
  deriving Repr

def W : Nat := 2 ^ 64

/-- the decision tail: which element to blame, from the sizes of the optional headers, the
    request target, the (non-standard) method token and the Host line -/
def blame (opt uri m hostLine : Nat) : Nat :=
  if maxReasonableHeaders < opt then
    if opt > uri / 8 then (if opt / 2 > m then httpHeaderFieldsTooLarge else httpNotImplemented)
    else (if uri / 16 > m then httpUriTooLong else httpNotImplemented)
  else if maxReasonableTarget < uri then
    (if uri / 16 > m then httpUriTooLong else httpNotImplemented)
  else if minReasonableHeaders < opt then
    if opt * 4 > uri then (if opt > m then httpHeaderFieldsTooLarge else httpNotImplemented)
    else (if uri > m * 4 then httpUriTooLong else httpNotImplemented)
  else if minReasonableTarget < uri then
    (if uri > m * 4 then httpUriTooLong else httpNotImplemented)
  else if minReasonableMethod < m then httpNotImplemented
  else if 1 < opt ∨ 1 < uri then
    (if opt ≥ uri then httpHeaderFieldsTooLarge else httpUriTooLong)
  else if hostLine ≠ 0 then httpHeaderFieldsTooLarge
  else httpUriTooLong

/-- sizes after accounting for the "Host:" line: (host line size, optional headers size) -/
def hostSplit (i : Input) : Nat × Nat :=
  let isHost := i.stage = stageHeaders ∧ i.addSize ≠ 0 ∧ (i.addKind = .hostUnparsed ∨ i.addKind = .hostParsed)
  let actual := if i.addKind = .hostParsed then i.addSize + 1 else i.addSize
  let hostLine1 := if isHost then actual else 0
  let opt1 := if isHost then (i.optHdr + W - actual % W) % W else i.optHdr
  if hostLine1 = 0 then
    match i.hostVal with
    | some v =>
      let hl := hostNameLen + v + 2
      if opt1 ≥ hl then (hl, if opt1 - hl ≥ 2 then opt1 - hl - 2 else opt1 - hl) else (0, opt1)
    | none => (0, opt1)
  else (hostLine1, opt1)

def status (i : Input) : Nat :=
  if i.stage = stageBodyChunked ∧ minReasonableChunkLine < i.addSize then httpContentTooLarge
  else blame (hostSplit i).2 i.uri (if i.methodOther then i.methodLen else 0) (hostSplit i).1

end Mhd.NoSpace
