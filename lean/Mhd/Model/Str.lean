/-
  Model of src/microhttpd/mhd_str.c, part 1: fault monad, loop combinator,
  character helpers, number parsing and printing, hex conversion.

  Configured build: MHD_FAVOR_FAST_CODE (the `#ifndef MHD_FAVOR_SMALL_CODE`
  branches are the ones modelled), 64-bit `size_t`.

  Conventions
  * A C input `(ptr, len)` is a `Bytes` whose *length is the stated length*:
    `rd s i` faults for `i ≥ s.length`, so "reads beyond the stated input
    length" is a fault of the model.  A z-terminated C string is the whole
    allocated buffer (terminator included); scanning past it faults.
  * An output buffer is a `Bytes` of the stated size; `wr o i c` faults for
    `i ≥ o.length`.  Functions return the final buffer next to the C return
    value.
  * C loops are `iter step fuel`: `step` is one loop iteration (`.inl` =
    next iteration, `.inr` = leave the loop / `return`), running out of fuel is
    the fault `fuel` (proved impossible).
  * `uint64_t`/`uint32_t` accumulations carry their `% 2^n` even though the
    overflow guards make them the identity — that is a theorem, not an assumption.
-/
import Mhd.Gen.Str

namespace Mhd.Str

abbrev Bytes := List UInt8

inductive Fault where
  | read (idx : Nat)    -- read at index ≥ stated length
  | write (idx : Nat)   -- write at index ≥ stated size
  | fuel                -- loop did not terminate within its bound
  deriving Repr, DecidableEq

abbrev M := Except Fault

def rd (s : Bytes) (i : Nat) : M UInt8 :=
  match s[i]? with
  | some c => .ok c
  | none => .error (.read i)

def wr (o : Bytes) (i : Nat) (c : UInt8) : M Bytes :=
  if i < o.length then .ok (o.set i c) else .error (.write i)

/-- generic loop: `step` = one iteration -/
def iter {σ ρ : Type} (step : σ → M (σ ⊕ ρ)) : Nat → σ → M ρ
  | 0, _ => .error .fuel
  | n + 1, s =>
    match step s with
    | .error e => .error e
    | .ok (.inl s') => iter step n s'
    | .ok (.inr r) => .ok r

/-! ### character helpers -/

def isDigit (c : UInt8) : Bool := 0x30 ≤ c && c ≤ 0x39
def isUpper (c : UInt8) : Bool := 0x41 ≤ c && c ≤ 0x5a

/-- `toxdigitvalue`: the 256-way `switch`, taken from the compiled function -/
def toxdigitvalue (c : UInt8) : Int := Mhd.Gen.Str.xdigitTable.getD c.toNat (-1)

/-- `charsequalcaseless (c1, c2)` (`char` is signed; the `int` arithmetic
    `c1 - 'A' + 'a' == c2` can only hold for non-negative `c2`) -/
def charsEqualCaseless (c1 c2 : UInt8) : Bool :=
  c1 == c2 ||
    (if isUpper c1 then c1.toNat + 32 == c2.toNat
     else (c1.toNat == c2.toNat + 32 && isUpper c2))

/-- `(uint8_t) (((uint8_t) h) << 4) | ((uint8_t) l)` for `h, l ≥ 0` -/
def hexByte (h l : Int) : UInt8 :=
  ((UInt8.ofNat h.toNat) <<< 4) ||| (UInt8.ofNat l.toNat)

/-! ### number parsing -/

abbrev u64Max : Nat := Mhd.Gen.Str.uint64Max
abbrev u32Max : Nat := Mhd.Gen.Str.uint32Max

structure NumSt where
  i : Nat
  res : Nat
  deriving Repr

/-- body + loop condition of the `do … while (isasciidigit (*str))` of `MHD_str_to_uint64_` -/
def strToUint64Step (s : Bytes) (st : NumSt) : M (NumSt ⊕ (Nat × Nat)) := do
  let c ← rd s st.i
  let digit := c.toNat - 0x30
  if st.res > u64Max / 10 ∨ (st.res = u64Max / 10 ∧ digit > u64Max % 10) then
    return .inr (0, 0)
  let res := (st.res * 10 + digit) % (u64Max + 1)
  let c' ← rd s (st.i + 1)
  if isDigit c' then return .inl ⟨st.i + 1, res⟩ else return .inr (st.i + 1, res)

/-- `MHD_str_to_uint64_ (str, &out)`: result `(return value, *out)`; `*out` is
    only written when the return value is non-zero. -/
def strToUint64 (s : Bytes) : M (Nat × Nat) := do
  let c ← rd s 0
  if !isDigit c then return (0, 0)
  iter (strToUint64Step s) (s.length + 1) ⟨0, 0⟩

def strToUint64NStep (s : Bytes) (st : NumSt) : M (NumSt ⊕ (Nat × Nat)) := do
  let c ← rd s st.i
  let digit := c.toNat - 0x30
  if st.res > u64Max / 10 ∨ (st.res = u64Max / 10 ∧ digit > u64Max % 10) then
    return .inr (0, 0)
  let res := (st.res * 10 + digit) % (u64Max + 1)
  if st.i + 1 < s.length then
    let c' ← rd s (st.i + 1)
    if isDigit c' then return .inl ⟨st.i + 1, res⟩ else return .inr (st.i + 1, res)
  else return .inr (st.i + 1, res)

/-- `MHD_str_to_uint64_n_ (str, maxlen, &out)` with `maxlen = s.length` -/
def strToUint64N (s : Bytes) : M (Nat × Nat) := do
  if s.length = 0 then return (0, 0)
  let c ← rd s 0
  if !isDigit c then return (0, 0)
  iter (strToUint64NStep s) (s.length + 1) ⟨0, 0⟩

/-- loop of `MHD_strx_to_uint32_` / `MHD_strx_to_uint64_` (z-terminated; `max` is
    `UINT32_MAX` / `UINT64_MAX`; guard written as `res < max/16 || (… && digit <= max%16)`) -/
def strxToUintStep (max : Nat) (s : Bytes) (st : NumSt) : M (NumSt ⊕ (Nat × Nat)) := do
  let c ← rd s st.i
  let digit := toxdigitvalue c
  if digit ≥ 0 then
    if st.res < max / 16 ∨ (st.res = max / 16 ∧ digit.toNat ≤ max % 16) then
      return .inl ⟨st.i + 1, (st.res * 16 + digit.toNat) % (max + 1)⟩
    else return .inr (0, 0)
  else return .inr (st.i, st.res)

def strxToUint (max : Nat) (s : Bytes) : M (Nat × Nat) :=
  iter (strxToUintStep max s) (s.length + 1) ⟨0, 0⟩

/-- loop of `MHD_strx_to_uint32_n_` / `MHD_strx_to_uint64_n_`
    (`while (i < maxlen && (digit = toxdigitvalue (str[i])) >= 0)`) -/
def strxToUintNStep (max : Nat) (s : Bytes) (st : NumSt) : M (NumSt ⊕ (Nat × Nat)) := do
  if st.i < s.length then
    let c ← rd s st.i
    let digit := toxdigitvalue c
    if digit ≥ 0 then
      if st.res > max / 16 ∨ (st.res = max / 16 ∧ digit.toNat > max % 16) then
        return .inr (0, 0)
      return .inl ⟨st.i + 1, (st.res * 16 + digit.toNat) % (max + 1)⟩
    else return .inr (st.i, st.res)
  else return .inr (st.i, st.res)

def strxToUintN (max : Nat) (s : Bytes) : M (Nat × Nat) :=
  iter (strxToUintNStep max s) (s.length + 1) ⟨0, 0⟩

def strxToUint32 := strxToUint u32Max
def strxToUint64 := strxToUint u64Max
def strxToUint32N := strxToUintN u32Max
def strxToUint64N := strxToUintN u64Max

/-! ### number printing -/

structure X32St where
  val : Nat
  digitPos : Nat
  digit : Nat
  deriving Repr

/-- `do { digit_pos--; digit = val >> 28; val <<= 4; } while (0 == digit && 0 != digit_pos)` -/
def x32SkipStep (st : X32St) : M (X32St ⊕ X32St) :=
  let st' : X32St := ⟨(st.val * 16) % 2 ^ 32, st.digitPos - 1, st.val / 2 ^ 28⟩
  if st'.digit = 0 ∧ st'.digitPos ≠ 0 then .ok (.inl st') else .ok (.inr st')

def x32Char (digit : Nat) : UInt8 :=
  if digit ≤ 9 then UInt8.ofNat (0x30 + digit) else UInt8.ofNat (0x41 + digit - 10)

structure X32Out where
  st : X32St
  w : Nat
  out : Bytes

def x32PrintStep (s : X32Out) : M (X32Out ⊕ (Nat × Bytes)) := do
  if s.w < s.out.length then
    let out ← wr s.out s.w (x32Char s.st.digit)
    if s.st.digitPos = 0 then return .inr (s.w + 1, out)
    return .inl ⟨⟨(s.st.val * 16) % 2 ^ 32, s.st.digitPos - 1, s.st.val / 2 ^ 28⟩, s.w + 1, out⟩
  else return .inr (0, s.out)

/-- `MHD_uint32_to_strx (val, buf, buf_size)` -/
def uint32ToStrx (val : Nat) (out : Bytes) : M (Nat × Bytes) := do
  let st ← iter x32SkipStep 9 ⟨val, 8, 0⟩
  iter x32PrintStep 9 ⟨st, 0, out⟩

structure DecSt where
  val : Nat
  divisor : Nat
  digit : Nat
  deriving Repr

/-- `while ((0 == digit) && (1 < divisor)) { divisor /= 10; digit = val / divisor; }` -/
def decSkipStep (st : DecSt) : M (DecSt ⊕ DecSt) :=
  if st.digit = 0 ∧ 1 < st.divisor then .ok (.inl ⟨st.val, st.divisor / 10, st.val / (st.divisor / 10)⟩)
  else .ok (.inr st)

structure DecOut where
  st : DecSt
  w : Nat
  out : Bytes

def decPrintStep (s : DecOut) : M (DecOut ⊕ (Nat × Bytes)) := do
  if s.w < s.out.length then
    let out ← wr s.out s.w (UInt8.ofNat (s.st.digit + 0x30))
    if s.st.divisor = 1 then return .inr (s.w + 1, out)
    let val := s.st.val % s.st.divisor
    let divisor := s.st.divisor / 10
    return .inl ⟨⟨val, divisor, val / divisor⟩, s.w + 1, out⟩
  else return .inr (0, s.out)

/-- `MHD_uint16_to_str` / `MHD_uint64_to_str`: identical code, the initial divisor
    (10000 / 10^19, regenerated from the source) is the only difference -/
def uintToStr (div0 : Nat) (val : Nat) (out : Bytes) : M (Nat × Bytes) := do
  let st ← iter decSkipStep 21 ⟨val, div0, val / div0⟩
  iter decPrintStep 21 ⟨st, 0, out⟩

def uint16ToStr := uintToStr Mhd.Gen.Str.dec16Divisor
def uint64ToStr := uintToStr Mhd.Gen.Str.dec64Divisor

/-- last stage of `MHD_uint8_to_str_pad`: `if (buf_size <= pos) return 0; buf[pos++] = '0' + val; return pos;` -/
def uint8PadOnes (val pos : Nat) (out : Bytes) : M (Nat × Bytes) := do
  if out.length ≤ pos then return (0, out)
  let o ← wr out pos (UInt8.ofNat (0x30 + val))
  return (pos + 1, o)

/-- middle stage: the size check and the tens digit -/
def uint8PadTens (val minDigits pos : Nat) (out : Bytes) : M (Nat × Bytes) := do
  if out.length ≤ pos then return (0, out)
  if val / 10 = 0 then
    if 2 ≤ minDigits then
      let o ← wr out pos 0x30
      uint8PadOnes val (pos + 1) o
    else uint8PadOnes val pos out
  else
    let o ← wr out pos (UInt8.ofNat (0x30 + val / 10))
    uint8PadOnes (val % 10) (pos + 1) o

/-- `MHD_uint8_to_str_pad (val, min_digits, buf, buf_size)` (the straight-line code cut into
    its three stages: hundreds, tens, ones) -/
def uint8ToStrPad (val minDigits : Nat) (out : Bytes) : M (Nat × Bytes) := do
  if out.length = 0 then return (0, out)
  if val / 100 = 0 then
    if 3 ≤ minDigits then
      let o ← wr out 0 0x30
      uint8PadTens val minDigits 1 o
    else uint8PadTens val minDigits 0 out
  else
    let o ← wr out 0 (UInt8.ofNat (0x30 + val / 100))
    uint8PadTens (val % 100) 2 1 o

/-! ### hex -/

def hexLower (j : UInt8) : UInt8 := if j < 10 then j + 0x30 else j - 10 + 0x61

structure RW where
  r : Nat
  w : Nat
  out : Bytes

def binToHexStep (bin : Bytes) (st : RW) : M (RW ⊕ (Nat × Bytes)) := do
  if st.r < bin.length then
    let b ← rd bin st.r
    let o1 ← wr st.out (st.r * 2) (hexLower (b >>> 4))
    let o2 ← wr o1 (st.r * 2 + 1) (hexLower (b &&& 0x0f))
    return .inl ⟨st.r + 1, st.w, o2⟩
  else return .inr (st.r * 2, st.out)

/-- `MHD_bin_to_hex (bin, size, hex)`; `hex` is `out` (documented size ≥ 2 * size) -/
def binToHex (bin out : Bytes) : M (Nat × Bytes) :=
  iter (binToHexStep bin) (bin.length + 1) ⟨0, 0, out⟩

def hexToBinStep (hex : Bytes) (st : RW) : M (RW ⊕ (Nat × Bytes)) := do
  if st.r < hex.length then
    let c1 ← rd hex st.r
    let c2 ← rd hex (st.r + 1)
    let h := toxdigitvalue c1
    let l := toxdigitvalue c2
    if h < 0 ∨ l < 0 then return .inr (0, st.out)
    let o ← wr st.out st.w (hexByte h l)
    return .inl ⟨st.r + 2, st.w + 1, o⟩
  else return .inr (st.w, st.out)

/-- `MHD_hex_to_bin (hex, len, bin)`; `bin` is `out` (documented size ≥ (len+1)/2) -/
def hexToBin (hex out : Bytes) : M (Nat × Bytes) := do
  if hex.length = 0 then return (0, out)
  if hex.length % 2 ≠ 0 then
    let c2 ← rd hex 0
    let l := toxdigitvalue c2
    if l < 0 then return (0, out)
    let o ← wr out 0 (UInt8.ofNat l.toNat)
    iter (hexToBinStep hex) (hex.length + 1) ⟨1, 1, o⟩
  else
    iter (hexToBinStep hex) (hex.length + 1) ⟨0, 0, out⟩

end Mhd.Str
