/-
  String helpers of `mhd_str.c` used by the reply code (response.c / connection.c),
  mirrored function by function.  Strings are `List UInt8` without the C
  terminator; "end of string" in the C code is "list exhausted" here.

  * `charsEqCaseless`        charsequalcaseless
  * `strEqCaseless`          MHD_str_equal_caseless_
  * `eqCaselessBinN`         MHD_str_equal_caseless_bin_n_
  * `hasTokenCaseless`       MHD_str_has_token_caseless_
  * `removeTokenCaseless`    MHD_str_remove_token_caseless_   (out-of-place, size checked)
  * `removeTokensCaseless`   MHD_str_remove_tokens_caseless_  (in place; every index checked → `none` = fault)
  * `uint64ToStr`, `uint16ToStr`, `uint32ToStrx`
-/
namespace Mhd.ReplyStr

abbrev Bytes := List UInt8

def isUpper (c : UInt8) : Bool := 65 ≤ c.toNat && c.toNat ≤ 90

/-- `charsequalcaseless (c1, c2)` (int arithmetic of the C macro) -/
def charsEqCaseless (c1 c2 : UInt8) : Bool :=
  c1 == c2 ||
    (if isUpper c1 then c1.toNat + 32 == c2.toNat
     else (c1.toNat == c2.toNat + 32 && isUpper c2))

/-- `MHD_str_equal_caseless_` on two terminated strings -/
def strEqCaseless : Bytes → Bytes → Bool
  | [], s2 => s2.isEmpty
  | _ :: _, [] => false
  | c1 :: r1, c2 :: r2 => if charsEqCaseless c1 c2 then strEqCaseless r1 r2 else false

/-- `MHD_str_equal_caseless_bin_n_ (s1, s2, len)`; both must have `len` bytes
    available, a shorter operand is a fault (`none`). -/
def eqCaselessBinN : Bytes → Bytes → Nat → Option Bool
  | _, _, 0 => some true
  | c1 :: r1, c2 :: r2, n + 1 => if charsEqCaseless c1 c2 then eqCaselessBinN r1 r2 n else some false
  | _, _, _ + 1 => none

/-- total variant used where the caller has compared the lengths first -/
def eqCaselessBin (s1 s2 : Bytes) : Bool :=
  s1.length == s2.length && strEqCaseless s1 s2

def isWs (c : UInt8) : Bool := c == 32 || c == 9
def isWsComma (c : UInt8) : Bool := c == 32 || c == 9 || c == 44

/-! ### MHD_str_has_token_caseless_ -/

/-- result of the inner `while (1)` matching loop -/
inductive TokScan where
  | found                 -- return true
  | eos                   -- return false (string ended inside the comparison)
  | brk (rest : Bytes)    -- `break`, `str` points at `rest`

/-- the `while (1)` loop: `str` = remaining input, `tk` = remaining token chars
    (`i < token_len` ⇔ `tk ≠ []`). -/
def tokMatchLoop : Bytes → Bytes → TokScan
  | [], _ => .eos                                    -- sc == 0
  | sc :: str, tc :: tk =>
      if ! charsEqCaseless sc tc then
        (if sc == 44 then .brk (sc :: str)            -- "The comma is the end of the current substring": `str--`
         else .brk str)
      else if tk.isEmpty then                         -- i >= token_len
        let s' := str.dropWhile isWs
        match s' with
        | [] => .found
        | c :: _ => if c == 44 then .found else .brk s'
      else tokMatchLoop str tk
  | _ :: str, [] => .brk str                          -- unreachable (token_len = 0 is refused before)

def hasTokenLoop : Nat → Bytes → Bytes → Bool
  | 0, _, _ => false
  | fuel + 1, str, token =>
    match str with
    | [] => false
    | _ =>
      let s1 := str.dropWhile isWsComma
      match tokMatchLoop s1 token with
      | .found => true
      | .eos => false
      | .brk rest => hasTokenLoop fuel (rest.dropWhile (fun c => c != 44)) token

def hasTokenCaseless (str token : Bytes) : Bool :=
  if token.isEmpty then false else hasTokenLoop (str.length + 1) str token

/-! ### MHD_str_remove_token_caseless_ -/

/-- the token comparison loop: number of matched chars and the rest of the input -/
def matchTok : Bytes → Bytes → Nat × Bytes
  | c :: s, t :: ts =>
      if charsEqCaseless c t then let r := matchTok s ts; (r.1 + 1, r.2) else (0, c :: s)
  | s, _ => (0, s)

/-- copy all non-whitespace, non-comma chars; `none` = output buffer too small -/
def copyWord (bufSize : Nat) : Bytes → Bytes → Option (Bytes × Bytes)
  | [], out => some ([], out)
  | c :: s, out =>
      if c == 44 || c == 32 || c == 9 then some (c :: s, out)
      else if bufSize ≤ out.length then none
      else copyWord bufSize s (out ++ [c])

/-- the `while (s1 < end && ',' != *s1)` loop that copies the remainder of the current token -/
def copyTokenRest (bufSize : Nat) : Nat → Bytes → Bytes → Option (Bytes × Bytes)
  | 0, s, out => some (s, out)
  | fuel + 1, s, out =>
    match s with
    | [] => some ([], out)
    | c :: _ =>
      if c == 44 then some (s, out) else
      match copyWord bufSize s out with
      | none => none
      | some (s1, out1) =>
        let s2 := s1.dropWhile isWs
        match s2 with
        | [] => some ([], out1)
        | c2 :: _ =>
          if c2 == 44 then some (s2, out1)
          else if bufSize ≤ out1.length then none
          else copyTokenRest bufSize fuel s2 (out1 ++ [32])

structure RemoveRes where
  out : Bytes
  removed : Bool
deriving Repr, DecidableEq

/-- `(s1 == end) || (',' == *s1)` -/
def atEndOrComma : Bytes → Bool
  | [] => true
  | c :: _ => c == 44

/-- room check and ", " separator before a copied token -/
def sepBefore (bufSize copySize : Nat) (out : Bytes) : Option Bytes :=
  if out.isEmpty then (if bufSize < copySize then none else some out)
  else (if bufSize < out.length + copySize + 2 then none else some (out ++ [44, 32]))

/-- copy the current (non-matching) token: `s1` = its first char, `s'` = where the comparison stopped -/
def copyOneToken (bufSize : Nat) (s1 s' out : Bytes) : Option (Bytes × Bytes) :=
  let copySize := s1.length - s'.length
  match sepBefore bufSize copySize out with
  | none => none
  | some out1 => copyTokenRest bufSize (s'.length + 1) s' (out1 ++ s1.take copySize)

def removeTokenLoop (bufSize : Nat) (token : Bytes) : Nat → Bytes → Bytes → Bool → Option RemoveRes
  | 0, _, out, rem => some ⟨out, rem⟩
  | fuel + 1, s, out, rem =>
    let s1 := s.dropWhile isWsComma
    if s1.isEmpty then some ⟨out, rem⟩ else
    let m := matchTok s1 token
    let full := m.1 == token.length && token.length != 0
    let s3 := m.2.dropWhile isWs
    if full && atEndOrComma s3 then removeTokenLoop bufSize token fuel s3 out true
    else
      -- not a full match: copying restarts right after the matched part (`s1 = match_end`), so the
      -- whitespace that follows is normalised like any other
      match copyOneToken bufSize s1 m.2 out with
      | none => none
      | some (s'', out2) => removeTokenLoop bufSize token fuel s'' out2 rem

/-- `MHD_str_remove_token_caseless_ (str, len, token, token_len, buf, &buf_size)`;
    `none` ⇔ `*buf_size` set to -1 (output does not fit). -/
def removeTokenCaseless (str token : Bytes) (bufSize : Nat) : Option RemoveRes :=
  removeTokenLoop bufSize token (str.length + 1) str [] false

/-! ### MHD_str_remove_tokens_caseless_ (in place) -/

/-- read with bounds check -/
def rd (s : Bytes) (i : Nat) : Option UInt8 := s[i]?
/-- write with bounds check -/
def wr (s : Bytes) (i : Nat) (c : UInt8) : Option Bytes :=
  if i < s.length then some (s.set i c) else none

/-- one token of the `tokens` argument: skip separators, return (token, rest) — the
    `do … while (pt < tokens_len && ',' != t[pt])` extraction -/
def nextTokWords : Nat → Bytes → Bytes → Bytes → Bytes × Bytes
  -- acc = bytes from `tkn` up to the current position, tk = token so far (up to the last word end)
  | 0, _, tk, t => (tk, t)
  | fuel + 1, acc, _, t =>
    -- inner do-while: consume one char, then all chars that are not ws/comma
    match t with
    | [] => (acc, [])      -- cannot happen (called with pt < tokens_len)
    | c :: r =>
      let w := r.takeWhile (fun x => ! isWsComma x)
      let r1 := r.drop w.length
      let acc1 := acc ++ c :: w
      let tk1 := acc1                               -- tkn_len = pt - tkn
      let ws := r1.takeWhile isWs
      let r2 := r1.drop ws.length
      match r2 with
      | [] => (tk1, [])
      | d :: _ => if d == 44 then (tk1, r2) else nextTokWords fuel (acc1 ++ ws) tk1 r2

structure InPlace where
  str : Bytes      -- the whole buffer (its length never changes)
  len : Nat        -- *str_len
  removed : Bool
deriving Repr, DecidableEq

/-- copy `n` bytes inside `s` from `src` to `dst` (memmove, dst ≤ src) -/
def moveDown : Nat → Bytes → Nat → Nat → Option Bytes
  | 0, s, _, _ => some s
  | n + 1, s, dst, src => do
    let c ← rd s src
    let s1 ← wr s dst c
    moveDown n s1 (dst + 1) (src + 1)

/-- write the ", " separator unless the buffer is still unmodified at this point -/
def sepWrite (s : Bytes) (pr pw : Nat) : Option (Bytes × Nat) :=
  if pw != 0 then
    if pr != pw + 2 then do
      let s1 ← wr s pw 44
      let s2 ← wr s1 (pw + 1) 32
      some (s2, pw + 2)
    else some (s, pw + 2)
  else some (s, pw)

/-- the `do { if (pr != pw) str[pw] = str[pr]; pr++; pw++; } while (pr < len && ',' != str[pr])` loop -/
def copyTok (len : Nat) : Nat → Bytes → Nat → Nat → Option (Bytes × Nat × Nat)
  | 0, s, pr, pw => some (s, pr, pw)
  | fuel + 1, s, pr, pw => do
    let s1 ← (if pr != pw then do let c ← rd s pr; wr s pw c else some s)
    let pr1 := pr + 1
    let pw1 := pw + 1
    if pr1 < len then do
      let d ← rd s1 pr1
      if d != 44 then copyTok len fuel s1 pr1 pw1 else some (s1, pr1, pw1)
    else some (s1, pr1, pw1)

/-- `(len == pr + tl || ',' == str[pr + tl]) && MHD_str_equal_caseless_bin_n_ (str + pr, tkn, tl)` -/
def passMatch (tkn : Bytes) (len : Nat) (s : Bytes) (pr : Nat) : Option Bool := do
  let tl := tkn.length
  let atBoundary ← (if len == pr + tl then some true else do let c ← rd s (pr + tl); some (c == 44))
  if atBoundary then eqCaselessBinN (s.drop pr) tkn tl else some false

/-- first half of one round: skip a matching token or copy a non-matching one -/
def passStep (tkn : Bytes) (len : Nat) (s : Bytes) (pr pw : Nat) (rem : Bool) : Option (Bytes × Nat × Nat × Bool) := do
  let isMatch ← passMatch tkn len s pr
  if isMatch then some (s, pr + tkn.length + 2, pw, true)
  else do
    let (sa, pwa) ← sepWrite s pr pw
    let (sb, prb, pwb) ← copyTok len (len + 1) sa pr pwa
    some (sb, prb + 2, pwb, rem)

/-- "Copy the rest of the string" when the remainder is too short to match -/
def passFinish (len : Nat) (s : Bytes) (pr pw : Nat) : Option (Bytes × Nat) :=
  if len > pr then do
    let copySize := len - pr
    let (sa, pwa) ← sepWrite s pr pw
    let sb ← (if pr != pwa then moveDown copySize sa pwa pr else some sa)
    some (sb, pwa + copySize)
  else some (s, pw)

/-- the `do … while (1)` removal pass for one token over `str[0..len)` -/
def removePass (tkn : Bytes) (len : Nat) : Nat → Bytes → Nat → Nat → Bool → Option (Bytes × Nat × Bool)
  | 0, s, _, pw, rem => some (s, pw, rem)
  | fuel + 1, s, pr, pw, rem =>
    match passStep tkn len s pr pw rem with
    | none => none
    | some (s1, pr1, pw1, rem1) =>
      if len < pr1 + tkn.length then
        match passFinish len s1 pr1 pw1 with
        | none => none
        | some (sb, pwb) => some (sb, pwb, rem1)
      else removePass tkn len fuel s1 pr1 pw1 rem1

/-- outer loop over the tokens of `tokens` -/
def removeTokensLoop : Nat → InPlace → Bytes → Option InPlace
  | 0, st, _ => some st
  | fuel + 1, st, t =>
    if t.isEmpty || st.len == 0 then some st else
    let t1 := t.dropWhile isWsComma
    match t1 with
    | [] => some st
    | _ =>
      let (tkn, rest) := nextTokWords (t1.length + 1) [] [] t1
      let tl := tkn.length
      if st.len == tl then
        match eqCaselessBinN st.str tkn tl with
        | none => none
        | some true => removeTokensLoop fuel { st with len := 0, removed := true } rest
        | some false => removeTokensLoop fuel st rest
      else if st.len > tl + 2 then
        match removePass tkn st.len (st.len + 1) st.str 0 0 st.removed with
        | none => none
        | some (s1, pw, rem) => removeTokensLoop fuel { str := s1, len := pw, removed := rem } rest
      else removeTokensLoop fuel st rest

/-- `MHD_str_remove_tokens_caseless_ (str, &str_len, tokens, tokens_len)`; the
    result is the new value `str[0..*str_len)` and the return value.  `none` =
    an index outside the buffer was touched (model fault). -/
def removeTokensCaseless (str tokens : Bytes) : Option RemoveRes :=
  match removeTokensLoop (tokens.length + 1) ⟨str, str.length, false⟩ tokens with
  | none => none
  | some st => some ⟨st.str.take st.len, st.removed⟩

/-! ### number printing -/

def digitChar (d : Nat) : UInt8 := UInt8.ofNat (48 + d)

/-- "Do not print leading zeros": `while ((0 == digit) && (1 < divisor)) divisor /= 10` -/
def skipZeros (val : Nat) : Nat → Nat → Nat
  | 0, divisor => divisor
  | fuel + 1, divisor =>
    if val / divisor == 0 && 1 < divisor then skipZeros val fuel (divisor / 10) else divisor

/-- the printing loop; `none` = "The buffer is too small" (return 0) -/
def printDigits : Nat → Nat → Nat → Nat → Bytes → Option Bytes
  | 0, _, _, _, _ => none
  | fuel + 1, val, divisor, bufSize, out =>
    if bufSize == 0 then none else
    let out1 := out ++ [digitChar (val / divisor)]
    if divisor == 1 then some out1
    else printDigits fuel (val % divisor) (divisor / 10) (bufSize - 1) out1

/-- `MHD_uint64_to_str (val, buf, buf_size)` for `val < 2^64` -/
def uint64ToStr (val bufSize : Nat) : Option Bytes :=
  printDigits 21 val (skipZeros val 21 10000000000000000000) bufSize []

/-- `MHD_uint16_to_str` for `val < 2^16` -/
def uint16ToStr (val bufSize : Nat) : Option Bytes :=
  printDigits 6 val (skipZeros val 6 10000) bufSize []

def hexChar (d : Nat) : UInt8 := if d ≤ 9 then UInt8.ofNat (48 + d) else UInt8.ofNat (65 + d - 10)

/-- skip leading zero nibbles: returns (digit_pos, digit, val) after the first do-while -/
def strxSkip : Nat → Nat → Nat → Nat × Nat × Nat
  | 0, dp, val => (dp, 0, val)
  | fuel + 1, dp, val =>
    let dp1 := dp - 1
    let digit := val / 2 ^ 28
    let val1 := (val * 16) % 2 ^ 32
    if digit == 0 && dp1 != 0 then strxSkip fuel dp1 val1 else (dp1, digit, val1)

def strxPrint : Nat → Nat → Nat → Nat → Nat → Bytes → Option Bytes
  | 0, _, _, _, _, _ => none
  | fuel + 1, dp, digit, val, bufSize, out =>
    if out.length < bufSize then
      let out1 := out ++ [hexChar digit]
      if dp == 0 then some out1
      else strxPrint fuel (dp - 1) (val / 2 ^ 28) ((val * 16) % 2 ^ 32) bufSize out1
    else none

/-- `MHD_uint32_to_strx (val, buf, buf_size)` for `val < 2^32` -/
def uint32ToStrx (val bufSize : Nat) : Option Bytes :=
  let (dp, digit, v) := strxSkip 9 8 val
  strxPrint 9 dp digit v bufSize []

end Mhd.ReplyStr
