/-
  Mhd.Model.Tmo — executable model of the inactivity-timeout logic of libmicrohttpd
  (connection.c: connection_check_timedout, MHD_update_last_activity_,
   MHD_set_connection_option(TIMEOUT), cleanup_connection;
   daemon.c: connection_get_wait, MHD_get_timeout64, internal_suspend_connection_,
   MHD_resume_connection, resume_suspended_connections, new_connection_process_).

  Lists are Lean lists of connection ids in pointer order, head first:
  `XDLL_insert` = cons, `XDLL_remove` = erase (checked: removing an element that is not
  in the list is memory corruption in C and an explicit `fault` here).
  `uint64_t` subtraction is modelled with its wrap-around (`sub64`).
  Core Lean only (the driver links this file).
-/
import Mhd.Gen.Tmo

namespace Mhd.Tmo

abbrev Id := Nat

/-- 2^64 -/
def W : Nat := 18446744073709551616

/-- `a - b` on `uint64_t` (for `a, b < 2^64`) -/
def sub64 (a b : Nat) : Nat := (a + W - b) % W

/-- `a + b` on `uint64_t` -/
def add64 (a b : Nat) : Nat := (a + b) % W

/-- Which of the code variants is modelled.  `current` is what the tree under test does
    (regenerated into `Mhd.Gen.Tmo` on every run), `asIs` is the tree as it was found. -/
structure Variant where
  /-- MHD_set_connection_option puts a connection that returns to the default timeout at its
      sorted position of the normal list (F11 repaired) instead of the head -/
  optSorted : Bool
  /-- MHD_set_connection_option stores the value for a suspended connection (F11b repaired) -/
  optSusp : Bool
  /-- new_connection_process_ restarts the timer when it inserts the connection (F11c repaired) -/
  stampNew : Bool
  /-- MHD_get_timeout64 compares deadlines in a way that tolerates deadlines in the past (F11d) -/
  hintSafe : Bool
  /-- the select loop saves `pos->prev` before `call_handlers` (F10 repaired; not part of C10) -/
  savePrev : Bool
  /-- MHD_update_last_activity_, resume_suspended_connections and new_connection_process_ put the
      connection they have just stamped with the current time at its sorted position of the normal list
      instead of the head (F11e repaired: the head is the wrong place after a backward clock jump) -/
  actSorted : Bool
  /-- call_handlers only ever RAISES the daemon-wide `data_already_pending` flag
      (`if (! flag) { if (PROCESS …) flag = true; }`): a connection without pending work that is handled
      after one with pending work does not write it back to false -/
  pendAccum : Bool
  deriving DecidableEq, Repr

def Variant.current : Variant :=
  ⟨Mhd.Gen.Tmo.optSortedInsert, Mhd.Gen.Tmo.optWhileSuspended, Mhd.Gen.Tmo.stampAtProcess,
   Mhd.Gen.Tmo.hintCmpSafe, Mhd.Gen.Tmo.selectSavesPrev, Mhd.Gen.Tmo.actSortedInsert,
   Mhd.Gen.Tmo.pendingAccumulates⟩

/-- the pinned tree before any C10 repair -/
def Variant.asIs : Variant := ⟨false, false, false, false, false, false, true⟩

/-- What the client has sent so far: nothing, a POST head plus body bytes (the handler has been
    called: `client_aware`), or a fragment of a request line (handler never called). -/
inductive Kind | none | post | frag
  /-- a complete GET: the handler queues a reply -/
  | get
  /-- the head of a POST with `Expect: 100-continue` -/
  | expect
  deriving DecidableEq, Repr

structure Conn where
  /-- `last_activity` -/
  la : Nat := 0
  /-- `connection_timeout_ms` -/
  tmo : Nat := 0
  suspended : Bool := false
  resuming : Bool := false
  /-- `state == MHD_CONNECTION_CLOSED`, cleanup still to be done -/
  closed : Bool := false
  /-- `rq.client_aware` -/
  aware : Bool := false
  kind : Kind := .none
  /-- client bytes waiting in the socket -/
  unread : Bool := false
  /-- the client has closed its end -/
  peerClosed : Bool := false
  /-- number of those bytes (upload body bytes of a POST) -/
  unreadN : Nat := 0
  /-- unprocessed upload bytes in MHD's read buffer (`read_buffer_offset` in state BODY_RECEIVING) -/
  buf : Nat := 0
  /-- the scripted handler takes one upload byte per call and leaves the rest in the buffer -/
  slow : Bool := false
  /-- a reply (or the interim `100 Continue`) is being sent: the connection waits for its socket to
      take more bytes (`MHD_EVENT_LOOP_INFO_WRITE`) -/
  replying : Bool := false
  /-- script bookkeeping: the server side of this connection sends through the slow-reader shim -/
  limited : Bool := false
  /-- the scripted handler suspends the connection at its next upload call -/
  wantSusp : Bool := false
  /-- epoll: MHD_EPOLL_STATE_READ_READY / _IN_EPOLL_SET / _ERROR -/
  readReady : Bool := false
  inSet : Bool := false
  errFlag : Bool := false
  deriving DecidableEq, Repr

structure Cfg where
  epoll : Bool
  /-- `daemon->connection_timeout_ms` -/
  dtmo : Nat
  allowSuspend : Bool
  deriving DecidableEq, Repr

inductive Event
  | started (i : Id)
  | freed (i : Id)
  /-- closed by `connection_check_timedout`; `aware` ⇒ the application got
      `MHD_REQUEST_TERMINATED_TIMEOUT_REACHED` -/
  | tmoClose (i : Id) (aware : Bool)
  | otherClose (i : Id) (code : Nat) (aware : Bool)
  | suspended (i : Id)
  /-- the request was answered completely: `MHD_REQUEST_TERMINATED_COMPLETED_OK` -/
  | completed (i : Id)
  deriving DecidableEq, Repr

structure Daemon where
  cfg : Cfg
  now : Nat
  /-- GHOST (not part of the C state, read by no model function, written by the two clock operations
      only): how far the clock is behind the highest value it has shown so far -/
  back : Nat := 0
  c : Id → Conn
  used : List Id := []
  /-- `new_connections` DLL -/
  newL : List Id := []
  /-- `connections` DLL -/
  conns : List Id := []
  /-- `normal_timeout` XDLL -/
  normal : List Id := []
  /-- `manual_timeout` XDLL -/
  manual : List Id := []
  /-- `suspended_connections` DLL -/
  susp : List Id := []
  /-- `cleanup` DLL -/
  cleanup : List Id := []
  /-- `eready` EDLL (epoll) -/
  eready : List Id := []
  /-- the kernel's epoll ready list, oldest first -/
  kq : List Id := []
  dataPending : Bool := false
  /-- PARAMETER of the next round (the model does not follow reply bytes): the replying connections whose
      socket takes at least one more byte in that round (a send with progress, possibly partial) … -/
  wset : List Id := []
  /-- … and those whose reply is out completely after it -/
  fset : List Id := []
  resuming : Bool := false
  haveNew : Bool := false
  /-- a checked list operation failed (would be memory corruption in C) -/
  fault : Bool := false

def clock0 : Nat := 1000000

def Daemon.init (cfg : Cfg) : Daemon := { cfg := cfg, now := clock0, c := fun _ => {} }

def Daemon.set (d : Daemon) (i : Id) (x : Conn) : Daemon :=
  { d with c := fun j => if j = i then x else d.c j }

def Daemon.la (d : Daemon) (i : Id) : Nat := (d.c i).la

/-- `MHD_EVENT_LOOP_INFO_PROCESS`: the connection has work that no socket event will announce
    (here: upload data the handler has left in the read buffer) -/
def procWait (c : Conn) : Bool := decide (c.buf > 0) && !c.closed && !c.suspended

/-! ### the two functions that decide about a single connection -/

/-- `connection_check_timedout` -/
def checkTimedOut (now : Nat) (c : Conn) : Bool :=
  if c.suspended then false
  else if c.tmo = 0 then false
  else
    let since := sub64 now c.la
    if c.tmo < since then
      if Mhd.Gen.Tmo.halfRange < since then
        if sub64 c.la now ≤ Mhd.Gen.Tmo.jumpBackLimit then false else true
      else true
    else false

/-- `connection_get_wait` (the caller guarantees `tmo ≠ 0`) -/
def getWait (now : Nat) (c : Conn) : Nat :=
  let since := sub64 now c.la
  if c.tmo < since then
    if Mhd.Gen.Tmo.halfRange < since then
      if sub64 c.la now ≤ Mhd.Gen.Tmo.jumpBackLimit then Mhd.Gen.Tmo.granularity else 0
    else 0
  else if since = c.tmo then Mhd.Gen.Tmo.granularity
  else c.tmo - since

/-! ### list primitives -/

/-- `EDLL_remove` / removal from the kernel's ready list: the element is in the list at most once -/
def without (l : List Id) (i : Id) : List Id := l.filter fun j => j != i

/-- insertion that keeps a list ordered by last activity, most recent first
    (`normal_timeout_insert_sorted` of the repaired MHD_set_connection_option) -/
def insSorted (la : Id → Nat) : List Id → Id → List Id
  | [], i => [i]
  | j :: t, i => if la j > la i then j :: insSorted la t i else i :: j :: t

/-- where a connection that has just been stamped with the current time enters the normal list:
    the head (`XDLL_insert`) or, repaired, its sorted position — the same place unless the clock has
    jumped back -/
def stampIns (v : Variant) (la : Id → Nat) (l : List Id) (i : Id) : List Id :=
  if v.actSorted then insSorted la l i else i :: l

def Daemon.remNormal (d : Daemon) (i : Id) : Daemon :=
  if i ∈ d.normal then { d with normal := d.normal.erase i } else { d with fault := true }

def Daemon.remManual (d : Daemon) (i : Id) : Daemon :=
  if i ∈ d.manual then { d with manual := d.manual.erase i } else { d with fault := true }

def Daemon.remConns (d : Daemon) (i : Id) : Daemon :=
  if i ∈ d.conns then { d with conns := d.conns.erase i } else { d with fault := true }

def Daemon.remSusp (d : Daemon) (i : Id) : Daemon :=
  if i ∈ d.susp then { d with susp := d.susp.erase i } else { d with fault := true }

/-- `if (c->connection_timeout_ms == daemon->connection_timeout_ms) XDLL_remove (normal…)
     else XDLL_remove (manual…)` -/
def Daemon.remTimeout (d : Daemon) (i : Id) : Daemon :=
  if (d.c i).tmo = d.cfg.dtmo then d.remNormal i else d.remManual i

/-- `if (… == …) XDLL_insert (normal…) else XDLL_insert (manual…)` -/
def Daemon.insTimeout (v : Variant) (d : Daemon) (i : Id) : Daemon :=
  if (d.c i).tmo = d.cfg.dtmo then { d with normal := stampIns v d.la d.normal i }
  else { d with manual := i :: d.manual }

/-! ### API-level operations -/

/-- `MHD_update_last_activity_` -/
def updateLastActivity (v : Variant) (d : Daemon) (i : Id) : Daemon :=
  let c := d.c i
  if c.tmo = 0 then d
  else if c.suspended then d
  else
    let d1 := d.set i { c with la := d.now }
    if c.tmo ≠ d.cfg.dtmo then d1
    else
      let d2 := d1.remNormal i
      { d2 with normal := stampIns v d2.la d2.normal i }

/-- `MHD_set_connection_option (c, MHD_CONNECTION_OPTION_TIMEOUT, s)`:
    `if (0 == timeout) last_activity = now;` then, unless suspended, remove from the list chosen by the
    old value, assign, insert into the list chosen by the new value -/
def setTimeout (v : Variant) (d : Daemon) (i : Id) (s : Nat) : Daemon :=
  let c := d.c i
  let la' := if c.tmo = 0 then d.now else c.la
  let newT := s * Mhd.Gen.Tmo.msPerSec
  if c.suspended = false then
    let d1 := d.remTimeout i
    let d2 := d1.set i { c with la := la', tmo := newT }
    if newT = d2.cfg.dtmo then
      { d2 with normal := if v.optSorted then insSorted d2.la d2.normal i else i :: d2.normal }
    else { d2 with manual := i :: d2.manual }
  else if v.optSusp then d.set i { c with la := la', tmo := newT }
  else d.set i { c with la := la' }

/-- `internal_suspend_connection_` -/
def internalSuspend (d : Daemon) (i : Id) : Daemon :=
  let c := d.c i
  if c.resuming then d.set i { c with resuming := false }
  else
    let d1 := (d.remTimeout i).remConns i
    let d2 := { d1 with susp := i :: d1.susp }
    let d3 := d2.set i { c with suspended := true }
    if d3.cfg.epoll then
      { (d3.set i { (d3.c i) with inSet := false }) with
          eready := without d3.eready i, kq := without d3.kq i }
    else d3

/-- `MHD_resume_connection` -/
def resumeRequest (d : Daemon) (i : Id) : Daemon :=
  { (d.set i { (d.c i) with resuming := true }) with resuming := true }

/-- body of the loop of `resume_suspended_connections` for `pos = i` (no upgrade handles here):
    out of the suspended list, flag cleared, timer restarted, into `connections` and the timeout
    list that matches, and (epoll) marked ready and queued in `eready` -/
def resumeOne (v : Variant) (d : Daemon) (i : Id) : Daemon :=
  let c := d.c i
  if c.resuming = false then d
  else
    let d1 := d.remSusp i
    let la' := if c.tmo ≠ 0 then d.now else c.la
    let c' := { c with suspended := false, la := la', resuming := false,
                       readReady := if d.cfg.epoll then true else c.readReady }
    let d2 := { (d1.set i c') with conns := i :: d1.conns }
    let d3 := d2.insTimeout v i
    if d.cfg.epoll then { d3 with eready := i :: d3.eready } else d3

/-- `resume_suspended_connections`: from the tail of the suspended list -/
def resumeSuspended (v : Variant) (d : Daemon) : Daemon :=
  let l := if d.resuming then d.susp.reverse else []
  l.foldl (resumeOne v) { d with resuming := false }

/-- `MHD_add_connection` on a thread-safe daemon: `new_connection_prepare_` + queueing -/
def arrive (d : Daemon) (i : Id) : Daemon :=
  let c : Conn := { tmo := d.cfg.dtmo, la := if d.cfg.dtmo ≠ 0 then d.now else 0 }
  { (d.set i c) with used := i :: d.used, newL := i :: d.newL, haveNew := true }

/-- `new_connection_process_` -/
def processOneNew (v : Variant) (d : Daemon) (i : Id) : Daemon :=
  let c := d.c i
  let la' := if v.stampNew ∧ c.tmo ≠ 0 then d.now else c.la
  let c' := { c with la := la', inSet := if d.cfg.epoll then true else c.inSet }
  let d0 := d.set i c'
  let d1 := { d0 with conns := i :: d.conns, normal := stampIns v d0.la d.normal i }
  if d.cfg.epoll then { d1 with kq := d1.kq ++ [i] } else d1

/-- `new_connections_list_process_`: FIFO, i.e. from the tail of the queue -/
def processNew (v : Variant) (d : Daemon) : Daemon × List Event :=
  if d.haveNew then
    let l := d.newL.reverse
    (l.foldl (processOneNew v) { d with newL := [], haveNew := false }, l.map Event.started)
  else (d, [])

/-- `cleanup_connection` -/
def cleanupConnection (d : Daemon) (i : Id) : Daemon :=
  if i ∈ d.cleanup then d
  else
    let c := d.c i
    let d1 :=
      if c.suspended then (d.remSusp i).set i { c with suspended := false }
      else (d.remTimeout i).remConns i
    let d2 := { d1 with cleanup := i :: d1.cleanup }
    d2.set i { (d2.c i) with resuming := false }

/-- one iteration of `MHD_cleanup_connections`: the connection is freed (the client-side facts of
    the script survive in the record) -/
def freeOne (d : Daemon) (i : Id) : Daemon :=
  { (d.set i { kind := (d.c i).kind, peerClosed := (d.c i).peerClosed, wantSusp := (d.c i).wantSusp, slow := (d.c i).slow,
                 limited := (d.c i).limited })
      with eready := without d.eready i, kq := without d.kq i }

/-- `MHD_cleanup_connections`: from the tail of the cleanup list -/
def cleanupAll (d : Daemon) : Daemon × List Event :=
  let l := d.cleanup.reverse
  ({ (l.foldl freeOne d) with cleanup := [] }, l.map Event.freed)

/-! ### the sleep hint -/

/-- the comparison inside the manual-list loop of `MHD_get_timeout64` -/
def earlier (v : Variant) (ed : Nat) (c : Conn) : Bool :=
  if v.hintSafe then
    let dl := add64 c.la c.tmo
    decide (ed ≠ dl ∧ sub64 ed dl < Mhd.Gen.Tmo.halfRange)
  else decide (sub64 ed c.la > c.tmo)

def hintStep (v : Variant) (d : Daemon) (acc : Option (Id × Nat)) (i : Id) : Option (Id × Nat) :=
  let c := d.c i
  if c.tmo = 0 then acc
  else match acc with
    | none => some (i, add64 c.la c.tmo)
    | some (e, ed) => if earlier v ed c then some (i, add64 c.la c.tmo) else some (e, ed)

/-- the connection `MHD_get_timeout64` takes for the one with the earliest deadline -/
def hintCand (v : Variant) (d : Daemon) : Option (Id × Nat) :=
  let c0 : Option (Id × Nat) := match d.normal.getLast? with
    | some i => if (d.c i).tmo ≠ 0 then some (i, add64 (d.c i).la (d.c i).tmo) else none
    | none => none
  d.manual.reverse.foldl (hintStep v d) c0

/-- work that `MHD_get_timeout64` sees as already pending -/
def pending (d : Daemon) : Bool :=
  d.dataPending || !d.cleanup.isEmpty || d.resuming || d.haveNew ||
    (d.cfg.epoll && !d.eready.isEmpty)

/-- `MHD_get_timeout64`: `none` = MHD_NO -/
def hint (v : Variant) (d : Daemon) : Option Nat :=
  if pending d then some 0
  else (hintCand v d).map fun p => getWait d.now (d.c p.1)

end Mhd.Tmo
