/-
  The response object of `response.c`: ordered header/footer list, `flags_auto`,
  response flags, total size, upgrade handler presence — and the calls that edit it:

  * `addHeader`   MHD_add_response_header  (+ add_response_header_connection)
  * `delHeader`   MHD_del_response_header  (+ del_response_header_connection)
  * `addFooter`   MHD_add_response_footer
  * `setOptions`  MHD_set_response_options

  The model follows the code *with the fixes of build/fixes/F4.diff, F4c.diff,
  F4d.diff applied* (sites marked FIX below).  Allocation failures are not
  modelled (assumption of C04; C07 covers them).  `Ret.crash` is the NULL
  dereference of `_MHD_remove_header (response, NULL)`.
-/
import Mhd.Gen.Reply
import Mhd.Model.ReplyStr

namespace Mhd.Resp
open Mhd.ReplyStr

/-- `enum MHD_ResponseAutoFlags` as a record of bits -/
structure AutoFlags where
  connHdr : Bool := false
  connClose : Bool := false
  transEnc : Bool := false
  contentLength : Bool := false
  date : Bool := false
deriving Repr, DecidableEq, Inhabited

/-- `enum MHD_ResponseFlags` as a record of bits -/
structure RFlags where
  http10Strict : Bool := false
  http10Server : Bool := false
  insanity : Bool := false
  sendKeepAlive : Bool := false
  headOnly : Bool := false
deriving Repr, DecidableEq, Inhabited

inductive Kind where
  | header | footer
deriving Repr, DecidableEq, Inhabited

structure Hdr where
  kind : Kind
  name : Bytes
  value : Bytes
deriving Repr, DecidableEq, Inhabited

structure Resp where
  hdrs : List Hdr := []
  fa : AutoFlags := {}
  flags : RFlags := {}
  /-- `total_size`; `Gen.sizeUnknown` = MHD_SIZE_UNKNOWN -/
  totalSize : Nat := 0
  /-- `NULL != upgrade_handler` -/
  upgrade : Bool := false
deriving Repr, DecidableEq, Inhabited

inductive Ret where
  | no | yes | crash
deriving Repr, DecidableEq, Inhabited

def sConnection : Bytes := Mhd.Gen.Reply.hdrConnection
def sTransferEncoding : Bytes := Mhd.Gen.Reply.hdrTransferEncoding
def sDate : Bytes := Mhd.Gen.Reply.hdrDate
def sContentLength : Bytes := Mhd.Gen.Reply.hdrContentLength
/-- "chunked" -/
def sChunked : Bytes := [99, 104, 117, 110, 107, 101, 100]
/-- "close" -/
def sClose : Bytes := [99, 108, 111, 115, 101]
/-- "close, " -/
def sCloseSep : Bytes := [99, 108, 111, 115, 101, 44, 32]
/-- "keep-alive" -/
def sKeepAliveLower : Bytes := [107, 101, 101, 112, 45, 97, 108, 105, 118, 101]
/-- ", " -/
def sSep : Bytes := [44, 32]

/-- `header_len == strlen(K) && MHD_str_equal_caseless_bin_n_ (header, K, header_len)` -/
def nameIs (name key : Bytes) : Bool := eqCaselessBin name key

/-- `add_response_entry` / `add_response_entry_n` (content is never NULL here) -/
def addEntry (r : Resp) (kind : Kind) (header content : Bytes) : Bool × Resp :=
  if header.isEmpty then (false, r)
  else if content.isEmpty then (false, r)
  else if header.contains 9 || header.contains 32 || header.contains 13 || header.contains 10 then (false, r)
  else if content.contains 13 || content.contains 10 then (false, r)
  else (true, { r with hdrs := r.hdrs ++ [⟨kind, header, content⟩] })

/-- the test of `MHD_get_response_element_n_ (response, kind, key, key_len)`:
    `header_size == key_len && kind == pos->kind && MHD_str_equal_caseless_bin_n_ (…)` -/
def isElem (kind : Kind) (key : Bytes) (h : Hdr) : Bool := h.kind == kind && nameIs h.name key

/-- header-kind entry named `key` -/
def isHdr (key : Bytes) (h : Hdr) : Bool := isElem .header key h

/-- remove the first entry satisfying `p` (`_MHD_remove_header` after a search loop):
    the removed entry and the remaining list -/
def eraseFirst (p : Hdr → Bool) : List Hdr → Option (Hdr × List Hdr)
  | [] => none
  | h :: t =>
    if p h then some (h, t)
    else match eraseFirst p t with
      | some (x, t') => some (x, h :: t')
      | none => none

/-- replace the value of the first entry satisfying `p` -/
def setValueFirst (p : Hdr → Bool) (v : Bytes) : List Hdr → List Hdr
  | [] => []
  | h :: t => if p h then { h with value := v } :: t else h :: setValueFirst p v t

/-- assemble the merged "Connection" value: ["close"] [", "] [old] [", "] [norm] -/
def mergeConn (insertClose : Bool) (old : Option Bytes) (norm : Bytes) : Bytes :=
  let p0 : Bytes := if insertClose then sClose else []
  let p1 : Bytes := match old with
    | some o => (if p0.isEmpty then [] else sSep) ++ o
    | none => []
  let p01 := p0 ++ p1
  let p2 : Bytes := if norm.isEmpty then [] else (if p01.isEmpty then [] else sSep) ++ norm
  p01 ++ p2

/-- `add_response_header_connection` -/
def addHeaderConnection (r : Resp) (value : Bytes) : Ret × Resp :=
  if value.contains 13 || value.contains 10 then (.no, r) else
  let hdr : Option Hdr := if r.fa.connHdr then r.hdrs.find? (isHdr sConnection) else none
  let alreadyHasClose : Bool := if r.fa.connHdr then r.fa.connClose else false
  let old : Option Bytes := hdr.map (·.value)
  let normLen := value.length + value.length / 2 + 1
  match removeTokenCaseless value sClose normLen with
  | none => (.no, r)
  | some ⟨norm0, valueHasClose⟩ =>
    if r.upgrade && valueHasClose then (.no, r) else
    let norm? : Option Bytes :=
      if norm0.isEmpty then some norm0
      else (removeTokensCaseless norm0 sKeepAliveLower).map (·.out)
    match norm? with
    | none => (.crash, r)      -- model fault inside the in-place editor (never observed)
    | some norm =>
      if norm.isEmpty && ! valueHasClose then (.no, r)
      else if norm.isEmpty && alreadyHasClose then (.yes, r)
      else
        let v := mergeConn (valueHasClose && ! alreadyHasClose) old norm
        match hdr with
        | none =>
          -- FIX F4: `flags_auto |= …` (the unfixed code assigns, dropping the other bits)
          let fa' := { r.fa with connHdr := true, connClose := r.fa.connClose || valueHasClose }
          (.yes, { r with hdrs := ⟨.header, sConnection, v⟩ :: r.hdrs, fa := fa' })
        | some _ =>
          let hs' := setValueFirst (isHdr sConnection) v r.hdrs
          let fa' := if valueHasClose && ! alreadyHasClose then { r.fa with connClose := true } else r.fa
          (.yes, { r with hdrs := hs', fa := fa' })

/-- `del_response_header_connection` -/
def delHeaderConnection (r : Resp) (value : Bytes) : Ret × Resp :=
  match r.hdrs.find? (isHdr sConnection) with
  | none => (.no, r)
  | some h =>
    match removeTokensCaseless h.value value with
    | none => (.crash, r)
    | some ⟨v', removed⟩ =>
      -- nothing removed: the in-place editor rewrites every token onto itself, the value is unchanged
      if ! removed then (.no, r)
      else if v'.isEmpty then
        match eraseFirst (isHdr sConnection) r.hdrs with
        | some (_, hs') => (.yes, { r with hdrs := hs', fa := { r.fa with connHdr := false, connClose := false } })
        | none => (.no, r)
      else
        let r1 := { r with hdrs := setValueFirst (isHdr sConnection) v' r.hdrs }
        let others := r1.fa.connHdr || r1.fa.transEnc || r1.fa.contentLength || r1.fa.date
        let keep : Bool :=
          if v'.length == 5 then v' == sClose
          else if 7 < v'.length then v'.take 7 == sCloseSep
          else false
        if others && ! keep then (.yes, { r1 with fa := { r1.fa with connClose := false } })
        else (.yes, r1)

/-- `MHD_add_response_header` -/
def addHeader (r : Resp) (header content : Bytes) : Ret × Resp :=
  if strEqCaseless header sConnection then addHeaderConnection r content
  else if strEqCaseless header sTransferEncoding then
    if ! strEqCaseless content sChunked then (.no, r)
    else if r.fa.transEnc then (.yes, r)
    else if r.fa.contentLength && ! r.flags.insanity then (.no, r)
    else
      match addEntry r .header header content with
      | (true, r1) => (.yes, { r1 with fa := { r1.fa with transEnc := true } })
      | (false, _) => (.no, r)
  else if strEqCaseless header sDate then
    let r0? : Option Resp :=
      if r.fa.date then
        match eraseFirst (isHdr sDate) r.hdrs with
        | none => none                                   -- `_MHD_remove_header (response, NULL)`
        | some (_, hs') =>
          -- FIX F4d: the flag is cleared together with the removed entry
          some { r with hdrs := hs', fa := { r.fa with date := false } }
      else some r
    match r0? with
    | none => (.crash, r)
    | some r0 =>
      match addEntry r0 .header header content with
      | (true, r1) => (.yes, { r1 with fa := { r1.fa with date := true } })
      | (false, _) => (.no, r0)
  else if strEqCaseless header sContentLength then
    if r.flags.insanity || (r.flags.headOnly && ! r.fa.transEnc && ! r.fa.contentLength) then
      match addEntry r .header header content with
      | (true, r1) => (.yes, { r1 with fa := { r1.fa with contentLength := true } })
      | (false, _) => (.no, r)
    else (.no, r)
  else
    match addEntry r .header header content with
    | (true, r1) => (.yes, r1)
    | (false, _) => (.no, r)

/-- `MHD_add_response_footer` -/
def addFooter (r : Resp) (footer content : Bytes) : Ret × Resp :=
  match addEntry r .footer footer content with
  | (true, r1) => (.yes, r1)
  | (false, _) => (.no, r)

/-- `MHD_del_response_header` -/
def delHeader (r : Resp) (header content : Bytes) : Ret × Resp :=
  if r.fa.connHdr && nameIs header sConnection then delHeaderConnection r content
  else
    match eraseFirst (fun h => h.name == header && h.value == content) r.hdrs with
    | none => (.no, r)
    | some (x, hs') =>
      -- FIX F4c: only a removed *header* entry touches the automatic flags
      let fa' : AutoFlags :=
        if x.kind != .header then r.fa
        else if nameIs header sTransferEncoding then { r.fa with transEnc := false }
        else if nameIs header sDate then { r.fa with date := false }
        else if nameIs header sContentLength then
          (if ! hs'.any (isHdr sContentLength) then { r.fa with contentLength := false } else r.fa)
        else r.fa
      (.yes, { r with hdrs := hs', fa := fa' })

/-- `MHD_set_response_options (response, flags, MHD_RO_END)` -/
def setOptions (r : Resp) (flags : RFlags) : Ret × Resp :=
  if r.fa.contentLength && r.flags.insanity && ! flags.insanity then (.no, r)
  else if r.fa.contentLength && r.flags.headOnly && ! flags.headOnly && ! flags.insanity then (.no, r)
  else if flags.headOnly && r.totalSize != 0 then (.no, r)
  else (.yes, { r with flags := flags })

/-- the calls an application can make on a response object -/
inductive Call where
  | add (name value : Bytes)
  | del (name value : Bytes)
  | foot (name value : Bytes)
  | opt (flags : RFlags)
deriving Repr, DecidableEq

def applyCall (r : Resp) : Call → Ret × Resp
  | .add n v => addHeader r n v
  | .del n v => delHeader r n v
  | .foot n v => addFooter r n v
  | .opt f => setOptions r f

/-- run a call sequence; a crashed call ends the run (nothing can be said afterwards) -/
def runCalls (r : Resp) (cs : List Call) : Resp :=
  cs.foldl (fun r c => (applyCall r c).2) r

/-- `MHD_create_response_*` for a body of `size` bytes (or `sizeUnknown`) -/
def Resp.create (size : Nat) : Resp := { totalSize := size }

/-- `MHD_create_response_empty (flags)` -/
def Resp.createEmpty (flags : RFlags) : Resp := { totalSize := 0, flags := flags }

/-- `MHD_create_response_for_upgrade`: size 0 and an initial "Connection: Upgrade" -/
def Resp.createUpgrade : Resp :=
  (addHeader { totalSize := 0, upgrade := true } sConnection [85, 112, 103, 114, 97, 100, 101]).2

end Mhd.Resp
