/-
  C06 — event-loop model, part 3: thread-per-connection.

  Mirrors thread_main_handle_connection (daemon.c): one thread per connection runs
    while (!shutdown && state != CLOSED) {
      if (suspended) { was_suspended = true; wait for the ITC, at most 250 ms; continue; }
      if (was_suspended) { handle_idle; was_suspended = false; [if (suspended) continue;] }
      timeout = PROCESS ? 0 : connection timeout ? deadline : infinite;
      select/poll on the connection's socket for what event_loop_info says;
      call_handlers (readiness);
    }
  `con->suspended` is set by the connection's own thread (MHD_suspend_connection is called from a
  callback) and cleared by the daemon thread (resume_suspended_connections), which is woken by the
  ITC byte MHD_resume_connection writes; here that is the field `wh` changing from `susp` to
  `active` between two iterations (`tpcResumed`).  Two facts about the source text are parameters:

  * `recheck` — the bracketed re-check after the post-resume idle call exists
    (regenerated `Mhd.Gen.Loop.tpcRechecksSuspend`);
  * `early`   — the thread remembers a suspension at the moment its own handler suspends the
    connection, not only when it later finds `con->suspended` still set at the loop head
    (regenerated `Mhd.Gen.Loop.tpcMarksSuspend`).  Without it a resume that the daemon thread
    processes before the connection's thread is back at the loop head goes unnoticed.

  Granularity: one iteration (blocking call returned → handlers → loop head → next blocking call)
  is atomic with respect to the daemon thread; `tpcResumed` happens between iterations, in
  particular right after the iteration in which the handler suspended.  Windows ITC handling, TLS
  read-ahead, upgrade, daemon shutdown and poll()/select() errors are not modelled.
-/
import Mhd.Model.LoopRounds

namespace Mhd.Loop
open Mhd.Gen.Loop

variable {W : Type}

/-- the state of one connection thread -/
structure TState (W : Type) where
  c : Conn W
  wh : Wh                      -- `susp` ⇔ con->suspended
  wasSuspended : Bool := false
  log : List Ev := []
  selBounded : Bool := false   -- static: select() back-end whose wait for writability is bounded (1 s) when there is no timeout

/-- how long the thread is prepared to sleep in its blocking call -/
inductive TWait where
  | forever | zero | deadline | bounded250 | bounded1000
  deriving DecidableEq, Repr

/-- what the blocking call waits for -/
structure TBlock where
  wait : TWait
  onItc : Bool      -- the suspended branch: waits for the inter-thread channel, not for the socket
  r : Bool
  w : Bool
  e : Bool
  deriving DecidableEq, Repr

def suspendedWait : TBlock := { wait := .bounded250, onItc := true, r := false, w := false, e := false }

/-- the select()/poll() on the connection's socket -/
def socketWait (wb : Bool) (c : Conn W) : Option TBlock :=
  let wait := if c.loc.eli.hasProcess then TWait.zero else if c.tmo > 0 then TWait.deadline
              else if wb && c.loc.eli.isWrite then TWait.bounded1000 else TWait.forever
  match c.loc.eli with
  | .read | .processRead => some { wait := wait, onItc := false, r := true, w := false, e := false }
  | .write => some { wait := wait, onItc := false, r := false, w := true, e := false }
  | .process => some { wait := wait, onItc := false, r := false, w := false, e := true }
  | .cleanup => none        -- "how did we get here!?": goto exit

/-- the loop condition finds the connection closed.  If the last handle_idle already moved it to the cleanup list
    (call_handlers returned MHD_NO: `goto exit`) nothing more is called; otherwise the thread falls out of the loop
    and runs MHD_connection_handle_idle once more, which cleans up. -/
def tpcExit (ops : Ops W) (t : TState W) : TState W × Option TBlock :=
  if t.wh = .cleanup then (t, none)
  else
    let s := doIdle ops false { c := t.c, wh := t.wh, evs := [] }
    ({ t with c := s.c, wh := s.wh, log := s.evs ++ t.log }, none)

/-- from the loop head to the blocking call; `none` = the thread leaves the loop -/
def tpcHeadWith (ops : Ops W) (recheck early : Bool) (t : TState W) : TState W × Option TBlock :=
  if t.c.loc.st = stClosed then tpcExit ops t
  else if t.wh = .susp then ({ t with wasSuspended := true }, some suspendedWait)
  else if t.wasSuspended then
    let s := doIdle ops false { c := t.c, wh := t.wh, evs := [] }
    let t1 : TState W := { c := s.c, wh := s.wh, wasSuspended := early && s.wh = .susp, log := s.evs ++ t.log, selBounded := t.selBounded }
    if recheck && t1.wh = .susp then
      -- `continue`: loop condition, then the suspended branch
      if t1.c.loc.st = stClosed then tpcExit ops t1 else ({ t1 with wasSuspended := true }, some suspendedWait)
    else (t1, socketWait t1.selBounded t1.c)
  else (t, socketWait t.selBounded t.c)

/-- the rest of the iteration once the blocking call returned with this readiness of the socket -/
def tpcTailWith (ops : Ops W) (early : Bool) (t : TState W) (b : TBlock) (rr wr er : Bool) : TState W :=
  if b.onItc then t       -- `continue; /* Check again for resume. */`
  else
    let r := chLocal ops false t.c t.wh rr wr er
    { t with c := r.c, wh := r.wh, wasSuspended := t.wasSuspended || (early && r.wh = .susp), log := r.evs ++ t.log }

/-- one iteration of the thread loop; `none` = the thread has left the loop -/
def tpcIterWith (ops : Ops W) (recheck early : Bool) (t : TState W) (rr wr er : Bool) : Option (TState W) :=
  match tpcHeadWith ops recheck early t with
  | (_, none) => none
  | (t1, some b) => some (tpcTailWith ops early t1 b rr wr er)

def tpcHead (ops : Ops W) (t : TState W) : TState W × Option TBlock := tpcHeadWith ops tpcRechecksSuspend tpcMarksSuspend t
def tpcTail (ops : Ops W) (t : TState W) (b : TBlock) (rr wr er : Bool) : TState W := tpcTailWith ops tpcMarksSuspend t b rr wr er
def tpcIter (ops : Ops W) (t : TState W) (rr wr er : Bool) : Option (TState W) :=
  tpcIterWith ops tpcRechecksSuspend tpcMarksSuspend t rr wr er

/-- the daemon thread processed MHD_resume_connection for this connection -/
def tpcResumed (t : TState W) : TState W := if t.wh = .susp then { t with wh := .active } else t

/-! ### the daemon thread of a thread-per-connection daemon

  MHD_polling_thread: `MHD_select` (select back-end) or `MHD_poll_listen_socket` (poll back-end), then
  MHD_cleanup_connections, for ever.  The only thing a cycle does for the existing connections is
  resume_suspended_connections — provided the back-end calls it in this threading mode (regenerated facts
  `selectResumesEveryCycle` / `pollListenResumesEveryCycle`). -/

/-- one connection of a thread-per-connection daemon: its thread and the `resuming` mark MHD_resume_connection sets -/
structure TThread (W : Type) where
  t : TState W
  resuming : Bool := false

inductive TBackend where
  | select | poll
  deriving DecidableEq, Repr

/-- does the daemon thread's cycle of this back-end call resume_suspended_connections? (from the source text) -/
def daemonResumes : TBackend → Bool
  | .select => selectResumesEveryCycle
  | .poll => pollListenResumesEveryCycle

/-- MHD_resume_connection -/
def tpcResumeReq (ths : List (TThread W)) (id : CId) : List (TThread W) :=
  ths.map (fun th => if th.t.c.id = id ∧ th.t.wh = .susp then { th with resuming := true } else th)

/-- one cycle of the daemon thread -/
def tpcDaemonCycleWith (resumes : Bool) (ths : List (TThread W)) : List (TThread W) :=
  if resumes then ths.map (fun th => if th.resuming then { t := tpcResumed th.t, resuming := false } else th) else ths

def tpcDaemonCycle (b : TBackend) (ths : List (TThread W)) : List (TThread W) := tpcDaemonCycleWith (daemonResumes b) ths

/-- the write wait of the select back-end is bounded -/
def selBoundedOf : TBackend → Bool
  | .select => tpcSelectWriteBounded
  | .poll => false

end Mhd.Loop
