/-
  C05 — the documented call protocol of the application callbacks of one
  connection, as a small automaton over the log of callback events.

  This file is a *specification* (hand-written, short); it knows nothing about
  the connection state machine.  The same automaton is re-implemented in Python
  (tools/props/C05.py, class ProtocolOracle) over the log of the real library.
-/
namespace Mhd.Protocol

/-- the three places the access handler is called from -/
inductive Site where
  | first    -- MHD_CONNECTION_HEADERS_PROCESSED: call_connection_handler, "first call"
  | upload   -- process_request_body
  | final    -- MHD_CONNECTION_FULL_REQ_RECEIVED: call_connection_handler, "final call"
  deriving DecidableEq, Repr, Inhabited

def Site.rank : Site → Nat
  | .first => 0
  | .upload => 1
  | .final => 2

/-- one callback event of a connection -/
inductive LEv where
  /-- MHD_CONNECTION_NOTIFY_STARTED -/
  | connStart
  /-- MHD_CONNECTION_NOTIFY_CLOSED -/
  | connClose
  /-- URI log callback; its return value becomes the request context -/
  | uriLog (ctxOut : Option Nat)
  /-- access handler: call site, offset of the first presented body byte in the body stream,
      number of presented bytes, bytes taken by the application, context seen / left, return value -/
  | handler (site : Site) (off len taken : Nat) (ctxIn ctxOut : Option Nat) (ret : Bool)
  /-- a response was accepted for the current request (by MHD_queue_response from the
      application, or MHD's own error response) -/
  | queued
  /-- request completion callback -/
  | completed (code : Nat) (ctx : Option Nat)
  /-- the strings given to the application for the current request are released / overwritten -/
  | invalidate
  /-- free callback of a response object -/
  | freeCb (rid : Nat)
  /-- an interim (102 Processing) reply has been sent completely: the handler is asked again -/
  | interimSent
  /-- upgrade handler callback: the socket is handed over to the application -/
  | upgrade
  deriving DecidableEq, Repr

/-- what the automaton remembers about the request in progress -/
structure ReqSt where
  /-- the access handler has been called for this request -/
  handlerSeen : Bool
  /-- latest call site used -/
  site : Site
  /-- current value of the request context -/
  ctx : Option Nat
  /-- number of body bytes taken so far = offset the next upload call must start at -/
  nextOff : Nat
  /-- a response has been queued for the request -/
  replied : Bool
  /-- the handler returned MHD_NO -/
  failed : Bool
  /-- the upgrade handler has been called: the connection belongs to the application; nothing but the
      completion (and free callbacks) may follow for this request -/
  upgraded : Bool := false
  deriving DecidableEq, Repr

inductive PSt where
  | fresh                -- before the start notification
  | idle                 -- connection open, no request presented to the application
  | req (r : ReqSt)      -- a request has been presented and is not completed yet
  | closed               -- after the close notification
  | bad                  -- protocol violated
  deriving DecidableEq, Repr

def handlerStep (r : ReqSt) (site : Site) (off len taken : Nat) (ctxIn ctxOut : Option Nat) (ret : Bool) : PSt :=
  if r.replied ∨ r.failed then .bad                      -- no call after a response / after a failure
  else if ctxIn ≠ r.ctx then .bad                        -- the context is the request's own
  else if ¬ r.handlerSeen ∧ site ≠ .first then .bad      -- the first call comes from the first site …
  else if site.rank < r.site.rank then .bad              -- … first, then upload, then final calls
  else if site = .upload ∧ (len = 0 ∨ off ≠ r.nextOff ∨ len < taken) then .bad
  else if site ≠ .upload ∧ (len ≠ 0 ∨ taken ≠ 0) then .bad  -- no upload data at the first / final calls
  else .req { handlerSeen := true, site := site, ctx := ctxOut, nextOff := r.nextOff + taken,
              replied := false, failed := !ret }

def step : PSt → LEv → PSt
  | .fresh, .connStart => .idle
  | .idle, .connClose => .closed
  | .idle, .uriLog ctx => .req { handlerSeen := false, site := .first, ctx := ctx, nextOff := 0, replied := false, failed := false }
  | .idle, .handler site off len taken ctxIn ctxOut ret =>
      -- no URI log callback registered: the first handler call presents the request, fresh context
      handlerStep { handlerSeen := false, site := .first, ctx := none, nextOff := 0, replied := false, failed := false }
        site off len taken ctxIn ctxOut ret
  | .req r, .handler site off len taken ctxIn ctxOut ret => handlerStep r site off len taken ctxIn ctxOut ret
  | .req r, .queued => if r.replied then .bad else .req { r with replied := true }
  | .req r, .completed _ ctx => if ctx = r.ctx then .idle else .bad
  | .req r, .interimSent => if r.replied && !r.upgraded then .req { r with replied := false, site := .first } else .bad
  | .req r, .upgrade => if r.replied && !r.upgraded then .req { r with upgraded := true } else .bad
  | .idle, .queued => .idle          -- MHD's own error reply to a request the application never saw
  | .idle, .invalidate => .idle
  | .idle, .freeCb _ => .idle
  | .req r, .freeCb _ => .req r
  | .closed, .freeCb _ => .closed
  | _, _ => .bad

def run (p : PSt) (log : List LEv) : PSt := log.foldl step p

/-- the log of a connection (possibly still open) respects the protocol -/
def accepts (log : List LEv) : Prop := run .fresh log ≠ .bad

instance (log : List LEv) : Decidable (accepts log) := by unfold accepts; infer_instance

/-- the log of a finished connection: everything bracketed by start / close, every presented
    request completed -/
def complete (log : List LEv) : Prop := run .fresh log = .closed

instance (log : List LEv) : Decidable (complete log) := by unfold complete; infer_instance

theorem run_append (p : PSt) (a b : List LEv) : run p (a ++ b) = run (run p a) b := by
  simp [run, List.foldl_append]

theorem step_bad (e : LEv) : step .bad e = .bad := by cases e <;> rfl

theorem run_bad (log : List LEv) : run .bad log = .bad := by
  induction log with
  | nil => rfl
  | cons e t ih => simp only [run, List.foldl_cons, step_bad] at *; exact ih

end Mhd.Protocol
