/-
  C11 — the inactivity timer of a connection through suspend / resume (small, stand-alone).

    connection.c: MHD_update_last_activity_   (`activity`: skipped for a suspended connection)
                  connection_check_timedout   (`idle`: never true for a suspended connection;
                                               `timeout < now - last_activity` otherwise)
    daemon.c:     internal_suspend_connection_ (`suspend`: the connection leaves its timeout list)
                  resume_suspended_connections (`resume`: "Reset timeout timer on resume", then back
                                               into the default-timeout list or the manual-timeout list)

  Time is the virtual monotonic clock in milliseconds.  Which list a connection lives in is decided
  by `timeout = dflt` (XDLL normal_timeout_*) or not (manual_timeout_*); timeout 0 = never.
  The four guards come from Mhd.Gen.Susp (regenerated from the source / behavioural probes).
-/
import Mhd.Gen.Susp
namespace Mhd.SuspTimer

structure TGuards where
  activitySkip : Bool      -- MHD_update_last_activity_: `if (connection->suspended) return;`
  checkSkip : Bool         -- connection_check_timedout: `if (c->suspended) return false;`
  restartNormal : Bool     -- resume: last_activity = now for a connection of the default-timeout list
  restartManual : Bool     -- resume: last_activity = now for a connection of the manual-timeout list
  setSkipsSusp : Bool      -- MHD_set_connection_option (TIMEOUT): the list moves are inside `if (! connection->suspended)`
  deriving DecidableEq, Repr

def srcTGuards : TGuards :=
  { activitySkip := Mhd.Gen.Susp.activityGuard, checkSkip := Mhd.Gen.Susp.timedOutGuard,
    restartNormal := Mhd.Gen.Susp.resumeRestartsTimerNormal, restartManual := Mhd.Gen.Susp.resumeRestartsTimerManual,
    setSkipsSusp := Mhd.Gen.Susp.setTimeoutSkipsSuspended }

structure TState where
  now : Nat := 0               -- MHD_monotonic_msec_counter
  dflt : Nat := 0              -- daemon->connection_timeout_ms
  timeout : Nat := 0           -- connection->connection_timeout_ms (0 = no timeout)
  lastAct : Nat := 0           -- connection->last_activity
  suspended : Bool := false
  closedTO : Bool := false     -- closed with MHD_REQUEST_TERMINATED_TIMEOUT_REACHED
  resumedAt : Nat := 0         -- ghost: time of the last resume (or of the start)
  cntNormal : Nat := 0         -- how often the connection is linked into normal_timeout_head … _tail (XDLL)
  cntManual : Nat := 0         -- how often it is linked into manual_timeout_head … _tail
  deriving DecidableEq, Repr

inductive TOp
  | tick (ms : Nat)            -- the clock advances
  | setTimeout (ms : Nat)      -- MHD_set_connection_option (MHD_CONNECTION_OPTION_TIMEOUT), at any time, by any thread
  | activity                   -- MHD_update_last_activity_ (successful recv / send)
  | idle                       -- the timeout check of MHD_connection_handle_idle
  | suspend
  | resume                     -- resume_suspended_connections moves the connection back
  deriving DecidableEq, Repr

/-- the connection is in the default-timeout list (else: manual-timeout list) -/
def TState.inNormal (s : TState) : Bool := s.timeout == s.dflt

/-- XDLL_remove from the list selected by the current timeout value -/
def TState.unlink (s : TState) : TState :=
  if s.inNormal then { s with cntNormal := s.cntNormal - 1 } else { s with cntManual := s.cntManual - 1 }

/-- XDLL_insert / MHD_normal_timeout_insert_sorted_ into the list selected by the current timeout value -/
def TState.link (s : TState) : TState :=
  if s.inNormal then { s with cntNormal := s.cntNormal + 1 } else { s with cntManual := s.cntManual + 1 }

/-- the list part of MHD_set_connection_option (TIMEOUT), under cleanup_connection_mutex -/
def setTO (g : TGuards) (s0 : TState) (ms : Nat) : TState :=
  if s0.suspended then
    -- "Suspended connections are not in the timeout lists, the proper list is chosen by the new value
    --  when the connection is resumed"
    (if g.setSkipsSusp then { s0 with timeout := ms } else { s0 with timeout := ms }.link)
  else { s0.unlink with timeout := ms }.link

def step (g : TGuards) (s : TState) : TOp → TState
  | .tick ms => { s with now := s.now + ms }
  | .setTimeout ms =>
    -- `if (0 == connection->connection_timeout_ms) connection->last_activity = now;`
    setTO g (if s.timeout = 0 then { s with lastAct := s.now } else s) ms
  | .activity =>
    if s.timeout = 0 then s
    else if g.activitySkip && s.suspended then s
    else { s with lastAct := s.now }
  | .idle =>
    if s.closedTO then s
    else if g.checkSkip && s.suspended then s
    else if s.timeout ≠ 0 ∧ s.timeout < s.now - s.lastAct then { s with closedTO := true }
    else s
  | .suspend => if s.closedTO || s.suspended then s else { s.unlink with suspended := true }
  | .resume =>
    if !s.suspended then s else
    let restart := s.timeout ≠ 0 ∧ (if s.inNormal then g.restartNormal else g.restartManual) = true
    { s with suspended := false, resumedAt := s.now, lastAct := if restart then s.now else s.lastAct }.link

def run (g : TGuards) : TState → List TOp → TState
  | s, [] => s
  | s, op :: ops => run g (step g s op) ops

def TGuards.Sound (g : TGuards) : Prop :=
  g.activitySkip = true ∧ g.checkSkip = true ∧ g.restartNormal = true ∧ g.restartManual = true ∧ g.setSkipsSusp = true

instance (g : TGuards) : Decidable g.Sound := by unfold TGuards.Sound; infer_instance

end Mhd.SuspTimer
