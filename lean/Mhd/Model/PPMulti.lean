/-
  Model of src/microhttpd/postprocessor.c — the multipart machine:
  `find_boundary`, `try_get_value`/`try_match_header` (in `PPBytes`),
  `process_multipart_headers`, `process_value_to_boundary`, `free_unmarked`,
  `post_process_multipart`.

  `pp.buf` is the window `buf[0 .. buffer_pos)` of the buffer behind the struct,
  so `buffer_pos = pp.buf.length`; a read at an index `≥ buffer_pos` is reported
  as a fault (the C code would read stale bytes there — it never does, which is
  part of the safety theorem).
-/
import Mhd.Model.PPCore

namespace Mhd.PP

def sDashDash : Bytes := [cDash, cDash]
def sCRLFDashDash : Bytes := [cCR, cLF, cDash, cDash]
def hdrDisposition : Bytes := ofStr "Content-disposition: "
def hdrType : Bytes := ofStr "Content-type: "
def hdrEncoding : Bytes := ofStr "Content-Transfer-Encoding: "
def sMixed : Bytes := ofStr "multipart/mixed"
def sBoundaryEq : Bytes := ofStr "boundary="
def sName : Bytes := ofStr "name"
def sFilename : Bytes := ofStr "filename"

/-- `find_boundary (pp, boundary, blen, &ioff, next_state, next_dash_state)`;
    result = (pp, ioff, found) -/
def findBoundary (pp : PP) (boundary : Bytes) (ioff : Nat) (next nextDash : St) : PP × Nat × Bool :=
  let pos := pp.buf.length
  let blen := boundary.length
  if pos < 2 + blen then
    (if pos = pp.bufferSize then { pp with state := .error } else pp, ioff, false)
  else if slice pp.buf 0 2 ≠ sDashDash ∨ slice pp.buf 2 (2 + blen) ≠ boundary then
    if pp.state ≠ .init then ({ pp with state := .error }, ioff, false)
    else
      match findByte cDash pp.buf with
      | none => (pp, ioff + pos, false)
      | some 0 => (pp, ioff + 1, false)
      | some k => (pp, ioff + k, false)
  else
    ({ pp with skipRn := .dash, state := next, dashState := nextDash }, ioff + 2 + blen, true)

/-- the header-line scan: first index `< buffer_pos` holding CR or LF, else `buffer_pos` -/
def lineEnd : Bytes → Nat
  | [] => 0
  | c :: t => if c = cCR ∨ c = cLF then 0 else lineEnd t + 1

/-- result of `process_multipart_headers`: `MHD_YES`? -/
def processMultipartHeaders (pp : PP) (ioff : Nat) (next : St) : PP × Nat × Bool :=
  let newline := lineEnd pp.buf
  if newline = pp.bufferSize then ({ pp with state := .error }, ioff, false)
  else if newline = pp.buf.length then (pp, ioff, false)
  else if newline = 0 then ({ pp with skipRn := .full, state := next }, ioff, true)
  else
    match pp.buf[newline]? with
    | none => (pp.setFault "headers-newline-oob", ioff, false)
    | some c =>
      let pp1 := if c = cCR then { pp with skipRn := .optN } else pp
      -- buf[newline] = '\0'; the line is the C string at buf
      let line := cstr (pp1.buf.take newline)
      let pp2 :=
        if eqCaselessN hdrDisposition line hdrDisposition.length then
          let rest := line.drop hdrDisposition.length
          let n := tryGetValue rest sName pp1.cname
          let f := tryGetValue rest sFilename pp1.cfile
          { pp1 with cname := n, cfile := f }
        else
          let t := tryMatchHeader hdrType line pp1.ctype
          let e := tryMatchHeader hdrEncoding line pp1.cenc
          { pp1 with ctype := t, cenc := e }
      ({ pp2 with buf := pp2.buf.set newline 0 }, ioff + newline + 1, true)

/-- inner `while (newline + 4 < pp->buffer_pos)` of `process_value_to_boundary`:
    next candidate position of `"\r\n--"`, or `buffer_pos - 4` -/
def scanCR (buf : Bytes) (newline : Nat) : Nat :=
  if _h : newline + 4 < buf.length then
    match findByte cCR (slice buf newline (buf.length - 4)) with
    | none => buf.length - 4
    | some k =>
      if slice buf (newline + k) (newline + k + 4) = sCRLFDashDash then newline + k
      else scanCR buf (newline + k + 1)
  else newline
termination_by buf.length - newline
decreasing_by omega

theorem scanCR_ge (buf : Bytes) (n : Nat) : n ≤ scanCR buf n := by
  induction n using scanCR.induct (buf := buf) with
  | case1 n h hf => rw [scanCR]; simp [h, hf]; omega
  | case2 n h k hf hs => rw [scanCR]; simp [h, hf, hs]
  | case3 n h k hf hs ih => rw [scanCR]; simp [h, hf, hs]; omega
  | case4 n h => rw [scanCR]; simp [h]

/-- result of the outer `while (1)` of `process_value_to_boundary` -/
inductive Scan
  | found (newline : Nat)      -- boundary found at `newline`
  | partialAt (newline : Nat)  -- cannot check for a boundary yet: deliver `buf[0..newline)`
  | oom                        -- nothing deliverable and the buffer is full
  deriving DecidableEq, Repr

def scanBoundary (buf boundary : Bytes) (bufferSize : Nat) (newline0 : Nat) : Scan :=
  let newline := scanCR buf newline0
  if _h : newline + boundary.length + 4 ≤ buf.length then
    if slice buf (newline + 4) (newline + 4 + boundary.length) ≠ boundary then
      scanBoundary buf boundary bufferSize (newline + 4)
    else .found newline
  else if newline = 0 ∧ buf.length = bufferSize then .oom
  else .partialAt newline
termination_by buf.length - newline0
decreasing_by
  have := scanCR_ge buf newline0
  omega

def emitMulti (pp : PP) (data : Bytes) : PP :=
  { pp with evs := pp.evs ++ [{ key := pp.cname, filename := pp.cfile, ctype := pp.ctype, enc := pp.cenc,
                                off := pp.valueOffset, data := data }] }

/-- the tail of `process_value_to_boundary`: iterator call and bookkeeping -/
def pvtbDeliver (pp : PP) (ioff newline : Nat) : PP × Nat × Bool :=
  if newline > pp.buf.length then (pp.setFault "value-newline-oob", ioff, false) else
  let pp2 := if pp.mustIkvi ∨ newline ≠ 0 then emitMulti pp (pp.buf.take newline) else pp
  ({ pp2 with mustIkvi := false, valueOffset := pp2.valueOffset + newline }, ioff + newline, true)

/-- `process_value_to_boundary` -/
def processValueToBoundary (pp : PP) (ioff : Nat) (boundary : Bytes) (next nextDash : St) :
    PP × Nat × Bool :=
  match scanBoundary pp.buf boundary pp.bufferSize 0 with
  | .oom => ({ pp with state := .error }, ioff, false)
  | .partialAt newline => pvtbDeliver pp ioff newline
  | .found newline =>
    pvtbDeliver { pp with skipRn := .dash, state := next, dashState := nextDash, buf := pp.buf.set newline 0 }
      (ioff + boundary.length + 4) newline

/-- `free_unmarked` -/
def freeUnmarked (pp : PP) : PP :=
  { pp with cname := if pp.haveName then pp.cname else none,
            ctype := if pp.haveType then pp.ctype else none,
            cfile := if pp.haveFile then pp.cfile else none,
            cenc := if pp.haveEnc then pp.cenc else none }

def PP.clearHave (pp : PP) : PP :=
  { pp with haveName := false, haveType := false, haveFile := false, haveEnc := false }

/-- what happens after the `switch`es of one loop iteration -/
inductive Flow
  | again      -- fall out of the switch / `goto AGAIN`
  | gotoEnd    -- `goto END`
  | ret        -- `return MHD_NO`
  deriving DecidableEq, Repr

/-- locals of `post_process_multipart` -/
structure ML where
  ioff : Nat := 0
  poff : Nat := 0
  stateChanged : Bool := true
  deriving Repr

/-- result of the `skip_rn` pre-machine: `some flow` = left through `goto AGAIN` /
    `return`, `none` = continue with the main switch -/
def rnFull (pp : PP) (l : ML) : PP × ML × Option Flow :=
  match pp.buf[0]? with
  | none => (pp.setFault "rn-buf0-oob", l, some .ret)
  | some c =>
    if c = cCR then
      if pp.buf.length > 1 ∧ pp.buf[1]? = some cLF then
        ({ pp with skipRn := .inactive }, { l with ioff := l.ioff + 2 }, some .again)
      else ({ pp with skipRn := .optN }, { l with ioff := l.ioff + 1 }, some .again)
    else if c = cLF then ({ pp with skipRn := .inactive }, { l with ioff := l.ioff + 1 }, some .again)
    else ({ pp with skipRn := .inactive, state := .error }, l, some .ret)

def rnDash (pp : PP) (l : ML) : PP × ML × Option Flow :=
  match pp.buf[0]? with
  | none => (pp.setFault "rn-buf0-oob", l, some .ret)
  | some c =>
    if c = cDash then ({ pp with skipRn := .dash2 }, { l with ioff := l.ioff + 1 }, some .again)
    else rnFull { pp with skipRn := .full } l

def rnOptN (pp : PP) (l : ML) : PP × ML × Option Flow :=
  match pp.buf[0]? with
  | none => (pp.setFault "rn-buf0-oob", l, some .ret)
  | some c =>
    if c = cLF then ({ pp with skipRn := .inactive }, { l with ioff := l.ioff + 1 }, some .again)
    else rnDash pp l

def rnDash2 (pp : PP) (l : ML) : PP × ML × Option Flow :=
  match pp.buf[0]? with
  | none => (pp.setFault "rn-buf0-oob", l, some .ret)
  | some c =>
    if c = cDash then
      ({ pp with skipRn := .full, state := pp.dashState }, { l with ioff := l.ioff + 1 }, some .again)
    else ({ pp with state := .error }, l, none)

def rnMachine (pp : PP) (l : ML) : PP × ML × Option Flow :=
  match pp.skipRn with
  | .inactive => (pp, l, none)
  | .optN => rnOptN pp l
  | .dash => rnDash pp l
  | .full => rnFull pp l
  | .dash2 => rnDash2 pp l

/-- `case PP_PerformCheckMultipart:` -/
def performCheckMultipart (pp : PP) (l : ML) : PP × ML × Flow :=
  match pp.ctype with
  | some ct =>
    if eqCaselessN ct sMixed sMixed.length then
      match strstr sBoundaryEq ct with
      | none => ({ pp with state := .error }, l, .ret)
      | some r =>
        ({ pp with nested := some (r.drop sBoundaryEq.length), ctype := none, state := .nestedInit },
         { l with stateChanged := true }, .again)
    else ({ pp with state := .processValueToBoundary, valueOffset := 0 }, { l with stateChanged := true }, .again)
  | none => ({ pp with state := .processValueToBoundary, valueOffset := 0 }, { l with stateChanged := true }, .again)

/-- `if (MHD_NO == find_boundary (…)) { if (pp->state == PP_Error) return MHD_NO; goto END; } break;` -/
def flowFound (r : PP × Nat × Bool) (l : ML) : PP × ML × Flow :=
  if r.2.2 then (r.1, { l with ioff := r.2.1 }, .again)
  else if r.1.state = .error then (r.1, { l with ioff := r.2.1 }, .ret)
  else (r.1, { l with ioff := r.2.1 }, .gotoEnd)

/-- `if (MHD_NO == process_multipart_headers (…)) { if (PP_Error) return MHD_NO; else goto END; }
    state_changed = 1; break;` -/
def flowHeaders (r : PP × Nat × Bool) (l : ML) : PP × ML × Flow :=
  if r.2.2 then (r.1, { l with ioff := r.2.1, stateChanged := true }, .again)
  else if r.1.state = .error then (r.1, { l with ioff := r.2.1 }, .ret)
  else (r.1, { l with ioff := r.2.1 }, .gotoEnd)

/-- `if (MHD_NO == process_value_to_boundary (…)) { if (PP_Error) return MHD_NO; break; } break;` -/
def flowValue (r : PP × Nat × Bool) (l : ML) : PP × ML × Flow :=
  if ¬ r.2.2 ∧ r.1.state = .error then (r.1, { l with ioff := r.2.1 }, .ret)
  else (r.1, { l with ioff := r.2.1 }, .again)

/-- the main `switch (pp->state)` -/
def mainSwitch (pp : PP) (l : ML) : PP × ML × Flow :=
  match pp.state with
  | .error => (pp, l, .ret)
  | .done => ({ pp with state := .error }, l, .ret)
  | .init =>
    let r := findBoundary pp pp.boundary l.ioff .processEntryHeaders .done
    (r.1, { l with ioff := r.2.1 }, .again)
  | .nextBoundary =>
    -- (fix F15a: the element after a nested multipart/mixed goes through the cleanup state)
    flowFound (findBoundary pp pp.boundary l.ioff .performCleanup .done) l
  | .processEntryHeaders =>
    flowHeaders (processMultipartHeaders { pp with mustIkvi := true } l.ioff .performCheckMultipart) l
  | .performCheckMultipart => performCheckMultipart pp l
  | .processValueToBoundary =>
    flowValue (processValueToBoundary pp l.ioff pp.boundary .performCleanup .done) l
  | .performCleanup =>
    let pp1 := freeUnmarked pp.clearHave
    ({ pp1 with nested := none, state := .processEntryHeaders }, { l with stateChanged := true }, .again)
  | .nestedInit =>
    match pp.nested with
    | none => ({ pp with state := .error }, l, .ret)
    | some nb => flowFound (findBoundary pp nb l.ioff .nestedPerformMarking .nextBoundary) l
  | .nestedPerformMarking =>
    ({ pp with haveName := pp.cname.isSome, haveType := pp.ctype.isSome, haveFile := pp.cfile.isSome,
               haveEnc := pp.cenc.isSome, state := .nestedProcessEntryHeaders },
     { l with stateChanged := true }, .again)
  | .nestedProcessEntryHeaders =>
    -- (fix F15b: every nested element is reported at least once, like the top-level ones)
    flowHeaders (processMultipartHeaders { pp with valueOffset := 0, mustIkvi := true } l.ioff
      .nestedProcessValueToBoundary) l
  | .nestedProcessValueToBoundary =>
    match pp.nested with
    | none => (pp.setFault "nested-boundary-null", l, .ret)
    | some nb => flowValue (processValueToBoundary pp l.ioff nb .nestedPerformCleanup .nextBoundary) l
  | .nestedPerformCleanup =>
    ({ freeUnmarked pp with state := .nestedProcessEntryHeaders }, { l with stateChanged := true }, .again)
  | _ => (pp.setFault "panic-internal-error", l, .ret)   -- MHD_PANIC

/-- the `AGAIN:` block -/
def again (pp : PP) (l : ML) : PP × ML :=
  if l.ioff > 0 then
    if l.ioff > pp.buf.length then (pp.setFault "memmove-oob", l)
    else ({ pp with buf := pp.buf.drop l.ioff }, { l with ioff := 0, stateChanged := true })
  else (pp, l)

/-- one iteration of the `while` loop; `Flow.again` = go round again -/
def mpIter (d : Bytes) (pp : PP) (l : ML) : PP × ML × Flow :=
  if pp.buf.length > pp.bufferSize then (pp.setFault "buffer-pos-oob", l, .ret) else
  let max := min (pp.bufferSize - pp.buf.length) (d.length - l.poff)
  let pp1 := { pp with buf := pp.buf ++ slice d l.poff (l.poff + max) }
  let l1 := { l with poff := l.poff + max }
  if max = 0 ∧ l1.stateChanged = false ∧ l1.poff < d.length then
    ({ pp1 with state := .error }, l1, .ret)
  else
    let l2 := { l1 with stateChanged := false }
    match rnMachine pp1 l2 with
    | (pp2, l3, some .again) => let (pp3, l4) := again pp2 l3; (pp3, l4, if pp3.fault.isSome then .ret else .again)
    | (pp2, l3, some f) => (pp2, l3, f)
    | (pp2, l3, none) =>
      match mainSwitch pp2 l3 with
      | (pp3, l4, .again) => let (pp4, l5) := again pp3 l4; (pp4, l5, if pp4.fault.isSome then .ret else .again)
      | r => r

def mpLoop : Nat → Bytes → PP → ML → PP × ML × Flow
  | 0, _, pp, l => (pp.setFault "multipart-fuel", l, .ret)
  | fuel + 1, d, pp, l =>
    if l.poff < d.length ∨ (pp.buf.length > 0 ∧ l.stateChanged) then
      match mpIter d pp l with
      | (pp1, l1, .again) => mpLoop fuel d pp1 l1
      | r => r
    else (pp, l, .gotoEnd)   -- loop condition false: falls into `END:`

/-- `post_process_multipart`; result = `MHD_YES`? -/
def postProcessMultipart (pp : PP) (d : Bytes) : PP × Bool :=
  match mpLoop (16 * (d.length + pp.buf.length) + 16) d pp {} with
  | (pp1, _, .ret) => (pp1, false)
  | (pp1, l1, _) =>
    if l1.ioff > pp1.buf.length then (pp1.setFault "memmove-oob", false) else
    let pp2 := if l1.ioff ≠ 0 then { pp1 with buf := pp1.buf.drop l1.ioff } else pp1
    if l1.poff < d.length then ({ pp2 with state := .error }, false) else (pp2, true)

end Mhd.PP
