/-
  C07 — the socket layer of the reply path (src/microhttpd/mhd_send.c) and the
  receive adapter (connection.c: recv_param_adapter).

  A socket call is modelled by the answer of the operating system to it:
  `full` (everything was taken), `short k` (only `k` bytes were taken), or an
  `errno`.  Every sender returns what the C function returns (`ret`: a byte
  count or an `MHD_ERR_*_` code) *and* the bytes that really left through the
  socket (`wire`) — the second component is what the property is about; the
  C code never sees it.

  Core Lean only (the driver links this file).
-/
import Mhd.Gen.Send

namespace Mhd.Send
open Mhd.Gen.Send

abbrev Bytes := List UInt8

/-- `MHD_ERR_*_` (connection.h) -/
inductive Err where
  | again | connreset | notconn | nomem | badf | inval | opnotsupp | pipe
  deriving DecidableEq, Repr, Inhabited

def Err.code : Err → Int
  | .again => errAgain | .connreset => errConnreset | .notconn => errNotconn | .nomem => errNomem
  | .badf => errBadf | .inval => errInval | .opnotsupp => errOpnotsupp | .pipe => errPipe

/-- answer of the operating system to one send-like or recv-like call -/
inductive SockRes where
  | full
  | short (k : Nat)
  | err (e : Errno)
  deriving DecidableEq, Repr, Inhabited

/-- a socket never reports "0 bytes taken" for a non-empty request (POSIX stream sockets) -/
def SockRes.Legal : SockRes → Prop
  | .short k => 1 ≤ k
  | _ => True

instance : DecidablePred SockRes.Legal := fun s => by
  cases s <;> simp only [SockRes.Legal] <;> exact inferInstance

/-- the answer neither is an error nor leaves a non-empty request untouched -/
def SockRes.isData : SockRes → Bool
  | .full => true
  | .short k => decide (1 ≤ k)
  | .err _ => false

/-- `EAGAIN`/`EWOULDBLOCK`/`EINTR`: try again later -/
def SockRes.isTransient : SockRes → Bool
  | .full => true
  | .short k => decide (1 ≤ k)
  | .err e => e.isEagain || e.isEintr

/-- number of bytes the socket takes of a request of `req` bytes -/
def SockRes.taken (s : SockRes) (req : Nat) : Nat :=
  match s with
  | .full => req
  | .short k => min k req
  | .err _ => 0

/-- the error chain of `MHD_send_data_`, `MHD_send_hdr_and_body_`, `send_iov_nontls`
    (mhd_send.c:851-882, 1097-1128, 1475-1506): identical in the three functions -/
def mapSendErr (e : Errno) : Err :=
  if e.isEagain then .again
  else if e.isEintr then .again
  else if e.isRemoteDiscnn then .connreset
  else if e.isEpipe then .pipe
  else if e.isEopnotsupp then .opnotsupp
  else if e.isEnotconn then .notconn
  else if e.isEinval then .inval
  else if e.isLowRes then .nomem
  else if e.isEbadf then .badf
  else .notconn

/-- the error chain of `recv_param_adapter` (connection.c:742-770): no EPIPE case -/
def mapRecvErr (e : Errno) : Err :=
  if e.isEagain then .again
  else if e.isEintr then .again
  else if e.isRemoteDiscnn then .connreset
  else if e.isEopnotsupp then .opnotsupp
  else if e.isEnotconn then .notconn
  else if e.isEinval then .inval
  else if e.isLowRes then .nomem
  else if e.isEbadf then .badf
  else .notconn

/-- result of a sender: the C return value and the bytes that left through the socket -/
structure SendOut where
  ret : Except Err Nat
  wire : Bytes
  deriving Repr

instance : Inhabited SendOut := ⟨⟨.error .notconn, []⟩⟩

def SendOut.fail (e : Err) : SendOut := ⟨.error e, []⟩

/-- the raw system call: `req` is offered, the answer decides -/
def sysSend (req : Bytes) (s : SockRes) : SendOut :=
  match s with
  | .err e => .fail (mapSendErr e)
  | .full => ⟨.ok req.length, req⟩
  | .short k => ⟨.ok (min k req.length), req.take (min k req.length)⟩

/-- `MHD_send_data_` (mhd_send.c:753), non-TLS branch.
    `closed` = `MHD_INVALID_SOCKET == s || MHD_CONNECTION_CLOSED == state`. -/
def sendData (closed : Bool) (buf : Bytes) (s : SockRes) : SendOut :=
  if closed then .fail .notconn
  else
    -- buffer_size > SSIZE_MAX / > MHD_SCKT_SEND_MAX_SIZE_ : clamp (return value limit)
    let n := min (min buf.length ssizeMax) sendMax
    sysSend (buf.take n) s

/-- `MHD_send_hdr_and_body_` (mhd_send.c:905).
    `noVec`: vector send disallowed (TLS); `nonblk`: `connection->sk_nonblck`.
    `s1` answers the first system call, `s2` the second one (only the
    header-then-body fall-back makes two calls). -/
def sendHdrAndBody (closed noVec nonblk : Bool) (hdr body : Bytes) (s1 s2 : SockRes) : SendOut :=
  if closed then .fail .notconn
  else if noVec ∨ body.length = 0 ∨ ssizeMax ≤ hdr.length ∨ sendMax < hdr.length then
    let o1 := sendData false hdr s1
    match o1.ret with
    | .error _ => o1
    | .ok ret =>
      if hdr.length = ret ∧ hdr.length < ssizeMax ∧ body.length ≠ 0 ∧ nonblk then
        -- the header has been sent completely: try the body without waiting for the next round
        let bodySize := if ssizeMax - ret < body.length then ssizeMax - ret else body.length
        let o2 := sendData false (body.take bodySize) s2
        match o2.ret with
        | .ok ret2 =>
          if 0 < ret2 then ⟨.ok (ret + ret2), o1.wire ++ o2.wire⟩   -- total data sent
          else ⟨.ok ret2, o1.wire ++ o2.wire⟩                       -- `return ret2;` with ret2 = 0
        | .error .again => ⟨.ok ret, o1.wire⟩
        | .error e => ⟨.error e, o1.wire⟩                           -- error code; the header is out
      else o1
  else
    -- one vectored call (sendmsg) with {header, body}
    let bodySize1 := if ssizeMax ≤ body.length ∨ ssizeMax < hdr.length + body.length
                     then ssizeMax - hdr.length else body.length
    -- `#if (SSIZE_MAX != _MHD_SEND_VEC_MAX) || (_MHD_SEND_VEC_MAX + 0 == 0)`: send total amount limit
    let bodySize := if (ssizeMax ≠ sendMax ∨ sendMax = 0) ∧
                       (sendMax ≤ bodySize1 ∨ sendMax < hdr.length + bodySize1)
                    then sendMax - hdr.length else bodySize1
    sysSend (hdr ++ body.take bodySize) s1

/-- the tracker update loop of `send_iov_nontls` (mhd_send.c:1511-1537) on the not yet
    completed elements `l` (the head is the current element, already trimmed):
    returns (number of elements completed, the new list of pending elements);
    `none` = the C loop would read `iov[cnt]` (out of range). -/
def iovAdvance : List Bytes → Nat → Option (Nat × List Bytes)
  | [], 0 => some (0, [])
  | [], _ + 1 => none
  | e :: rest, t =>
    if t ≠ 0 ∧ e.length ≤ t then
      match iovAdvance rest (t - e.length) with
      | some (k, l) => some (k + 1, l)
      | none => none
    else if t ≠ 0 then some (0, e.drop t :: rest)   -- the element has been partially sent
    else some (0, e :: rest)

/-- result of `MHD_send_iovec_`: return value + wire + the updated tracker -/
structure IovOut where
  out : SendOut
  sent : Nat            -- r_iov->sent
  rest : List Bytes     -- the elements from index `sent` on
  fault : Bool
  deriving Repr

/-- `MHD_send_iovec_` → `send_iov_nontls` (mhd_send.c:1403, 1622).
    `sent`/`rest`: the tracker; `cnt = sent + rest.length`. -/
def sendIovec (closed : Bool) (sent : Nat) (rest : List Bytes) (s : SockRes) : IovOut :=
  if closed then ⟨.fail .notconn, sent, rest, false⟩
  else
    let items0 := rest.length                     -- r_iov->cnt - r_iov->sent
    if iovMax < items0 ∧ iovMax = 0 then ⟨.fail .notconn, sent, rest, false⟩
    else
      let items := if iovMax < items0 then iovMax else items0
      let o := sysSend (rest.take items).flatten s
      match o.ret with
      | .error _ => ⟨o, sent, rest, false⟩
      | .ok res =>
        match iovAdvance rest res with
        | some (k, l) => ⟨o, sent + k, l, false⟩
        | none => ⟨o, sent, rest, true⟩

/-- result of `MHD_send_sendfile_`: return value + wire + "still use sendfile" -/
structure SfOut where
  out : SendOut
  sf : Bool
  deriving Repr

/-- `MHD_send_sendfile_` (mhd_send.c:1179), Linux `sendfile64` branch.
    `file` = the bytes of the file from `fd_off` on (the body), `pos` =
    `rsp_write_position`, `total` = `response->total_size`. -/
def sendSendfile (thrPerConn : Bool) (file : Bytes) (fdOff pos total : Nat) (s : SockRes) : SfOut :=
  let offset := pos + fdOff
  if off64Max < offset then ⟨.fail .again, false⟩          -- retry with the standard sender
  else
    let left0 := total - pos
    let left := if ssizeMax < left0 then ssizeMax else left0
    let chunk := if thrPerConn then sendfileChunkThr else sendfileChunk
    let sendSize := if chunk < left then chunk else left
    match s with
    | .err e =>
      if e.isEagain then ⟨.fail .again, true⟩
      else if e.isEintr then ⟨.fail .again, true⟩
      else if e.isEbadf then ⟨.fail .badf, true⟩
      else ⟨.fail .again, false⟩                            -- fall back to the standard sender
    | _ =>
      -- the kernel copies at most `sendSize` bytes of what the file holds from `pos` on
      ⟨sysSend ((file.drop pos).take sendSize) s, true⟩

/-- answer of the operating system to `recv` -/
inductive RecvRes where
  | data (k : Nat)     -- k ≥ 1 bytes are available now (more than the buffer takes is fine)
  | eof                -- orderly shutdown by the peer: recv returns 0
  | err (e : Errno)
  deriving DecidableEq, Repr, Inhabited

/-- `recv_param_adapter` (connection.c:725): `space` = size of the buffer offered,
    `pending` = the bytes the peer has sent and that are not yet read.
    Returns the C return value and the bytes copied into the buffer. -/
def recvAdapter (closed : Bool) (space : Nat) (pending : Bytes) (r : RecvRes) : Except Err Nat × Bytes :=
  if closed then (.error .notconn, [])
  else
    let i := if sendMax < space then sendMax else space
    match r with
    | .err e => (.error (mapRecvErr e), [])
    | .eof => (.ok 0, [])
    | .data k =>
      let n := min (min k i) pending.length
      (.ok n, pending.take n)

end Mhd.Send
