/-
  Model of the Digest information API of src/microhttpd/digestauth.c:
  `get_rq_uname_type`, `get_rq_param_unquoted_copy_z`, `get_rq_extended_uname_copy_z`,
  `get_rq_uname`, `get_rq_nc`, `MHD_digest_auth_get_request_info3`,
  `MHD_digest_auth_get_username3`.

  The functions work on the `struct MHD_RqDAuth` produced by `parse_dauth_params`
  for the header value `s` stored with the terminating byte `term` behind it
  (inside the connection buffer this is the NUL written by the request parser).
  `get_rq_extended_uname_copy_z` hands the value slice to the percent-decoder,
  which can read the byte after the slice (F12); that byte is looked up in
  `s ++ term` here.

  Buffer sizes: the result structure is allocated with
  `username.len + 1 (+ (len + 1) / 2)` / `username_ext.len - 7 + 1`, `opaque.len + 1`,
  `realm.len + 1` bytes; every copy is at most as long as the raw value, so the
  model returns the copied strings directly (`Bytes`), without the buffer.
-/
import Mhd.Model.Auth

namespace Mhd.Auth
open Mhd.Gen.Auth

/-- `get_rq_uname_type` -/
def unameType (d : DAuth) : Nat :=
  match d.slots kUsername, d.slots kUsernameExt with
  | some _, none => if d.userhash then unUserhash else unStandard
  | some _, some _ => unInvalid
  | none, some e =>
    if ! e.quoted && ! d.userhash && decide (extPrefix.length + 1 ≤ e.raw.length) then unExtended
    else unInvalid
  | none, none => unMissing

/-- `get_rq_param_unquoted_copy_z` -/
def paramUnq (p : Param) : Bytes := if p.quoted then unquote p.raw else p.raw

/-- "skip language tag" loop: rest after the closing `'`; `none` = -1 -/
def skipLang : Bytes → Option Bytes
  | [] => none                                           -- end of the language tag not found
  | c :: r =>
    if c = 39 then some r
    else if c = 32 ∨ c = 9 ∨ c = 34 ∨ c = 44 ∨ c = 59 then none
    else skipLang r

inductive ExtRes
  | ok (name : Bytes)
  | invalid             -- returns -1
  | overread            -- percent-decoder read the byte after the value and nothing is there
  deriving DecidableEq, Repr

/-- `get_rq_extended_uname_copy_z (uname_ext, uname_ext_len, buf, buf_size)` with a
    buffer of at least `uname_ext_len - 7 + 1` bytes; `next` = byte after the slice -/
def extUname (ext : Bytes) (next : Option UInt8) : ExtRes :=
  if extPrefix.length + 1 > ext.length then .invalid      -- required prefix is missing
  else if ! prefixCl ext extPrefix then .invalid
  else
    match skipLang (ext.drop extPrefix.length) with
    | none => .invalid
    | some enc =>
      match pctStrict next enc with
      | .ok out => if out.length = 0 ∧ enc.length ≠ 0 then .invalid else .ok out
      | .broken => if enc.length ≠ 0 then .invalid else .ok []
      | .overread => .overread

structure UnameInfo where
  utype : Nat
  username : Option Bytes
  userhashHex : Option Bytes
  userhashBin : Option Bytes
  deriving DecidableEq, Repr

inductive IRes (α : Type)
  | ok (a : α)
  | null                -- the API function returns NULL
  | overread
  deriving DecidableEq, Repr

/-- byte stored at offset `i` of the header value (index `s.length` is `term`) -/
def byteAt (s : Bytes) (term : Option UInt8) (i : Nat) : Option UInt8 :=
  match s[i]? with
  | some c => some c
  | none => if i = s.length then term else none

/-- `get_rq_uname` for a type that is neither MISSING nor INVALID -/
def rqUname (s : Bytes) (term : Option UInt8) (d : DAuth) (ut : Nat) : IRes UnameInfo :=
  if ut = unStandard then
    match d.slots kUsername with
    | some u => .ok ⟨unStandard, some (paramUnq u), none, none⟩
    | none => .ok ⟨unInvalid, none, none, none⟩          -- unreachable (type says it is present)
  else if ut = unUserhash then
    match d.slots kUsername with
    | some u =>
      let hex := paramUnq u
      let res := hexToBin hex
      let n := match res with | some b => b.length | none => 0
      -- `res * 2 != userhash_hex_len` (after fix F15; was `res != userhash_hex_len / 2`, which
      -- classed a one-character non-hexadecimal value as a valid userhash)
      if n * 2 ≠ hex.length then .ok ⟨unInvalid, none, some hex, none⟩
      else .ok ⟨unUserhash, none, some hex, if n = 0 then none else res⟩
    | none => .ok ⟨unInvalid, none, none, none⟩
  else if ut = unExtended then
    match d.slots kUsernameExt with
    | some e =>
      match extUname e.raw (byteAt s term (e.off + e.raw.length)) with
      | .ok name => .ok ⟨unExtended, some name, none, none⟩
      | .invalid => .ok ⟨unInvalid, none, none, none⟩
      | .overread => .overread
    | none => .ok ⟨unInvalid, none, none, none⟩
  else .ok ⟨unInvalid, none, none, none⟩

inductive NcRes
  | none_ | valid (v : Nat) | tooLong | tooLarge | broken
  deriving DecidableEq, Repr

/-- `get_rq_nc` -/
def rqNc (d : DAuth) : NcRes :=
  match d.slots kNc with
  | none => .none_
  | some p =>
    if p.raw.length = 0 then .broken
    else
      let val? : Option Bytes :=
        if ! p.quoted then some p.raw
        else if ncUnqBuf < p.raw.length then none
        else some (unquote p.raw)
      match val? with
      | none => .tooLong
      | some val =>
        if val.length = 0 then .broken
        else
          let (cnt, v) := strxToU64 val
          if cnt = 0 then
            match val with
            | f :: _ =>
              if (48 ≤ f.toNat ∧ f.toNat ≤ 57) ∨ (65 ≤ f.toNat ∧ f.toNat ≤ 70) ∨ (97 ≤ f.toNat ∧ f.toNat ≤ 102)
              then .tooLarge else .broken
            | [] => .broken
          else if val.length ≠ cnt then .broken
          else if 2 ^ 32 - 1 < v then .tooLarge
          else .valid v

structure DigestInfo where
  algo3 : Nat
  uname : UnameInfo
  opaq : Option Bytes
  realm : Option Bytes
  qop : Nat
  cnonceLen : Nat
  nc : Nat
  deriving DecidableEq, Repr

/-- `MHD_digest_auth_get_request_info3` after `MHD_get_rq_dauth_params_` returned `d` -/
def requestInfo (s : Bytes) (term : Option UInt8) (d : DAuth) : IRes DigestInfo :=
  let ut := unameType d
  let un : IRes UnameInfo :=
    if ut ≠ unMissing ∧ ut ≠ unInvalid then rqUname s term d ut
    else .ok ⟨ut, none, none, none⟩
  match un with
  | .ok u =>
    .ok { algo3 := d.algo3, uname := u,
          opaq := (d.slots kOpaque).map paramUnq,
          realm := (d.slots kRealm).map paramUnq,
          qop := d.qop,
          cnonceLen := match d.slots kCnonce with | some c => c.raw.length | none => 0,
          nc := match rqNc d with | .valid v => v | _ => invalidNc }
  | .null => .null
  | .overread => .overread

/-- `MHD_digest_auth_get_username3`: the username part and `algo3` -/
def usernameInfo (s : Bytes) (term : Option UInt8) (d : DAuth) : IRes (UnameInfo × Nat) :=
  let ut := unameType d
  if ut = unMissing ∨ ut = unInvalid then .null
  else
    match rqUname s term d ut with
    | .ok u => if u.utype = unInvalid then .null else .ok (u, d.algo3)
    | .null => .null
    | .overread => .overread

/-! ### the one allocated block: `get_rq_unames_size` and where the returned pointers point

  Both API functions `calloc` the result structure plus `unif_buf_size` bytes and place every string
  they return into that buffer, one after the other.  `Lay` records the buffer size and, for every
  returned pointer, its offset in the buffer and the length reported next to it (a NUL is stored behind
  every string; `userhash_bin` has no terminator). -/

def rawLen : Option Param → Nat
  | some p => p.raw.length
  | none => 0

/-- `get_rq_unames_size (params, uname_type)` -/
def unamesSize (d : DAuth) (ut : Nat) : Nat :=
  if ut = unStandard ∨ ut = unUserhash then
    (rawLen (d.slots kUsername) + 1) + (if ut = unUserhash then (rawLen (d.slots kUsername) + 1) / 2 else 0)
  else if ut = unExtended then rawLen (d.slots kUsernameExt) - (extPrefix.length + 1) + 1
  else 0

structure Lay where
  size : Nat                          -- `unif_buf_size`
  user : Option (Nat × Nat)           -- `username`: (offset, `username_len`)
  uhh : Option (Nat × Nat)            -- `userhash_hex`: (offset, `userhash_hex_len`)
  uhb : Option (Nat × Nat)            -- `userhash_bin`: (offset, number of bytes)
  opaq : Option (Nat × Nat)
  realm : Option (Nat × Nat)
  touched : Nat                       -- one more than the highest offset `get_rq_uname` may write to
  used : Nat                          -- `unif_buf_used` at the end
  deriving DecidableEq, Repr

/-- pointers set by `get_rq_uname (params, uname_type, uname_info, buf, buf_size)` and its return value
    `buf_used`, from its result; `MHD_hex_to_bin` writes up to `(len + 1) / 2` bytes behind the
    hexadecimal string also when it fails -/
def unameLay (ut : Nat) (u : UnameInfo) : Option (Nat × Nat) × Option (Nat × Nat) × Option (Nat × Nat) × Nat × Nat :=
  if ut = unStandard ∨ ut = unExtended then
    match u.username with
    | some n => (some (0, n.length), none, none, n.length + 1, n.length + 1)
    | none => (none, none, none, 0, 0)
  else if ut = unUserhash then
    match u.userhashHex with
    | some h =>
      let touched := h.length + 1 + (h.length + 1) / 2
      match u.userhashBin with
      | some b => (none, some (0, h.length), some (h.length + 1, b.length), touched, h.length + 1 + b.length)
      | none => (none, some (0, h.length), none, touched, h.length + 1)
    | none => (none, none, none, 0, 0)
  else (none, none, none, 0, 0)

/-- layout of the block returned by `MHD_digest_auth_get_request_info3` -/
def requestInfoLay (s : Bytes) (term : Option UInt8) (d : DAuth) : IRes Lay :=
  let ut := unameType d
  let un : IRes UnameInfo :=
    if ut ≠ unMissing ∧ ut ≠ unInvalid then rqUname s term d ut
    else .ok ⟨ut, none, none, none⟩
  match un with
  | .ok u =>
    let ul := unameLay ut u
    let osz := match d.slots kOpaque with | some p => p.raw.length + 1 | none => 0
    let rsz := match d.slots kRealm with | some p => p.raw.length + 1 | none => 0
    let oused := match d.slots kOpaque with | some p => (paramUnq p).length + 1 | none => 0
    .ok { size := unamesSize d ut + osz + rsz,
          user := ul.1, uhh := ul.2.1, uhb := ul.2.2.1,
          opaq := (d.slots kOpaque).map fun p => (ul.2.2.2.2, (paramUnq p).length),
          realm := (d.slots kRealm).map fun p => (ul.2.2.2.2 + oused, (paramUnq p).length),
          touched := ul.2.2.2.1,
          used := ul.2.2.2.2 + oused + (match d.slots kRealm with | some p => (paramUnq p).length + 1 | none => 0) }
  | .null => .null
  | .overread => .overread

/-- layout of the block returned by `MHD_digest_auth_get_username3` -/
def usernameLay (s : Bytes) (term : Option UInt8) (d : DAuth) : IRes Lay :=
  let ut := unameType d
  if ut = unMissing ∨ ut = unInvalid then .null
  else
    match rqUname s term d ut with
    | .ok u =>
      if u.utype = unInvalid then .null
      else
        let ul := unameLay ut u
        .ok { size := unamesSize d ut, user := ul.1, uhh := ul.2.1, uhb := ul.2.2.1, opaq := none, realm := none,
              touched := ul.2.2.2.1, used := ul.2.2.2.2 }
    | .null => .null
    | .overread => .overread

/-- the two API calls on a connection whose `Authorization` value is `value`
    (NUL-terminated in the connection buffer): `find_auth_rq_header_` for "Digest",
    `parse_dauth_params`, projections.  `none` = no/invalid Digest header (NULL). -/
def digestApi (value : Bytes) : Res (Option (IRes DigestInfo × IRes (UnameInfo × Nat))) :=
  match findAuthHeader true digestBase [⟨headerKind, authHeader, value⟩] with
  | none => .ok none
  | some (_, _, av) =>
    match parseDigest av (some 0) with
    | .ok d => .ok (some (requestInfo av (some 0) d, usernameInfo av (some 0) d))
    | .reject => .ok none
    | .fault e => .fault e

/-- `MHD_basic_auth_get_username_password3` on such a connection -/
def basicApi (value : Bytes) : Option (Bytes × Option Bytes) :=
  match findAuthHeader true basicBase [⟨headerKind, authHeader, value⟩] with
  | none => none
  | some (_, _, av) => basicInfo av

/-! ### several request headers (`MHD_get_rq_dauth_params_` / `MHD_get_rq_bauth_params_`)

  Both look for the *first* header of kind `MHD_HEADER_KIND` named `Authorization` whose value starts with
  the scheme token followed by SP / HT or nothing, parse that one, and cache the outcome for the request:
  a first matching header that does not parse gives "no credentials" even when a later one would parse;
  headers of the other scheme are passed over. -/

/-- outcome of `MHD_get_rq_dauth_params_`: the `Authorization` value found, and its parameters -/
def dauthParams (hs : List Hdr) : Res (Option (Bytes × DAuth)) :=
  match findAuthHeader true digestBase hs with
  | none => .ok none
  | some (_, _, av) =>
    match parseDigest av (some 0) with
    | .ok d => .ok (some (av, d))
    | .reject => .ok none
    | .fault e => .fault e

/-- the two Digest API calls on a connection with the request headers `hs` -/
def digestApiH (hs : List Hdr) : Res (Option (IRes DigestInfo × IRes (UnameInfo × Nat))) :=
  (dauthParams hs).map fun o => o.map fun (av, d) => (requestInfo av (some 0) d, usernameInfo av (some 0) d)

/-- … and the layouts of the two blocks they return -/
def digestLayH (hs : List Hdr) : Res (Option (IRes Lay × IRes Lay)) :=
  (dauthParams hs).map fun o => o.map fun (av, d) => (requestInfoLay av (some 0) d, usernameLay av (some 0) d)

/-- `MHD_basic_auth_get_username_password3` on such a connection -/
def basicApiH (hs : List Hdr) : Option (Bytes × Option Bytes) :=
  match findAuthHeader true basicBase hs with
  | none => none
  | some (_, _, av) => basicInfo av

end Mhd.Auth
