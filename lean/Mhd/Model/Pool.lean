/-
  Model of src/microhttpd/memorypool.c (non-ASan-poison build: red zone = 0).

  Pointers are offsets into the arena (`none` = NULL).  `size_t` arithmetic is
  done modulo 2^64 at exactly the places where the C code adds two `size_t`
  values (`ROUND_TO_ALIGN`, `old_offset + new_size`, `block_offset + block_size`).
  The byte contents are a `List UInt8` of length `size`.

  The alignment constant comes from `Mhd.Gen.Pool` (regenerated from the source).
-/
import Mhd.Gen.Pool

namespace Mhd.Pool

/-- 2^64: `size_t` is 64 bit in the configured build (checked by the extractor). -/
def W : Nat := 2 ^ 64

abbrev A : Nat := Mhd.Gen.Pool.alignSize

/-- `ROUND_TO_ALIGN(n)`: the addition wraps as `size_t`. -/
def roundUp (n : Nat) : Nat := ((n + (A - 1)) % W) / A * A

structure Pool where
  size : Nat
  pos  : Nat
  end_ : Nat
  mem  : List UInt8
  deriving Repr, DecidableEq

/-- overwrite `n` bytes at `off` with zero (memset) -/
def zeroRange (m : List UInt8) (off n : Nat) : List UInt8 :=
  m.take off ++ List.replicate (min n (m.length - off)) 0 ++ m.drop (off + n)

/-- write bytes `bs` at `off` (memcpy / memmove destination) -/
def writeAt (m : List UInt8) (off : Nat) (bs : List UInt8) : List UInt8 :=
  m.take off ++ bs.take (m.length - off) ++ m.drop (off + bs.length)

/-- read `n` bytes at `off` -/
def readAt (m : List UInt8) (off n : Nat) : List UInt8 := (m.drop off).take n

/-- `MHD_pool_create (max)`, malloc path: size rounded up to alignment.
    The mmap path rounds up to the page size, which is a multiple of the
    alignment; the harness passes the resulting `size` to the model. -/
def create (allocSize : Nat) : Pool :=
  { size := allocSize, pos := 0, end_ := allocSize, mem := List.replicate allocSize 0 }

/-- the `alloc_size` computed by `MHD_pool_create (max)`: malloc path rounds to
    the alignment, mmap path (large pools) to the page size -/
def createSize (max : Nat) : Nat :=
  let page := Mhd.Gen.Pool.pageSize
  if max ≤ Mhd.Gen.Pool.mmapThreshold ∨ max < page * 4 / 3 then roundUp max
  else (max + page - 1) - (max + page - 1) % page

def getFree (p : Pool) : Nat := p.end_ - p.pos

/-- `MHD_pool_allocate` -/
def allocate (p : Pool) (size : Nat) (fromEnd : Bool) : Pool × Option Nat :=
  let asize := roundUp size
  if asize = 0 ∧ size ≠ 0 then (p, none)
  else if asize > p.end_ - p.pos then (p, none)
  else if fromEnd then ({ p with end_ := p.end_ - asize }, some (p.end_ - asize))
  else ({ p with pos := p.pos + asize }, some p.pos)

/-- `MHD_pool_is_resizable_inplace` (block ≠ NULL case; NULL ⇒ false) -/
def isResizableInplace (p : Pool) (block : Option Nat) (blockSize : Nat) : Bool :=
  match block with
  | none => false
  | some off => p.pos == roundUp ((off + blockSize) % W)

/-- `MHD_pool_try_alloc`: result and `*required_bytes` (when refused). -/
def tryAlloc (p : Pool) (size : Nat) : Pool × Option Nat × Option Nat :=
  let asize := roundUp size
  if asize = 0 ∧ size ≠ 0 then (p, none, some (W - 1))
  else if asize > p.end_ - p.pos then
    if asize ≤ p.end_ then (p, none, some (asize - (p.end_ - p.pos)))
    else (p, none, some (W - 1))
  else ({ p with end_ := p.end_ - asize }, some (p.end_ - asize), none)

/-- `MHD_pool_reallocate` -/
def reallocate (p : Pool) (old : Option Nat) (oldSize newSize : Nat) : Pool × Option Nat :=
  let fresh (p : Pool) : Pool × Option Nat :=
    let asize := roundUp newSize
    if (asize = 0 ∧ newSize ≠ 0) ∨ asize > p.end_ - p.pos then (p, none)
    else
      let newOff := p.pos
      let p1 := { p with pos := p.pos + asize }
      match old with
      | some o =>
        if oldSize ≠ 0 then
          let data := readAt p1.mem o oldSize
          let m1 := writeAt p1.mem newOff data
          ({ p1 with mem := zeroRange m1 o oldSize }, some newOff)
        else (p1, some newOff)
      | none => (p1, some newOff)
  match old with
  | none => fresh p
  | some o =>
    let shrinking := oldSize > newSize
    let p0 := if shrinking then { p with mem := zeroRange p.mem (o + newSize) (oldSize - newSize) } else p
    if p0.pos = roundUp ((o + oldSize) % W) then
      let newApos := roundUp ((o + newSize) % W)
      if !shrinking ∧ (newApos > p0.end_ ∨ newApos < p0.pos ∨ newSize > (p0.end_ + W - o) % W) then (p, none)
      else ({ p0 with pos := newApos }, some o)
    else if shrinking then (p0, some o)
    else fresh p0

/-- `MHD_pool_deallocate` -/
def deallocate (p : Pool) (block : Option Nat) (blockSize : Nat) : Pool :=
  match block with
  | none => p
  | some off =>
    if blockSize = 0 then p
    else
      let p0 := { p with mem := zeroRange p.mem off blockSize }
      if off ≤ p0.pos then
        let algEnd := roundUp ((off + blockSize) % W)
        if algEnd = p0.pos then { p0 with pos := roundUp off } else p0
      else
        if off = p0.end_ then { p0 with end_ := roundUp ((off + blockSize) % W) } else p0

/-- contents after the `memmove (pool->memory, keep, copy_bytes)` of `MHD_pool_reset` -/
def resetMove (p : Pool) (keep : Option Nat) (copyBytes : Nat) : List UInt8 :=
  match keep with
  | some k => if k ≠ 0 ∧ copyBytes ≠ 0 then writeAt p.mem 0 (readAt p.mem k copyBytes) else p.mem
  | none => p.mem

/-- `MHD_pool_reset` -/
def reset (p : Pool) (keep : Option Nat) (copyBytes newSize : Nat) : Pool :=
  let m0 := resetMove p keep copyBytes
  let m1 := if p.size > copyBytes then zeroRange m0 copyBytes (p.size - copyBytes) else m0
  { p with mem := m1, pos := roundUp newSize, end_ := p.size }

end Mhd.Pool
