/-
  C03 — request framing.  Part 1: bytes, caseless comparison, number parsing,
  the strict head splitter (`parseHead`, exact on `CanonicalHead` inputs only —
  the request-head parser proper belongs to C02) and `decideBody`, the
  Transfer-Encoding / Content-Length decision of `parse_connection_headers`
  (connection.c) exactly as coded.

  Core Lean only (the driver links this file).
-/
import Mhd.Gen.Framing

namespace Mhd.Framing
open Mhd.Gen.Framing

abbrev Bytes := List UInt8

def CR : UInt8 := 13
def LF : UInt8 := 10
def SP : UInt8 := 32
def HT : UInt8 := 9
def COLON : UInt8 := 58
def SEMI : UInt8 := 59
def COMMA : UInt8 := 44

/-! ### caseless comparison (`charsequalcaseless`, `MHD_str_equal_caseless_`) -/

def lower (c : UInt8) : UInt8 := if 65 ≤ c ∧ c ≤ 90 then c + 32 else c

def eqCIc (a b : UInt8) : Bool := lower a == lower b

/-- `MHD_str_equal_caseless_` on two NUL-free strings (same length, caseless equal bytes) -/
def eqCI : Bytes → Bytes → Bool
  | [], [] => true
  | a :: as, b :: bs => eqCIc a b && eqCI as bs
  | _, _ => false

/-! ### numbers -/

def isDigit (c : UInt8) : Bool := 48 ≤ c && c ≤ 57

def hexVal (c : UInt8) : Option Nat :=
  if 48 ≤ c ∧ c ≤ 57 then some (c.toNat - 48)
  else if 65 ≤ c ∧ c ≤ 70 then some (c.toNat - 55)
  else if 97 ≤ c ∧ c ≤ 102 then some (c.toNat - 87)
  else none

def isHex (c : UInt8) : Bool := (hexVal c).isSome

/-- the overflow test of the number parsers:
    `(res > (UINT64_MAX / base)) || ((res == (UINT64_MAX / base)) && (digit > (UINT64_MAX % base)))` -/
def mulOvf (base res d : Nat) : Bool :=
  decide (res > uint64Max / base) || (decide (res = uint64Max / base) && decide (d > uint64Max % base))

/-- loop of `MHD_str_to_uint64_n_`: `(digits consumed, value)`; `(0,0)` on overflow -/
def strToU64Aux : Bytes → Nat → Nat → Nat × Nat
  | [], res, i => (i, res)
  | c :: t, res, i =>
    if isDigit c then
      if mulOvf 10 res (c.toNat - 48) then (0, 0)
      else strToU64Aux t (res * 10 + (c.toNat - 48)) (i + 1)
    else (i, res)

/-- `MHD_str_to_uint64_n_ (str, len, &out)`: number of digits processed (0 = no digit at the
    start or overflow; then the value is reported as 0 = "not written") -/
def strToU64 (s : Bytes) : Nat × Nat :=
  match s with
  | [] => (0, 0)
  | c :: _ => if isDigit c then strToU64Aux s 0 0 else (0, 0)

/-- loop of `MHD_strx_to_uint64_n_`: `(digits consumed, value)`; `(0,0)` on overflow -/
def strxAux : Bytes → Nat → Nat → Nat × Nat
  | [], res, i => (i, res)
  | c :: t, res, i =>
    match hexVal c with
    | none => (i, res)
    | some d =>
      if mulOvf 16 res d then (0, 0)
      else strxAux t (res * 16 + d) (i + 1)

def strx (s : Bytes) : Nat × Nat := strxAux s 0 0

/-! ### request fields -/

structure Field where
  name : Bytes
  value : Bytes
deriving DecidableEq, Repr

/-- `MHD_lookup_connection_value_n`: the first field whose name matches caselessly -/
def lookup (fs : List Field) (key : Bytes) : Option Bytes :=
  match fs with
  | [] => none
  | f :: t => if eqCI f.name key then some f.value else lookup t key

def countName (fs : List Field) (key : Bytes) : Nat :=
  match fs with
  | [] => 0
  | f :: t => (if eqCI f.name key then 1 else 0) + countName t key

/-! ### `MHD_str_has_token_caseless_` mirrored (incl. its quirk: a mismatch that
    happens *on* a comma swallows that comma, so the following element is skipped) -/

def isWsComma (c : UInt8) : Bool := c == SP || c == HT || c == COMMA
def isWs (c : UInt8) : Bool := c == SP || c == HT

inductive TokRes
  | found
  | eos
  | mismatch (rest : Bytes)

/-- inner `while (1)` loop; `tok` = the part of the token not yet matched (non-empty) -/
def matchTok : Bytes → Bytes → TokRes
  | _, [] => .eos
  | [], s => .mismatch s            -- not reachable: callers pass a non-empty token
  | tc :: tok', sc :: s' =>
    if ! eqCIc sc tc then .mismatch s'
    else match tok' with
      | [] =>
        let s2 := s'.dropWhile isWs
        match s2 with
        | [] => .found
        | c :: _ => if c == COMMA then .found else .mismatch s2
      | _ :: _ => matchTok tok' s'

def hasTokenFuel (tok : Bytes) : Nat → Bytes → Bool
  | 0, _ => false
  | n + 1, str =>
    match str with
    | [] => false
    | _ :: _ =>
      match matchTok tok (str.dropWhile isWsComma) with
      | .found => true
      | .eos => false
      | .mismatch s2 => hasTokenFuel tok n (s2.dropWhile (fun c => c != COMMA))

def hasToken (str tok : Bytes) : Bool :=
  if tok.isEmpty then false else hasTokenFuel tok (str.length + 1) str

/-- `MHD_lookup_header_token_ci`: some field of that name carries the token -/
def lookupToken (fs : List Field) (key tok : Bytes) : Bool :=
  fs.any fun f => eqCI f.name key && hasToken f.value tok

/-! ### the body decision of `parse_connection_headers` -/

inductive Body
  | none
  | len (n : Nat)
  | chunked (mustClose : Bool)
  | reject (status : Nat)
deriving DecidableEq, Repr

/-- Content-Length value rule (lines 4818–4849) -/
def firstIsDigit (v : Bytes) : Bool :=
  match v with
  | c :: _ => isDigit c
  | [] => false

def decideLen (v : Bytes) : Body :=
  let r := strToU64 v
  if (r.1 = 0 ∧ v ≠ [] ∧ firstIsDigit v = true) ∨ r.2 = sizeUnknown then
    .reject httpContentTooLarge
  else if v.length ≠ r.1 ∨ r.1 = 0 then .reject httpBadRequest
  else .len r.2

/-- `parse_connection_headers` after cookie parsing: Host rule, [F3 fix: duplicate framing
    fields], Transfer-Encoding, Content-Length. `http11` = `MHD_IS_HTTP_VER_1_1_COMPAT`.
    `chunked mc`: `mc` = `keepalive` was set to `MHD_CONN_MUST_CLOSE` (TE + CL tolerated at a
    lenient level; [F16 fix] HTTP/1.0 request with Transfer-Encoding). -/
def decideBody (lvl : Int) (http11 : Bool) (fs : List Field) : Body :=
  if hostAboveLvl < lvl ∧ http11 = true ∧ (lookup fs hdrHost).isNone then .reject httpBadRequest
  else if 1 < countName fs hdrTransferEncoding ∨ 1 < countName fs hdrContentLength then
    .reject httpBadRequest
  else
    match lookup fs hdrTransferEncoding with
    | some enc =>
      if ! eqCI enc tokChunked then .reject httpBadRequest
      else if (lookup fs hdrContentLength).isSome then
        if teClRejectFromLvl ≤ lvl then .reject httpBadRequest else .chunked true
      else .chunked (! http11)        -- [F16 fix] HTTP/1.0 + Transfer-Encoding: must close
    | none =>
      match lookup fs hdrContentLength with
      | some v => decideLen v
      | none => .none

/-! ### strict head splitter (exact only on canonical heads) -/

/-- first line up to CRLF (excluded) and what follows it -/
def takeLine : Bytes → Option (Bytes × Bytes)
  | [] => none
  | c :: rest =>
    match rest with
    | [] => none
    | d :: rest' =>
      if c == CR && d == LF then some ([], rest')
      else match takeLine rest with
        | none => none
        | some (l, r) => some (c :: l, r)

def isTokenChar (c : UInt8) : Bool :=
  (48 ≤ c && c ≤ 57) || (65 ≤ c && c ≤ 90) || (97 ≤ c && c ≤ 122) || c == 45 || c == 95

def isValueChar (c : UInt8) : Bool := (32 ≤ c && c ≤ 126) || c == HT

def isTargetChar (c : UInt8) : Bool :=
  (48 ≤ c && c ≤ 57) || (65 ≤ c && c ≤ 90) || (97 ≤ c && c ≤ 122) || c == 45 || c == 95 || c == 46 || c == 47

def isUpper (c : UInt8) : Bool := 65 ≤ c && c ≤ 90

def trimWs (v : Bytes) : Bytes := ((v.dropWhile isWs).reverse.dropWhile isWs).reverse

/-- `name ":" OWS value OWS`, name a non-empty token, value of visible characters / SP / HT -/
def parseField (l : Bytes) : Option Field :=
  let name := l.takeWhile (· != COLON)
  match l.dropWhile (· != COLON) with
  | [] => none
  | _ :: v =>
    if name.isEmpty || ! name.all isTokenChar || ! v.all isValueChar then none
    else some ⟨name, trimWs v⟩

inductive FieldsRes
  | incomplete
  | bad
  /-- the parser refuses the section: `some code` = error reply, `none` = connection closed without reply -/
  | refuse (reply : Option Nat)
  | ok (fs : List Field) (rest : Bytes)
deriving DecidableEq

/-- field lines up to and including the empty line -/
def takeFields : Nat → Bytes → FieldsRes
  | 0, _ => .incomplete
  | n + 1, b =>
    match takeLine b with
    | none => .incomplete
    | some ([], rest) => .ok [] rest
    | some (l, rest) =>
      match parseField l with
      | none => .bad
      | some f =>
        match takeFields n rest with
        | .ok fs r => .ok (f :: fs) r
        | .bad => .bad
        | .refuse x => .refuse x
        | .incomplete => .incomplete

structure Head where
  method : Bytes
  target : Bytes
  http11 : Bool
  fields : List Field
deriving DecidableEq, Repr

def verHttp11 : Bytes := [72, 84, 84, 80, 47, 49, 46, 49]
def verHttp10 : Bytes := [72, 84, 84, 80, 47, 49, 46, 48]
def mHEAD : Bytes := [72, 69, 65, 68]
def mCONNECT : Bytes := [67, 79, 78, 78, 69, 67, 84]
def nCookie : Bytes := [67, 111, 111, 107, 105, 101]
def nExpect : Bytes := [69, 120, 112, 101, 99, 116]

/-- `METHOD SP target SP HTTP/1.x` with an upper-case method other than HEAD/CONNECT and an
    origin-form target of unreserved characters (so that the decoded URL is the target) -/
def parseRequestLine (l : Bytes) : Option (Bytes × Bytes × Bool) :=
  let m := l.takeWhile (· != SP)
  match l.dropWhile (· != SP) with
  | [] => none
  | _ :: r1 =>
    let t := r1.takeWhile (· != SP)
    match r1.dropWhile (· != SP) with
    | [] => none
    | _ :: v =>
      if m.isEmpty || ! m.all isUpper || m == mHEAD || m == mCONNECT then none
      else if t.isEmpty || t.head? != some 47 || ! t.all isTargetChar then none
      else if v == verHttp11 then some (m, t, true)
      else if v == verHttp10 then some (m, t, false)
      else none

inductive HeadRes
  | incomplete
  | bad
  /-- the parser refuses the head: `some code` = error reply (`transmit_error_response_*`),
      `none` = connection closed without reply (`connection_close_error`) -/
  | refuse (reply : Option Nat)
  | ok (h : Head) (rest : Bytes)
deriving DecidableEq

/-- fields with side effects outside C03 (cookie parsing) are outside the domain -/
def fieldsInDomain (fs : List Field) : Bool :=
  fs.all fun f => ! eqCI f.name nCookie

def parseHead (b : Bytes) : HeadRes :=
  match takeLine b with
  | none => .incomplete
  | some (l, rest) =>
    match parseRequestLine l with
    | none => .bad
    | some (m, t, v11) =>
      match takeFields (rest.length + 1) rest with
      | .incomplete => .incomplete
      | .bad => .bad
      | .refuse x => .refuse x
      | .ok fs r => if fieldsInDomain fs then .ok ⟨m, t, v11, fs⟩ r else .bad

/-- The decidable restriction under which the strict splitter is the real parser:
    the buffer starts with a complete canonical request head. -/
def CanonicalHead (b : Bytes) : Prop := ∃ h r, parseHead b = .ok h r

instance (b : Bytes) : Decidable (CanonicalHead b) :=
  match h : parseHead b with
  | .ok hd r => isTrue ⟨hd, r, h⟩
  | .incomplete => isFalse (by intro ⟨a, c, hc⟩; rw [h] at hc; cases hc)
  | .bad => isFalse (by intro ⟨a, c, hc⟩; rw [h] at hc; cases hc)
  | .refuse _ => isFalse (by intro ⟨a, c, hc⟩; rw [h] at hc; cases hc)

/-- trailer section after the last chunk: field lines up to and including the empty line -/
def parseTrailers (b : Bytes) : FieldsRes := takeFields (b.length + 1) b

/-! ### the request-head parser as a parameter

  Everything after this point (connection automaton, reference framer, theorems) is stated for an
  arbitrary `HeadParser`: a function that, given the unprocessed bytes of the read buffer, either
  wants more bytes, or refuses (`refuse`: error reply / close), or delivers a `Head` — method, target, version class and **any**
  list of `(name, value)` fields (any letter case, any order, duplicates, list values …) — plus the
  bytes that follow the head.  What the framing proofs need from it is only that it is an
  *incremental scanner* (`LawfulHeadParser`): its verdict on a buffer does not change when more bytes
  arrive behind it.  The request-head parser proper (`get_request_line`, `get_req_headers`) is C02's
  subject; C02's split-independence theorems state exactly this law for the real parser.
  `strictParser` (the strict splitter above) is the instance the executable driver runs. -/

class HeadParser where
  head : Bytes → HeadRes
  trailers : Bytes → FieldsRes

/-- the verdict of the head / trailer parser is stable under arrival of further bytes, and a head is
    never empty -/
class LawfulHeadParser [P : HeadParser] : Prop where
  head_nil : P.head [] = .incomplete
  head_append : ∀ (b e : Bytes) (h : Head) (r : Bytes), P.head b = .ok h r → P.head (b ++ e) = .ok h (r ++ e)
  head_bad_append : ∀ (b e : Bytes), P.head b = .bad → P.head (b ++ e) = .bad
  head_refuse_append : ∀ (b e : Bytes) (x : Option Nat), P.head b = .refuse x → P.head (b ++ e) = .refuse x
  head_length : ∀ (b : Bytes) (h : Head) (r : Bytes), P.head b = .ok h r → r.length < b.length
  trailers_append : ∀ (b e : Bytes) (fs : List Field) (r : Bytes),
    P.trailers b = .ok fs r → P.trailers (b ++ e) = .ok fs (r ++ e)
  trailers_bad_append : ∀ (b e : Bytes), P.trailers b = .bad → P.trailers (b ++ e) = .bad
  trailers_refuse_append : ∀ (b e : Bytes) (x : Option Nat), P.trailers b = .refuse x → P.trailers (b ++ e) = .refuse x
  trailers_length : ∀ (b : Bytes) (fs : List Field) (r : Bytes), P.trailers b = .ok fs r → r.length < b.length

/-- the strict splitter as a head parser (what `drv_frame` executes) -/
@[reducible] def strictParser : HeadParser := ⟨parseHead, parseTrailers⟩

end Mhd.Framing
