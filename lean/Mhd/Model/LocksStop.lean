/-
  C18 — shutdown sequencing as a small state machine (core Lean only).

  One `Worker` = one daemon structure with its own polling thread (the single daemon, or one
  member of the thread pool) and its connections.  Mirrors

    MHD_stop_daemon            daemon->shutdown = true;  MHD_itc_activate_ (itc, "e");
                               MHD_thread_handle_ID_join_thread_ (tid);       (daemon.c 9267 ff.)
    MHD_polling_thread         while (! daemon->shutdown) { MHD_select/poll/epoll; MHD_cleanup_connections }
                               close_all_connections (daemon);                (daemon.c 5990 ff.)
    close_all_connections      close_connection () for every connection, MHD_cleanup_connections ()

  The thread that stops the daemon advances every worker through
  `running → flagged → signalled → joined`; the order *per worker* is the order of the statements
  in MHD_stop_daemon (checked on the regenerated table by `stopSequenceOk`), the order *between*
  workers is left free (the real code uses one particular order).  The scheduler and the network
  are adversarial: any enabled actor may move, `poll` wakes up on the ITC or on an arbitrary
  network event, a handling round closes an arbitrary subset of the connections and always
  drains the ITC (worst case for a lost wake-up).
-/
namespace Mhd.Stop

inductive CSt where
  | active      -- in the daemon's connection list
  | cleanup     -- closed, termination notified, waiting in the cleanup list
  | freed
  deriving DecidableEq, Repr

structure Conn where
  st : CSt
  notified : Nat          -- number of termination notifications issued for this connection
  deriving DecidableEq, Repr

inductive WPc where
  | loopTest | polling | handling | closing | finalCleanup | exited
  deriving DecidableEq, Repr

inductive Stage where
  | running | flagged | signalled | joined
  deriving DecidableEq, Repr

structure Worker where
  stage : Stage           -- how far MHD_stop_daemon got with this worker
  pc : WPc                -- where the worker's polling thread is
  shutdown : Bool         -- daemon->shutdown
  itc : Bool              -- inter-thread channel readable
  conns : List Conn
  deriving DecidableEq, Repr

inductive Act where
  | stop                                  -- next statement of MHD_stop_daemon for this worker
  | run (net : Bool) (sel : List Bool)    -- next step of the worker's thread
  deriving DecidableEq, Repr

def Conn.close (c : Conn) : Conn :=
  if c.st = .active then ⟨.cleanup, c.notified + 1⟩ else c

/-- a handling round closes the selected connections (client closed, error, timeout …) -/
def closeSel : List Conn → List Bool → List Conn
  | [], _ => []
  | c :: cs, [] => c :: cs
  | c :: cs, b :: bs => (if b then c.close else c) :: closeSel cs bs

/-- close_all_connections: one `close_connection` per step -/
def closeFirst : List Conn → List Conn
  | [] => []
  | c :: cs => if c.st = .active then c.close :: cs else c :: closeFirst cs

/-- MHD_cleanup_connections -/
def freeAll (cs : List Conn) : List Conn :=
  cs.map (fun c => if c.st = .cleanup then { c with st := .freed } else c)

def nActive (cs : List Conn) : Nat := cs.countP (fun c => c.st = .active)

def wstep (w : Worker) : Act → Option Worker
  | .stop =>
    match w.stage with
    | .running => some { w with stage := .flagged, shutdown := true }
    | .flagged => some { w with stage := .signalled, itc := true }
    | .signalled => if w.pc = .exited then some { w with stage := .joined } else none
    | .joined => none
  | .run net sel =>
    match w.pc with
    | .loopTest => some { w with pc := if w.shutdown then .closing else .polling }
    | .polling => if w.itc || net then some { w with pc := .handling } else none
    | .handling => some { w with itc := false, conns := freeAll (closeSel w.conns sel), pc := .loopTest }
    | .closing =>
      if nActive w.conns = 0 then some { w with pc := .finalCleanup }
      else some { w with conns := closeFirst w.conns }
    | .finalCleanup => some { w with conns := freeAll w.conns, pc := .exited }
    | .exited => none

/-- global step: actor `a` of worker `i` moves -/
def step (ws : List Worker) (i : Nat) (a : Act) : Option (List Worker) :=
  match ws[i]? with
  | none => none
  | some w =>
    match wstep w a with
    | none => none
    | some w' => some (ws.set i w')

/-- a run: a list of (worker index, action), every one enabled in its turn -/
def run (ws : List Worker) : List (Nat × Act) → Option (List Worker)
  | [] => some ws
  | (i, a) :: rest =>
    match step ws i a with
    | none => none
    | some ws' => run ws' rest

/-- steps that belong to the shutdown protocol: statements of MHD_stop_daemon, and steps of a
    worker whose shutdown flag has been set -/
def isProtocolStep (ws : List Worker) (i : Nat) (a : Act) : Bool :=
  match a, ws[i]? with
  | .stop, _ => true
  | .run _ _, some w => w.stage != .running
  | .run _ _, none => false

def countProtocol : List Worker → List (Nat × Act) → Nat
  | _, [] => 0
  | ws, (i, a) :: rest =>
    (if isProtocolStep ws i a then 1 else 0) +
      (match step ws i a with
       | none => 0
       | some ws' => countProtocol ws' rest)

def pcPot (w : Worker) : Nat :=
  match w.pc with
  | .polling => nActive w.conns + 5
  | .handling => nActive w.conns + 4
  | .loopTest => nActive w.conns + 3
  | .closing => nActive w.conns + 2
  | .finalCleanup => 1
  | .exited => 0

def stagePot : Stage → Nat
  | .running => 3 | .flagged => 2 | .signalled => 1 | .joined => 0

/-- potential of one worker: bounds the number of protocol steps still to come -/
def wphi (w : Worker) : Nat :=
  stagePot w.stage + (if w.stage = .running then nActive w.conns + 6 else pcPot w)

def phi (ws : List Worker) : Nat := (ws.map wphi).sum

/-- a daemon in normal operation, before MHD_stop_daemon is called -/
def InitW (w : Worker) : Prop :=
  w.stage = .running ∧ w.shutdown = false ∧
  (w.pc = .loopTest ∨ w.pc = .polling ∨ w.pc = .handling) ∧
  ∀ c ∈ w.conns, (c.st = .active ∧ c.notified = 0) ∨ (c.st ≠ .active ∧ c.notified = 1)

instance : DecidablePred InitW := fun w => by unfold InitW; infer_instance

end Mhd.Stop

/-!
  ## thread-per-connection mode: close_all_connections with per-connection threads

  Every connection has its own thread.  When the daemon is stopped, each connection thread
  leaves its loop (`while (! daemon->shutdown …)`), closes its connection (one termination
  notification) and — through MHD_connection_handle_idle → cleanup_connection — moves it to the
  cleanup list; the daemon thread processes the pending resumes, joins every connection thread
  and then runs `while (NULL != (pos = daemon->connections_tail)) close_connection (pos);`, which
  in this mode only *marks* the connection closed.

  A connection that the application has resumed (MHD_resume_connection called, as the API
  requires before MHD_stop_daemon) but whose resume the daemon thread has not processed yet is
  still in the suspended list (`Place.susp`).  The only scheduling freedom that matters is whether
  a connection's thread observes the shutdown *before* (`early = true`) or after the daemon
  thread's `resume_suspended_connections` — both run their list manipulation under
  cleanup_connection_mutex, so they are atomic with respect to each other.

  Assumption of this part: every connection thread does observe the shutdown flag eventually.
  In the repaired code (fix F18c) the wait of a suspended connection's thread on the shared
  inter-thread channel is bounded (250 ms) and the thread no longer consumes the signal, so a
  lost wake-up only delays it; before that fix a thread could sleep forever (second way for
  MHD_stop_daemon to block, observed by the stress harness in the "quiet" scenario).

  `fixed = false` is the code before fix F18a: MHD_connection_handle_idle does nothing for a
  connection that is still marked suspended, the thread exits and nobody moves the connection
  to the cleanup list.  `fixed = true` is the repaired thread exit path (the thread takes a
  resumed connection back from the suspended list itself).
-/
namespace Mhd.StopTpc

inductive Place where
  | conn | susp | cleanup | freed
  deriving DecidableEq, Repr

structure TC where
  place : Place
  notified : Nat
  exited : Bool
  deriving DecidableEq, Repr

def threadExit (fixed : Bool) (c : TC) : TC :=
  match c.place with
  | .susp =>
    if fixed then ⟨.cleanup, c.notified + 1, true⟩
    else ⟨.susp, c.notified + 1, true⟩
  | .conn => ⟨.cleanup, c.notified + 1, true⟩
  | _ => { c with exited := true }

def daemonResume (c : TC) : TC :=
  match c.place with
  | .susp => { c with place := .conn }
  | _ => c

def freeC (c : TC) : TC :=
  match c.place with
  | .cleanup => { c with place := .freed }
  | _ => c

def phase1 (fixed : Bool) (p : TC × Bool) : TC := if p.2 then threadExit fixed p.1 else p.1
def phase3 (fixed : Bool) (p : TC × Bool) : TC := if p.2 then p.1 else threadExit fixed p.1

/-- state of every connection when the daemon thread reaches its final loop: the early threads
    have run, the daemon has processed the pending resumes, the late threads have run and all
    threads have been joined -/
def settle (fixed : Bool) (cs : List (TC × Bool)) : List TC :=
  cs.map (fun p => phase3 fixed (daemonResume (phase1 fixed p), p.2))

/-- `none` = the final loop `while (NULL != (pos = daemon->connections_tail)) close_connection (pos);`
    never ends: in this mode close_connection() only marks the connection closed -/
def stopTpc (fixed : Bool) (cs : List (TC × Bool)) : Option (List TC) :=
  if (settle fixed cs).all (fun c => c.place != .conn) then some ((settle fixed cs).map freeC) else none

def InitC (c : TC) : Prop := (c.place = .conn ∨ c.place = .susp) ∧ c.notified = 0 ∧ c.exited = false


instance : DecidablePred InitC := fun c => by unfold InitC; infer_instance

end Mhd.StopTpc
