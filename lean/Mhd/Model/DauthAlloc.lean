/-
  C12, allocation failure: `digest_auth_check_all_inner` of src/microhttpd/digestauth.c with the
  outcome of `malloc` as an explicit environment input.

  `get_buffer_for_size (tmp1, ptmp2, ptmp2_size, required)`:
      required <= _MHD_STATIC_UNQ_BUFFER_SIZE (128)      -> tmp1 (stack)
      required <= *ptmp2_size                            -> the buffer malloc'ed earlier in this check
      required >  _MHD_AUTH_DIGEST_MAX_PARAM_SIZE        -> NULL
      otherwise                                          -> malloc (required)   (NULL iff malloc fails)

  `fails = true` means: every `malloc` during this check returns NULL (then `*ptmp2_size` stays 0, the second
  line never applies); `fails = false`: every `malloc` succeeds (the second line returns a buffer that is large
  enough, as the fourth would).  The definitions below are the definitions of `Mhd.Model.Dauth` with `fails`
  threaded to every buffer request and nothing else changed (`checkInnerA false = checkInner`, proved in
  `Mhd.Proofs.DauthAlloc`).  The callers' answers to NULL are those of the C code:
    * `get_unquoted_param`, `get_unquoted_param_copy` not OK (too large or out of memory) -> `MHD_DAUTH_ERROR`;
    * the extended-username buffer: `MHD_DAUTH_TOO_LARGE` when the size exceeds the limit, else `MHD_DAUTH_ERROR`.
  Core Lean only.
-/
import Mhd.Model.Dauth

namespace Mhd.Dauth
open Mhd.Auth Mhd.Gen.Auth Mhd.Gen.Dauth

/-- `get_buffer_for_size` returns NULL -/
def noBufferA (fails : Bool) (required : Nat) : Bool :=
  decide (required > tmp1Size ∧ (required > maxParam ∨ fails = true))

/-- `get_unquoted_param` -/
def getUnqA (fails : Bool) (p : Param) : Except Res Bytes :=
  if !p.quoted then .ok p.raw
  else if noBufferA fails p.raw.length then .error .error
  else .ok (unquote p.raw)

/-- "Check 'username'" -/
def stageUsernameA (fails : Bool) (a : Algo) (call : Call) (d : DAuth) : Except Res Unit :=
  if !d.userhash then
    match d.slots kUsername with
    | some u => if isParamEq u call.username then .ok () else .error .wrongUsername
    | none => do
      let e ← need (d.slots kUsernameExt)
      if noBufferA fails (e.raw.length + 1 - extMinLen) then
        (if maxParam < e.raw.length + 1 - extMinLen then .error .tooLarge else .error .error)
      else
        match extName e.raw with
        | none => .error .wrongHeader
        | some name => if name = call.username then .ok () else .error .wrongUsername
  else do
    let u ← need (d.slots kUsername)
    if tmp1Size < 2 * a.size then .error (.fault .tmp1Overflow)
    else if isParamEqCl u (binToHex (userhash a call.username call.realm)) then .ok ()
    else .error .wrongUsername

/-- "Get 'nc' digital value" -/
def stageNcA (fails : Bool) (maxNc : Nat) (d : DAuth) : Except Res Nat :=
  if d.qop ≠ qopNone then do
    let p ← need (d.slots kNc)
    let txt ← getUnqA fails p
    if txt.length = 0 then .error (.fault .uninitNc)
    else
      match Mhd.Nonce.parseNc txt with
      | none => .error .wrongHeader
      | some nci =>
        if nci = 0 then .error .wrongHeader
        else if maxNc ≠ 0 ∧ maxNc < nci then .error .nonceStale
        else .ok nci
  else .ok 1

/-- "Get 'nonce' with basic checks" -/
def stageNonceA (fails : Bool) (a : Algo) (now timeout : Nat) (d : DAuth) : Except Res (Bytes × Nat) := do
  let p ← need (d.slots kNonce)
  let n ← getUnqA fails p
  if a.stdLen ≠ n.length then .error .nonceWrong
  else
    match Mhd.Nonce.getNonceTimestamp n n.length with
    | .fault => .error (.fault .nonceTable)
    | .invalid => .error .nonceWrong
    | .ts t =>
      if Mhd.Nonce.trim (Mhd.Nonce.sub64 now t) > (timeout * 1000) % 2 ^ Mhd.Gen.Nonce.timeoutBits then
        .error .nonceStale
      else .ok (n, t)

/-- everything before `check_nonce_nc` -/
def stagePreA (fails : Bool) (now timeout maxNc : Nat) (call : Call) (d : DAuth) :
    Except Res (Algo × Nat × Bytes × Nat) := do
  let a ← stageAlgo call d
  stageQop call d
  stagePresence a call d
  stageRealm call d
  stageUsernameA fails a call d
  let nci ← stageNcA fails maxNc d
  let nt ← stageNonceA fails a now timeout d
  .ok (a, nci, nt.1, nt.2)

/-- "Get 'uri'": `get_unquoted_param_copy` (the copy is taken for a token value too) and `check_uri_match` -/
def stageUriA (fails : Bool) (cfg : Cfg) (r : Req) (d : DAuth) : Except Res Bytes := do
  let p ← need (d.slots kUri)
  if noBufferA fails (p.raw.length + 1) then .error .error
  else
    let uri := if p.quoted then unquote p.raw else p.raw
    if checkUriMatch cfg.strictUnescape uri r.url r.args then .ok uri else .error .wrongUri

def qopPartA (fails : Bool) (d : DAuth) : Except Res Bytes :=
  if d.qop ≠ qopNone then do
    let nc ← (need (d.slots kNc)).bind (getUnqA fails)
    let cn ← (need (d.slots kCnonce)).bind (getUnqA fails)
    let q ← (need (d.slots kQop)).bind (getUnqA fails)
    .ok (nc ++ 58 :: (cn ++ 58 :: (q ++ [58])))
  else .ok []

/-- "Check 'response'" -/
def stageResponseA (fails : Bool) (a : Algo) (r : Req) (call : Call) (d : DAuth) (uri : Bytes) : Except Res Unit := do
  let ha2 := a.hash (r.method ++ 58 :: uri)
  let h1 ← ha1Hex a call
  let rp ← need (d.slots kResponse)
  let resp ← getUnqA fails rp
  if a.size * 2 < resp.length then .error .responseWrong
  else if maxDigest < (resp.length + 1) / 2 then .error (.fault .hash1Overflow)
  else
    match hexToBin resp with
    | none => .error .responseWrong
    | some bin =>
      if bin.length ≠ a.size then .error .responseWrong
      else do
        let np ← need (d.slots kNonce)
        let nonce ← getUnqA fails np
        let mid ← qopPartA fails d
        if tmp1Size < 2 * a.size then .error (.fault .tmp1Overflow)
        else if bin = a.hash (h1 ++ 58 :: (nonce ++ 58 :: (mid ++ binToHex ha2))) then .ok ()
        else .error .responseWrong

/-- everything after `check_nonce_nc` -/
def stagePostA (fails : Bool) (cfg : Cfg) (r : Req) (call : Call) (d : DAuth) (a : Algo) (nonceTime : Nat) : Res :=
  match (do
    let uri ← stageUriA fails cfg r d
    stageResponseA fails a r call d uri
    stageBind cfg a r call d nonceTime : Except Res Unit) with
  | .ok () => .ok
  | .error e => e

/-- `digest_auth_check_all_inner` with the outcome of `malloc` given -/
def checkInnerA (fails : Bool) (cfg : Cfg) (tbl : Mhd.Nonce.Table) (now : Nat) (r : Req) (call : Call)
    (timeout maxNc : Nat) (params : Option DAuth) : Mhd.Nonce.Table × Res :=
  match params with
  | none => (tbl, .wrongHeader)
  | some d =>
    match stagePreA fails now timeout maxNc call d with
    | .error e => (tbl, e)
    | .ok (a, nci, nonce, nonceTime) =>
      let c := Mhd.Nonce.checkNonceNc tbl nonce nonceTime nci
      match c.2 with
      | .ok => (c.1, stagePostA fails cfg r call d a nonceTime)
      | other => (c.1, ofNc other)

/-- `digest_auth_check_all` -/
def checkAllA (fails : Bool) (cfg : Cfg) (tbl : Mhd.Nonce.Table) (now : Nat) (r : Req) (call : Call) :
    Mhd.Nonce.Table × Res :=
  let timeout := if call.nonceTimeout = 0 then cfg.defTimeout else call.nonceTimeout
  let maxNc := if call.maxNc = 0 then cfg.defMaxNc else call.maxNc
  match getParams r with
  | .error e => (tbl, e)
  | .ok params => checkInnerA fails cfg tbl now r call timeout maxNc params

/-- `MHD_digest_auth_check3`, `MHD_digest_auth_check_digest3` -/
def digestCheckA (fails : Bool) (cfg : Cfg) (tbl : Mhd.Nonce.Table) (now : Nat) (r : Req) (call : Call) :
    Mhd.Nonce.Table × Res :=
  match call.secret with
  | .password _ => checkAllA fails cfg tbl now r call
  | .userdigest dg =>
    if bit call.malgo3 baseMd5 + bit call.malgo3 baseSha256 + bit call.malgo3 baseSha512 ≠ 1 then (tbl, .panic)
    else if hashSizeOf call.malgo3 ≠ dg.length then (tbl, .panic)
    else checkAllA fails cfg tbl now r call

/-- the deprecated wrappers -/
def legacyCheckA (fails : Bool) (cfg : Cfg) (tbl : Mhd.Nonce.Table) (now : Nat) (r : Req) (realm username : Bytes)
    (secret : Secret) (nonceTimeout algo : Nat) : Mhd.Nonce.Table × Legacy :=
  match legacyMalgo algo with
  | none => (tbl, .panic)
  | some m =>
    let x := digestCheckA fails cfg tbl now r ⟨realm, username, secret, nonceTimeout, 0, mqopAuth, m⟩
    (x.1, Legacy.ofRes x.2)

/-! ### which credentials ask for the heap -/

/-- bytes `get_unquoted_param` asks `get_buffer_for_size` for (nothing for a value without quoted pairs) -/
def reqOf (o : Option Param) : Nat :=
  match o with
  | some p => if p.quoted then p.raw.length else 0
  | none => 0

/-- bytes `get_unquoted_param_copy` asks for -/
def reqCopy (o : Option Param) : Nat :=
  match o with
  | some p => p.raw.length + 1
  | none => 0

/-- bytes asked for the user name in extended notation -/
def reqExt (d : DAuth) : Nat :=
  if !d.userhash ∧ d.slots kUsername = none then
    match d.slots kUsernameExt with
    | some e => e.raw.length + 1 - extMinLen
    | none => 0
  else 0

/-- every buffer size the path to `MHD_DAUTH_OK` requests for the parameters `d`, in the order of the code -/
def heapRequests (d : DAuth) : List Nat :=
  [reqExt d]
  ++ (if d.qop ≠ qopNone then [reqOf (d.slots kNc)] else [])
  ++ [reqOf (d.slots kNonce), reqCopy (d.slots kUri), reqOf (d.slots kResponse)]
  ++ (if d.qop ≠ qopNone then [reqOf (d.slots kCnonce), reqOf (d.slots kQop)] else [])

/-- one of the requests does not fit the 128-byte stack buffer `tmp1` -/
def needsHeap (d : DAuth) : Bool := (heapRequests d).any fun n => decide (tmp1Size < n)

end Mhd.Dauth
