/-
  Buffer layer of src/microhttpd/connection.c over the pool model:
  the read-buffer window (`read_buffer`, `read_buffer_size`, `read_buffer_offset`)
  and the write-buffer window inside the connection arena, and the functions
  that move them: MHD_connection_alloc_memory_, try_grow_read_buffer,
  connection_shrink_read_buffer, connection_maximize_write_buffer, the parsers'
  "consume" (`read_buffer += n`), the end-of-headers shift-back, the receive
  step, connection_reset's pool reset and the error path's buffer release.

  Pointers are offsets into the arena (`none` = NULL).
-/
import Mhd.Model.Pool
import Mhd.Gen.ConnMem

namespace Mhd.ConnMem
open Mhd.Pool

structure CM where
  p      : Pool
  rb     : Option Nat     -- read_buffer
  rbSize : Nat
  rbOff  : Nat            -- read_buffer_offset (fill)
  rbBase : Nat            -- ghost: lowest offset the current read block started at
  wb     : Option Nat     -- write_buffer
  wbSize : Nat
  wbApp  : Nat            -- write_buffer_append_offset
  wbSend : Nat            -- write_buffer_send_offset
  sending : Bool          -- ghost: false while receiving a request, true from the switch to the reply until reset
  inc    : Nat            -- daemon->pool_increment
  poolSize : Nat          -- daemon->pool_size
  deriving Repr

inductive Op
  | grow (required : Bool)
  | recv (k : Nat)
  | consume (k : Nat)
  | shiftBack (k : Nat)
  | bodyDrop (k : Nat)   -- process_request_body: `k` processed bytes leave the window front (memmove of the rest)
  | alloc (n : Nat)
  | shrinkRead
  | maxWrite
  | wAppend (k : Nat)
  | wSend (k : Nat)
  | resetConn
  | errRelease          -- transmit_error_response_len: deallocate the read buffer
  | errReset            -- … and its "No memory. Release everything" pool reset
  deriving Repr

inductive Res
  | ok
  | bool (b : Bool)
  | ptr (o : Option Nat)
  | size (n : Nat)
  | badOp
  deriving Repr, DecidableEq

/-- `MHD_connection_set_initial_state_` on a fresh pool of `allocSize` bytes -/
def init (allocSize poolSize inc : Nat) : CM :=
  let p0 := create allocSize
  let (p1, r) := allocate p0 (poolSize / 2) false
  { p := p1, rb := r, rbSize := if r.isSome then poolSize / 2 else 0, rbOff := 0,
    rbBase := r.getD 0, wb := none, wbSize := 0, wbApp := 0, wbSend := 0, sending := false, inc := inc, poolSize := poolSize }

/-- new size computed by `try_grow_read_buffer`, or `none` when it gives up before reallocating.
    `minOne`: the guard `if (0 == small_inc) small_inc = 1` (fix F32) is present -/
def growSizeG (minOne : Bool) (c : CM) (required : Bool) : Option Nat :=
  let avail := getFree c.p
  if avail = 0 then none
  else if c.rbSize = 0 then some (avail / 2)
  else
    let g := avail / 8
    if c.inc > g then
      let leftFree := c.rbSize - c.rbOff
      if c.inc ≤ g + leftFree ∧ leftFree < c.inc then some (c.rbSize + (c.inc - leftFree))
      else if !required then none
      else
        let smallInc0 := (if Mhd.Gen.ConnMem.bufIncSize > c.inc then c.inc else Mhd.Gen.ConnMem.bufIncSize) / 8
        let smallInc := if minOne ∧ smallInc0 = 0 then 1 else smallInc0
        if smallInc < avail then some (c.rbSize + smallInc) else some (c.rbSize + avail)
    else some (c.rbSize + g)

/-- the code as it is: whether the guard is present is a regenerated behaviour probe -/
def growSize (c : CM) (required : Bool) : Option Nat := growSizeG Mhd.Gen.ConnMem.growMinOne c required

/-- `try_grow_read_buffer` -/
def grow (c : CM) (required : Bool) : CM × Bool :=
  match growSize c required with
  | none => (c, false)
  | some newSize =>
    if c.rb.isSome ∧ !isResizableInplace c.p c.rb c.rbSize then (c, false)
    else
      match reallocate c.p c.rb c.rbSize newSize with
      | (_, none) => (c, false)
      | (p', some r) => ({ c with p := p', rb := some r, rbSize := newSize,
                                  rbBase := if c.rb.isSome then c.rbBase else r }, true)

/-- `MHD_connection_alloc_memory_` -/
def allocMem (c : CM) (n : Nat) : CM × Option Nat :=
  match tryAlloc c.p n with
  | (p', some off, _) => ({ c with p := p' }, some off)
  | (_, none, none) => (c, none)
  | (_, none, some need) =>
    if isResizableInplace c.p c.wb c.wbSize then
      if c.wbSize - c.wbApp ≥ need then
        let newSize := c.wbSize - need
        match reallocate c.p c.wb c.wbSize newSize with
        | (p', r) =>
          let c1 := { c with p := p', wb := r, wbSize := newSize }
          let (p2, res) := allocate c1.p n true
          ({ c1 with p := p2 }, res)
      else (c, none)
    else if isResizableInplace c.p c.rb c.rbSize then
      if c.rbSize - c.rbOff ≥ need then
        let newSize := c.rbSize - need
        match reallocate c.p c.rb c.rbSize newSize with
        | (p', r) =>
          let c1 := { c with p := p', rb := r, rbSize := newSize }
          let (p2, res) := allocate c1.p n true
          ({ c1 with p := p2 }, res)
      else (c, none)
    else (c, none)

/-- `connection_shrink_read_buffer` -/
def shrinkRead (c : CM) : CM :=
  match c.rb with
  | none => c
  | some r =>
    if c.rbSize = 0 then c
    else if c.rbOff = 0 then
      { c with p := deallocate c.p (some r) c.rbSize, rb := none, rbSize := 0 }
    else
      match reallocate c.p (some r) c.rbSize c.rbOff with
      | (p', r') => { c with p := p', rb := r', rbSize := c.rbOff }

/-- `connection_maximize_write_buffer`: new state and the returned free size -/
def maxWrite (c : CM) : CM × Nat :=
  let free := getFree c.p
  if free ≠ 0 then
    let newSize := c.wbSize + free
    match reallocate c.p c.wb c.wbSize newSize with
    | (p', w) =>
      let c1 := { c with p := p', wb := w, wbSize := newSize }
      let c2 := if c1.wbSend = c1.wbApp then { c1 with wbSend := 0, wbApp := 0 } else c1
      (c2, c2.wbSize - c2.wbApp)
  else (c, c.wbSize - c.wbApp)

/-- `connection_reset (c, reuse = true)`: keep the unread bytes, give the arena back -/
def resetConn (c : CM) : CM :=
  let newSize := if c.rbOff > c.poolSize / 2 then c.rbOff else c.poolSize / 2
  let p' := Mhd.Pool.reset c.p c.rb c.rbOff newSize
  { c with p := p', rb := some 0, rbSize := newSize, rbBase := 0,
           wb := none, wbSize := 0, wbApp := 0, wbSend := 0 }

/-- One operation of the connection state machine on the buffers.  The ghost
    flag `sending` encodes which operations the state machine performs in which
    phase: while a request is being received only the read buffer is worked on
    (grow / receive / consume / shift-back / allocations); the switch to the reply
    (`shrinkRead`, or the error path's `errRelease`) starts the sending phase in
    which the write buffer is built; `resetConn` returns to receiving. -/
def step (c : CM) : Op → CM × Res
  | .grow req => if c.sending then (c, .badOp) else let (c', b) := grow c req; (c', .bool b)
  | .recv k =>
    if !c.sending ∧ c.rb.isSome ∧ k ≤ c.rbSize - c.rbOff then ({ c with rbOff := c.rbOff + k }, .ok) else (c, .badOp)
  | .consume k =>
    match c.rb with
    | some r => if !c.sending ∧ k ≤ c.rbOff then
        ({ c with rb := some (r + k), rbSize := c.rbSize - k, rbOff := c.rbOff - k }, .ok) else (c, .badOp)
    | none => (c, .badOp)
  | .shiftBack k =>
    match c.rb with
    | some r => if !c.sending ∧ c.rbBase + k ≤ r then ({ c with rb := some (r - k), rbSize := c.rbSize + k }, .ok) else (c, .badOp)
    | none => (c, .badOp)
  | .bodyDrop k =>
    if !c.sending ∧ c.rb.isSome ∧ k ≤ c.rbOff then ({ c with rbOff := c.rbOff - k }, .ok) else (c, .badOp)
  | .alloc n => let (c', r) := allocMem c n; (c', .ptr r)
  | .shrinkRead => if c.sending then (c, .badOp) else ({ shrinkRead c with sending := true }, .ok)
  | .maxWrite => if !c.sending then (c, .badOp) else let (c', n) := maxWrite c; (c', .size n)
  | .wAppend k => if c.sending ∧ c.wb.isSome ∧ k ≤ c.wbSize - c.wbApp then ({ c with wbApp := c.wbApp + k }, .ok) else (c, .badOp)
  | .wSend k => if c.sending ∧ k ≤ c.wbApp - c.wbSend then ({ c with wbSend := c.wbSend + k }, .ok) else (c, .badOp)
  | .resetConn => if c.sending ∧ c.wbSend = c.wbApp then ({ resetConn c with sending := false }, .ok) else (c, .badOp)
  | .errRelease =>
    if c.sending then (c, .badOp)
    else if c.rbSize ≠ 0 then
      ({ c with p := deallocate c.p c.rb c.rbSize, rb := none, rbSize := 0, rbOff := 0, sending := true }, .ok)
    else ({ c with sending := true }, .ok)
  | .errReset =>
    if !c.sending then (c, .badOp) else
    ({ c with p := Mhd.Pool.reset c.p none 0 0, rb := some 0, rbSize := 0, rbOff := 0, rbBase := 0,
              wb := none, wbSize := 0, wbApp := 0, wbSend := 0 }, .ok)

def run (c : CM) (ops : List Op) : CM := ops.foldl (fun c o => (step c o).1) c

end Mhd.ConnMem
