/-
  `MHD_create_response_from_iovec` (response.c): the counting loop (zero-length elements skipped, NULL base
  and the three overflow checks give NULL), the three outcomes — no non-empty element: empty response;
  exactly one: the single-buffer shortcut (`response->data = last_valid_buffer`, no copy of the array);
  two or more: the compacted copy of the array — and the body bytes the send path reads from each.
  POSIX branch (`i_cp++` per non-empty element).
-/
import Mhd.Model.ReplyStr

namespace Mhd.Iov
open Mhd.ReplyStr

/-- one `struct MHD_IoVec` of the caller's array -/
structure IoVec where
  /-- `iov_base`: `none` = NULL, otherwise the bytes readable at that address -/
  base : Option Bytes
  /-- `iov_len` (size_t) -/
  len : Nat
deriving Repr, DecidableEq

inductive IovData where
  /-- `data == NULL`, `data_iov == NULL` -/
  | empty
  /-- `response->data = last_valid_buffer; response->data_size = total_size` -/
  | single (data : Bytes) (dataSize : Nat)
  /-- `response->data_iov` = the compacted copy -/
  | multi (elems : List IoVec)
deriving Repr, DecidableEq

structure IovResp where
  totalSize : Nat
  data : IovData
deriving Repr, DecidableEq

def intMax : Nat := 2 ^ 31 - 1
def ssizeMax : Nat := 2 ^ 63 - 1

/-- loop state of the first `for`: `i_cp`, `total_size`, `last_valid_buffer` -/
structure CountSt where
  icp : Nat := 0
  total : Nat := 0
  last : Option Bytes := none
deriving Repr, DecidableEq

/-- "Calculate final size, number of valid elements, and check 'iov'"; `none` ⇔ `i_cp = -1` -/
def iovCount : List IoVec → CountSt → Option CountSt
  | [], st => some st
  | e :: rest, st =>
    if e.len == 0 then iovCount rest st                      -- skip zero-sized elements
    else match e.base with
      | none => none                                          -- error
      | some m =>
        let sum := (st.total + e.len) % 2 ^ 64                -- uint64_t addition
        if st.total > sum || st.icp == intMax || ssizeMax < sum then none   -- overflow
        else iovCount rest { icp := st.icp + 1, total := sum, last := some m }

/-- the second `for`: copy of the non-empty elements, in order -/
def iovCompact : List IoVec → List IoVec
  | [] => []
  | e :: rest => if e.len == 0 then iovCompact rest else e :: iovCompact rest

/-- `MHD_create_response_from_iovec (iov, iovcnt, …)`; `iov = none` is a NULL array pointer.
    `none` = NULL returned (allocation failures are not modelled). -/
def createFromIovec (iov : Option (List IoVec)) (iovcnt : Nat) : Option IovResp :=
  match iov with
  | none => if 0 < iovcnt then none else some ⟨0, .empty⟩
  | some l =>
    match iovCount l {} with
    | none => none
    | some st =>
      if st.icp == 0 then some ⟨st.total, .empty⟩
      else if st.icp == 1 then
        match st.last with
        | some m => some ⟨st.total, .single m st.total⟩
        | none => none                                        -- `mhd_assert (NULL != last_valid_buffer)`
      else some ⟨st.total, .multi (iovCompact l)⟩

/-- the bytes read at an element: `iov_len` bytes from `iov_base` -/
def elemBytes (e : IoVec) : Bytes := (e.base.getD []).take e.len

/-- the body bytes the send path takes from the response object (`data[0 .. data_size)` resp. the elements
    of `data_iov` one after the other) -/
def iovBody : IovData → Bytes
  | .empty => []
  | .single d n => d.take n
  | .multi es => es.flatMap elemBytes

/-- `MHD_create_response_from_fd_at_offset64 (size, fd, offset)`: the three sign checks; the body is
    `file[offset .. offset + size)`.  `none` = NULL. -/
def createFromFd (size offset : Nat) (file : Bytes) : Option (Nat × Bytes) :=
  if 2 ^ 63 ≤ size % 2 ^ 64 || 2 ^ 63 ≤ offset % 2 ^ 64 || 2 ^ 63 ≤ (size + offset) % 2 ^ 64 then none
  else some (size, (file.drop offset).take size)

end Mhd.Iov
