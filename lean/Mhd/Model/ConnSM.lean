/-
  C05 — executable model of the per-connection request state machine of
  src/microhttpd/connection.c at the granularity of `enum MHD_CONNECTION_STATE`:

    MHD_connection_handle_idle / _handle_read / _handle_write,
    call_connection_handler, process_request_body (its handler call sites),
    MHD_connection_close_, connection_close_error, connection_reset,
    cleanup_connection, transmit_error_response_len (with its exits that set
    `state = CLOSED` without `MHD_connection_close_`), MHD_queue_response (state
    effects), MHD_connection_epoll_update_ (epoll_ctl failure exit), and the
    daemon.c entry points new_connection_process_ (start notification),
    MHD_cleanup_connections (close notification), close_connection (shutdown),
    resume; interim replies (MHD_HTTP_PROCESSING at MHD_CONNECTION_FULL_REPLY_SENT:
    back to HEADERS_PROCESSED, response released, the handler is asked again) and
    upgrade responses (MHD_CONNECTION_HEADERS_SENT: MHD_response_execute_upgrade_ —
    suspended, upgrade handler called, response released, state UPGRADE; failure:
    connection_close_error; end: the `urh` branch of resume_suspended_connections —
    completion notification, straight to the cleanup list, event `upgradeDone`).

  The HTTP parsers are abstracted: the read buffer holds *tokens* (`Tok`) —
  "request line complete", "header block complete with this framing", "k body
  bytes", chunk framing, "trailer complete", or bytes that complete nothing.
  The application is a scripted, stateful callback (`App`).  Everything the
  environment decides (time-out, pool exhaustion, allocation failures, socket
  results, epoll_ctl result) is part of the event (`Ev`).

  `step` returns the callback log (`Mhd.Protocol.LEv`).  Core Lean only.
-/
import Mhd.Gen.ConnState
import Mhd.Model.Protocol

namespace Mhd.ConnSM
open Mhd.Gen.ConnState Mhd.Protocol

/-! ## inputs -/

inductive Framing where
  | none                 -- no body
  | length (n : Nat)     -- Content-Length: n
  | chunked              -- Transfer-Encoding: chunked
  | bad                  -- rejected by parse_connection_headers (400)
  deriving DecidableEq, Repr, Inhabited

inductive LineKind where
  | ok          -- request line complete and accepted (URI log callback runs)
  | bad         -- rejected before the request target is processed
  | badTarget   -- URI log callback has run, then the target is rejected (e.g. no pool space for arguments)
  deriving DecidableEq, Repr, Inhabited

/-- abstract content of the read buffer / of received bytes -/
inductive Tok where
  | junk                                      -- bytes that do not complete the element being parsed
  | line (k : LineKind)
  | headers (f : Framing) (ka expect100 : Bool)  -- end of the header block; `ka`: request permits keep-alive
  | hdrBad                                    -- malformed field line (400 from get_req_headers)
  | data (k : Nat)                            -- k bytes of body (chunk payload for chunked)
  | chunkHdr (k : Nat)                        -- complete chunk-size line, size k (0 = last chunk)
  | chunkBad                                  -- malformed chunk framing
  | chunkEnd                                  -- CRLF after chunk payload
  | footers (ok : Bool)                       -- end of the trailer section / malformed trailer
  deriving DecidableEq, Repr, Inhabited

/-- a response object as far as this property is concerned -/
structure Resp where
  rid : Nat
  freeCb : Bool := false      -- has a free callback (logged when the object is destroyed)
  body : Bool := true         -- a reply body is sent (`send_reply_body`)
  emptyBody : Bool := false   -- total_size = 0
  chunkedBody : Bool := false -- reply uses chunked encoding
  closeHdr : Bool := false    -- forbids keep-alive (Connection: close / HTTP/1.0 flags)
  valid : Bool := true        -- MHD_queue_response accepts object and status code
  interim : Bool := false     -- status 102 Processing: another response may follow
  upgrade : Bool := false     -- created by MHD_create_response_for_upgrade (status 101)
  deriving DecidableEq, Repr, Inhabited

inductive Act where
  | cont                                  -- return MHD_YES
  | reply (r : Resp) (retIfRefused : Bool) -- MHD_queue_response; return YES if accepted, else `retIfRefused`
  | fail                                  -- return MHD_NO
  | suspend                               -- MHD_suspend_connection, return MHD_YES
  deriving DecidableEq, Repr, Inhabited

/-- what the access handler does in one call -/
structure Dec where
  take : Nat := 0               -- upload bytes consumed (capped by the number presented)
  act : Act := .cont
  ctxOut : Option Nat := none   -- value left in `*req_cls`
  deriving DecidableEq, Repr, Inhabited

/-- what the access handler is shown -/
structure CallInfo where
  site : Site
  offered : Nat
  ctxIn : Option Nat
  deriving DecidableEq, Repr

/-- the scripted application with its own state `σ` -/
structure App (σ : Type) where
  uriLog : σ → σ × Option Nat
  handle : σ → CallInfo → σ × Dec

structure Cfg where
  uriLog : Bool := true          -- MHD_OPTION_URI_LOG_CALLBACK registered
  allowSuspend : Bool := true    -- MHD_ALLOW_SUSPEND_RESUME
  epoll : Bool := false
  f9Fixed : Bool := true         -- `return` present in handle_req_chunk_size_line_no_space
  allocBypassFixed : Bool := true
  epollBypassFixed : Bool := true
  f14Fixed : Bool := true         -- completion notified before the request strings are released …
  f14ClearsAware : Bool := true   -- … and client_aware cleared afterwards
  deriving DecidableEq, Repr, Inhabited

/-- what the API permits the handler to do -/
def Dec.Legal (cfg : Cfg) (d : Dec) : Bool :=
  match d.act with
  | .suspend => cfg.allowSuspend          -- otherwise MHD_PANIC
  | _ => true

inductive KA where
  | unknown | use | mustClose
  deriving DecidableEq, Repr, Inhabited

/-- environment choices for one run of MHD_connection_handle_idle -/
structure IdleEnv where
  timedOut : Bool := false        -- connection_check_timedout would fire for the last_activity at entry
  noSpace : Bool := false         -- check_and_grow_read_buffer_space: buffer full, pool exhausted
  chunkExt : Bool := false        -- … and the partial chunk-size line contains ';'
  errAllocFail : Bool := false    -- MHD_create_response_from_buffer_static returns NULL
  errHdrFail1 : Bool := false     -- build_header_response fails for MHD's error reply
  errHdrFail2 : Bool := false     -- … and again after releasing everything
  replyHdrFail : Bool := false    -- build_header_response fails at START_REPLY
  bodyReady : Bool := true        -- try_ready_*_body has data
  bodyErr : Bool := false         -- content reader failed
  bodyLast : Bool := true         -- chunked reply: that was the last piece
  footerFail : Bool := false      -- build_connection_chunked_response_footer fails
  epollAdd : Option Bool := none  -- epoll_ctl(ADD) attempted in MHD_connection_epoll_update_: result
  shutdown : Bool := false        -- daemon->shutdown seen by MHD_queue_response
  upgradeFail : Bool := false     -- MHD_response_execute_upgrade_ fails (allocation)
  deriving DecidableEq, Repr, Inhabited

inductive WriteRes where
  | err | again | part | done
  deriving DecidableEq, Repr, Inhabited

inductive Ev where
  | start                         -- new_connection_process_ succeeded
  | recv (toks : List Tok)        -- MHD_connection_handle_read: bytes received
  | recvEof                       -- … recv() = 0
  | recvErr (reset : Bool)        -- … recv() failed (ECONNRESET / other)
  | idle (env : IdleEnv)          -- MHD_connection_handle_idle
  | write (r : WriteRes)          -- MHD_connection_handle_write
  | forceClose                    -- call_handlers: MHD_connection_close_ (WITH_ERROR)
  | resume                        -- resume_suspended_connections moved the connection back
  | shutdownClose                 -- close_connection (daemon shutdown)
  | cleanup                       -- MHD_cleanup_connections frees the connection
  | appQueue (r : Resp) (env : IdleEnv)  -- MHD_queue_response called by the application outside the access handler
  | startFailed                   -- new_connection_process_ fails after MHD_CONNECTION_NOTIFY_STARTED (thread creation,
                                  -- epoll_ctl(ADD)): its cleanup path delivers NOTIFY_CLOSED and frees the connection at once
  | upgradeDone                   -- upgraded connection closed by the application (or daemon shutdown) and taken
                                  -- off the suspended list by resume_suspended_connections
  deriving Repr, Inhabited

/-! ## state -/

structure Conn (σ : Type) where
  app : σ
  started : Bool := false
  cleaned : Bool := false          -- freed by MHD_cleanup_connections
  inCleanup : Bool := false        -- cleanup_connection done (in the cleanup list)
  state : CState := .init
  clientAware : Bool := false
  ctx : Option Nat := none
  discard : Bool := false
  stopWithError : Bool := false
  keepalive : KA := .unknown
  suspended : Bool := false
  response : Option Resp := none
  readClosed : Bool := false
  buf : List Tok := []             -- read buffer
  framing : Framing := .none
  remaining : Nat := 0             -- remaining_upload_size (for chunked: 1 = unknown, 0 = finished)
  haveChunked : Bool := false
  chunkLeft : Nat := 0             -- current_chunk_size - current_chunk_offset
  inChunk : Bool := false          -- current_chunk_size ≠ 0
  chunkTotal : Nat := 0            -- GHOST (not in the C struct, read by nothing): sum of the sizes of the chunks declared so
                                   -- far for this request; lets upload completeness be stated for chunked framing
  reqKA : Bool := false
  expect100 : Bool := false
  cont100Sent : Bool := false
  upOff : Nat := 0                 -- body bytes taken by the application so far
  inEpollSet : Bool := false
  somePayloadProcessed : Bool := false  -- rq.some_payload_processed
  touched : Bool := false          -- MHD_update_last_activity_ called during the current handle_idle run
  fault : Bool := false            -- MHD_PANIC / model cannot continue
  deriving Repr

abbrev Out (σ : Type) := Conn σ × List LEv

def lt (a b : CState) : Bool := a.toNat < b.toNat

/-! ## closing, notifications -/

/-- MHD_destroy_response on the queued response (the application holds no other reference) -/
def dropResp {σ} (c : Conn σ) : Out σ :=
  match c.response with
  | none => (c, [])
  | some r => ({ c with response := none }, if r.freeCb then [.freeCb r.rid] else [])

/-- the notification part of MHD_connection_close_ / connection_reset -/
def notify {σ} (c : Conn σ) (code : Nat) : Out σ :=
  if c.clientAware then ({ c with clientAware := false }, [.completed code c.ctx])
  else ({ c with clientAware := false }, [])

/-- MHD_connection_close_ -/
def closeConn {σ} (c : Conn σ) (code : Nat) : Out σ :=
  let (c1, l1) := notify c code
  let (c2, l2) := dropResp c1
  ({ c2 with state := .closed }, l1 ++ l2)

/-- connection_close_error -/
def closeError {σ} (c : Conn σ) : Out σ :=
  closeConn { c with stopWithError := true, discard := true } terminatedWithError

/-- cleanup_connection -/
def cleanupConnection {σ} (c : Conn σ) : Out σ :=
  if c.inCleanup then (c, []) else
  let (c1, l1) := dropResp { c with inCleanup := true }
  ({ c1 with suspended := false }, l1)

/-- request fields cleared by `memset (&c->rq, 0, …)` -/
def clearRq {σ} (c : Conn σ) : Conn σ :=
  { c with clientAware := false, ctx := none, framing := .none, remaining := 0, haveChunked := false,
           chunkLeft := 0, inChunk := false, chunkTotal := 0, reqKA := false, expect100 := false, cont100Sent := false, upOff := 0,
           somePayloadProcessed := false }

/-- connection_reset -/
def connectionReset {σ} (c : Conn σ) (reuse : Bool) : Out σ :=
  if !reuse then
    let (c1, l1) := closeConn c (if c.stopWithError then terminatedWithError else terminatedCompletedOk)
    ({ c1 with buf := [], ctx := none }, l1)
  else
    let (c1, l1) := notify c terminatedCompletedOk
    let (c2, l2) := dropResp c1
    (clearRq { c2 with keepalive := .unknown, state := .init }, l1 ++ l2)

/-! ## MHD's own error replies -/

/-- keepalive_possible -/
def keepalivePossible {σ} (c : Conn σ) (r : Resp) : KA :=
  if c.keepalive = .mustClose then .mustClose
  else if c.readClosed ∨ c.discard then .mustClose
  else if r.closeHdr then .mustClose
  else if c.reqKA then .use else .mustClose

def errResp : Resp := { rid := 1000, freeCb := false, body := true }

/-- the "No memory. Release everything." branch of transmit_error_response_len -/
def releaseEverything {σ} (cfg : Cfg) (c : Conn σ) : Out σ :=
  if cfg.f14Fixed then
    let (c1, l1) := notify c terminatedWithError
    -- (without the assignment `rq.client_aware = false` the flag survives the callback)
    ({ c1 with clientAware := if cfg.f14ClearsAware then false else c.clientAware }, l1 ++ [.invalidate])
  else (c, [.invalidate])

/-- transmit_error_response_len -/
def transmitError {σ} (cfg : Cfg) (env : IdleEnv) (c : Conn σ) : Out σ :=
  if c.stopWithError then
    -- "Should not happen": second error response; state = CLOSED without MHD_connection_close_
    ({ c with state := if lt c.state .closed then .closed else c.state }, [])
  else
    let c := { c with stopWithError := true, discard := true }
    if lt .startReply c.state then closeError c
    else
      let c := { c with state := .fullReqReceived, buf := [] }
      let (c, l0) := dropResp c
      if env.errAllocFail then
        if cfg.allocBypassFixed then
          let (c', l) := closeError c
          (c', l0 ++ l)
        else ({ c with state := .closed }, l0)           -- bypass: no notification
      else if env.shutdown then                          -- MHD_queue_response refuses
        let (c', l) := closeError c
        (c', l0 ++ l)
      else
        let c := { c with response := some errResp, keepalive := .mustClose, touched := true }
        let l1 := l0 ++ [LEv.queued]
        if env.errHdrFail1 then
          let (c, l2) := releaseEverything cfg c
          if env.errHdrFail2 then
            let (c', l3) := closeError c
            (c', l1 ++ l2 ++ l3)
          else ({ c with state := .headersSending }, l1 ++ l2)
        else ({ c with state := .headersSending }, l1)

/-- handle_req_chunk_size_line_no_space: one or (without the `return`) two error responses -/
def chunkSizeLineNoSpace {σ} (cfg : Cfg) (env : IdleEnv) (c : Conn σ) : Out σ :=
  if env.chunkExt then
    let (c1, l1) := transmitError cfg env c
    if cfg.f9Fixed then (c1, l1)
    else
      let (c2, l2) := transmitError cfg env c1
      (c2, l1 ++ l2)
  else transmitError cfg env c

/-- handle_recv_no_space as reached from check_and_grow_read_buffer_space -/
def recvNoSpace {σ} (cfg : Cfg) (env : IdleEnv) (c : Conn σ) : Out σ :=
  match c.state with
  | .init => closeError c
  | .reqLineReceiving => transmitError cfg env c          -- 414 (or close for an unknown method: same for C05)
  | .reqHeadersReceiving => transmitError cfg env c       -- 431
  | .bodyReceiving =>
      if c.haveChunked ∧ ¬ c.inChunk then chunkSizeLineNoSpace cfg env c
      else transmitError cfg env c
  | .footersReceiving => transmitError cfg env c
  | _ => (c, [])

/-! ## the access handler -/

/-- MHD_queue_response as called from inside the access handler; returns acceptance -/
def queueResponse {σ} (env : IdleEnv) (c : Conn σ) (r : Resp) : Conn σ × List LEv × Bool :=
  if c.response.isSome then (c, [], false)
  else if c.state ≠ .headersProcessed ∧ c.state ≠ .fullReqReceived then (c, [], false)
  else if env.shutdown then (c, [], false)
  else if !r.valid then (c, [], false)
  else
    let c := { c with response := some r, touched := true }
    let c := if c.state = .headersProcessed then
               { c with discard := true, state := .startReply, remaining := 0 } else c
    (c, [.queued], true)

/-- internal_suspend_connection_ -/
def suspendConn {σ} (cfg : Cfg) (c : Conn σ) : Conn σ :=
  if cfg.allowSuspend then { c with suspended := true, inEpollSet := false }
  else { c with fault := true }

/-- one invocation of `daemon->default_handler`; returns the connection, log and the handler's return value -/
def callApp {σ} (cfg : Cfg) (app : App σ) (env : IdleEnv) (c : Conn σ) (site : Site) (offered : Nat) :
    Conn σ × List LEv × Bool × Nat :=
  let (s', d) := app.handle c.app { site := site, offered := offered, ctxIn := c.ctx }
  let taken := min d.take offered
  let c1 := { c with app := s', clientAware := true }
  let ev := fun (ret : Bool) => LEv.handler site c.upOff offered taken c.ctx d.ctxOut ret
  let c1 := { c1 with ctx := d.ctxOut, upOff := c.upOff + taken,
                      somePayloadProcessed := if site = .upload then taken ≠ 0 else c1.somePayloadProcessed }
  match d.act with
  | .cont => (c1, [ev true], true, taken)
  | .fail => (c1, [ev false], false, taken)
  | .suspend => (suspendConn cfg c1, [ev true], true, taken)
  | .reply r retIfRefused =>
      let (c2, l, ok) := queueResponse env c1 r
      let ret := ok || retIfRefused
      (c2, [ev ret] ++ l, ret, taken)

/-- call_connection_handler -/
def callConnectionHandler {σ} (cfg : Cfg) (app : App σ) (env : IdleEnv) (c : Conn σ) (site : Site) : Out σ :=
  if c.response.isSome then (c, []) else
  let (c1, l, ret, _) := callApp cfg app env c site 0
  if !ret then
    let (c2, l2) := closeError c1
    (c2, l ++ l2)
  else (c1, l)

/-- drop leading bytes that complete nothing -/
def dropJunk : List Tok → List Tok
  | .junk :: t => dropJunk t
  | l => l

/-- `to_be_processed`: how many of the `k` buffered payload bytes are offered to the handler -/
def bodyOffer {σ} (c : Conn σ) (k : Nat) : Nat :=
  if c.haveChunked then min c.chunkLeft k else min c.remaining k

/-- accounting after an upload call that took `taken` bytes -/
def afterUpload {σ} (c1 : Conn σ) (taken : Nat) : Conn σ :=
  if c1.haveChunked then { c1 with chunkLeft := c1.chunkLeft - taken }
  else { c1 with remaining := c1.remaining - taken }

/-- the buffer after `taken` of the `k` payload bytes at its head were consumed -/
def restAfter (k taken : Nat) (t : List Tok) : List Tok :=
  if taken = k then t else .data (k - taken) :: t

/-- `instant_retry`: chunked, the rest of the chunk was in the buffer and was taken, more bytes follow -/
def retryNow {σ} (c : Conn σ) (k offered taken : Nat) (rest : List Tok) : Bool :=
  c.haveChunked && decide (c.chunkLeft ≤ k) && decide (taken = offered) && !rest.isEmpty

/-- process_request_body.  `fuel` bounds the number of passes of its `do … while (instant_retry)`
    loop (every pass consumes a token of the buffer or is the last one; `bodyFuel` suffices,
    running out is reported as a fault). -/
def processBody {σ} (cfg : Cfg) (app : App σ) (env : IdleEnv) : Nat → List Tok → Conn σ → Out σ
  | 0, buf, c => ({ c with buf := buf, fault := true }, [])
  | _ + 1, [], c => ({ c with buf := [] }, [])
  | n + 1, .junk :: t, c =>
      -- bytes that completed nothing so far are absorbed by the element that follows them
      match dropJunk t with
      | [] => ({ c with buf := [.junk] }, [])                              -- need more data
      | t' => processBody cfg app env n t' c
  | n + 1, .data k :: t, c =>
      if k = 0 then processBody cfg app env n t c
      else if c.haveChunked ∧ ¬ c.inChunk then
        -- payload where a chunk-size line is expected: malformed
        transmitError cfg env { c with buf := .data k :: t }
      else
        if bodyOffer c k = 0 then
          -- chunk complete, payload where CRLF is expected (non-chunked: body complete, caller leaves)
          if c.haveChunked then transmitError cfg env { c with buf := .data k :: t }
          else ({ c with buf := .data k :: t }, [])
        else
          match callApp cfg app env c .upload (bodyOffer c k) with
          | (c1, l, ret, taken) =>
            if !ret then
              ((closeError c1).1, l ++ (closeError c1).2)
            else if retryNow c k (bodyOffer c k) taken (restAfter k taken t) then
              ((processBody cfg app env n (restAfter k taken t) (afterUpload c1 taken)).1,
               l ++ (processBody cfg app env n (restAfter k taken t) (afterUpload c1 taken)).2)
            else ({ afterUpload c1 taken with buf := restAfter k taken t }, l)
  | n + 1, .chunkEnd :: t, c =>
      if c.haveChunked ∧ c.inChunk ∧ c.chunkLeft = 0 then
        if t.isEmpty then ({ c with inChunk := false, buf := [] }, [])
        else processBody cfg app env n t { c with inChunk := false }
      else transmitError cfg env { c with buf := .chunkEnd :: t }
  | n + 1, .chunkHdr k :: t, c =>
      if c.haveChunked ∧ ¬ c.inChunk then
        if k = 0 then ({ c with remaining := 0, buf := t }, [])
        else if t.isEmpty then ({ c with inChunk := true, chunkLeft := k, chunkTotal := c.chunkTotal + k, buf := [] }, [])
        else processBody cfg app env n t { c with inChunk := true, chunkLeft := k, chunkTotal := c.chunkTotal + k }
      else transmitError cfg env { c with buf := .chunkHdr k :: t }
  | _ + 1, tok :: t, c => transmitError cfg env { c with buf := tok :: t }

def bodyFuel (buf : List Tok) : Nat := 2 * buf.length + 3

/-! ## MHD_connection_handle_idle -/

inductive Flow where
  | again    -- `continue`
  | stop     -- `break`
  | dead     -- `return MHD_NO` (connection cleaned up)
  | keep     -- `return MHD_YES` without post-processing (upgraded)
  deriving DecidableEq, Repr

/-- the queued response is an interim (102) one -/
def interimPending {σ} (c : Conn σ) : Bool :=
  match c.response with
  | some r => r.interim
  | none => false

/-- one pass through the `switch (connection->state)` -/
def idleCase {σ} (cfg : Cfg) (app : App σ) (env : IdleEnv) (c : Conn σ) : Conn σ × List LEv × Flow :=
  match c.state with
  | .init | .reqLineReceiving =>
      match dropJunk c.buf with
      | [] => ({ c with state := if c.buf.isEmpty then c.state else .reqLineReceiving }, [], .stop)
      | .line .ok :: t =>
          if cfg.uriLog then
            let (s', ctx) := app.uriLog c.app
            ({ c with app := s', buf := t, clientAware := true, ctx := ctx, state := .reqLineReceived }, [.uriLog ctx], .again)
          else ({ c with buf := t, state := .reqLineReceived }, [], .again)
      | .line .badTarget :: t =>
          if cfg.uriLog then
            let (s', ctx) := app.uriLog c.app
            -- (the C code is still in REQ_LINE_RECEIVING here; transmit_error_response_len overwrites the state
            --  at once and only compares it with START_REPLY before)
            let (c1, l) := transmitError cfg env { c with app := s', buf := t, clientAware := true, ctx := ctx, state := .reqLineReceived }
            (c1, [.uriLog ctx] ++ l, .again)
          else
            let (c1, l) := transmitError cfg env { c with buf := t, state := .reqLineReceiving }
            (c1, l, .again)
      | _ :: t =>
          let (c1, l) := transmitError cfg env { c with buf := t, state := .reqLineReceiving }
          (c1, l, .again)
  | .reqLineReceived => ({ c with state := .reqHeadersReceiving }, [], .again)
  | .reqHeadersReceiving =>
      match dropJunk c.buf with
      | [] => (c, [], .stop)
      | .headers f ka e100 :: t =>
          ({ c with buf := t, framing := f, reqKA := ka, expect100 := e100, state := .headersReceived }, [], .again)
      | _ :: t =>
          let (c1, l) := transmitError cfg env { c with buf := t }
          (c1, l, .again)
  | .headersReceived =>
      -- parse_connection_headers
      match c.framing with
      | .bad =>
          let (c1, l) := transmitError cfg env c
          (c1, l, .again)
      | .none => ({ c with remaining := 0, state := .headersProcessed }, [], .again)
      | .length n => ({ c with remaining := n, state := .headersProcessed }, [], .again)
      | .chunked => ({ c with remaining := 1, haveChunked := true, state := .headersProcessed }, [], .again)
  | .headersProcessed =>
      let (c1, l) := callConnectionHandler cfg app env c .first
      if c1.state ≠ .headersProcessed then (c1, l, .again)
      else if c1.suspended then (c1, l, .again)
      else if c1.response.isNone ∧ c1.expect100 ∧ c1.remaining ≠ 0 ∧ c1.buf.isEmpty then
        ({ c1 with state := .continueSending }, l, .stop)
      else
        let c2 := if c1.response.isSome ∧ c1.remaining ≠ 0 then { c1 with remaining := 0, discard := true } else c1
        ({ c2 with state := if c2.remaining = 0 then .fullReqReceived else .bodyReceiving }, l, .again)
  | .continueSending =>
      if c.cont100Sent then ({ c with state := .bodyReceiving }, [], .again) else (c, [], .stop)
  | .bodyReceiving =>
      if !c.buf.isEmpty then
        let (c1, l) := processBody cfg app env (bodyFuel c.buf) c.buf c
        if c1.state ≠ .bodyReceiving then (c1, l, .again)
        else if c1.remaining = 0 then ({ c1 with state := .bodyReceived }, l, .again)
        else (c1, l, .stop)
      else if c.remaining = 0 then ({ c with state := .bodyReceived }, [], .again)
      else (c, [], .stop)
  | .bodyReceived =>
      if c.remaining = 0 then
        ({ c with state := if c.haveChunked then .footersReceiving else .fullReqReceived }, [], .again)
      else (c, [], .stop)
  | .footersReceiving =>
      match dropJunk c.buf with
      | [] => (c, [], .stop)
      | .footers true :: t => ({ c with buf := t, state := .footersReceived }, [], .again)
      | _ :: t =>
          let (c1, l) := transmitError cfg env { c with buf := t }
          (c1, l, .again)
  | .footersReceived => ({ c with state := .fullReqReceived }, [], .again)
  | .fullReqReceived =>
      let (c1, l) := callConnectionHandler cfg app env c .final
      if c1.state ≠ .fullReqReceived then (c1, l, .again)
      else if c1.response.isNone then (c1, l, .stop)
      else ({ c1 with state := .startReply }, l, .again)
  | .startReply =>
      match c.response with
      | none => ({ c with fault := true }, [], .stop)
      | some r =>
        if env.replyHdrFail then
          let (c1, l) := closeError c
          (c1, l, .again)
        else ({ c with keepalive := keepalivePossible c r, state := .headersSending }, [], .stop)
  | .headersSending => (c, [], .stop)
  | .headersSent =>
      match c.response with
      | none => ({ c with fault := true }, [], .stop)
      | some r =>
        if r.upgrade then
          -- MHD_response_execute_upgrade_: suspend, call the upgrade handler, drop the response
          if env.upgradeFail then
            let (c1, l) := closeError { c with state := .upgrade }
            (c1, l, .again)
          else
            let (c1, l) := dropResp { c with state := .upgrade, suspended := true, inEpollSet := false }
            (c1, [.upgrade] ++ l, .again)
        else
        ({ c with state := if r.body then (if r.chunkedBody then .chunkedBodyUnready else .normalBodyUnready)
                           else .fullReplySent }, [], .again)
  | .normalBodyReady => (c, [], .stop)
  | .normalBodyUnready =>
      match c.response with
      | none => ({ c with fault := true }, [], .stop)
      | some r =>
        if r.emptyBody then ({ c with state := .fullReplySent }, [], .again)
        else if env.bodyErr then
          let (c1, l) := closeError c
          (c1, l, .stop)
        else if env.bodyReady then ({ c with state := .normalBodyReady }, [], .stop)
        else (c, [], .stop)
  | .chunkedBodyReady => (c, [], .stop)
  | .chunkedBodyUnready =>
      match c.response with
      | none => ({ c with fault := true }, [], .stop)
      | some r =>
        if r.emptyBody then ({ c with state := .chunkedBodySent }, [], .again)
        else if env.bodyErr then
          let (c1, l) := closeError c
          (c1, l, .stop)
        else if env.bodyReady then
          ({ c with state := if env.bodyLast then .chunkedBodySent else .chunkedBodyReady }, [], .again)
        else (c, [], .stop)
  | .chunkedBodySent =>
      if env.footerFail then
        let (c1, l) := closeError c
        (c1, l, .again)
      else ({ c with state := .footersSending }, [], .again)
  | .footersSending => (c, [], .stop)
  | .fullReplySent =>
      if interimPending c then
        -- MHD_HTTP_PROCESSING: "After this type of response, we allow sending another!"
        let (c1, l) := dropResp { c with state := .headersProcessed }
        (c1, [.interimSent] ++ l, .again)
      else
      let (c1, l) := connectionReset c (c.keepalive = .use ∧ ¬ c.readClosed ∧ ¬ c.discard)
      (c1, l, .again)
  | .closed =>
      let (c1, l) := cleanupConnection c
      (c1, l, .dead)
  | .upgrade => (c, [], .keep)

/-- the `while (! connection->suspended)` loop; `fuel` bounds the number of passes -/
def idleLoop {σ} (cfg : Cfg) (app : App σ) (env : IdleEnv) : Nat → Conn σ → Conn σ × List LEv × Flow
  | 0, c => ({ c with fault := true }, [], .stop)
  | n + 1, c =>
      if c.suspended then (c, [], .stop) else
      let (c1, l1, f) := idleCase cfg app env c
      match f with
      | .again =>
          let (c2, l2, f2) := idleLoop cfg app env n c1
          (c2, l1 ++ l2, f2)
      | _ => (c1, l1, f)

/-- does the state wait for input (MHD_EVENT_LOOP_INFO_READ) -/
def wantsRead {σ} (c : Conn σ) : Bool :=
  match c.state with
  | .init | .reqLineReceiving | .reqHeadersReceiving | .bodyReceiving | .footersReceiving => true
  | _ => false

inductive ELI where
  | read | write | process | processRead | cleanup
  deriving DecidableEq, Repr, Inhabited

def tokBytes : Tok → Nat
  | .data k => k
  | _ => 1

def bufBytes (b : List Tok) : Nat := (b.map tokBytes).sum

/-- has_unprocessed_upload_body_data_in_buffer -/
def hasUnprocessedBody {σ} (c : Conn σ) : Bool :=
  if !c.haveChunked then !c.buf.isEmpty
  else c.inChunk && c.chunkLeft != 0 && !c.buf.isEmpty

/-- the `event_loop_info` MHD_connection_update_event_loop_info computes for the state -/
def eventLoopInfo {σ} (c : Conn σ) : ELI :=
  match c.state with
  | .init | .reqLineReceiving | .reqHeadersReceiving | .footersReceiving => .read
  | .continueSending | .headersSending | .normalBodyReady | .chunkedBodyReady | .footersSending => .write
  | .bodyReceiving =>
      if c.somePayloadProcessed && hasUnprocessedBody c then
        if !c.haveChunked then (if bufBytes c.buf ≤ c.remaining then .process else .processRead)
        else .processRead
      else .read
  | .closed => .cleanup
  | _ => .process

/-- MHD_connection_update_event_loop_info: the only effect relevant here is the no-space
    handling of check_and_grow_read_buffer_space -/
def updateEventLoopInfo {σ} (cfg : Cfg) (env : IdleEnv) (c : Conn σ) : Out σ :=
  if c.suspended then (c, [])
  else if env.noSpace ∧ wantsRead c ∧ ¬ c.discard then recvNoSpace cfg env c
  else (c, [])

/-- MHD_connection_epoll_update_ -/
def epollUpdate {σ} (cfg : Cfg) (env : IdleEnv) (c : Conn σ) : Out σ :=
  if c.inEpollSet then (c, []) else
  match env.epollAdd with
  | none => (c, [])
  | some true => ({ c with inEpollSet := true }, [])
  | some false =>
      if cfg.epollBypassFixed then
        let (c1, l1) := closeConn c terminatedWithError
        let (c2, l2) := cleanupConnection c1
        (c2, l1 ++ l2)
      else
        let (c2, l2) := cleanupConnection { c with state := .closed }   -- bypass: no notification
        (c2, l2)

def idleFuel {σ} (c : Conn σ) : Nat := 50 * (c.buf.length + 1)

/-- MHD_connection_handle_idle with an explicit bound on the passes of its `while` loop -/
def handleIdleWith {σ} (fuel : Nat) (cfg : Cfg) (app : App σ) (env : IdleEnv) (c : Conn σ) : Out σ :=
  let (c1, l1, f) := idleLoop cfg app env fuel { c with touched := false }
  match f with
  | .dead | .keep => (c1, l1)
  | _ =>
    if env.timedOut ∧ ¬ c1.touched ∧ ¬ c1.suspended then
      let (c2, l2) := closeConn c1 terminatedTimeoutReached
      (c2, l1 ++ l2)
    else
      let (c2, l2) := updateEventLoopInfo cfg env c1
      if c2.state = .closed then
        -- closed while the wait state was computed (no space left): moved to the cleanup list at once
        let (c3, l3) := cleanupConnection c2
        (c3, l1 ++ l2 ++ l3)
      else if ¬ c2.suspended ∧ cfg.epoll then
        let (c3, l3) := epollUpdate cfg env c2
        (c3, l1 ++ l2 ++ l3)
      else (c2, l1 ++ l2)

/-- MHD_connection_handle_idle.  The bound `idleFuel` is never reached (`Mhd.ConnSM.handleIdle_fuel_irrelevant`:
    any larger bound gives the same result), so this is the unbounded loop of the C code. -/
def handleIdle {σ} (cfg : Cfg) (app : App σ) (env : IdleEnv) (c : Conn σ) : Out σ :=
  handleIdleWith (idleFuel c) cfg app env c

/-! ## MHD_connection_handle_read / _write -/

def appendToks : List Tok → List Tok → List Tok
  | [], ys => ys
  | xs, [] => xs
  | xs, y :: ys =>
      match xs.getLast?, y with
      | some (.data a), .data b => xs.dropLast ++ (.data (a + b) :: ys)
      | some .junk, .junk => xs ++ ys
      | _, _ => xs ++ (y :: ys)

def inRequest {σ} (c : Conn σ) : Bool := lt .init c.state && lt c.state .fullReqReceived

def handleRead {σ} (c : Conn σ) : (Ev) → Out σ
  | .recv toks =>
      if c.state = .closed ∨ c.suspended then (c, [])
      else ({ c with buf := appendToks c.buf toks }, [])
  | .recvEof =>
      if c.state = .closed ∨ c.suspended then (c, [])
      else
        let c := { c with readClosed := true }
        if inRequest c then closeConn { c with discard := true } terminatedClientAbort
        else if c.state = .init then closeConn c terminatedCompletedOk
        else closeConn c terminatedWithError
  | .recvErr reset =>
      if c.state = .closed ∨ c.suspended then (c, [])
      else if reset then
        closeConn (if inRequest c then { c with discard := true } else c) terminatedReadError
      else closeError c
  | _ => (c, [])

def handleWrite {σ} (c : Conn σ) (r : WriteRes) : Out σ :=
  if c.suspended then (c, []) else
  match c.state with
  | .continueSending =>
      match r with
      | .err => closeError c
      | .done => ({ c with cont100Sent := true }, [])
      | _ => (c, [])
  | .headersSending =>
      match r with
      | .err => closeError c
      | .done => ({ c with state := .headersSent }, [])
      | _ => (c, [])
  | .normalBodyReady =>
      match r with
      | .err => closeError c
      | .done => ({ c with state := .fullReplySent }, [])
      | _ => (c, [])
  | .chunkedBodyReady =>
      match r with
      | .err => closeError c
      | .done => ({ c with state := .chunkedBodyUnready }, [])
      | _ => (c, [])
  | .footersSending =>
      match r with
      | .err => closeError c
      | .done => ({ c with state := .fullReplySent }, [])
      | _ => (c, [])
  | _ => (c, [])

/-! ## top level -/

def step {σ} (cfg : Cfg) (app : App σ) (c : Conn σ) (e : Ev) : Out σ :=
  if c.fault then (c, []) else
  match e with
  | .start =>
      if c.started then (c, []) else ({ c with started := true, inEpollSet := cfg.epoll }, [.connStart])
  | .startFailed =>
      -- (a connection refused before that point — limits, accept policy, allocation — gets no notification
      --  at all: no event, the record stays unstarted and every later event is ignored)
      if c.started then (c, [])
      else ({ c with started := true, inCleanup := true, cleaned := true, state := .closed }, [.connStart, .connClose])
  | _ =>
    if !c.started ∨ c.cleaned then (c, []) else
    match e with
    | .start => (c, [])
    | .startFailed => (c, [])
    | .recv _ | .recvEof | .recvErr _ => if c.inCleanup then (c, []) else handleRead c e
    | .idle env => if c.inCleanup then (c, []) else handleIdle cfg app env c
    | .write r => if c.inCleanup then (c, []) else handleWrite c r
    | .forceClose =>
        if c.inCleanup ∨ c.suspended then (c, []) else closeConn c terminatedWithError
    | .resume =>
        -- an upgraded connection stays on the suspended list until the application closes it
        if c.inCleanup ∨ c.state = .upgrade then (c, []) else ({ c with suspended := false }, [])
    | .upgradeDone =>
        -- resume_suspended_connections, `urh != NULL` branch: notify, straight to the cleanup list
        if c.inCleanup ∨ c.state ≠ .upgrade ∨ ¬ c.suspended then (c, [])
        else
          let (c1, l1) := notify c terminatedCompletedOk
          ({ c1 with suspended := false, inCleanup := true }, l1)
    | .shutdownClose =>
        -- close_connection: MHD_connection_close_ (DAEMON_SHUTDOWN) and move to the cleanup list
        if c.inCleanup ∨ c.suspended then (c, [])
        else
          let (c1, l1) := closeConn c terminatedDaemonShutdown
          ({ c1 with inCleanup := true }, l1)
    | .appQueue r env =>
        -- the application can only address a request it has been shown; external polling: the call is
        -- permitted outside the handler; MHD_connection_handle_idle is entered directly (`! in_idle`)
        if c.inCleanup ∨ ¬ c.clientAware then (c, [])
        else
          let q := queueResponse env c r
          if q.2.2 ∧ ¬ q.1.suspended then
            ((handleIdle cfg app env q.1).1, q.2.1 ++ (handleIdle cfg app env q.1).2)
          else (q.1, q.2.1)
    | .cleanup =>
        if c.inCleanup then
          let (c1, l1) := dropResp c
          ({ c1 with cleaned := true }, [.connClose] ++ l1)
        else (c, [])

def run {σ} (cfg : Cfg) (app : App σ) (c : Conn σ) : List Ev → Out σ
  | [] => (c, [])
  | e :: es =>
      let (c1, l1) := step cfg app c e
      let (c2, l2) := run cfg app c1 es
      (c2, l1 ++ l2)

def Conn.init {σ} (s : σ) : Conn σ := { app := s }

end Mhd.ConnSM
