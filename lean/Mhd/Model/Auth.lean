/-
  Model of src/microhttpd/gen_auth.c: `find_auth_rq_header_`, `parse_bauth_params`,
  `get_rq_dauth_algo`, `get_rq_dauth_qop`, `parse_dauth_params`, and of
  `MHD_basic_auth_get_username_password3` (basicauth.c).

  Representation.  The C parsers get `(const char *str, size_t str_len)`.  The
  model gets the `str_len` bytes as a list `s` and, separately, `term : Option
  UInt8` = the byte stored at `str[str_len]` (`none`: no such byte, reading it is
  an out-of-bounds access).  The C index `i` is represented by the suffix
  `s.drop i`; "`str_len > i`" is "the suffix is non-empty".  Every place where the
  C code evaluates `str[i]` without `str_len > i` being established is modelled
  explicitly as a read of `term` and yields `Res.fault site` for `term = none`.
  There are exactly two such places (DESIGN §6 F5b): `Site.quotedBackslashEnd`
  (gen_auth.c:520, after a backslash that is the last byte) and `Site.tokenEnd`
  (gen_auth.c:540, the `';' == str[i]` test after an unquoted value that runs to
  the end of the string).  No place reads beyond index `str_len`.

  Offsets reported in `Param.off` are `str_len - (length of the suffix at the
  value start)`, i.e. the C `value_start`.
-/
import Mhd.Model.AuthStr

namespace Mhd.Auth
open Mhd.Gen.Auth

inductive Site
  | quotedBackslashEnd   -- gen_auth.c:520  `0 == str[i]` with i == str_len
  | tokenEnd             -- gen_auth.c:540  `';' == str[i]` with i == str_len
  | fuel                 -- model artefact: main loop ran out of fuel (proved impossible)
  deriving DecidableEq, Repr

inductive Res (α : Type)
  | ok (a : α)
  | reject               -- the C function returns `false`
  | fault (s : Site)     -- the C function reads outside `str[0 .. str_len)` where nothing is
  deriving DecidableEq, Repr

def Res.map {α β : Type} (f : α → β) : Res α → Res β
  | .ok a => .ok (f a)
  | .reject => .reject
  | .fault s => .fault s

def Res.bind {α β : Type} (x : Res α) (f : α → Res β) : Res β :=
  match x with
  | .ok a => f a
  | .reject => .reject
  | .fault s => .fault s

@[simp] theorem Res.map_ok {α β : Type} (f : α → β) (a : α) : (Res.ok a).map f = .ok (f a) := rfl
@[simp] theorem Res.map_reject {α β : Type} (f : α → β) : (Res.reject : Res α).map f = .reject := rfl
@[simp] theorem Res.map_fault {α β : Type} (f : α → β) (s : Site) : (Res.fault s : Res α).map f = .fault s := rfl
@[simp] theorem Res.bind_ok {α β : Type} (f : α → Res β) (a : α) : (Res.ok a).bind f = f a := rfl
@[simp] theorem Res.bind_reject {α β : Type} (f : α → Res β) : (Res.reject : Res α).bind f = .reject := rfl
@[simp] theorem Res.bind_fault {α β : Type} (f : α → Res β) (s : Site) : (Res.fault s : Res α).bind f = .fault s := rfl

def isWs (c : UInt8) : Bool := c = 32 || c = 9

/-- `while (i < str_len && (' ' == str[i] || '\t' == str[i])) i++;` -/
def skipWs : Bytes → Bytes
  | [] => []
  | c :: r => if isWs c then skipWs r else c :: r

/-! ### find_auth_rq_header_ -/

structure Hdr where
  kind : Nat
  name : Bytes
  value : Bytes
  deriving DecidableEq, Repr

/-- one list element of the loop in `find_auth_rq_header_`: `some (offset, rest)` on a match -/
def hdrMatch (tok : Bytes) (h : Hdr) : Option (Nat × Bytes) :=
  if h.kind ≠ headerKind then none
  else if authHeader.length ≠ h.name.length then none
  else if tok.length > h.value.length then none
  else if ! eqClN authHeader h.name then none
  else if ! prefixCl h.value tok then none
  else
    match h.value.drop tok.length with
    | [] => some (tok.length, [])                        -- token is the full header value
    | c :: r => if c = 32 ∨ c = 9 then some (tok.length + 1, r) else none

def findHdrLoop (tok : Bytes) : List Hdr → Nat → Option (Nat × Nat × Bytes)
  | [], _ => none
  | h :: t, k =>
    match hdrMatch tok h with
    | some (off, rest) => some (k, off, rest)
    | none => findHdrLoop tok t (k + 1)

/-- `find_auth_rq_header_ (c, type, &auth_value)`: index of the header in the list,
    offset of `auth_value.str` in its value, the bytes of `auth_value`.
    `stateOk` = `MHD_CONNECTION_HEADERS_PROCESSED <= c->state`. -/
def findAuthHeader (stateOk : Bool) (tok : Bytes) (hs : List Hdr) : Option (Nat × Nat × Bytes) :=
  if ! stateOk then none else findHdrLoop tok hs 0

/-! ### parse_bauth_params, MHD_basic_auth_get_username_password3 -/

/-- the token68 loop: `some (token, rest)`; `none` = NUL, ',' or ';' inside -/
def scanTok68 : Bytes → Option (Bytes × Bytes)
  | [] => some ([], [])
  | c :: r =>
    if c = 32 ∨ c = 9 then some ([], c :: r)
    else if c = 0 then none
    else if c = 44 ∨ c = 59 then none
    else (scanTok68 r).map fun (t, rest) => (c :: t, rest)

/-- `parse_bauth_params`: `ok none` = empty parameter string (token68 stays NULL),
    `ok (some (off, tok))` = the token68 slice. -/
def parseBasic (s : Bytes) : Res (Option (Nat × Bytes)) :=
  match skipWs s with
  | [] => .ok none
  | r0 =>
    match scanTok68 r0 with
    | none => .reject
    | some (tok, r1) =>
      match skipWs r1 with
      | [] => .ok (some (s.length - r0.length, tok))
      | _ :: _ => .reject                                -- garbage after the token68

/-- the split at the first ':' done with `memchr` -/
def splitColon : Bytes → Bytes × Option Bytes
  | [] => ([], none)
  | c :: r =>
    if c = 58 then ([], some r)
    else
      let (u, p) := splitColon r
      (c :: u, p)

/-- decoding part of `MHD_basic_auth_get_username_password3` for a token68 -/
def basicDecode (tok : Bytes) : Option (Bytes × Option Bytes) :=
  match b64Dec tok with
  | none => none
  | some dec => if dec.length = 0 then none else some (splitColon dec)

/-- `MHD_basic_auth_get_username_password3` given the value found by `find_auth_rq_header_` -/
def basicInfo (authValue : Bytes) : Option (Bytes × Option Bytes) :=
  match parseBasic authValue with
  | .ok (some (_, tok)) => if tok.length = 0 then none else basicDecode tok
  | _ => none

/-! ### get_rq_dauth_algo, get_rq_dauth_qop -/

structure Param where
  off : Nat          -- value_start
  raw : Bytes        -- value.str[0 .. value.len)
  quoted : Bool      -- set only when a backslash occurred inside DQUOTEs
  deriving DecidableEq, Repr

/-- an if-chain `if (EQ (value, TOKEN_k)) return CONST_k;` -/
def chainFind (eq : Bytes → Bool) : List (Bytes × Nat) → Nat → Nat
  | [], dflt => dflt
  | (tok, c) :: t, dflt => if eq tok then c else chainFind eq t dflt

/-- `get_rq_dauth_algo`; the two chains are regenerated from the source -/
def algoOf : Option Param → Nat
  | none => algoAbsent
  | some p =>
    if p.quoted then chainFind (fun tok => eqQuotedCl p.raw tok) algoQuotedChain algoNoMatch
    else chainFind (fun tok => eqClS tok p.raw) algoTokenChain algoNoMatch

/-- `get_rq_dauth_qop` -/
def qopOf : Option Param → Nat
  | none => qopAbsent
  | some p =>
    if p.quoted then chainFind (fun tok => eqQuotedCl p.raw tok) qopQuotedChain qopNoMatch
    else chainFind (fun tok => eqClS tok p.raw) qopTokenChain qopNoMatch

/-- post-processing of the local `userhash` parameter -/
def userhashOf : Option Param → Bool
  | none => false
  | some p => if p.quoted then eqQuotedCl p.raw userhashTrueQuoted else eqClS userhashTrueToken p.raw

/-! ### parse_dauth_params -/

def isDelim (c : UInt8) : Bool := c = 61 || c = 32 || c = 9 || c = 44 || c = 59

/-- the condition of the `for (p …)` loop body for one table entry -/
def nameMatches (nm inp : Bytes) : Bool :=
  prefixCl inp nm &&
    (match inp.drop nm.length with
     | [] => true
     | c :: _ => isDelim c)

def findName : List Bytes → Nat → Bytes → Option (Nat × Nat)
  | [], _, _ => none
  | nm :: t, k, inp => if nameMatches nm inp then some (k, nm.length) else findName t (k + 1) inp

/-- value in quotation marks (gen_auth.c:513–528), input = bytes after the opening quote:
    raw value, `quoted` flag, rest after the closing quote -/
def scanQ (term : Option UInt8) : Bytes → Res (Bytes × Bool × Bytes)
  | [] => .reject                                        -- no closing quote
  | c :: r =>
    if c = 34 then .ok ([], false, r)
    else if c = 92 then
      match r with
      | [] =>
        -- i == str_len: `0 == str[i]` reads the byte after the string; both outcomes
        -- of the test end in `return false`
        match term with
        | none => .fault .quotedBackslashEnd
        | some _ => .reject
      | c2 :: r2 =>
        if c2 = 0 then .reject
        else (scanQ term r2).map fun x => (92 :: c2 :: x.1, true, x.2.2)
    else if c = 0 then .reject
    else (scanQ term r).map fun x => (c :: x.1, x.2.1, x.2.2)

/-- value without quotation marks (gen_auth.c:532–542): raw value, rest -/
def scanTok (term : Option UInt8) : Bytes → Res (Bytes × Bytes)
  | [] =>
    -- i == str_len: `';' == str[i]` reads the byte after the string
    match term with
    | none => .fault .tokenEnd
    | some t => if t = 59 then .reject else .ok ([], [])
  | c :: r =>
    if c = 44 ∨ c = 32 ∨ c = 9 then .ok ([], c :: r)
    else if c = 59 then .reject                          -- semicolon in parameter value
    else if c = 0 then .reject
    else if c = 34 then .reject                          -- quotation mark inside unquoted value (fix F35)
    else (scanTok term r).map fun x => (c :: x.1, x.2)

/-- "no matching parameter name" branch (gen_auth.c:562–582).  `inQ` = inside the
    quoted part.  Result: rest at the next ',' or the empty rest. -/
def skipU : Bool → Bytes → Res Bytes
  | false, [] => .ok []
  | false, c :: r =>
    if c = 44 then .ok (c :: r)
    else if c = 0 ∨ c = 59 then .reject
    else if c = 34 then skipU true r
    else skipU false r
  | true, [] => .reject                                  -- no closing quote
  | true, c :: r =>
    if c = 34 then skipU false r
    else if c = 0 then .reject
    else if c = 92 then
      match r with
      | [] => .reject                                    -- i = str_len + 1, nothing is read
      | _ :: r2 => skipU true r2
    else skipU true r

/-- `if ((str_len > i) && ('"' == str[i]))` … `else` …: the parameter value.
    Result: length of the suffix at the value start, raw value, quoted flag, rest. -/
def valueAt (term : Option UInt8) (r3 : Bytes) : Res (Nat × Bytes × Bool × Bytes) :=
  let tok : Res (Nat × Bytes × Bool × Bytes) := (scanTok term r3).map fun x => (r3.length, x.1, false, x.2)
  match r3 with
  | [] => tok
  | c :: r4 => if c = 34 then (scanQ term r4).map fun x => (r4.length, x.1, x.2.1, x.2.2) else tok

/-- whitespace after the value, then end of string or ',' ("garbage after parameter value") -/
def afterValue (r5 : Bytes) : Option Bytes :=
  match skipWs r5 with
  | [] => some []
  | c :: r6 => if c ≠ 44 then none else some (c :: r6)

/-- after `i += tk_name->len`: OWS "=" OWS value OWS, then end of string or ','. -/
def knownValue (term : Option UInt8) (afterName : Bytes) : Res (Nat × Bytes × Bool × Bytes) :=
  match skipWs afterName with
  | [] => .reject                                        -- no equal sign
  | c :: r2 =>
    if c ≠ 61 then .reject
    else
      (valueAt term (skipWs r2)).bind fun x =>
        match afterValue x.2.2.2 with
        | some r6 => .ok (x.1, x.2.1, x.2.2.1, r6)
        | none => .reject

abbrev Slots := Nat → Option Param

def Slots.empty : Slots := fun _ => none
def Slots.set (st : Slots) (k : Nat) (p : Param) : Slots := fun j => if j = k then some p else st j

/-- `if (str_len > i) i++;` then skip whitespace before the next parameter name -/
def nextParam : Bytes → Bytes
  | [] => []
  | _ :: r => skipWs r

/-- the `while (str_len > i)` loop; `n` = `str_len` -/
def paramLoop (term : Option UInt8) (n : Nat) : Nat → Slots → Bytes → Res Slots
  | 0, _, _ => .fault .fuel
  | fuel + 1, st, inp =>
    match inp with
    | [] => .ok st
    | c :: _ =>
      if c = 61 then .reject                             -- '=' as the first character
      else
        match findName paramNames 0 inp with
        | some (p, nmLen) =>
          (knownValue term (inp.drop nmLen)).bind fun x =>
            paramLoop term n fuel (st.set p ⟨n - x.1, x.2.1, x.2.2.1⟩) (nextParam x.2.2.2)
        | none => (skipU false inp).bind fun r6 => paramLoop term n fuel st (nextParam r6)

/-- indices into `tk_names[]` / `params[]` (checked against `Gen.paramNames` / `Gen.paramSlots` by `Mhd.C14.param_table`) -/
def kNonce : Nat := 0
def kOpaque : Nat := 1
def kAlgorithm : Nat := 2
def kResponse : Nat := 3
def kUsername : Nat := 4
def kUsernameExt : Nat := 5
def kRealm : Nat := 6
def kUri : Nat := 7
def kQop : Nat := 8
def kCnonce : Nat := 9
def kNc : Nat := 10
def kUserhash : Nat := 11

/-- `struct MHD_RqDAuth` after a successful `parse_dauth_params` (slots 2 and 11 are
    the locals `algorithm` and `userhash`) -/
structure DAuth where
  slots : Slots
  userhash : Bool
  algo3 : Nat
  qop : Nat

/-- `parse_dauth_params (str, str_len, pdauth)` -/
def parseDigest (s : Bytes) (term : Option UInt8) : Res DAuth :=
  (paramLoop term s.length (s.length + 1) Slots.empty (skipWs s)).map fun st =>
    { slots := st, userhash := userhashOf (st kUserhash), algo3 := algoOf (st kAlgorithm), qop := qopOf (st kQop) }

end Mhd.Auth
