/-
  A complete reply as it appears on the wire: the 100-continue decision, the
  queue-time validation, the header block, the body (identity / chunked /
  close-delimited) and the chunked footer — the composition performed by
  `MHD_connection_handle_idle` / `MHD_connection_handle_write` for the states
  START_REPLY … FULL_REPLY_SENT.
-/
import Mhd.Model.Reply

namespace Mhd.Reply
open Mhd.ReplyStr Mhd.Resp
open Mhd.Gen.Reply (sizeUnknown maxChunk)

/-- how the content-reader callback ends once its pieces are used up -/
inductive CbEnd where
  | eos | err
deriving Repr, DecidableEq, Inhabited

/-- where the body bytes come from -/
inductive BodySrc where
  /-- static / copied buffer: `crc == NULL`, all data present -/
  | buffer (data : Bytes)
  /-- content-reader callback: successive non-empty returns, then `ending` -/
  | callback (pieces : List Bytes) (ending : CbEnd)
deriving Repr, DecidableEq, Inhabited

structure BodyOut where
  bytes : Bytes
  /-- the body (and footer) was produced completely; `false` = the connection is closed abruptly -/
  complete : Bool
deriving Repr, DecidableEq, Inhabited

/-- identity-coded body of a callback response (NORMAL_BODY_UNREADY/READY loop) -/
def normalCallbackBody (total : Nat) : List Bytes → Nat → Bytes → BodyOut
  | [], pos, acc => ⟨acc, pos == total⟩
  | p :: ps, pos, acc =>
    if pos == total then ⟨acc, true⟩
    else
      let p' := p.take (total - pos)       -- the callback is never offered more room than is left
      normalCallbackBody total ps (pos + p'.length) (acc ++ p')

/-- identity-coded body; `startPos` = `rsp_write_position` when the body phase begins -/
def normalBody (total : Nat) (src : BodySrc) (startPos : Nat) : BodyOut :=
  if total == 0 then ⟨[], true⟩ else
  match src with
  | .buffer data =>
    if startPos == total then ⟨[], true⟩
    else if startPos < total then ⟨data.drop startPos, true⟩
    else ⟨[], false⟩                         -- never reaches FULL_REPLY_SENT
  | .callback pieces ending =>
    let o := normalCallbackBody total pieces startPos []
    if o.complete then o
    else ⟨o.bytes, total == sizeUnknown && ending == .eos⟩   -- close-delimited body ends with EOS

/-- chunked body of a buffer response (data already "ready") -/
def chunkedBufferBody (wbSize total : Nat) (data : Bytes) : Nat → Nat → Bytes → Option Bytes
  | 0, _, acc => some acc
  | fuel + 1, pos, acc =>
    if pos == total then some acc else
    let stf := chunkSizeToFill wbSize (total - pos)
    let n := if data.length - pos > stf then stf else data.length - pos
    if n == 0 then none else
    match chunkFrame ((data.drop pos).take n) with
    | none => none
    | some f => chunkedBufferBody wbSize total data fuel (pos + n) (acc ++ f)

/-- chunked body of a callback response: `(bytes, finished)`; `finished = false` ⇒ closed abruptly -/
def chunkedCallbackBody (wbSize total : Nat) (ending : CbEnd) : List Bytes → Nat → Bytes → Bytes × Bool
  | [], pos, acc => if pos == total then (acc, true) else (acc, ending == .eos)
  | p :: ps, pos, acc =>
    if pos == total then (acc, true) else
    let left := if total == sizeUnknown then sizeUnknown else total - pos
    let stf := chunkSizeToFill wbSize left
    let p' := p.take stf                       -- the callback is never offered more room than `size_to_fill`
    match chunkFrame p' with
      | none => (acc, false)
      | some f => chunkedCallbackBody wbSize total ending ps (pos + p'.length) (acc ++ f)

/-- chunked body followed by the footer -/
def chunkedBody (wbSize : Nat) (r : Resp) (src : BodySrc) (startPos : Nat) : BodyOut :=
  let total := r.totalSize
  let body : Bytes × Bool :=
    if total == 0 then ([], true) else
    match src with
    | .buffer data =>
      (match chunkedBufferBody wbSize total data (data.length + 1) startPos [] with
       | some b => (b, true)
       | none => ([], false))
    | .callback pieces ending => chunkedCallbackBody wbSize total ending pieces startPos []
  if ! body.2 then ⟨body.1, false⟩
  else match buildFooter r wbSize with
    | some f => ⟨body.1 ++ f, true⟩
    | none => ⟨body.1, false⟩

structure ReplyOut where
  wire : Bytes
  ka : KA
  props : Props
  /-- the reply went out completely (otherwise the connection was closed half-way) -/
  complete : Bool
deriving Repr, DecidableEq, Inhabited

/-- everything between START_REPLY and FULL_REPLY_SENT for one queued response.
    `startPos` = `rsp_write_position` left behind by `MHD_queue_response` (and by an
    earlier 102 reply on the same request). -/
def sendReply (c : Conn) (r : Resp) (q : Queued) (src : BodySrc) (date : Option Bytes)
    (wbSize : Nat) (startPos : Nat) : ReplyOut :=
  let (ka, props, hdr) := buildHeaderResponse c r q.code q.icy date wbSize
  match hdr with
  | none => ⟨[], ka, props, false⟩
  | some h =>
    if r.upgrade then ⟨h, ka, props, true⟩
    else if ! props.sendReplyBody then ⟨h, ka, props, true⟩
    else
      let b := if props.chunked then chunkedBody wbSize r src startPos else normalBody r.totalSize src startPos
      ⟨h ++ b.bytes, ka, props, b.complete⟩

/-- `rsp_write_position` after `MHD_queue_response` -/
def startPosAfterQueue (q : Queued) (r : Resp) (prev : Nat) : Nat :=
  if q.bodyPretendSent then r.totalSize else prev

/-- does the daemon close the connection after this complete reply?
    (`connection_reset (reuse = USE_KEEPALIVE == keepalive && !read_closed && !discard_request)`) -/
def closesAfter (c : Conn) (ka : KA) : Bool :=
  ! (ka == .useKeepalive && ! c.readClosed && ! c.discardRequest)

/-! ### error replies generated by the daemon itself (`transmit_error_response_len`) -/

/-- the response object `transmit_error_response_len` builds: `MHD_create_response_from_buffer_static
    (message_len, message)` and, for the automatic redirect of a request target with whitespace, one
    header entry ("Location") appended WITHOUT any check (`MHD_add_response_entry_no_alloc_`) -/
def errorResponse (msgLen : Nat) (hdr : Option (Bytes × Bytes)) : Resp :=
  match hdr with
  | none => Resp.create msgLen
  | some (n, v) => { Resp.create msgLen with hdrs := [⟨.header, n, v⟩] }

inductive ErrResult where
  /-- the connection goes to CLOSED without any reply: second error on the same request, a reply is being
      sent already, `MHD_queue_response` refused, or no room for the header block even in the emptied pool -/
  | closedNoReply
  /-- the error reply is sent through the normal reply path (HEADERS_SENDING …) -/
  | reply (out : ReplyOut)
deriving Repr, DecidableEq, Inhabited

/-- `transmit_error_response_len (connection, status_code, message, message_len, header_name, …)`.
    `stopWithError` = `connection->stop_with_error`, `tooLate` = `MHD_CONNECTION_START_REPLY < state`,
    `wb1` = the write buffer `build_header_response` gets at the first attempt, `wb2` = at the retry after
    `MHD_pool_reset` ("Retry with empty buffer"). -/
def transmitErrorResponse (c : Conn) (stopWithError tooLate shutdown : Bool) (statusCode : Nat) (msg : Bytes)
    (hdr : Option (Bytes × Bytes)) (date : Option Bytes) (wb1 wb2 : Nat) : ErrResult :=
  if stopWithError then .closedNoReply
  else if tooLate then .closedNoReply
  else
    let c1 := { c with discardRequest := true }
    let r := errorResponse msg.length hdr
    -- `connection->state = MHD_CONNECTION_FULL_REQ_RECEIVED`; a response queued earlier has been destroyed
    match queueResponse c1 .fullReqReceived false shutdown false statusCode r with
    | none => .closedNoReply
    | some q =>
      -- "Do not reuse this connection."
      let c2 := { c1 with keepalive := .mustClose }
      let wb := if (buildHeaderResponse c2 r q.code q.icy date wb1).2.2.isSome then wb1 else wb2
      if (buildHeaderResponse c2 r q.code q.icy date wb).2.2.isNone then .closedNoReply
      else .reply (sendReply c2 r q (.buffer msg) date wb (startPosAfterQueue q r 0))

end Mhd.Reply
