/-
  Byte-string helpers used by the POST-processor model (`postprocessor.c`).

  C strings are `List UInt8` *without* the terminating NUL; `cstr` cuts an array
  at its first NUL (what every `str*` function of libc sees).  The helpers mirror
  `MHD_unescape_plus`, `MHD_http_unescape` (= `MHD_str_pct_decode_in_place_lenient_`,
  `MHD_FAVOR_FAST_CODE` variant), `MHD_str_equal_caseless_n_`, `strstr`, `memchr`.
-/
namespace Mhd.PP

abbrev Bytes := List UInt8

def cEq : UInt8 := 0x3D      -- '='
def cAmp : UInt8 := 0x26     -- '&'
def cLF : UInt8 := 0x0A
def cCR : UInt8 := 0x0D
def cPct : UInt8 := 0x25     -- '%'
def cPlus : UInt8 := 0x2B    -- '+'
def cSp : UInt8 := 0x20
def cDash : UInt8 := 0x2D    -- '-'
def cQuote : UInt8 := 0x22   -- '"'

/-- bytes of an ASCII string literal -/
def ofStr (s : String) : Bytes := s.toUTF8.toList

/-- what a C string function sees of an array: the bytes before the first NUL -/
def cstr (l : Bytes) : Bytes := l.takeWhile (· ≠ 0)

/-- `buf[s .. e)` -/
def slice (l : Bytes) (s e : Nat) : Bytes := (l.drop s).take (e - s)

/-- `toxdigitvalue` -/
def hexVal (c : UInt8) : Option Nat :=
  if 0x30 ≤ c ∧ c ≤ 0x39 then some (c.toNat - 0x30)
  else if 0x41 ≤ c ∧ c ≤ 0x46 then some (c.toNat - 0x41 + 10)
  else if 0x61 ≤ c ∧ c ≤ 0x66 then some (c.toNat - 0x61 + 10)
  else none

/-- `MHD_unescape_plus` on a C string -/
def plusSp (l : Bytes) : Bytes := l.map fun c => if c = cPlus then cSp else c

/-- `MHD_str_pct_decode_in_place_lenient_` on a C string (no NUL inside):
    the decoded bytes `str[0..w)`.  A '%' that does not start a valid escape is copied as it is
    and the characters after it are scanned again (they may start a valid escape). -/
def pctDecode : Bytes → Bytes
  | [] => []
  | c :: rest =>
    if c = cPct then
      match rest with
      | [] => [c]
      | [d1] => [c, d1]
      | d1 :: d2 :: r2 =>
        match hexVal d1, hexVal d2 with
        | some h, some l => UInt8.ofNat (h * 16 + l) :: pctDecode r2
        | _, _ => c :: pctDecode (d1 :: d2 :: r2)
    else c :: pctDecode rest
termination_by l => l.length

/-- `MHD_unescape_plus (s); MHD_http_unescape (s)` applied to the C string in an array -/
def unescape (arr : Bytes) : Bytes := pctDecode (plusSp (cstr arr))

def isUpper (c : UInt8) : Bool := 0x41 ≤ c && c ≤ 0x5A

/-- `charsequalcaseless` -/
def eqCI (c1 c2 : UInt8) : Bool :=
  c1 == c2 || (if isUpper c1 then c1 + 32 == c2 else (isUpper c2 && c1 == c2 + 32))

/-- `MHD_str_equal_caseless_n_ (s1, s2, n)` on C strings (implicit NUL at the end) -/
def eqCaselessN : Bytes → Bytes → Nat → Bool
  | _, _, 0 => true
  | s1, [], _ + 1 => s1.isEmpty
  | [], _ :: _, _ + 1 => false
  | c1 :: t1, c2 :: t2, n + 1 => if eqCI c1 c2 then eqCaselessN t1 t2 n else false

/-- `strstr (hay, needle)`: the suffix of `hay` starting at the first occurrence -/
def strstr (needle : Bytes) : Bytes → Option Bytes
  | [] => if needle.isEmpty then some [] else none
  | c :: t => if needle.isPrefixOf (c :: t) then some (c :: t) else strstr needle t

/-- index of the first `c` in `l` (`memchr`) -/
def findByte (c : UInt8) (l : Bytes) : Option Nat :=
  match l with
  | [] => none
  | x :: t => if x = c then some 0 else (findByte c t).map (· + 1)

/-- `try_get_value (buf, key, &dst)` for `dst == NULL`: scans for `key="value"`
    (key at the start or preceded by a space, and — fix C15_hdrparse — not inside the quoted
    value of another parameter: `inq` = the scan is inside such a quoted string, whose closing
    quote exists).  `none` = destination left NULL. -/
def tryGetValueGo (key : Bytes) : Bool → Option UInt8 → Bytes → Option Bytes
  | _, _, [] => none
  | true, _, c :: t => tryGetValueGo key (c != cQuote) (some c) t
  | false, prev, c :: t =>
    let rest := c :: t
    if c = cQuote then
      if t.contains cQuote then tryGetValueGo key true (some c) t else none   -- no end-quote: return
    else if key.isPrefixOf rest ∧ rest[key.length]? = some cEq ∧ (prev = none ∨ prev = some cSp) then
      if rest[key.length + 1]? = some cQuote then
        let v := rest.drop (key.length + 2)
        if v.contains cQuote then some (v.takeWhile (· ≠ cQuote)) else none
      else none
    else tryGetValueGo key false (some c) t

def tryGetValue (buf key : Bytes) (dst : Option Bytes) : Option Bytes :=
  match dst with
  | some d => some d
  | none => tryGetValueGo key false none buf

/-- `try_match_header (prefix, len, line, &suffix)` for `suffix == NULL`
    (fix C15_hdrparse: the prefix is matched at the start of the line only). -/
def tryMatchGo (pfx : Bytes) (line : Bytes) : Option Bytes :=
  if eqCaselessN pfx line pfx.length then some (line.drop pfx.length) else none

def tryMatchHeader (pfx line : Bytes) (suffix : Option Bytes) : Option Bytes :=
  match suffix with
  | some s => some s
  | none => tryMatchGo pfx line

end Mhd.PP
