/-
  Model of src/microhttpd/memorypool.c for BOTH build variants:

  * `rz = 0`: the ordinary build (`_MHD_RED_ZONE_SIZE` = 0, poisoning macros are no-ops) — this is
    `Mhd.Model.Pool` again (see `Mhd.PoolRz.erase_*` in `Mhd.Proofs.PoolRz`: the two models agree);
  * `rz ≠ 0`: the `MHD_ASAN_POISON_ACTIVE` build: every block is followed by a red zone of
    `_MHD_RED_ZONE_SIZE` (= `ALIGN_SIZE`) bytes (`ROUND_TO_ALIGN_PLUS_RED_ZONE`), the arena bytes outside
    the handed-out blocks are user-poisoned, `MHD_pool_deallocate` has no early return for
    `block_size == 0` and decides with `__asan_region_is_poisoned` whether the freed space
    needs a new red zone in front of it, `MHD_pool_get_free` keeps one red zone back.

  Pointers are offsets into the arena (`none` = NULL); `size_t` additions wrap modulo 2^64 where the C
  adds (`ROUND_TO_ALIGN`, `… + _MHD_RED_ZONE_SIZE`, `old_offset + new_size`).  The user-poison state of
  the arena is a `List Bool` (one flag per byte, `true` = poisoned), updated where the C calls
  `_MHD_POISON_MEMORY` / `_MHD_UNPOISON_MEMORY`.

  `chk` is the regenerated behaviour probe `Mhd.Gen.Pool.sizeWrapByCompare`: how the code tests for
  "size too close to SIZE_MAX" — `true`: `asize < size`; `false`: `(0 == asize) && (0 != size)`,
  which in the red-zone build lets the sizes `SIZE_MAX-14 … SIZE_MAX` through.
-/
import Mhd.Model.Pool

namespace Mhd.PoolRz
open Mhd.Pool (W A roundUp zeroRange writeAt readAt)

/-- the build variant -/
structure Var where
  /-- `_MHD_RED_ZONE_SIZE` -/
  rz : Nat
  /-- the wrap test on the rounded size is `asize < size` -/
  chk : Bool
  deriving Repr, DecidableEq

structure Pool where
  size : Nat
  pos  : Nat
  end_ : Nat
  mem  : List UInt8
  /-- ASan user poisoning of the arena bytes -/
  psn  : List Bool
  deriving Repr, DecidableEq

/-- `ROUND_TO_ALIGN_PLUS_RED_ZONE(n)`: both additions wrap as `size_t` -/
def roundRz (v : Var) (n : Nat) : Nat := (roundUp n + v.rz) % W

/-- "size too close to SIZE_MAX" as the code tests it -/
def tooBig (v : Var) (n asize : Nat) : Bool :=
  if v.chk then decide (asize < n) else decide (asize = 0 ∧ n ≠ 0)

/-- `_MHD_POISON_MEMORY` (`b = true`) / `_MHD_UNPOISON_MEMORY` (`b = false`) of `n` bytes at `off` -/
def setPsn (m : List Bool) (off n : Nat) (b : Bool) : List Bool :=
  m.take off ++ List.replicate (min n (m.length - off)) b ++ m.drop (off + n)

/-- `NULL == __asan_region_is_poisoned (mem + off, n)`: no byte of the region is poisoned -/
def noPoison (m : List Bool) (off n : Nat) : Bool := ((m.drop off).take n).all (fun b => !b)

/-- `MHD_pool_create`: the whole arena is poisoned -/
def create (allocSize : Nat) : Pool :=
  { size := allocSize, pos := 0, end_ := allocSize, mem := List.replicate allocSize 0,
    psn := List.replicate allocSize true }

/-- `MHD_pool_get_free` -/
def getFree (v : Var) (p : Pool) : Nat :=
  if v.rz ≠ 0 ∧ p.end_ - p.pos ≤ v.rz then 0 else p.end_ - p.pos - v.rz

/-- `MHD_pool_allocate` -/
def allocate (v : Var) (p : Pool) (size : Nat) (fromEnd : Bool) : Pool × Option Nat :=
  let asize := roundRz v size
  if tooBig v size asize then (p, none)
  else if asize > p.end_ - p.pos then (p, none)
  else if fromEnd then
    ({ p with end_ := p.end_ - asize, psn := setPsn p.psn (p.end_ - asize) size false }, some (p.end_ - asize))
  else ({ p with pos := p.pos + asize, psn := setPsn p.psn p.pos size false }, some p.pos)

/-- `MHD_pool_is_resizable_inplace` -/
def isResizableInplace (v : Var) (p : Pool) (block : Option Nat) (blockSize : Nat) : Bool :=
  match block with
  | none => false
  | some off => p.pos == roundRz v ((off + blockSize) % W)

/-- `MHD_pool_try_alloc`: result and `*required_bytes` (when refused) -/
def tryAlloc (v : Var) (p : Pool) (size : Nat) : Pool × Option Nat × Option Nat :=
  let asize := roundRz v size
  if tooBig v size asize then (p, none, some (W - 1))
  else if asize > p.end_ - p.pos then
    if asize ≤ p.end_ then (p, none, some (asize - (p.end_ - p.pos)))
    else (p, none, some (W - 1))
  else ({ p with end_ := p.end_ - asize, psn := setPsn p.psn (p.end_ - asize) size false },
        some (p.end_ - asize), none)

/-- the "Need to allocate new block" tail of `MHD_pool_reallocate` -/
def reallocFresh (v : Var) (p : Pool) (old : Option Nat) (oldSize newSize : Nat) : Pool × Option Nat :=
  let asize := roundRz v newSize
  if tooBig v newSize asize ∨ asize > p.end_ - p.pos then (p, none)
  else
    let newOff := p.pos
    let p1 := { p with pos := p.pos + asize, psn := setPsn p.psn newOff newSize false }
    match old with
    | some o =>
      if oldSize ≠ 0 then
        let m1 := writeAt p1.mem newOff (readAt p1.mem o oldSize)
        ({ p1 with mem := zeroRange m1 o oldSize, psn := setPsn p1.psn o oldSize true }, some newOff)
      else (p1, some newOff)
    | none => (p1, some newOff)

/-- the shrinking `memset` + poison at the head of `MHD_pool_reallocate` -/
def shrinkHead (p : Pool) (o oldSize newSize : Nat) : Pool :=
  if oldSize > newSize then
    { p with mem := zeroRange p.mem (o + newSize) (oldSize - newSize),
             psn := setPsn p.psn (o + newSize) (oldSize - newSize) true }
  else p

/-- `MHD_pool_reallocate` -/
def reallocate (v : Var) (p : Pool) (old : Option Nat) (oldSize newSize : Nat) : Pool × Option Nat :=
  match old with
  | none => reallocFresh v p none oldSize newSize
  | some o =>
    let shrinking := oldSize > newSize
    let p0 := shrinkHead p o oldSize newSize
    if p0.pos = roundRz v ((o + oldSize) % W) then
      let newApos := roundRz v ((o + newSize) % W)
      if !shrinking ∧ (newApos > p0.end_ ∨ newApos < p0.pos ∨ newSize > (p0.end_ + W - o) % W) then (p, none)
      else ({ p0 with pos := newApos, psn := setPsn p0.psn o newSize false }, some o)
    else if shrinking then (p0, some o)
    else reallocFresh v p0 (some o) oldSize newSize

/-- the block "is the last allocated block" branch of `MHD_pool_deallocate` for a front block at the
    (already aligned or not) offset `off`: where the front cursor goes, what gets poisoned -/
def deallocFront (v : Var) (p : Pool) (off : Nat) : Pool :=
  let algStart := roundUp off
  if v.rz = 0 then { p with pos := algStart }
  else if algStart ≠ off then { p with pos := algStart, psn := setPsn p.psn off (algStart - off) true }
  else if algStart ≠ 0 then
    -- need_red_zone_before
    if noPoison p.psn (algStart - v.rz) v.rz then
      { p with pos := algStart + v.rz, psn := setPsn p.psn algStart v.rz true }
    else { p with pos := algStart }
  else { p with pos := algStart }

/-- `MHD_pool_deallocate` -/
def deallocate (v : Var) (p : Pool) (block : Option Nat) (blockSize : Nat) : Pool :=
  match block with
  | none => p
  | some off =>
    -- "Zero size, no need to do anything": only without MHD_ASAN_POISON_ACTIVE
    if blockSize = 0 ∧ v.rz = 0 then p
    else
      let p0 := if blockSize ≠ 0 then
                  { p with mem := zeroRange p.mem off blockSize, psn := setPsn p.psn off blockSize true }
                else p
      if off ≤ p0.pos then
        if roundRz v ((off + blockSize) % W) = p0.pos then deallocFront v p0 off else p0
      else
        if off = p0.end_ then { p0 with end_ := roundRz v ((off + blockSize) % W) } else p0

/-- contents after the `memmove (pool->memory, keep, copy_bytes)` of `MHD_pool_reset` -/
def resetMove (m : List UInt8) (keep : Option Nat) (copyBytes : Nat) : List UInt8 :=
  match keep with
  | some k => if k ≠ 0 ∧ copyBytes ≠ 0 then writeAt m 0 (readAt m k copyBytes) else m
  | none => m

/-- poison state after `MHD_pool_reset`: `[0, new_size)` addressable, the rest poisoned -/
def resetPsn (p : Pool) (copyBytes newSize : Nat) : List Bool :=
  let s1 := setPsn p.psn 0 newSize false
  let s2 := if p.size > copyBytes then setPsn s1 copyBytes (p.size - copyBytes) false else s1
  setPsn s2 newSize (p.size - newSize) true

/-- `MHD_pool_reset` -/
def reset (v : Var) (p : Pool) (keep : Option Nat) (copyBytes newSize : Nat) : Pool :=
  let m0 := resetMove p.mem keep copyBytes
  let m1 := if p.size > copyBytes then zeroRange m0 copyBytes (p.size - copyBytes) else m0
  { p with mem := m1, pos := roundRz v newSize, end_ := p.size, psn := resetPsn p copyBytes newSize }

end Mhd.PoolRz
