/-
  The per-request cache of the Authorization parameters (`connection->rq.bauth_tried / bauth`,
  `rq.dauth_tried / dauth`) behind `MHD_get_rq_bauth_params_` / `MHD_get_rq_dauth_params_`, and the three
  public API functions on top of it.  `stateOk` = `MHD_CONNECTION_HEADERS_PROCESSED <= connection->state`
  at the time of the call (false only inside the callback of MHD_OPTION_URI_LOG_CALLBACK).
  `connection_reset` clears `rq` (memset) for the next request on the connection: `RqAuth.init`.
-/
import Mhd.Model.AuthInfo

namespace Mhd.Auth
open Mhd.Gen.Auth

structure RqAuth where
  bTried : Bool
  b : Option (Option (Nat × Bytes))      -- `rq.bauth`: none = NULL; token68 slice (inner none: `token68.str == NULL`)
  dTried : Bool
  d : Option (Bytes × DAuth)             -- `rq.dauth` (with the header text it points into): none = NULL

/-- `rq` after `connection_reset` / for a new connection -/
def RqAuth.init : RqAuth := ⟨false, none, false, none⟩

/-- what `find_auth_rq_header_` + `parse_bauth_params` deliver for the request headers -/
def bauthParams (hs : List Hdr) : Option (Option (Nat × Bytes)) :=
  match findAuthHeader true basicBase hs with
  | none => none
  | some (_, _, av) =>
    match parseBasic av with
    | .ok x => some x
    | _ => none

/-- `MHD_get_rq_bauth_params_` -/
def getBauth (stateOk : Bool) (hs : List Hdr) (c : RqAuth) : Option (Option (Nat × Bytes)) × RqAuth :=
  if c.bTried then (c.b, c)
  else if ! stateOk then (none, c)                       -- called too early: nothing is cached
  else (bauthParams hs, { c with bTried := true, b := bauthParams hs })

/-- `MHD_get_rq_dauth_params_` -/
def getDauth (stateOk : Bool) (hs : List Hdr) (c : RqAuth) : Res (Option (Bytes × DAuth) × RqAuth) :=
  if c.dTried then .ok (c.d, c)
  else if ! stateOk then .ok (none, c)
  else (dauthParams hs).map fun o => (o, { c with dTried := true, d := o })

/-- decoding part of `MHD_basic_auth_get_username_password3` -/
def basicOf : Option (Option (Nat × Bytes)) → Option (Bytes × Option Bytes)
  | some (some (_, tok)) => if tok.length = 0 then none else basicDecode tok
  | _ => none

/-- `MHD_basic_auth_get_username_password3 (connection)` -/
def basicQ (stateOk : Bool) (hs : List Hdr) (c : RqAuth) : Option (Bytes × Option Bytes) × RqAuth :=
  (basicOf (getBauth stateOk hs c).1, (getBauth stateOk hs c).2)

/-- `MHD_digest_auth_get_request_info3 (connection)` -/
def infoQ (stateOk : Bool) (hs : List Hdr) (c : RqAuth) : Res (Option (IRes DigestInfo) × RqAuth) :=
  (getDauth stateOk hs c).map fun x => (x.1.map fun p => requestInfo p.1 (some 0) p.2, x.2)

/-- `MHD_digest_auth_get_username3 (connection)` -/
def unameQ (stateOk : Bool) (hs : List Hdr) (c : RqAuth) : Res (Option (IRes (UnameInfo × Nat)) × RqAuth) :=
  (getDauth stateOk hs c).map fun x => (x.1.map fun p => usernameInfo p.1 (some 0) p.2, x.2)

/-- the cache holds nothing but what the headers of this request say -/
def RqAuth.consistent (hs : List Hdr) (c : RqAuth) : Prop :=
  (c.bTried = true → c.b = bauthParams hs) ∧ (c.dTried = true → Res.ok c.d = dauthParams hs)

end Mhd.Auth
