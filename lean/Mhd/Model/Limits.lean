/-
  C09 — connection limits and resource accounting: executable model of the
  admission / disposal logic of `daemon.c` and of the response reference count
  of `response.c`.

  Mirrored C functions (src/microhttpd):
    daemon.c   MHD_ip_limit_add / MHD_ip_limit_del            → `ipAdd` / `ipDel`
               new_connection_prepare_                        → `prepare`
               new_connection_process_                        → `process`
               internal_add_connection / MHD_add_connection   → `arrive`
               new_connections_list_process_                  → `processNew`
               internal_suspend_connection_ (via the handler) → `handleConn` (.susp)
               MHD_resume_connection / resume_suspended_connections → `Op.resume` / `resumePass`
               MHD_upgraded_connection_mark_app_closed_       → `Op.upClose`
               MHD_cleanup_connections                        → `cleanupAll`
               close_connection / close_all_connections / MHD_stop_daemon → `stop`
               MHD_get_daemon_info (CURRENT_CONNECTIONS)      → `Op.query`
    response.c MHD_increment_response_rc / MHD_destroy_response → `acquire` / `release`
    connection.c MHD_connection_close_, connection_reset, cleanup_connection
                                                              → `closeConn`, `finishReply`, `.clean`

  The four doubly linked lists are Lean lists (head = DLL head; the C code
  inserts at the head and traverses from the tail).  The per-address search
  tree is abstracted to a function `addr → Nat` (a node exists iff the count is
  non-zero; `MHD_ip_limit_del` on a missing node is the C code's MHD_PANIC and
  an explicit `fault` here).  The HTTP exchange on a connection is abstracted to
  scripted behaviours (`Beh`); one `Op.round` stands for "run the event loop
  until nothing changes any more" (the harness runs a fixed number of real
  rounds).  Core Lean only — the driver links this file.
-/
import Mhd.Gen.Limits

namespace Mhd.Limits

/-- daemon configuration (the part the property rests on) -/
structure Cfg where
  /-- MHD_OPTION_CONNECTION_LIMIT (already defaulted) -/
  limit : Nat
  /-- MHD_OPTION_PER_IP_CONNECTION_LIMIT, 0 = no per-address accounting -/
  perIp : Nat
  /-- `MHD_D_IS_THREAD_SAFE_`: externally added connections go through `new_connections` -/
  threadSafe : Bool
  epoll : Bool
  /-- thread per connection -/
  tpc : Bool
  allowSuspend : Bool
  allowUpgrade : Bool
  deriving Repr, DecidableEq

/-- injectable failure sites of connection admission -/
inductive Site
  | ipnode    -- malloc of the MHD_IPCount key in MHD_ip_limit_add
  | conn      -- MHD_calloc_ of struct MHD_Connection
  | addr      -- malloc of the address copy
  | pool      -- MHD_pool_create
  | epollCtl  -- epoll_ctl (EPOLL_CTL_ADD)
  | thread    -- MHD_create_named_thread_
  deriving Repr, DecidableEq

inductive Fault
  | ipDelZero        -- MHD_PANIC in MHD_ip_limit_del
  | connUnderflow    -- daemon->connections-- at 0
  | rcUnderflow      -- reference_count-- at 0
  | useAfterFree     -- a freed response is touched
  | unknownResp
  | stopSuspended    -- MHD_PANIC: MHD_stop_daemon() with suspended connections
  | suspendNotAllowed -- MHD_PANIC: suspend without MHD_ALLOW_SUSPEND_RESUME
  deriving Repr, DecidableEq

/-- scripted application behaviour for the next request on a connection -/
inductive Beh
  /-- answer every call of the handler with an interim "102 Processing" reply (`pre`, in this order), then
      queue the final response `r`; `close` = queued in the first handler call, MHD then closes after the reply -/
  | reply (r : Nat) (close : Bool) (pre : List Nat)
  /-- suspend in the first handler call; after the resume the interim replies `pre` and then `r`
      (still "before the body": MHD closes after that reply) -/
  | suspend (r : Nat) (pre : List Nat)
  /-- the request is malformed: the daemon answers with a response object of its own
      (transmit_error_response_: create, queue, destroy the creator's reference; the connection's reference
      goes with the connection) and closes; no application response is touched -/
  | bad
  /-- a response was queued from outside the handler while the connection was suspended (`Op.extQueue`):
      the handler is not called again (call_connection_handler returns at once), the reply runs -/
  | sent
  /-- like `reply r false pre` with an 'upgrade' response `r`, and the application finishes the upgraded
      session synchronously: it calls MHD_upgrade_action(CLOSE) inside its upgrade handler -/
  | upgradeClose (r : Nat) (pre : List Nat)
  deriving Repr, DecidableEq

structure Conn where
  id : Nat
  addr : Nat
  /-- `connection->urh != NULL` -/
  urh : Bool := false
  /-- `urh->was_closed` -/
  wasClosed : Bool := false
  /-- `connection->resuming` -/
  resuming : Bool := false
  /-- `connection->rp.response` -/
  resp : Option Nat := none
  /-- reply in progress and the socket is full -/
  held : Bool := false
  /-- connection must close after the current reply -/
  closeAfter : Bool := false
  /-- environment: the client has closed its end -/
  clientClosed : Bool := false
  /-- environment: the client does not read -/
  nodrain : Bool := false
  /-- application script: the upgrade handler of this connection closes the session before it returns -/
  inClose : Bool := false
  /-- environment + application script: request waiting to be handled -/
  req : Option Beh := none
  deriving Repr, DecidableEq

structure Resp where
  rc : Nat
  /-- the application still holds its own reference -/
  app : Bool
  freed : Bool
  /-- body larger than the socket buffer -/
  big : Bool
  /-- has a free callback (`crfc`) -/
  hasCb : Bool
  /-- created by MHD_create_response_for_upgrade -/
  upg : Bool
  deriving Repr, DecidableEq

inductive Ev
  | arrive (c : Nat) (ok : Bool)
  | policy (c : Nat) (v : Bool)
  | connStart (c : Nat)
  | connClose (c : Nat)
  | fdClose (c : Nat)
  | queued (c r : Nat) (ok : Bool)
  | freeCb (r : Nat)
  | upgraded (c : Nat)
  | suspended (c : Nat)
  | failed (s : Site)
  | panic (f : Fault)
  deriving Repr, DecidableEq

structure RespTab where
  tab : Nat → Option Resp
  fault : Option Fault := none

structure St where
  cfg : Cfg
  /-- `daemon->connections` -/
  connections : Nat
  /-- `daemon->per_ip_connection_count` -/
  ipCount : Nat → Nat
  newL : List Conn
  active : List Conn
  susp : List Conn
  cleanup : List Conn
  resps : Nat → Option Resp
  /-- `daemon->resuming` -/
  resuming : Bool
  /-- injected failure waiting for its site -/
  armed : Option Site
  nextId : Nat
  shutdown : Bool
  fault : Option Fault

def Cfg.effLimit (limit : Nat) : Nat := if limit = 0 then Mhd.Gen.Limits.defaultConnLimit else limit

def St.init (cfg : Cfg) : St :=
  { cfg := cfg, connections := 0, ipCount := fun _ => 0, newL := [], active := [], susp := [], cleanup := [],
    resps := fun _ => none, resuming := false, armed := none, nextId := 0, shutdown := false, fault := none }

def setFn {β : Type} (f : Nat → β) (k : Nat) (v : β) : Nat → β := fun x => if x = k then v else f x

/-- only IPv4/IPv6 addresses get a key (`MHD_ip_addr_to_key`); script address 0 is "some other family" -/
def keyed (a : Nat) : Bool := a != 0

def takeFail (s : St) (site : Site) : St × Bool :=
  if s.armed = some site then ({ s with armed := none }, true) else (s, false)

/-! ### per-address accounting -/

/-- MHD_ip_limit_add -/
def ipAdd (s : St) (a : Nat) : St × Bool × List Ev :=
  if s.cfg.perIp = 0 then (s, true, []) else
  if s.armed = some .ipnode then ({ s with armed := none }, false, [.failed .ipnode]) else
  if !keyed a then (s, true, []) else
  if s.ipCount a < s.cfg.perIp then ({ s with ipCount := setFn s.ipCount a (s.ipCount a + 1) }, true, [])
  else (s, false, [])

/-- MHD_ip_limit_del -/
def ipDel (s : St) (a : Nat) : St :=
  if s.cfg.perIp = 0 then s else
  if !keyed a then s else
  if s.ipCount a = 0 then { s with fault := some .ipDelZero }
  else { s with ipCount := setFn s.ipCount a (s.ipCount a - 1) }

/-! ### response reference count -/

/-- MHD_queue_response → MHD_increment_response_rc; needs a live object the application still holds -/
def acquire (R : RespTab) (r : Nat) : Option RespTab :=
  match R.tab r with
  | some x => if x.app && !x.freed then some { R with tab := setFn R.tab r (some { x with rc := x.rc + 1 }) } else none
  | none => none

/-- MHD_destroy_response -/
def release (R : RespTab) (r : Nat) : RespTab × List Ev :=
  match R.tab r with
  | none => ({ R with fault := some .unknownResp }, [.panic .unknownResp])
  | some x =>
    if x.freed then ({ R with fault := some .useAfterFree }, [.panic .useAfterFree])
    else if x.rc = 0 then ({ R with fault := some .rcUnderflow }, [.panic .rcUnderflow])
    else if x.rc = 1 then
      ({ R with tab := setFn R.tab r (some { x with rc := 0, freed := true }) }, if x.hasCb then [.freeCb r] else [])
    else ({ R with tab := setFn R.tab r (some { x with rc := x.rc - 1 }) }, [])

def isBig (R : RespTab) (r : Nat) : Bool := match R.tab r with | some x => x.big | none => false
def isUpg (R : RespTab) (r : Nat) : Bool := match R.tab r with | some x => x.upg | none => false

/-! ### admission -/

/-- new_connection_prepare_ : limit check, per-IP add, accept policy, the two allocations -/
def prepare (s : St) (c a : Nat) (verdict : Bool) : St × Option Conn × List Ev :=
  if s.connections = s.cfg.limit then (s, none, [.fdClose c]) else
  match ipAdd s a with
  | (s1, false, e1) => (s1, none, e1 ++ [.fdClose c])
  | (s1, true, e1) =>
    if !verdict then (ipDel s1 a, none, e1 ++ [.policy c false, .fdClose c]) else
    if s1.armed = some .conn then
      (ipDel { s1 with armed := none } a, none, e1 ++ [.policy c true, .fdClose c, .failed .conn]) else
    if s1.armed = some .addr then
      (ipDel { s1 with armed := none } a, none, e1 ++ [.policy c true, .fdClose c, .failed .addr]) else
    (s1, some { id := c, addr := a }, e1 ++ [.policy c true])

/-- the part of new_connection_process_ after the connection has been inserted:
    thread creation (thread per connection) or epoll_ctl (epoll) may fail -/
def lateFail (s : St) : St × Bool × List Ev :=
  if s.cfg.tpc then
    (if s.armed = some .thread then ({ s with armed := none }, true, [.failed .thread]) else (s, false, []))
  else if s.cfg.epoll then
    (if s.armed = some .epollCtl then ({ s with armed := none }, true, [.failed .epollCtl]) else (s, false, []))
  else (s, false, [])

/-- new_connection_process_ -/
def process (s : St) (cn : Conn) : St × Bool × List Ev :=
  if s.armed = some .pool then
    (ipDel { s with armed := none } cn.addr, false, [.failed .pool, .fdClose cn.id]) else
  if s.connections ≥ s.cfg.limit then (ipDel s cn.addr, false, [.fdClose cn.id]) else
  let s1 := { s with connections := s.connections + 1, active := cn :: s.active }
  match lateFail s1 with
  | (s2, false, e) => (s2, true, [.connStart cn.id] ++ e)
  | (s2, true, e) =>
    -- cleanup path: notify closed, unlink, connections--, ip_limit_del, close socket
    (ipDel { s2 with connections := s2.connections - 1, active := s2.active.tail } cn.addr, false,
     [.connStart cn.id] ++ e ++ [.connClose cn.id, .fdClose cn.id])

/-! ### final disposal -/

def mergeFault (a b : Option Fault) : Option Fault := if a.isSome then a else b

/-- `if (NULL != response) MHD_destroy_response (response)` -/
def releaseOpt (R : RespTab) : Option Nat → RespTab × List Ev
  | some r => release R r
  | none => (R, [])

/-- one iteration of the loop of MHD_cleanup_connections -/
def cleanupOne (s : St) (c : Conn) : St × List Ev :=
  let s1 := ipDel s c.addr
  let q := releaseOpt { tab := s1.resps, fault := none } c.resp
  let s2 := { s1 with resps := q.1.tab, fault := mergeFault s1.fault q.1.fault }
  let s3 := if s2.connections = 0 then { s2 with fault := mergeFault s2.fault (some .connUnderflow) }
            else { s2 with connections := s2.connections - 1 }
  (s3, [.connClose c.id] ++ q.2 ++ [.fdClose c.id])

def cleanupList : St → List Conn → St × List Ev
  | s, [] => (s, [])
  | s, c :: rest =>
    let (s1, e1) := cleanupOne s c
    let (s2, e2) := cleanupList s1 rest
    (s2, e1 ++ e2)

/-- MHD_cleanup_connections: empties the cleanup list from its tail -/
def cleanupAll (s : St) : St × List Ev :=
  cleanupList { s with cleanup := [] } s.cleanup.reverse

/-! ### new_connections list -/

def processList : St → List Conn → St × List Ev
  | s, [] => (s, [])
  | s, cn :: rest =>
    match process s cn with
    | (s1, _, e1) =>
      let (s2, e2) := processList s1 rest
      (s2, e1 ++ e2)

/-- new_connections_list_process_: detach the list, process in FIFO order (from the tail) -/
def processNew (s : St) : St × List Ev :=
  processList { s with newL := [] } s.newL.reverse

/-- internal_add_connection after the first checks: prepare, then queue or process -/
def admitConn (s : St) (c a : Nat) (verdict ext : Bool) : St × List Ev :=
  let p := prepare s c a verdict
  match p.2.1 with
  | none => (p.1, p.2.2 ++ [.arrive c false])
  | some cn =>
    if ext && p.1.cfg.threadSafe then ({ p.1 with newL := cn :: p.1.newL }, p.2.2 ++ [.arrive c true])
    else
      let q := process p.1 cn
      (q.1, p.2.2 ++ q.2.2 ++ [.arrive c q.2.1])

/-- MHD_add_connection (`ext = true`) / MHD_accept_connection (`ext = false`) → internal_add_connection -/
def arrive (s : St) (a : Nat) (verdict ext : Bool) : St × List Ev :=
  let c := s.nextId
  let s0 := { s with nextId := c + 1 }
  -- MHD_add_connection without thread safety: clean up first when at the limit
  let r0 := if ext && !s0.cfg.threadSafe && s0.cfg.limit ≤ s0.connections then cleanupAll s0 else (s0, [])
  let r1 := admitConn r0.1 c a verdict ext
  (r1.1, r0.2 ++ r1.2)

/-! ### suspend / resume / upgrade -/

/-- condition of the loop body of resume_suspended_connections (`clean_ready` is always set without TLS) -/
def canResume (c : Conn) : Bool := c.resuming && (!c.urh || c.wasClosed)

def clearResuming (c : Conn) : Conn := { c with resuming := false }

/-- resume_suspended_connections -/
def resumePass (s : St) : St × List Ev :=
  if !s.resuming then (s, []) else
  let moved := s.susp.filter canResume
  ({ s with resuming := false,
            susp := s.susp.filter (fun c => !canResume c),
            active := ((moved.filter (fun c => !c.urh)).map clearResuming) ++ s.active,
            cleanup := ((moved.filter (fun c => c.urh)).map clearResuming) ++ s.cleanup }, [])

/-! ### one connection in the event loop -/

inductive Disp | keep | clean | susp
  deriving Repr, DecidableEq

/-- MHD_connection_close_: give the response back -/
def closeConn (R : RespTab) (c : Conn) : RespTab × Conn × List Ev :=
  match c.resp with
  | some r => let (R', e) := release R r; (R', { c with resp := none, held := false }, e)
  | none => (R, { c with held := false }, [])

/-- the reply has been sent completely: connection_reset -/
def finishReply (R : RespTab) (c : Conn) : RespTab × Conn × Disp × List Ev :=
  let q := closeConn R c
  (q.1, { q.2.1 with closeAfter := false }, if c.closeAfter then .clean else .keep, q.2.2)

/-- the reply with the queued response `r` (`c.resp = some r`) runs: from START_REPLY to the end or until the socket is full -/
def runReply (R1 : RespTab) (c1 : Conn) (r : Nat) (cl : Bool) : RespTab × Conn × Disp × List Ev :=
  if c1.clientClosed then
    -- the reply cannot be delivered: connection closed with error, response given back
    let q := closeConn R1 c1
    (q.1, q.2.1, .clean, q.2.2)
  else if isUpg R1 r then
    -- 101 sent, MHD_response_execute_upgrade_: suspended with urh (before the application's upgrade handler
    -- runs), response given back.  If the handler itself calls MHD_upgrade_action(CLOSE), the connection is
    -- marked closed and resuming while suspended: the next resume_suspended_connections moves it to the
    -- cleanup list — within the settled round: disposition `clean`.
    let q := closeConn R1 c1
    (q.1, { q.2.1 with urh := true, wasClosed := q.2.1.wasClosed || c1.inClose },
     if c1.inClose then .clean else .susp, [.upgraded c1.id] ++ q.2.2)
  else if isBig R1 r && c1.nodrain then
    (R1, { c1 with held := true, closeAfter := cl }, .keep, [])
  else
    finishReply R1 { c1 with closeAfter := cl }

/-- queue response `r` on connection `c` (the application's handler does it) and run the reply -/
def doReply (cfg : Cfg) (R : RespTab) (c : Conn) (r : Nat) (cl : Bool) : RespTab × Conn × Disp × List Ev :=
  -- MHD_queue_response: "the response was already set" / upgrade without MHD_ALLOW_UPGRADE → MHD_NO
  if c.resp.isSome then (R, { c with req := none }, .clean, [.queued c.id r false]) else
  if isUpg R r && !cfg.allowUpgrade then (R, { c with req := none }, .clean, [.queued c.id r false]) else
  match acquire R r with
  | none => (R, { c with req := none }, .clean, [.queued c.id r false])   -- handler returns MHD_NO
  | some R1 =>
    let q := runReply R1 { c with req := none, resp := some r } r cl
    (q.1, q.2.1, q.2.2.1, [.queued c.id r true] ++ q.2.2.2)

/-- one interim reply: MHD_queue_response with MHD_HTTP_PROCESSING (reference +1), the header goes out,
    MHD_connection_handle_idle FULL_REPLY_SENT "102" branch: MHD_destroy_response (reference −1) and back to
    HEADERS_PROCESSED (the handler is called again).  An 'upgrade' response is refused with any status but 101.
    If the client has gone the send fails and MHD_connection_close_ gives the reference back instead.
    Result flag: the connection lives on and the handler is called again. -/
def interimOne (R : RespTab) (c : Conn) (r : Nat) : RespTab × Bool × List Ev :=
  if isUpg R r then (R, false, [.queued c.id r false]) else
  match acquire R r with
  | none => (R, false, [.queued c.id r false])       -- handler returns MHD_NO
  | some R1 =>
    let q := release R1 r
    (q.1, !c.clientClosed, [.queued c.id r true] ++ q.2)

/-- the interim replies of one request, in order, until one fails -/
def interims (R : RespTab) (c : Conn) : List Nat → RespTab × Bool × List Ev
  | [] => (R, true, [])
  | r :: rest =>
    match interimOne R c r with
    | (R1, false, e) => (R1, false, e)
    | (R1, true, e) =>
      let q := interims R1 c rest
      (q.1, q.2.1, e ++ q.2.2)

/-- interim replies, then the final one.  Every response queued after an interim reply is queued in state
    HEADERS_PROCESSED ("early"): MHD closes the connection after the final reply. -/
def replyPre (cfg : Cfg) (R : RespTab) (c : Conn) (r : Nat) (cl : Bool) (pre : List Nat) : RespTab × Conn × Disp × List Ev :=
  match interims R c pre with
  | (R1, false, e) => (R1, { c with req := none }, .clean, e)
  | (R1, true, e) =>
    let q := doReply cfg R1 c r (cl || !pre.isEmpty)
    (q.1, q.2.1, q.2.2.1, e ++ q.2.2.2)

/-- the pending request (if any) reaches the application -/
def handleReq (cfg : Cfg) (R : RespTab) (c : Conn) : RespTab × Conn × Disp × List Ev :=
  match c.req with
  | none => (R, c, .keep, [])
  | some (.suspend r pre) =>
    if cfg.allowSuspend then (R, { c with req := some (.reply r true pre) }, .susp, [.suspended c.id])
    else ({ R with fault := some .suspendNotAllowed }, c, .keep, [.panic .suspendNotAllowed])
  | some (.reply r cl pre) => replyPre cfg R c r cl pre
  | some .bad => (R, { c with req := none }, .clean, [])
  | some (.upgradeClose r pre) => replyPre cfg R { c with inClose := true } r false pre
  | some .sent =>
    match c.resp with
    | some r => runReply R { c with req := none } r true
    | none => (R, { c with req := none }, .keep, [])

/-- what happens to a connection that stays in `connections` after its request was handled -/
def afterReq (R : RespTab) (c : Conn) : RespTab × Conn × Disp × List Ev :=
  if c.clientClosed then
    let q := closeConn R c
    (q.1, q.2.1, .clean, q.2.2)
  else if c.held && !c.nodrain then finishReply R c
  else (R, c, .keep, [])

/-- everything that happens to one active connection until the loop is quiet -/
def handleConn (cfg : Cfg) (R : RespTab) (c : Conn) : RespTab × Conn × Disp × List Ev :=
  let q := handleReq cfg R c
  match q.2.2.1 with
  | .keep =>
    let q2 := afterReq q.1 q.2.1
    (q2.1, q2.2.1, q2.2.2.1, q.2.2.2 ++ q2.2.2.2)
  | _ => q

structure HAcc where
  R : RespTab
  kept : List Conn
  clean : List Conn
  susp : List Conn
  evs : List Ev

def handleList (cfg : Cfg) : HAcc → List Conn → HAcc
  | acc, [] => acc
  | acc, c :: rest =>
    match handleConn cfg acc.R c with
    | (R, c', .keep, e) => handleList cfg { acc with R := R, kept := c' :: acc.kept, evs := acc.evs ++ e } rest
    | (R, c', .clean, e) => handleList cfg { acc with R := R, clean := c' :: acc.clean, evs := acc.evs ++ e } rest
    | (R, c', .susp, e) => handleList cfg { acc with R := R, susp := c' :: acc.susp, evs := acc.evs ++ e } rest

/-- the traversal of `connections` (from the tail) with call_handlers on each -/
def handlePass (s : St) : St × List Ev :=
  let acc := handleList s.cfg { R := { tab := s.resps, fault := none }, kept := [], clean := [], susp := [], evs := [] }
               s.active.reverse
  ({ s with resps := acc.R.tab, fault := mergeFault s.fault acc.R.fault,
            active := acc.kept, cleanup := acc.clean ++ s.cleanup, susp := acc.susp ++ s.susp }, acc.evs)

/-- one settled event-loop run: resume, new connections, handlers, cleanup -/
def round (s : St) : St × List Ev :=
  let r1 := if s.cfg.allowSuspend then resumePass s else (s, [])
  let r2 := processNew r1.1
  let r3 := handlePass r2.1
  let r4 := cleanupAll r3.1
  (r4.1, r1.2 ++ r2.2 ++ r3.2 ++ r4.2)

/-! ### shutdown -/

/-- new_connection_close_ for every connection still in `new_connections` -/
def closeNewList : St → List Conn → St × List Ev
  | s, [] => (s, [])
  | s, c :: rest =>
    let (s2, e2) := closeNewList (ipDel s c.addr) rest
    (s2, [.fdClose c.id] ++ e2)

structure CAcc where
  R : RespTab
  moved : List Conn
  evs : List Ev

/-- close_connection on every member of `connections` -/
def closeList : CAcc → List Conn → CAcc
  | acc, [] => acc
  | acc, c :: rest =>
    match closeConn acc.R c with
    | (R, c', e) => closeList { R := R, moved := c' :: acc.moved, evs := acc.evs ++ e } rest

def markAppClosed (c : Conn) : Conn := { c with wasClosed := true, resuming := true }

/-- the check for suspended connections in close_all_connections (MHD_PANIC) -/
def stopPanics (s : St) : Bool :=
  if s.cfg.allowUpgrade then s.susp.any (fun c => !c.urh) else !s.susp.isEmpty

/-- close_all_connections: every "upgraded" connection is marked closed by the application -/
def markUpgraded (s : St) : St :=
  if s.cfg.allowUpgrade then { s with susp := s.susp.map markAppClosed } else s

/-- `daemon->resuming = true; resume_suspended_connections (daemon)` under `flag` -/
def forceResume (flag : Bool) (s : St) : St × List Ev :=
  if flag then resumePass { s with resuming := true } else (s, [])

/-- close_connection on every member of `connections`: all move to the cleanup list -/
def closeActive (s : St) : St × List Ev :=
  let acc := closeList { R := { tab := s.resps, fault := none }, moved := [], evs := [] } s.active.reverse
  ({ s with resps := acc.R.tab, fault := mergeFault s.fault acc.R.fault, active := [],
            cleanup := acc.moved ++ s.cleanup }, acc.evs)

/-- close_all_connections after the suspended-connections check -/
def stopTail (s : St) : St × List Ev :=
  let r4 := forceResume s.cfg.allowUpgrade (markUpgraded s)
  let r5 := closeActive r4.1
  let r6 := cleanupAll r5.1
  (r6.1, r4.2 ++ r5.2 ++ r6.2)

/-- MHD_stop_daemon → close_all_connections (no internal threads) -/
def stop (s : St) : St × List Ev :=
  let s0 := { s with shutdown := true }
  let r1 := closeNewList { s0 with newL := [] } s0.newL.reverse
  let r2 := forceResume r1.1.cfg.allowSuspend r1.1
  if stopPanics r2.1 then
    ({ r2.1 with fault := some .stopSuspended }, r1.2 ++ r2.2 ++ [.panic .stopSuspended])
  else
    let r3 := stopTail r2.1
    (r3.1, r1.2 ++ r2.2 ++ r3.2)

/-! ### worker pool (MHD_OPTION_THREAD_POOL_SIZE) -/

/-- MHD_start_daemon_va: `conns_per_thread = limit / n`, `leftover_conns = limit % n`; worker `i`
    gets `conns_per_thread`, plus one if `i < leftover_conns` -/
def splitLimit (limit n i : Nat) : Nat := limit / n + (if i < limit % n then 1 else 0)

/-- the `connection_limit` of the `n` workers -/
def workerLimits (limit n : Nat) : List Nat := (List.range n).map (splitLimit limit n)

/-- MHD_add_connection with a worker pool: the first worker with
    `worker->connections < worker->connection_limit`, starting at offset `off` (the socket number);
    `none` = all workers at their limit, the connection is refused -/
def pickWorker (conns limits : Nat → Nat) (n off : Nat) : Option Nat :=
  (List.range n).findSome? (fun k => if conns ((k + off) % n) < limits ((k + off) % n) then some ((k + off) % n) else none)

/-! ### script-level operations -/

inductive Op
  | arrive (addr : Nat) (verdict ext : Bool)
  | armFail (site : Site)
  | disarm
  | req (c : Nat) (b : Beh)
  | clientClose (c : Nat)
  | hold (c : Nat)
  | drain (c : Nat)
  | resume (c : Nat)
  | upClose (c : Nat)
  | round
  | query
  | stop
  | respCreate (r : Nat) (big hasCb upg : Bool)
  | respDrop (r : Nat)
  /-- MHD_queue_response from outside the handler on a suspended connection -/
  | extQueue (c r : Nat)
  /-- accept() / accept4() on the listen socket fails (EMFILE, ENFILE, ECONNABORTED, EAGAIN …):
      MHD_accept_connection returns before internal_add_connection, nothing is counted -/
  | acceptFail
  deriving Repr, DecidableEq

def updConn (id : Nat) (f : Conn → Conn) (l : List Conn) : List Conn :=
  l.map (fun c => if c.id = id then f c else c)

def hasConn (id : Nat) (p : Conn → Bool) (l : List Conn) : Bool := l.any (fun c => c.id == id && p c)

def setReq (b : Beh) (c : Conn) : Conn := { c with req := some b }
def setClientClosed (c : Conn) : Conn := { c with clientClosed := true }
def setNodrain (v : Bool) (c : Conn) : Conn := { c with nodrain := v }
def setResuming (c : Conn) : Conn := { c with resuming := true }

def setQueued (r : Nat) (c : Conn) : Conn := { c with resp := some r, req := some .sent }

/-- may a response be queued on this suspended connection from outside? (not upgraded, nothing queued yet) -/
def extQueueable (id : Nat) (x : Conn) : Bool := x.id == id && !x.urh && x.resp.isNone

/-- the (first) suspended connection `id` gets response `r` queued -/
def queueFirst (id r : Nat) : List Conn → List Conn
  | [] => []
  | x :: l => if extQueueable id x then setQueued r x :: l else x :: queueFirst id r l

def idle (c : Conn) : Bool := c.req.isNone && c.resp.isNone && !c.clientClosed && !c.urh

/-- MHD_queue_response on a suspended connection, called from outside the handler (status 200: an
    'upgrade' response is refused) -/
def extQueue (s : St) (c r : Nat) : St × List Ev :=
  if isUpg { tab := s.resps } r then (s, [.queued c r false]) else
  match acquire { tab := s.resps, fault := none } r with
  | none => (s, [.queued c r false])
  | some R1 => ({ s with resps := R1.tab, susp := queueFirst c r s.susp }, [.queued c r true])

/-- is the operation one the API / the script vocabulary permits in this state? -/
def Op.legal (s : St) : Op → Bool
  | .arrive _ _ _ => !s.shutdown
  | .armFail _ => !s.shutdown
  | .disarm => true
  | .req c b =>
    !s.shutdown && (hasConn c idle s.newL || hasConn c idle s.active) &&
    (match b with | .suspend _ _ => s.cfg.allowSuspend | _ => true)
  | .clientClose c => !hasConn c (fun x => !x.urh) s.susp   -- script restriction: not while plainly suspended
  | .hold _ => true
  | .drain _ => true
  | .resume c => !s.shutdown && hasConn c (fun x => !x.urh && !x.clientClosed) s.susp
  | .upClose c => !s.shutdown && hasConn c (fun x => x.urh && !x.wasClosed) s.susp
  | .round => !s.shutdown
  | .query => !s.shutdown
  | .stop => !s.shutdown
  | .respCreate r _ _ _ => (s.resps r).isNone
  | .respDrop r => match s.resps r with | some x => x.app && !x.freed | none => false
  | .extQueue c _ => !s.shutdown && s.susp.any (extQueueable c)
  | .acceptFail => !s.shutdown

def mapAll (s : St) (f : List Conn → List Conn) : St :=
  { s with newL := f s.newL, active := f s.active, susp := f s.susp, cleanup := f s.cleanup }

/-- the step function; an illegal operation or a faulted state changes nothing -/
def step (s : St) (o : Op) : St × List Ev :=
  if s.fault.isSome || !o.legal s then (s, []) else
  match o with
  | .arrive a v ext => arrive s a v ext
  | .armFail site => ({ s with armed := some site }, [])
  | .disarm => ({ s with armed := none }, [])
  | .req c b => (mapAll s (updConn c (setReq b)), [])
  | .clientClose c => (mapAll s (updConn c setClientClosed), [])
  | .hold c => (mapAll s (updConn c (setNodrain true)), [])
  | .drain c => (mapAll s (updConn c (setNodrain false)), [])
  | .resume c => ({ s with susp := updConn c setResuming s.susp, resuming := true }, [])
  | .upClose c => ({ s with susp := updConn c markAppClosed s.susp, resuming := true }, [])
  | .round => round s
  | .query => if s.cfg.threadSafe then (s, []) else cleanupAll s
  | .stop => stop s
  | .extQueue c r => extQueue s c r
  | .acceptFail => (s, [])
  | .respCreate r big hasCb upg =>
    ({ s with resps := setFn s.resps r (some { rc := 1, app := true, freed := false, big := big, hasCb := hasCb, upg := upg }) }, [])
  | .respDrop r =>
    match s.resps r with
    | none => (s, [])
    | some x =>
      let (R, e) := release { tab := setFn s.resps r (some { x with app := false }), fault := none } r
      ({ s with resps := R.tab, fault := R.fault }, e)

def run : St → List Op → St × List Ev
  | s, [] => (s, [])
  | s, o :: os =>
    let (s1, e1) := step s o
    let (s2, e2) := run s1 os
    (s2, e1 ++ e2)

end Mhd.Limits
