/-
  C06 — event-loop model, part 5: the concrete per-connection step.  C05's connection state machine
  (Mhd.Model.ConnSM, imported read-only) as the `Ops` parameter of the loop model, the view `ConnSM.Conn → Loop.Local`
  and the predicate `needs`.  Core Lean only.
-/
import Mhd.Model.Loop
import Mhd.Model.ConnSM
namespace Mhd.Loop
open Mhd.Gen.Loop Mhd.Gen.ConnState
variable {σ : Type}

abbrev SMConn (σ : Type) := Mhd.ConnSM.Conn σ

def eliOfSM : Mhd.ConnSM.ELI → Eli
  | .read => .read | .write => .write | .process => .process | .processRead => .processRead | .cleanup => .cleanup

/-- **work that can proceed without new network input or a resume**, read off the C05 connection record:
    a complete element (request line, header block, trailer) is buffered where one is awaited; upload data is buffered and the
    handler made progress in its last call; or the state is one in which MHD calls the application / computes.  States that
    wait for the socket to become writable, and closed / faulted records, need nothing. -/
def needsSM (c : SMConn σ) : Bool :=
  !c.fault && (match c.state with
    | .init | .reqLineReceiving | .reqHeadersReceiving | .footersReceiving => !(Mhd.ConnSM.dropJunk c.buf).isEmpty
    | .bodyReceiving => c.somePayloadProcessed && Mhd.ConnSM.hasUnprocessedBody c
    | .continueSending | .headersSending | .normalBodyReady | .chunkedBodyReady | .footersSending => false
    | .closed => false
    | _ => true)

def connsmNeeds (l : Local (SMConn σ)) : Bool := needsSM l.w

/-- everything the environment decides, indexed by connection and handler-call number -/
structure SMScript (σ : Type) where
  cfg : Mhd.ConnSM.Cfg
  app : Mhd.ConnSM.App σ
  idleEnv : CId → Nat → Mhd.ConnSM.IdleEnv
  recv : CId → Nat → Mhd.ConnSM.Ev          -- what MHD_connection_handle_read finds (recv toks / recvEof / recvErr)
  wr : CId → Nat → Mhd.ConnSM.WriteRes

def whOfSM (c : SMConn σ) : Wh := if c.inCleanup then .cleanup else if c.suspended then .susp else .active

/-- the loop's view after handle_idle: state, and the wait class MHD_connection_update_event_loop_info computed
    (left as it was for a suspended connection: "States will be updated after resume") -/
def viewIdle (l : Local (SMConn σ)) (c' : SMConn σ) : Local (SMConn σ) :=
  { l with st := c'.state.toNat, eli := if c'.suspended then l.eli else eliOfSM (Mhd.ConnSM.eventLoopInfo c'), w := c' }

/-- … after handle_read / handle_write / close: the wait class is only touched by MHD_connection_close_ -/
def viewIO (l : Local (SMConn σ)) (c' : SMConn σ) : Local (SMConn σ) :=
  { l with st := c'.state.toNat, eli := if c'.state = .closed then .cleanup else l.eli, w := c' }

/-- **the concrete per-connection step**: C05's state machine as the `Ops` of the loop model.  handle_idle on a connection
    of the active list first clears the connection's `suspended` flag (resume_suspended_connections did that when it moved
    the connection back); on a connection of another list it does nothing (`while (! suspended)`, and nothing is called for
    connections awaiting cleanup). -/
def connsmOps (S : SMScript σ) : Ops (SMConn σ) where
  read := fun id k force l =>
    if force then viewIO l (Mhd.ConnSM.handleRead { l.w with suspended := false } (.recvErr false)).1
    else viewIO l (Mhd.ConnSM.handleRead l.w (S.recv id k)).1
  write := fun id k l => viewIO l (Mhd.ConnSM.handleWrite l.w (S.wr id k)).1
  close := fun _ _ l => viewIO l (Mhd.ConnSM.closeConn l.w terminatedWithError).1
  idle := fun id k wh l =>
    if wh ≠ .active then (l, wh)
    else if l.st = stClosed ∧ l.w.state ≠ .closed then (l, .cleanup)     -- record whose `st` disagrees with the connection: never produced
    else
      let c' := (Mhd.ConnSM.handleIdle S.cfg S.app (S.idleEnv id k) { l.w with suspended := false }).1
      (viewIdle l c', whOfSM c')

end Mhd.Loop
