/-
  Model of the protocol-upgrade path of libmicrohttpd (property C20), one connection.

  Mirrors, for a non-TLS daemon with external or internal polling (not
  thread-per-connection):
    connection.c  MHD_queue_response            (queue-time checks, in source order)
                  MHD_connection_handle_read / _write / _idle  (only the states the
                  upgrade path runs through; INIT..REQ_HEADERS_RECEIVING are one state
                  `recv`, HEADERS_SENDING..body sending are one state `sending`)
    response.c    MHD_response_execute_upgrade_, MHD_upgrade_action (CLOSE)
    daemon.c      internal_suspend_connection_, MHD_upgraded_connection_mark_app_closed_,
                  resume_suspended_connections (both branches), MHD_cleanup_connections,
                  close_connection, call_handlers (incl. the fast track)
    mhd_str.c     MHD_str_has_token_caseless_

  Membership of the daemon's doubly linked lists (new_connections, connections,
  suspended_connections, cleanup) is the field `loc` of the connection: the properties
  proved here do not depend on the order inside a list.

  The request-head parser is a parameter (`Parser`): C02/C03 model it byte by byte; here it
  is only required to be prefix-stable (hypothesis of the theorems, not of the model).
  The bytes of an ordinary (non-upgrade) reply are a parameter too (`Cfg.render`, C04).

  The response object is C04's (`Mhd.Resp.Resp`: ordered header list, `flags_auto`, response
  flags, built by `MHD_create_response_for_upgrade` + any sequence of API calls) and the 101
  head is what C04's model of `build_header_response` (`Mhd.Reply.headSegs`, after
  `setup_reply_properties`) writes for it — not a fixed text.

  Ghost fields (`sent`, `heads`, `handed`, `outq`, `log`) record history; no transition
  reads them.
-/
import Mhd.Gen.Upg
import Mhd.Model.Reply

namespace Mhd.Upg

abbrev Bytes := List UInt8

/-! ### `MHD_str_has_token_caseless_` (mhd_str.c) -/

def lower (b : UInt8) : UInt8 := if 65 ≤ b ∧ b ≤ 90 then b + 32 else b

/-- `charsequalcaseless` -/
def eqCaseless (a b : UInt8) : Bool := lower a == lower b

def isWs (b : UInt8) : Bool := b == 32 || b == 9

/-- `while (' ' == *str || '\t' == *str || ',' == *str) str++;` -/
def skipWsComma : Bytes → Bytes
  | [] => []
  | b :: r => if isWs b || b == 44 then skipWsComma r else b :: r

/-- `while (' ' == *str || '\t' == *str) str++;` -/
def skipWs : Bytes → Bytes
  | [] => []
  | b :: r => if isWs b then skipWs r else b :: r

/-- `while (0 != *str && ',' != *str) str++;` (stops AT the comma) -/
def skipToComma : Bytes → Bytes
  | [] => []
  | b :: r => if b == 44 then b :: r else skipToComma r

/-- the inner `while (1)` loop: `some r` = `return r`, `none` = `break`; second
    component = `str` afterwards: it has already moved past the character that did
    not match; in the unrepaired code also when that character is the comma (the next
    element is then skipped: "up, upgrade" is reported as not containing `upgrade`). -/
def matchTok : Bytes → Bytes → Option Bool × Bytes
  | [], _ => (some false, [])
  | _ :: _, [] => (some false, [])
  | sc :: str, tc :: tok =>
    if ! eqCaseless sc tc then
      -- repaired code: `if (',' == sc) str--;` (probe regenerated into `tokCommaEndsElement`)
      (none, if Mhd.Gen.Upg.tokCommaEndsElement && sc == 44 then sc :: str else str)
    else if tok.isEmpty then
      let s := skipWs str
      match s with
      | [] => (some true, s)
      | b :: _ => if b == 44 then (some true, s) else (none, s)
    else matchTok str tok

def hasTokenAux : Nat → Bytes → Bytes → Bool
  | 0, _, _ => false
  | fuel + 1, str, token =>
    if str.isEmpty then false else
    match matchTok (skipWsComma str) token with
    | (some r, _) => r
    | (none, rest) => hasTokenAux fuel (skipToComma rest) token

/-- `MHD_str_has_token_caseless_ (str, token, token_len)`; every iteration of the outer
    loop consumes at least one character, so `length + 1` iterations suffice. -/
def hasToken (str token : Bytes) : Bool :=
  if token.isEmpty then false else hasTokenAux (str.length + 1) str token

/-! ### Requests, responses, configuration -/

inductive Ver | v10 | v11 | v12 | future
  deriving DecidableEq, Repr

/-- `MHD_IS_HTTP_VER_1_1_COMPAT` (table regenerated from internal.h) -/
def Ver.compat11 : Ver → Bool
  | .v10 => Mhd.Gen.Upg.compat11.getD 0 false
  | .v11 => Mhd.Gen.Upg.compat11.getD 1 false
  | .v12 => Mhd.Gen.Upg.compat11.getD 2 false
  | .future => Mhd.Gen.Upg.compat11.getD 3 false

/-- what the parser reports about a complete request head -/
structure Head where
  len : Nat             -- number of bytes of the head (request line .. empty line)
  ver : Ver
  connect : Bool        -- method is CONNECT
  wantsClose : Bool     -- request carries "Connection: close"
  deriving DecidableEq, Repr

structure Parser where
  parse : Bytes → Option Head

/-- a response as the application queues it: the response object (C04's model of
    `struct MHD_Response`: header list in order, `flags_auto`, response flags, upgrade handler
    present), the status code passed to `MHD_queue_response`, and what the upgrade handler does -/
structure Resp where
  obj : Mhd.Resp.Resp               -- built by MHD_create_response_* + add/del header, set options
  closeInHandler : Bool             -- application: the upgrade handler calls the CLOSE action itself
  code : Nat                        -- status code passed to MHD_queue_response
  deriving DecidableEq, Repr

/-- `NULL != response->upgrade_handler` (created by MHD_create_response_for_upgrade) -/
def Resp.upgrade (rs : Resp) : Bool := rs.obj.upgrade

/-- `response->first_header->value` when `MHD_RAF_HAS_CONNECTION_HDR` is set (the "Connection"
    header is kept first in the list), else absent -/
def Resp.connHdr (rs : Resp) : Option Bytes :=
  if rs.obj.fa.connHdr then rs.obj.hdrs.head?.map (·.value) else none

/-- `MHD_RF_HTTP_1_0_COMPATIBLE_STRICT | MHD_RF_HTTP_1_0_SERVER` -/
def Resp.flags10 (rs : Resp) : Bool := rs.obj.flags.http10Strict || rs.obj.flags.http10Server

/-- scripted access handler for one request -/
structure Beh where
  early : Bool            -- queue at the first call (HEADERS_PROCESSED), else at the final call
  tries : List Nat        -- response ids queued in turn until one is accepted

structure Cfg where
  allowUpgrade : Bool                -- MHD_ALLOW_UPGRADE (turns MHD_ALLOW_SUSPEND_RESUME on)
  parser : Parser
  resp : Nat → Resp
  beh : Nat → Beh                    -- by request number (for this connection)
  date : Bytes                       -- value of the Date header (masked in the comparison)
  suppressDate : Bool := false       -- MHD_USE_SUPPRESS_DATE_NO_CLOCK
  render : Nat → Bytes               -- bytes of an ordinary reply for response id (given, C04)

/-- what `build_header_response` reads from the connection when the reply is an accepted upgrade
    response.  Only `suppressDate` matters: version, method, `discard_request`, the request's own
    "Connection" tokens and a `keepalive` already forced to MUST_CLOSE by the request's framing do not
    (`keepalive_possible` decides an upgrade response first, fix F37; `headBytes_indep_of_request` in
    Proofs/UpgHead101) -/
def replyConn (cfg : Cfg) : Mhd.Reply.Conn :=
  { keepalive := .unknown, ver := .v11, mthd := .get, suppressDate := cfg.suppressDate }

/-- the bytes C04's model of `build_header_response` writes (all guarded writes, in order) for
    response object `r` with status `code` on connection `c`, given enough room in the write
    buffer (`Mhd.Reply.buildHeaderResponse` returns exactly this whenever it does not return
    MHD_NO: `headBytes_is_buildHeaderResponse`) -/
def headBytes (c : Mhd.Reply.Conn) (r : Mhd.Resp.Resp) (code : Nat) (date : Bytes) : Bytes :=
  (((Mhd.Reply.headSegs c r code false (some date) (Mhd.Reply.setupReplyProperties c r code).1
      (Mhd.Reply.setupReplyProperties c r code).2).map (·.piece)).flatten)

/-- the reply head of an accepted upgrade response = the reply builder applied to its response
    object (arbitrary flags / header list) -/
def head101 (cfg : Cfg) (rs : Resp) : Bytes := headBytes (replyConn cfg) rs.obj rs.code cfg.date

/-! ### Events -/

inductive Ev
  | start
  | handler (r : Nat) (final : Bool)
  | queued (r rid : Nat) (ok : Bool)
  | ioRecv (n : Nat)              -- the daemon called recv on the socket, n bytes returned
  | ioSend (bs : Bytes)           -- the daemon sent these bytes on the socket
  | ioShutdown                    -- the daemon called shutdown on the socket
  | upgrade (rid : Nat) (extra : Bytes)
  | upClose (ok : Bool)           -- application: MHD_upgrade_action (CLOSE) and its result
  | appRecv (bs : Bytes)          -- application read these bytes from the handed-over socket
  | appSend (bs : Bytes)          -- application wrote these bytes to the handed-over socket
  | completed (r : Nat) (code : Nat)
  | connClose
  | sockClose
  | stopMark
  | fault (site : String)
  deriving DecidableEq, Repr

def Ev.isIo : Ev → Bool
  | .ioRecv _ => true
  | .ioSend _ => true
  | .ioShutdown => true
  | _ => false

def Ev.isUpgrade : Ev → Bool
  | .upgrade _ _ => true
  | _ => false

/-! ### Connection state -/

inductive Loc | none | new | active | suspended | cleanup | freed
  deriving DecidableEq, Repr

inductive St | recv | headersProcessed | fullReq | startReply | sending | upgrade | closed
  deriving DecidableEq, Repr

/-- `struct MHD_UpgradeResponseHandle` -/
structure Urh where
  wasClosed : Bool
  cleanReady : Bool
  deriving DecidableEq, Repr

structure Conn where
  loc : Loc := .none
  st : St := .recv
  sockIn : Bytes := []          -- written by the client, not yet read by anybody
  rbuf : Bytes := []            -- read window [0, read_buffer_offset)
  wbuf : Bytes := []            -- reply bytes not yet sent
  req : Option Head := none     -- request being processed
  reqNo : Nat := 0              -- requests completed so far = number of the current / next request
  rp : Option Nat := none       -- rp.response (id)
  discard : Bool := false       -- discard_request
  clientAware : Bool := false   -- rq.client_aware
  resuming : Bool := false
  urh : Option Urh := none
  sockOpen : Bool := false      -- socket_fd not yet closed by the daemon
  -- ghost
  sent : Bytes := []            -- everything the client wrote
  heads : List Bytes := []      -- request heads consumed by the parser, one entry per request
  handed : Bytes := []          -- bytes handed to the application (extra data, then its own reads)
  outq : List Bytes := []       -- reply heads (+ bodies) produced by the daemon, one entry per reply
  log : List Ev := []
  deriving Repr

def Conn.emit (x : Conn) (e : Ev) : Conn := { x with log := x.log ++ [e] }

/-! ### `MHD_queue_response` -/

inductive Refusal
  | noRequest | alreadyQueued | wrongState | shuttingDown
  | upgradeNotAllowed | upgradeNot101 | upgradeNoConnHdr | upgradeNoToken | upgradeNot11
  | plain101 | badCode | oneXXfor10 | oneXXresp10 | connect2xx
  deriving DecidableEq, Repr

/-- the checks of `MHD_queue_response`, in source order; `none` = accepted -/
def queueCheck (cfg : Cfg) (shutdown : Bool) (x : Conn) (rs : Resp) : Option Refusal :=
  match x.req with
  | none => some .noRequest
  | some h =>
    if x.rp.isSome then some .alreadyQueued
    else if x.st ≠ .headersProcessed ∧ x.st ≠ .fullReq then some .wrongState
    else if shutdown then some .shuttingDown
    else if rs.upgrade ∧ ¬ cfg.allowUpgrade then some .upgradeNotAllowed
    else if rs.upgrade ∧ rs.code ≠ Mhd.Gen.Upg.switchingProtocols then some .upgradeNot101
    else if rs.upgrade ∧ rs.connHdr = none then some .upgradeNoConnHdr
    else if rs.upgrade ∧ ¬ hasToken (rs.connHdr.getD []) Mhd.Gen.Upg.upgradeToken then some .upgradeNoToken
    else if rs.upgrade ∧ ¬ h.ver.compat11 then some .upgradeNot11
    else if rs.code = Mhd.Gen.Upg.switchingProtocols ∧ ¬ rs.upgrade then some .plain101
    else if rs.code < 100 ∨ 999 < rs.code then some .badCode
    else if rs.code < 200 ∧ h.ver = .v10 then some .oneXXfor10
    else if rs.code < 200 ∧ rs.flags10 then some .oneXXresp10
    else if h.connect ∧ rs.code / 100 = 2 then some .connect2xx
    else none

/-- `MHD_queue_response`: on refusal the connection is returned as it was -/
def queueResponse (cfg : Cfg) (shutdown : Bool) (x : Conn) (rid : Nat) : Conn × Bool :=
  match queueCheck cfg shutdown x (cfg.resp rid) with
  | some _ => (x, false)
  | none =>
    ({ x with rp := some rid,
              discard := if x.st = .headersProcessed then true else x.discard,
              st := .startReply }, true)

/-- the scripted handler queues its responses in turn until one is accepted -/
def tryQueue (cfg : Cfg) (shutdown : Bool) (x : Conn) : List Nat → Conn
  | [] => x
  | rid :: rest =>
    let (y, ok) := queueResponse cfg shutdown x rid
    if ok then y.emit (.queued x.reqNo rid true)
    else tryQueue cfg shutdown (y.emit (.queued x.reqNo rid false)) rest

/-! ### closing, completion -/

/-- `if (NULL != notify_completed && client_aware) { notify_completed (…); client_aware = false; }` -/
def notifyCompleted (x : Conn) (code : Nat) : Conn :=
  if x.clientAware then
    { x with log := x.log ++ [.completed x.reqNo code], clientAware := false, reqNo := x.reqNo + 1 }
  else x

/-- `MHD_connection_close_` followed by `cleanup_connection` (active connection → cleanup list) -/
def closeConn (x : Conn) (code : Nat) : Conn :=
  let x := notifyCompleted (x.emit .ioShutdown) code
  { x with st := .closed, loc := .cleanup, rp := none }

/-- `internal_suspend_connection_` -/
def internalSuspend (x : Conn) : Conn :=
  if x.resuming then { x with resuming := false } else { x with loc := .suspended }

/-- `MHD_upgraded_connection_mark_app_closed_`; the Bool is `daemon->resuming = true` -/
def markAppClosed (x : Conn) : Conn :=
  { x with urh := x.urh.map fun u => { u with wasClosed := true }, resuming := true }

/-- `MHD_upgrade_action (urh, MHD_UPGRADE_ACTION_CLOSE)`; second component: `daemon->resuming` set -/
def upgradeActionClose (x : Conn) : Conn × Bool :=
  match x.urh with
  | none => (x.emit (.fault "upgrade-action-on-freed-handle"), false)
  | some u =>
    if u.wasClosed then (x.emit (.upClose false), false)
    else ((markAppClosed x).emit (.upClose true), true)

/-- state UPGRADE, the handle is allocated, `rbo = read_buffer_offset; read_buffer_offset = 0`;
    the `rbo` bytes of the window are what the handler will get (ghost `handed`) -/
def takeExtra (x : Conn) : Conn :=
  { x with st := .upgrade, urh := some { wasClosed := false, cleanReady := true },
           rbuf := [], handed := x.handed ++ x.rbuf }

/-- the upgrade handler is called with the extra data -/
def handOver (x : Conn) (rid : Nat) (extra : Bytes) : Conn :=
  { x with log := x.log ++ [.upgrade rid extra] }

/-- `MHD_response_execute_upgrade_` + the tail of the HEADERS_SENT branch (non-TLS,
    non-blocking socket, handle allocation succeeds) -/
def executeUpgrade (cfg : Cfg) (x : Conn) (rid : Nat) : Conn × Bool :=
  let y := handOver (internalSuspend (takeExtra x)) rid x.rbuf
  let (z, r) := if (cfg.resp rid).closeInHandler then upgradeActionClose y else (y, false)
  ({ z with rp := none }, r)

/-- FULL_REPLY_SENT: completion notification, the response is released -/
def replyDone (x : Conn) : Conn :=
  { notifyCompleted x Mhd.Gen.Upg.termOk with rp := none }

/-- `connection_reset` with reuse: back to INIT, the read window is kept -/
def nextRequest (x : Conn) : Conn :=
  { x with st := .recv, req := none, discard := false }

/-- `keepalive_possible` for the cases generated here: no early reply, no close token,
    HTTP/1.1-compatible request -/
def keepAlive (x : Conn) : Bool :=
  match x.req with
  | some h => ! x.discard && ! h.wantsClose && h.ver.compat11
  | none => false

/-- ordinary reply completely sent: completion, then next request or close -/
def finishOrdinary (x : Conn) : Conn :=
  if keepAlive x then nextRequest (replyDone x) else closeConn (replyDone x) Mhd.Gen.Upg.termOk

/-- reply completely sent: upgrade hand-over, or completion of an ordinary reply -/
def afterSend (cfg : Cfg) (x : Conn) : Conn × Bool :=
  if x.loc = .active ∧ x.st = .sending ∧ x.wbuf.isEmpty then
    match x.rp with
    | none => (x, false)
    | some rid =>
      if (cfg.resp rid).upgrade then executeUpgrade cfg x rid
      else (finishOrdinary x, false)
  else (x, false)

/-- the bytes `build_header_response` (+ body) produces for a queued response -/
def replyBytes (cfg : Cfg) (rid : Nat) : Bytes :=
  if (cfg.resp rid).upgrade then head101 cfg (cfg.resp rid) else cfg.render rid

/-- START_REPLY: build the reply into the write buffer (at its append offset; the buffer is
    empty at this point: the previous reply was sent completely before the request was read) -/
def startReply (cfg : Cfg) (x : Conn) : Conn :=
  match x.rp with
  | none => x
  | some rid =>
    let bytes := replyBytes cfg rid
    { x with wbuf := x.wbuf ++ bytes, outq := x.outq ++ [bytes], st := .sending }

/-- entry into the access handler: the call is logged, `rq.client_aware = true` -/
def handlerEntered (x : Conn) (final : Bool) : Conn :=
  { x with log := x.log ++ [.handler x.reqNo final], clientAware := true }

/-- first call (HEADERS_PROCESSED) of a handler that queues nothing yet: for a request
    without body the state machine goes on to FULL_REQ_RECEIVED in the same loop -/
def firstCallOnly (x : Conn) : Conn :=
  { handlerEntered x false with st := .fullReq }

/-- a handler call in which the scripted responses are queued in turn (`final = false`:
    first call / early reply, else the final call); no response accepted = the handler
    returns MHD_NO and the connection is closed -/
def replyCall (cfg : Cfg) (shutdown : Bool) (x : Conn) (final : Bool) : Conn :=
  let y := tryQueue cfg shutdown (handlerEntered x final) (cfg.beh x.reqNo).tries
  if y.rp.isNone then closeConn y Mhd.Gen.Upg.termError
  else startReply cfg y

/-- the handler calls for one request without body -/
def handlerCalls (cfg : Cfg) (shutdown : Bool) (x : Conn) : Conn :=
  if (cfg.beh x.reqNo).early then replyCall cfg shutdown x false
  else replyCall cfg shutdown (firstCallOnly x) true

/-- the parser found a complete head at the start of the read window: the window moves
    past it (`read_buffer += len; read_buffer_offset -= len`) -/
def consumeHead (x : Conn) (h : Head) : Conn :=
  { x with heads := x.heads ++ [x.rbuf.take h.len], rbuf := x.rbuf.drop h.len,
           req := some h, st := .headersProcessed }

/-- a complete head in the read window: consume it and run the handler calls -/
def tryRequest (cfg : Cfg) (shutdown : Bool) (x : Conn) : Conn :=
  if x.loc = .active ∧ x.st = .recv then
    match cfg.parser.parse x.rbuf with
    | none => x
    | some h => handlerCalls cfg shutdown (consumeHead x h)
  else x

/-- `MHD_connection_handle_idle` (does nothing for a suspended / closed connection) -/
def idle (cfg : Cfg) (shutdown : Bool) (x : Conn) : Conn × Bool :=
  let (x, r) := afterSend cfg x
  (tryRequest cfg shutdown x, r)

/-- `MHD_connection_handle_read`: one `recv` of at most `max` bytes -/
def handleRead (x : Conn) (max : Nat) : Conn :=
  if x.loc = .active ∧ x.st = .recv then
    let n := min max x.sockIn.length
    { x.emit (.ioRecv n) with rbuf := x.rbuf ++ x.sockIn.take n, sockIn := x.sockIn.drop n }
  else x

/-- `MHD_connection_handle_write`: one `send` of at most `max` bytes -/
def handleWrite (x : Conn) (max : Nat) : Conn :=
  if x.loc = .active ∧ x.st = .sending then
    let n := min max x.wbuf.length
    { x.emit (.ioSend (x.wbuf.take n)) with wbuf := x.wbuf.drop n }
  else x

/-- readiness reported by the polling function for this connection in this round -/
structure IoAct where
  rdReady : Bool
  rdMax : Nat
  wrReady : Bool
  wrMax : Nat

/-- connection together with "daemon->resuming was set while processing it" -/
abbrev CB := Conn × Bool

def idleP (cfg : Cfg) (shutdown : Bool) (p : CB) : CB :=
  ((idle cfg shutdown p.1).1, p.2 || (idle cfg shutdown p.1).2)

/-- `if (READ & event_loop_info && read_ready) { handle_read; handle_idle; }` -/
def rdStage (cfg : Cfg) (shutdown : Bool) (a : IoAct) (p : CB) : CB :=
  if p.1.st = .recv ∧ a.rdReady = true then idleP cfg shutdown (handleRead p.1 a.rdMax, p.2) else p

/-- `if (WRITE == event_loop_info && write_ready) { handle_write; handle_idle; }` -/
def wrStage (cfg : Cfg) (shutdown : Bool) (a : IoAct) (p : CB) : CB :=
  if p.1.st = .sending ∧ a.wrReady = true then idleP cfg shutdown (handleWrite p.1 a.wrMax, p.2) else p

/-- `call_handlers` (no socket error): read stage, write stage, idle if neither ran, else
    the fast track (connection was in INIT on entry and the reply head is ready) -/
def callHandlers (cfg : Cfg) (shutdown : Bool) (x : Conn) (a : IoAct) : CB :=
  if x.loc ≠ .active then (x, false) else
  let p1 := rdStage cfg shutdown a (x, false)
  let p2 := wrStage cfg shutdown a p1
  if ¬ ((x.st = .recv ∧ a.rdReady = true) ∨ (p1.1.st = .sending ∧ a.wrReady = true)) then idleP cfg shutdown p2
  else if (x.st = .recv ∧ x.rbuf.isEmpty = true ∧ x.req.isNone = true) ∧ p2.1.st = .sending then
    idleP cfg shutdown (handleWrite p2.1 a.wrMax, p2.2)
  else p2

/-! ### daemon-side list moves -/

/-- `resume_suspended_connections`, one element of the suspended list -/
def resumeOne (x : Conn) : Conn :=
  if x.loc = .suspended ∧ x.resuming then
    match x.urh with
    | none => { x with loc := .active, resuming := false }
    | some u =>
      if u.wasClosed ∧ u.cleanReady then
        { notifyCompleted x Mhd.Gen.Upg.termOk with loc := .cleanup, resuming := false }
      else x
  else x

/-- `new_connections_list_process_` -/
def newToActive (x : Conn) : Conn :=
  if x.loc = .new then { x.emit .start with loc := .active } else x

/-- `MHD_cleanup_connections`, one element of the cleanup list -/
def cleanupOne (x : Conn) : Conn :=
  if x.loc = .cleanup then
    let x := { x with urh := none }      -- cleanup_upgraded_connection
    let x := x.emit .connClose
    let x := if x.sockOpen then { x.emit .sockClose with sockOpen := false } else x
    { x with loc := .freed }
  else x

/-- one round of the event loop as seen by one connection.  `resumeScan`: the daemon's
    `resuming` flag was set (and suspend/resume is enabled) when the round started. -/
def roundConn (cfg : Cfg) (shutdown resumeScan : Bool) (a : Option IoAct) (x : Conn) : Conn × Bool :=
  let x := if resumeScan then resumeOne x else x
  let x := newToActive x
  let (x, r) := match a with
    | some a => callHandlers cfg shutdown x a
    | none => (x, false)
  (cleanupOne x, r)

/-- `new_connection_close_`: externally added connection not yet processed by the daemon -/
def stopNew (x : Conn) : Conn :=
  { (if x.sockOpen then { x.emit .sockClose with sockOpen := false } else x) with loc := .freed }

/-- the forced `resume_suspended_connections` calls of the shutdown path -/
def resumeIf (cfg : Cfg) (x : Conn) : Conn := if cfg.allowUpgrade then resumeOne x else x

/-- traversal of the suspended list in `close_all_connections`: only upgraded connections
    may be there (else MHD_PANIC); they are marked closed and resuming -/
def stopMarkSuspended (cfg : Cfg) (x : Conn) : Conn :=
  if x.loc = .suspended then
    (if cfg.allowUpgrade then
      match x.urh with
      | none => x.emit (.fault "stop-with-suspended-connection")
      | some u => { x with urh := some { u with wasClosed := true }, resuming := true }
     else x.emit (.fault "stop-with-suspended-connection"))
  else x

/-- `shutdown (pos->socket_fd, SHUT_RDWR)` for every member of the connections list -/
def stopShutdownActive (x : Conn) : Conn := if x.loc = .active then x.emit .ioShutdown else x

/-- `close_connection` for every member of the connections list -/
def stopCloseActive (x : Conn) : Conn :=
  if x.loc = .active then closeConn x Mhd.Gen.Upg.termShutdown else x

/-- `close_all_connections` as seen by one connection (daemon->shutdown already set) -/
def stopConn (cfg : Cfg) (x : Conn) : Conn :=
  if x.loc = .new then stopNew (x.emit .stopMark)
  else cleanupOne (stopCloseActive (resumeIf cfg (stopShutdownActive
        (stopMarkSuspended cfg (resumeIf cfg (x.emit .stopMark))))))

/-! ### client and application actions on one connection -/

/-- `MHD_add_connection` (accepted) -/
def arriveConn (x : Conn) : Conn :=
  if x.loc = .none then { x with loc := .new, sockOpen := true } else x.emit (.fault "arrive-twice")

/-- the client writes to its end of the connection; nothing is accepted once the daemon has
    closed the socket -/
def clientSendConn (x : Conn) (bs : Bytes) : Conn :=
  if x.sockOpen then { x with sockIn := x.sockIn ++ bs, sent := x.sent ++ bs } else x

/-- the application reads up to `max` bytes from the socket it was handed -/
def appRecvConn (x : Conn) (max : Nat) : Conn :=
  let n := min max x.sockIn.length
  { x.emit (.appRecv (x.sockIn.take n)) with sockIn := x.sockIn.drop n, handed := x.handed ++ x.sockIn.take n }

def appSendConn (x : Conn) (bs : Bytes) : Conn := x.emit (.appSend bs)

end Mhd.Upg
