/-
  C03 — request framing.  Part 6: the request-head parser of C02 as a `HeadParser`.

  `reqParser lvl rbSize` = C02's model of `get_request_line_inner` (`Req.rlScanner`) followed by
  C02's model of `get_req_headers` / `get_req_header` (`Req.hsScanner`: field lines, folding,
  bare CR / LF / NUL policy, whitespace rules, in-place termination, the shift-back block), run on the
  bytes of the read buffer, at strictness level `lvl`, with `read_buffer_size = rbSize`.  It
  delivers C03's `Head`: the method and the request target as the bytes the scanner delimited, the
  version class (`MHD_IS_HTTP_VER_1_1_COMPAT`) and the **field list read off the element list**
  (`rq.headers_received`, kind `MHD_HEADER_KIND`, name and value bytes from the final buffer), plus
  the bytes left in the read buffer.

  Not part of this composition (C02 models them; they do not influence the field list):
  `process_request_target` (percent-decoding, query arguments — the target here is the raw target),
  the two checks of the outer `get_request_line` (whitespace in the URI, over-long version) and
  `parse_cookie_header`.  A request line the scanner refuses gives `refuse` with the scanner's reply
  (`some code` / `none` = close without reply), a refused field line `refuse (some 400)`; `bad` (no
  prediction) is only the image of a model fault, which never occurs.  The trailer section is scanned by the same field-line scanner
  (`get_req_headers (c, true)` calls the same `get_req_header`); the scanner's buffer then starts
  with 9 stand-in bytes where the processed request line would be.

  The two geometry guards (`h.rb ≤ h.buf.size`, something was consumed) never fail
  (`Mhd.Proofs.FramingReqHead`); they make the definitions total without relying on that proof.
-/
import Mhd.Model.ReqField
import Mhd.Model.Framing

namespace Mhd.Framing
open Mhd.Gen

/-- the bytes of a string handed to the application (read-buffer region) -/
def sl0 (buf : Req.Bytes) (sl : Req.Slice) : Bytes :=
  if sl.region = 0 then (buf.toList.drop sl.off).take sl.len else []

def fieldOf (buf : Req.Bytes) (e : Req.Elem) : Option Field :=
  if e.kind = Http.kindHeader then
    some ⟨sl0 buf e.key, match e.value with | some v => sl0 buf v | none => []⟩
  else none

/-- `rq.headers_received` restricted to `MHD_HEADER_KIND`, in order -/
def fieldsOf (buf : Req.Bytes) (elems : List Req.Elem) : List Field := elems.filterMap (fieldOf buf)

/-- `MHD_IS_HTTP_VER_1_1_COMPAT` -/
def verCompat11 (v : Int) : Bool := v == Http.ver11 || v == Http.ver12_19

def headersGuard (inLen : Nat) (h : Req.Headers) : Bool :=
  decide (h.rb ≤ h.buf.size) && decide (h.buf.size - h.rb < inLen)

/-- the trailer section -/
def reqTrailers (lvl : Int) (rbSize : Nat) (b : Bytes) : FieldsRes :=
  match b with
  | [] => .incomplete
  | _ :: _ =>
    let s0 : Req.HS := { buf := Array.replicate 9 0 ++ b.toArray, rb := 9, rbSize := rbSize, method := 0, version := 0 }
    match (Req.hsScanner (Req.FLFlags.ofLevel lvl) 9).run s0 with
    | .more _ => .incomplete
    | .fault _ => .bad
    | .done (.err _) => .refuse (some Http.codeBadRequest)
    | .done (.ok h) =>
      if headersGuard b.length h then .ok (fieldsOf h.buf h.elems) (h.buf.toList.drop h.rb)
      else .incomplete

def lineGuard (r : Req.ReqLine) : Bool :=
  decide (r.method + r.methodLen ≤ r.tgt)

/-- the request head -/
def reqHead (lvl : Int) (rbSize : Nat) (b : Bytes) : HeadRes :=
  match b with
  | [] => .incomplete
  | _ :: _ =>
    match (Req.rlScanner (Req.RLFlags.ofLevel lvl)).run (Req.RL.init b.toArray 0) with
    | .more _ => .incomplete
    | .fault _ => .bad
    | .done (.err x) => .refuse x.reply
    | .done (.ok r) =>
      let s0 : Req.HS := { buf := r.buf, rb := r.rb, rbSize := rbSize, method := r.method, version := r.version,
                           crSp := r.crSp }
      match (Req.hsScanner (Req.FLFlags.ofLevel lvl) r.rb).run s0 with
      | .more _ => .incomplete
      | .fault _ => .bad
      | .done (.err _) => .refuse (some Http.codeBadRequest)
      | .done (.ok h) =>
        if headersGuard b.length h && lineGuard r then
          .ok ⟨sl0 h.buf ⟨0, r.method, r.methodLen⟩, sl0 h.buf ⟨0, r.tgt, r.tgtLen⟩, verCompat11 r.httpVer,
               fieldsOf h.buf h.elems⟩ (h.buf.toList.drop h.rb)
        else .incomplete

@[reducible] def reqParser (lvl : Int) (rbSize : Nat) : HeadParser := ⟨reqHead lvl rbSize, reqTrailers lvl rbSize⟩

end Mhd.Framing
