/-
  Mhd.Model.TmoConv — what the event loops and the legacy API make of the `uint64_t` sleep hint
  (daemon.c): MHD_get_timeout (unsigned long long), MHD_get_timeout64s (int64_t), MHD_get_timeout_i (int),
  the statics get_timeout_millisec_ / get_timeout_millisec_int used by MHD_poll_all and MHD_epoll, the
  `struct timeval` of MHD_select, and the timeval / poll timeout of thread_main_handle_connection.
  As compiled on the platform under test (LP64: int 32 bit, unsigned long long / time_t 64 bit; the
  `#if`s that compare SIZEOF_… are resolved accordingly — `Mhd.Gen.Tmo` carries the sizes and the
  check refuses other values).  `none` = MHD_NO.  Core Lean only.
-/
import Mhd.Model.Tmo

namespace Mhd.Tmo

def int64Max : Int := 9223372036854775807
def intMax : Int := 2147483647

/-- `(int64_t) x` for `x < 2^64` -/
def toInt64 (x : Nat) : Int := if x < 9223372036854775808 then (x : Int) else (x : Int) - 18446744073709551616

/-- `MHD_get_timeout`: `SIZEOF_UINT64_T > SIZEOF_UNSIGNED_LONG_LONG` is false, plain conversion -/
def getTimeoutULL (h : Option Nat) : Option Nat := h.map fun t => t % W

/-- `MHD_get_timeout64s` -/
def getTimeout64s (h : Option Nat) : Int :=
  match h with
  | none => -1
  | some u => if int64Max < (u : Int) then int64Max else toInt64 u

/-- `MHD_get_timeout_i` (`SIZEOF_INT < SIZEOF_INT64_T`) -/
def getTimeoutI (h : Option Nat) : Int :=
  let to64 := getTimeout64s h
  if intMax ≥ to64 then to64 else intMax

/-- `get_timeout_millisec_` (`max_timeout` is an `int32_t` ≥ -1) -/
def getTimeoutMillisec (h : Option Nat) (maxT : Int) : Int :=
  if maxT = 0 then 0
  else match h with
    | none => maxT
    | some dT =>
      if 0 < maxT ∧ maxT < (dT : Int) then maxT
      else if int64Max ≤ (dT : Int) then int64Max
      else toInt64 dT

/-- `get_timeout_millisec_int` -/
def getTimeoutMillisecInt (h : Option Nat) (maxT : Int) : Int :=
  let res := getTimeoutMillisec h maxT
  if intMax ≤ res then intMax else res

/-- `MHD_select`: the value that goes into the `struct timeval` (`none` = wait indefinitely) -/
def selectTmo (h : Option Nat) (millisec : Int) : Option Nat :=
  match h with
  | some t => if 0 < millisec ∧ (t : Int) > millisec then some millisec.toNat else some t
  | none => if 0 < millisec then some millisec.toNat else none

/-- `timeout.tv_sec = (time_t) (select_tmo / 1000); timeout.tv_usec = ((uint16_t) (select_tmo % 1000)) * 1000`
    (the clamp to TIMEVAL_TV_SEC_MAX is compiled out: `8 - 2 >= 8` is false) -/
def selectTv (ms : Nat) : Int × Int := (toInt64 (ms / 1000), ((ms % 1000) * 1000 : Nat))

/-- thread_main_handle_connection, select branch:
    `tv.tv_sec = (time_t) mseconds_left / 1000;` — the cast binds before the division (C division
    truncates toward zero) -/
def tpcTv (ms : Nat) : Int × Int := (Int.tdiv (toInt64 ms) 1000, ((ms % 1000) * 1000 : Nat))

/-- thread_main_handle_connection, poll branch -/
def tpcPoll (ms : Nat) : Int := if (ms : Int) ≥ intMax then intMax else ms

end Mhd.Tmo
