/-
  Model of `get_req_header` and `get_req_headers` (process_footers = false) of
  src/microhttpd/connection.c, including the end-of-headers block that re-uses
  the header tail ("shift back"), as repaired by the commit
  "fix: get_req_headers: re-use the header tail only when the last element is a
  field line".

  One `hsStep` = one iteration of the `while (p < read_buffer_offset)` loop of
  `get_req_header`; when that loop returns GOT_HEADER the element is appended
  and the per-line state is reset (the `do … while (1)` loop of
  `get_req_headers`), when it returns GOT_END_OF_HEADER the scanner is done.
  `continue; /* re-start processing of the current character */` after a
  replacement by a space (bare CR, NUL, folded line end) is modelled by
  running the whitespace branch in the same step.
-/
import Mhd.Model.ReqTarget

namespace Mhd.Req
open Mhd.Gen

/-- header-section parser state: read buffer, `c->rq.hdrs.hdr`, the element list -/
structure HS where
  buf : Bytes
  rb : Nat
  /-- `read_buffer_size` -/
  rbSize : Nat
  p : Nat := 0
  wsStart : Nat := 0
  nameEndFound : Bool := false
  nameLen : Nat := 0
  valueStart : Nat := 0
  startsWithWs : Bool := false
  crSp : Nat := 0
  skippedBroken : Nat := 0
  elems : List Elem := []
  /-- `c->rq.method` (absolute), for `header_size` -/
  method : Nat
  /-- `c->rq.version` (absolute), for the shift-back block -/
  version : Nat
  deriving Repr, DecidableEq

def HS.fill (s : HS) : Nat := s.buf.size - s.rb

inductive HErrKind where
  | bareCR | bareLF | obsFold | noColon | wspBeforeHeader | wspInName | invalidChar | emptyName
  deriving Repr, DecidableEq

/-- the finished header section (state `MHD_CONNECTION_HEADERS_RECEIVED`) -/
structure Headers where
  buf : Bytes
  rb : Nat
  rbSize : Nat
  elems : List Elem
  headerSize : Nat
  /-- `rq.field_lines.size` -/
  fieldLinesSize : Nat
  /-- how far the window was shifted back (0 = not shifted) -/
  shifted : Nat
  crSp : Nat
  skippedBroken : Nat
  deriving Repr, DecidableEq

inductive HDone where
  /-- `transmit_error_response_static (c, 400, …)` -/
  | err (k : HErrKind)
  | ok (h : Headers)
  deriving Repr, DecidableEq

def HS.err (k : HErrKind) : Step HS HDone := .done (.err k)

/-- reset of `c->rq.hdrs.hdr` -/
def HS.resetLine (s : HS) : HS :=
  { s with p := 0, wsStart := 0, nameEndFound := false, nameLen := 0, valueStart := 0,
           startsWithWs := false }

/-- consume `n` bytes of the read buffer -/
def HS.consume (s : HS) (n : Nat) : HS := { s with rb := s.rb + n, rbSize := s.rbSize - n }

/-! ### end of the header section: sizes and the shift-back block -/

/-- `last_elmnt_end`: "the position of the terminating NUL after the last character of the
    last header element" — the value end of the list tail **if it is a field line**, else the
    end of the HTTP version string (the repaired code) -/
def lastElemEnd (s : HS) : Nat :=
  match s.elems.getLast? with
  | some e =>
    if e.kind == Http.kindHeader then
      match e.value with
      | some v => v.off + v.len
      | none => s.version + Discipline.httpVerLen   -- unreachable: field lines always have a value
    else s.version + Discipline.httpVerLen
  | none => s.version + Discipline.httpVerLen

/-- the block after the `do … while` loop of `get_req_headers` (headers, not footers);
    `s` has already consumed the empty line; `fieldStart` = `rq.field_lines.start` -/
def finishHeaders (s : HS) (fieldStart : Nat) : Step HS HDone :=
  if s.rb < 2 then .fault (.read 70 0) else
  match s.buf[s.rb - 2]? with
  | none => .fault (.read 70 (s.rb - 2))
  | some b2 =>
    let headerSize := s.rb - s.method
    let fl0 := s.rb - fieldStart - 1
    let fieldLinesSize := if b2 == cCR then fl0 - 1 else fl0
    if Discipline.bufIncSize > s.rbSize then
      -- "Try to re-use some of the last bytes of the request header"
      let lastEnd : Nat := lastElemEnd s
      if lastEnd + 1 > s.rb then .fault (.write 71 (lastEnd + 1))
      else
        let shift := s.rb - (lastEnd + 1)
        let buf' := s.buf.extract 0 (s.rb - shift) ++ s.buf.extract s.rb s.buf.size
        .done (.ok { buf := buf', rb := s.rb - shift, rbSize := s.rbSize + shift, elems := s.elems,
                     headerSize := headerSize, fieldLinesSize := fieldLinesSize, shifted := shift,
                     crSp := s.crSp, skippedBroken := s.skippedBroken })
    else
      .done (.ok { buf := s.buf, rb := s.rb, rbSize := s.rbSize, elems := s.elems,
                   headerSize := headerSize, fieldLinesSize := fieldLinesSize, shifted := 0,
                   crSp := s.crSp, skippedBroken := s.skippedBroken })

/-! ### one character -/

/-- whitespace (SP / HT) that is not the end of the line -/
def onFieldWsp (F : FLFlags) (s : HS) : Step HS HDone :=
  if s.p == 0 then
    if !F.allowWspAtStart then HS.err .wspBeforeHeader
    else .advance { s with startsWithWs := true, p := s.p + 1 }
  else if !s.nameEndFound && !s.startsWithWs then
    if F.allowWspInName || F.allowWspBeforeColon then
      .advance { s with wsStart := if s.wsStart == 0 then s.p else s.wsStart, p := s.p + 1 }
    else HS.err .wspInName
  else
    .advance { s with wsStart := if s.wsStart == 0 then s.p else s.wsStart, p := s.p + 1 }

/-- "Not a whitespace, not the end of the header line" -/
def onFieldChar (F : FLFlags) (s : HS) (chr : UInt8) : Step HS HDone :=
  if !s.nameEndFound && !s.startsWithWs then
    if chr == 58 then  -- ':'
      let r : Option HS :=
        if s.wsStart == 0 then some { s with nameLen := s.p }
        else if !F.allowWspBeforeColon then none
        else some { s with nameLen := s.wsStart, wsStart := 0 }
      match r with
      | none => HS.err .wspInName
      | some s1 =>
        if s1.nameLen == 0 && !F.allowEmptyName then HS.err .emptyName
        else
          wr s1.buf (s1.rb + s1.nameLen) 0 72 .fault fun buf =>
            .advance { s1 with buf := buf, nameEndFound := true, p := s1.p + 1 }
    else
      if s.wsStart != 0 then
        if !F.allowWspInName then HS.err .wspInName
        else .advance { s with wsStart := 0, p := s.p + 1 }
      else .advance { s with p := s.p + 1 }
  else
    .advance { s with valueStart := if s.valueStart == 0 then s.p else s.valueStart, wsStart := 0,
                      p := s.p + 1 }

/-- the real end of a non-empty, non-folded line -/
def onLineEnd (F : FLFlags) (s : HS) (lineLen : Nat) : Step HS HDone :=
  if s.startsWithWs then
    -- first line starting with whitespace: discarded completely
    .advance (s.consume lineLen).resetLine
  else if !s.nameEndFound then
    if !F.allowLineWithoutColon then HS.err .noColon
    else .advance ({ s with skippedBroken := s.skippedBroken + 1 }.consume lineLen).resetLine
  else
    -- a valid header line
    let name : Slice := ⟨0, s.rb, s.nameLen⟩
    let fin : HS → Nat → Nat → Step HS HDone := fun s1 vstart vlen =>
      .advance ({ (s1.consume lineLen).resetLine with
                   elems := s1.elems ++ [⟨Http.kindHeader, name, some ⟨0, s1.rb + vstart, vlen⟩⟩] })
    if s.valueStart == 0 then
      wr s.buf (s.rb + s.p) 0 73 .fault fun buf => fin { s with buf := buf } s.p 0
    else if s.wsStart != 0 then
      wr s.buf (s.rb + s.wsStart) 0 74 .fault fun buf =>
        fin { s with buf := buf } s.valueStart (s.wsStart - s.valueStart)
    else
      wr s.buf (s.rb + s.p) 0 75 .fault fun buf =>
        fin { s with buf := buf } s.valueStart (s.p - s.valueStart)

/-- "Handle the end of the line" -/
def handleFieldEol (F : FLFlags) (s : HS) (chr : UInt8) (fieldStart : Nat) : Step HS HDone :=
  let lineLen := s.p + (if chr == cCR then 2 else 1)
  if s.p == 0 then
    finishHeaders (s.consume lineLen) fieldStart
  else
    match s.buf[s.rb + lineLen]? with
    | none => .fault (.read 76 (s.rb + lineLen))
    | some nxt =>
      if nxt == cSP || nxt == cHT then
        -- folded line
        if !F.allowFolded then HS.err .obsFold
        else
          wr s.buf (s.rb + s.p) cSP 77 .fault fun buf =>
            if chr == cCR then
              wr buf (s.rb + s.p + 1) cSP 78 .fault fun buf2 => onFieldWsp F { s with buf := buf2 }
            else onFieldWsp F { s with buf := buf }
      else onLineEnd F s lineLen

/-- one iteration of `while (p < c->read_buffer_offset)` in `get_req_header` -/
def hsStep (F : FLFlags) (fieldStart : Nat) (s : HS) : Step HS HDone :=
  match s.buf[s.rb + s.p]? with
  | none => .needMore
  | some chr =>
    if chr == cCR then
      if (s.p != 0 && decide (s.p + 2 ≥ s.fill)) || (s.p == 0 && decide (s.p + 2 > s.fill)) then .needMore
      else
        match s.buf[s.rb + s.p + 1]? with
        | none => .fault (.read 79 (s.rb + s.p + 1))
        | some nxt =>
          if nxt == cLF then handleFieldEol F s chr fieldStart
          else if F.bareCrAsSp then
            wr s.buf (s.rb + s.p) cSP 80 .fault fun buf =>
              onFieldWsp F { s with buf := buf, crSp := s.crSp + 1 }
          else if !F.bareCrKeep then HS.err .bareCR
          else onFieldChar F s chr
    else if chr == cLF then
      if F.bareLfAsCrlf then
        if s.p != 0 && decide (s.p + 1 ≥ s.fill) then .needMore
        else handleFieldEol F s chr fieldStart
      else HS.err .bareLF
    else if chr == cSP || chr == cHT then onFieldWsp F s
    else if chr == 0 then
      if !F.nulAsSp then HS.err .invalidChar
      else wr s.buf (s.rb + s.p) cSP 81 .fault fun buf => onFieldWsp F { s with buf := buf }
    else onFieldChar F s chr

def hsExtend (s : HS) (e : Bytes) : HS := { s with buf := s.buf ++ e }

def hsExtendR (r : HDone) (e : Bytes) : HDone :=
  match r with
  | .ok h => .ok { h with buf := h.buf ++ e }
  | .err k => .err k

/-- `get_req_headers (c, false)` as an incremental scanner -/
def hsScanner (F : FLFlags) (fieldStart : Nat) : Scanner HS HDone :=
  { step := hsStep F fieldStart, measure := fun s => s.buf.size - (s.rb + s.p), extend := hsExtend,
    extendR := hsExtendR }

/-- `switch_to_rq_headers_processing` after a processed request line -/
def HS.ofTarget (t : Target) (rbSize : Nat) : HS :=
  { buf := t.buf, rb := t.rb, rbSize := rbSize, elems := t.elems, method := t.method,
    version := t.version, crSp := t.crSp }

end Mhd.Req
