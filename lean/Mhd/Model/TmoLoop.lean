/-
  Mhd.Model.TmoLoop — one scripted event-loop round the way the configured loop runs it
  (external select: MHD_get_fdset2 + select(0) + MHD_run_from_select2;  epoll: MHD_run_wait(0)
  → MHD_epoll), the script operations, and `run`.

  Of `MHD_connection_handle_idle` only what the timeout logic rests on is mirrored: the
  `MHD_CONNECTION_CLOSED → cleanup_connection` case, the call of `connection_check_timedout`
  after the state machine, the handler call that may suspend, and the epoll re-arm.  The HTTP
  parser is not modelled: the scripted clients only ever send an incomplete request.
-/
import Mhd.Model.Tmo

namespace Mhd.Tmo

/-- `MHD_connection_epoll_update_` for a connection whose event-loop info is READ -/
def epollArm (d : Daemon) (i : Id) : Daemon :=
  let c := d.c i
  if d.cfg.epoll ∧ c.suspended = false ∧ c.inSet = false ∧ c.readReady = false ∧ procWait c = false then
    { (d.set i { c with inSet := true }) with kq := d.kq ++ [i] }
  else d

/-- … "Make sure that connection waiting for processing will be processed": a connection in a PROCESS
    wait state is queued in `eready` -/
def epollQueue (d : Daemon) (i : Id) : Daemon :=
  if d.cfg.epoll ∧ procWait (d.c i) = true ∧ i ∉ d.eready then { d with eready := i :: d.eready } else d

def epollUpdate (d : Daemon) (i : Id) : Daemon := epollArm (epollQueue d i) i

/-- tail of `MHD_connection_handle_idle` for a connection that is not closed: the timeout check -/
def idleCheck (d : Daemon) (i : Id) : Daemon × List Event :=
  let c := d.c i
  if checkTimedOut d.now c then
    (d.set i { c with closed := true, aware := false }, [Event.tmoClose i c.aware])
  else (epollUpdate d i, [])

/-- `MHD_connection_handle_idle` -/
def handleIdle (d : Daemon) (i : Id) : Daemon × List Event :=
  if (d.c i).closed then (cleanupConnection d i, [])
  else idleCheck d i

/-- the part of `MHD_connection_handle_idle` that offers upload data left in the read buffer to the
    application again (`process_request_body`: one handler call when the handler leaves data) -/
def bufAfterCall (c : Conn) : Nat := if c.slow then c.buf - 1 else 0

def procBuf (d : Daemon) (i : Id) : Daemon :=
  let c := d.c i
  if c.closed = false ∧ c.suspended = false ∧ c.buf > 0 then d.set i { c with buf := bufAfterCall c } else d

/-- `MHD_connection_handle_idle` when no read preceded it in this `call_handlers` -/
def handleIdleP (d : Daemon) (i : Id) : Daemon × List Event := handleIdle (procBuf d i) i

/-- the end of `call_handlers`: the daemon-wide flag "some connection has work pending" -/
def notePending (v : Variant) (d : Daemon) (i : Id) : Daemon :=
  if v.pendAccum then
    if d.dataPending = false ∧ procWait (d.c i) = true then { d with dataPending := true } else d
  else { d with dataPending := procWait (d.c i) }

/-- upload bytes in the read buffer after `recv` (only a POST body is counted) -/
def bufAfterRead (c : Conn) : Nat := if c.kind = Kind.post then c.buf + c.unreadN else 0

/-- the connection record after a successful `recv` -/
def readRec (c : Conn) : Conn := { c with unread := false, unreadN := 0, readReady := false, buf := bufAfterRead c }

/-- a complete request head has been read: the handler is called, and queues a reply (GET) or is content
    (Expect: 100-continue); `MHD_queue_response` restarts the timer once more (same clock value) -/
def replyRec (c : Conn) : Conn := { c with aware := true, replying := true }

/-- the upload call of the scripted handler: takes the data (all of it, or one byte) … -/
def callRec (c : Conn) : Conn := { c with aware := true, buf := bufAfterCall c }

/-- … or takes all of it and suspends the connection -/
def suspRec (c : Conn) : Conn := { c with aware := true, wantSusp := false, buf := 0 }

/-- `MHD_connection_handle_write` for a replying connection and what `MHD_connection_handle_idle` makes of a
    reply that is out completely.  Every send with progress — partial or not, in every sending state
    (CONTINUE_SENDING, HEADERS_SENDING, NORMAL_BODY_READY, CHUNKED_BODY_READY, FOOTERS_SENDING; see
    `Mhd.Gen.Tmo.activitySites`) — is followed by `MHD_update_last_activity_`. -/
def finishRec (c : Conn) : Conn :=
  { c with replying := false, kind := if c.kind = Kind.expect then Kind.post else Kind.none,
           aware := if c.kind = Kind.expect then c.aware else false }

def writeStep (v : Variant) (d : Daemon) (i : Id) : Daemon × List Event :=
  let d1 := if i ∈ d.wset then updateLastActivity v d i else d
  if i ∈ d.fset then
    (d1.set i (finishRec (d1.c i)), if (d1.c i).kind = Kind.expect then [] else [Event.completed i])
  else (d1, [])

/-- `MHD_connection_handle_read` with data available, followed by the part of the state machine
    that calls the application (which consumes the data and may suspend the connection) -/
def readData (v : Variant) (d : Daemon) (i : Id) : Daemon × List Event :=
  let c := d.c i
  let d1 := d.set i (readRec c)
  let d2 := updateLastActivity v d1 i
  let c2 := d2.c i
  if c2.kind = Kind.post then
    if c2.wantSusp then
      (internalSuspend (d2.set i (suspRec c2)) i, [Event.suspended i])
    else (d2.set i (callRec c2), [])
  else if c2.kind = Kind.get ∨ c2.kind = Kind.expect then (d2.set i (replyRec c2), [])
  else (d2, [])

/-- `MHD_connection_close_` with a code other than TIMEOUT_REACHED -/
def closeOther (d : Daemon) (i : Id) (code : Nat) : Daemon × List Event :=
  let c := d.c i
  (d.set i { c with closed := true, aware := false }, [Event.otherClose i code c.aware])

def seq2 (a : Daemon × List Event) (f : Daemon → Daemon × List Event) : Daemon × List Event :=
  let r := f a.1
  (r.1, a.2 ++ r.2)

/-- termination code when the client has closed its end (`recv` returns 0) -/
def eofCode (k : Kind) : Nat := match k with
  | .none => 0
  | _ => 5

/-- the "fast track" of `call_handlers`: when the whole request was read in this call and the reply headers
    are ready (state HEADERS_SENDING) the first send is attempted at once -/
def fastTrack (v : Variant) (d : Daemon) (i : Id) : Daemon × List Event :=
  -- (`i ∈ d.conns` always holds for a connection whose handler has just queued a reply)
  if (d.c i).replying ∧ (d.c i).kind = Kind.get ∧ i ∈ d.conns then seq2 (writeStep v d i) (fun d => handleIdle d i)
  else handleIdle d i

/-- `call_handlers` in the select loop; `rReady` = the socket was in the read set -/
def callHandlersSel0 (v : Variant) (d : Daemon) (i : Id) (rReady : Bool) : Daemon × List Event :=
  let c := d.c i
  if c.closed then handleIdle d i
  else if c.replying then seq2 (writeStep v d i) (fun d => handleIdle d i)
  else if rReady ∧ c.unread ∧ c.buf = 0 then seq2 (readData v d i) (fun d => fastTrack v d i)
  else if rReady ∧ c.peerClosed ∧ c.buf = 0 then seq2 (closeOther d i (eofCode c.kind)) (fun d => handleIdle d i)
  else handleIdleP d i

def callHandlersSel (v : Variant) (d : Daemon) (i : Id) (rReady : Bool) : Daemon × List Event :=
  let r := callHandlersSel0 v d i rReady
  (notePending v r.1 i, r.2)

/-- the loop over `daemon->connections` of `internal_run_from_select` (from the tail).
    Unless `savePrev`, `pos->prev` is read after `call_handlers`: it is NULL when the
    connection has left the list (cleaned up or suspended) and the loop ends there (F10). -/
def travSel (v : Variant) (rs : List Id) : List Id → Daemon → Daemon × List Event
  | [], d => (d, [])
  | i :: rest, d =>
    let r := callHandlersSel v d i (rs.contains i)
    if v.savePrev = false ∧ i ∉ r.1.conns then r
    else seq2 r (travSel v rs rest)

/-- one round of the external-select loop -/
def roundSelect (v : Variant) (d : Daemon) : Daemon × List Event :=
  -- MHD_get_fdset2 + select(0): taken before anything else happens
  let rs := d.conns.filter fun i => !(d.c i).closed && ((d.c i).unread || (d.c i).peerClosed) && (d.c i).buf == 0
  let d1 := if d.cfg.allowSuspend then resumeSuspended v d else d
  let d2 := { d1 with dataPending := false }
  seq2 (seq2 (processNew v d2) (fun d => travSel v rs d.conns.reverse d)) cleanupAll

/-- `epoll_wait(…, 0)`: drain the kernel's ready list -/
def epollEvent (d : Daemon) (i : Id) : Daemon :=
  let c := d.c i
  if c.peerClosed then
    { (d.set i { c with errFlag := true }) with eready := if i ∈ d.eready then d.eready else i :: d.eready }
  else if c.unread then
    -- `(READ & event_loop_info) || read_buffer_size > read_buffer_offset`: the second half also holds
    -- for a connection in state CLOSED (stale sizes), so it is queued as well
    let d1 := d.set i { c with readReady := true }
    if i ∉ d1.eready then { d1 with eready := i :: d1.eready } else d1
  else d

def epollWait (d : Daemon) : Daemon :=
  d.kq.foldl epollEvent { d with kq := [] }

/-- the loop over the manual-timeout list of `MHD_epoll` (from the tail, all of it) -/
def scanManual : List Id → Daemon → Daemon × List Event
  | [], d => (d, [])
  | i :: rest, d => seq2 (handleIdleP d i) (scanManual rest)

/-- the loop over the normal-timeout list of `MHD_epoll`: from the tail until the first
    connection that is not in state CLOSED afterwards -/
def scanNormal : List Id → Daemon → Daemon × List Event
  | [], d => (d, [])
  | i :: rest, d =>
    let r := handleIdleP d i
    if (r.1.c i).closed then seq2 r (scanNormal rest) else r

/-- `call_handlers` for a connection of the eready list -/
def callHandlersE0 (v : Variant) (d : Daemon) (i : Id) : Daemon × List Event :=
  let c := d.c i
  if i ∈ d.cleanup then (d, [])
  else if c.errFlag then
    if c.closed then handleIdle d i
    else seq2 (closeOther d i 1) (fun d => handleIdle d i)
  else if c.closed then handleIdle d i
  else if c.buf > 0 then handleIdleP d i
  else if c.readReady then
    if c.unread then seq2 (readData v d i) (fun d => handleIdle d i)
    else if c.peerClosed then seq2 (closeOther d i (eofCode c.kind)) (fun d => handleIdle d i)
    else handleIdle (d.set i { c with readReady := false }) i
  else handleIdle d i

/-- … with the end of `call_handlers` (`force_close` returns before the flag is looked at) -/
def callHandlersE1 (v : Variant) (d : Daemon) (i : Id) : Daemon × List Event :=
  let r0 := callHandlersE0 v d i
  if i ∉ d.cleanup ∧ (d.c i).errFlag then r0 else (notePending v r0.1 i, r0.2)

/-- … followed by the eready-removal rule of `MHD_epoll` -/
def callHandlersE (v : Variant) (d : Daemon) (i : Id) : Daemon × List Event :=
  let r := callHandlersE1 v d i
  let c' := r.1.c i
  if c'.suspended = false ∧ (c'.closed ∨ (c'.readReady = false ∧ procWait c' = false)) then
    ({ r.1 with eready := without r.1.eready i }, r.2)
  else r

def procEready (v : Variant) : List Id → Daemon → Daemon × List Event
  | [], d => (d, [])
  | i :: rest, d => seq2 (callHandlersE v d i) (procEready v rest)

/-- one round of the epoll loop (`MHD_epoll` + `MHD_cleanup_connections`) -/
def roundEpoll (v : Variant) (d : Daemon) : Daemon × List Event :=
  let d1 := if d.cfg.allowSuspend then resumeSuspended v d else d
  let d2 := epollWait { d1 with dataPending := false }
  seq2 (seq2 (seq2 (seq2 (processNew v d2)
    (fun d => scanManual d.manual.reverse d))
    (fun d => scanNormal d.normal.reverse d))
    (fun d => procEready v d.eready.reverse d))
    cleanupAll

def round (v : Variant) (d : Daemon) : Daemon × List Event :=
  if d.cfg.epoll then roundEpoll v d else roundSelect v d

/-! ### script operations -/

inductive Op
  | arrive (i : Id)
  /-- the client sends (the head of a POST and) one body byte -/
  | send (i : Id)
  /-- the client sends one more byte of a request line that never ends -/
  | sendp (i : Id)
  /-- (select loop) the client sends a complete GET, or the head of a POST with `Expect: 100-continue` -/
  | get (i : Id) (expect : Bool)
  /-- a round in which the sockets of the replying connections `ws` take more bytes and the replies of
      `fs` are out completely afterwards -/
  | roundw (ws fs : List Id)
  /-- the client reads more bytes (the amount is not modelled: see `roundw`) -/
  | allow (i : Id)
  /-- the client sends (the head of a POST and) k body bytes in one piece -/
  | sendn (i : Id) (k : Nat)
  /-- from now on the handler of `i` takes one upload byte per call -/
  | slow (i : Id)
  | cclose (i : Id)
  | tick (ms : Nat)
  | tickback (ms : Nat)
  | setTimeout (i : Id) (s : Nat)
  /-- the handler of `i` will suspend the connection at its next upload call -/
  | susp (i : Id)
  | resume (i : Id)
  | round
  deriving DecidableEq, Repr

def maxConns : Nat := 8

/-- the library knows the connection (started, not yet freed) -/
def Daemon.started (d : Daemon) (i : Id) : Bool := d.conns.contains i || d.susp.contains i

/-- a client byte reaches the socket -/
def clientData (d : Daemon) (i : Id) (k : Kind) (n : Nat := 1) : Daemon :=
  let c := d.c i
  if d.newL.contains i || d.started i then
    let d1 := d.set i { c with unread := true, unreadN := c.unreadN + n, kind := k }
    if d1.cfg.epoll ∧ i ∈ d1.conns ∧ c.inSet ∧ i ∉ d1.kq then { d1 with kq := d1.kq ++ [i] } else d1
  else d.set i { c with kind := k }

def clientClose (d : Daemon) (i : Id) : Daemon :=
  let c := d.c i
  let d1 := d.set i { c with peerClosed := true }
  if d1.cfg.epoll ∧ i ∈ d1.conns ∧ c.inSet ∧ i ∉ d1.kq then
    { d1 with kq := d1.kq ++ [i] } else d1

/-- `none` = the operation is not legal in this state (`bad-op` on both sides) -/
def step (v : Variant) (d : Daemon) : Op → Option (Daemon × List Event)
  | .arrive i => if i < maxConns ∧ i ∉ d.used then some (arrive d i, []) else none
  | .send i =>
    if i ∈ d.used ∧ (d.c i).peerClosed = false ∧ ((d.c i).kind = Kind.none ∨ (d.c i).kind = Kind.post)
    then some (clientData d i Kind.post, []) else none
  | .get i e =>
    if d.cfg.epoll = false ∧ i ∈ d.used ∧ (d.c i).peerClosed = false ∧ (d.c i).kind = Kind.none
    then some (clientData (d.set i { (d.c i) with limited := true }) i (if e then Kind.expect else Kind.get), []) else none
  | .allow i => if i ∈ d.used ∧ (d.c i).limited then some (d, []) else none
  | .roundw ws fs => some (round v { d with wset := ws, fset := fs })
  | .sendn i k =>
    if i ∈ d.used ∧ (d.c i).peerClosed = false ∧ ((d.c i).kind = Kind.none ∨ (d.c i).kind = Kind.post) ∧ 1 ≤ k ∧ k ≤ 8
    then some (clientData d i Kind.post k, []) else none
  | .slow i =>
    if i ∈ d.used ∧ (d.c i).wantSusp = false ∧ (d.c i).suspended = false
    then some (d.set i { (d.c i) with slow := true }, []) else none
  | .sendp i =>
    if i ∈ d.used ∧ (d.c i).peerClosed = false ∧ ((d.c i).kind = Kind.none ∨ (d.c i).kind = Kind.frag)
    then some (clientData d i Kind.frag, []) else none
  | .cclose i =>
    if i ∈ d.used ∧ (d.c i).peerClosed = false ∧ (d.c i).kind ≠ Kind.get ∧ (d.c i).kind ≠ Kind.expect
    then some (clientClose d i, []) else none
  | .tick ms => some ({ d with now := d.now + ms, back := d.back - ms }, [])
  | .tickback ms => if ms ≤ d.now then some ({ d with now := d.now - ms, back := d.back + ms }, []) else none
  | .setTimeout i s =>
    if d.started i ∧ s ≤ 4000000 then some (setTimeout v d i s, []) else none
  | .susp i => if i ∈ d.used ∧ (d.c i).slow = false then some (d.set i { (d.c i) with wantSusp := true }, []) else none
  | .resume i =>
    if d.started i ∧ (d.c i).suspended ∧ d.cfg.allowSuspend then some (resumeRequest d i, []) else none
  | .round => some (round v { d with wset := [], fset := [] })

/-- state after a script (illegal operations are skipped, as the two executables do) -/
def run (v : Variant) (d : Daemon) : List Op → Daemon
  | [] => d
  | o :: os => match step v d o with
    | some r => run v r.1 os
    | none => run v d os

end Mhd.Tmo
