/-
  C03 — request framing.  Part 3: the connection automaton, as far as it decides
  "read the next request on this connection or not".

  States are the `MHD_CONNECTION_STATE`s that `MHD_connection_handle_idle`
  distinguishes on the receive side; the sending states are collapsed into
  `startReply → fullReplySent` (the socket is always writable in this model).
  `idleStep` is one `case` of the `switch` in `MHD_connection_handle_idle`
  (`none` = `break`, wait for I/O); `idle` iterates it as the `while` loop does.

  Mirrored: `parse_connection_headers` (via `decideBody`), the first / upload /
  final handler calls, `MHD_queue_response` (early reply ⇒ `discard_request`),
  `process_request_body` (via `chunkAct`), the footers hand-off,
  `transmit_error_response_len` (`errorReply`), `keepalive_possible`, the reuse
  decision at `MHD_CONNECTION_FULL_REPLY_SENT` and `connection_reset`.

  The application is a script: request index ↦ behaviour.
-/
import Mhd.Model.Chunked

namespace Mhd.Framing
open Mhd.Gen.Framing

inductive CState
  | init                -- INIT / REQ_LINE_RECEIVING / REQ_HEADERS_RECEIVING ("reading-head")
  | headersReceived
  | headersProcessed
  | continueSending     -- "100 Continue" is being written (nothing is read meanwhile)
  | bodyReceiving       -- "reading-body"
  | bodyReceived
  | footersReceiving
  | footersReceived
  | fullReqReceived
  | startReply          -- "replying"
  | fullReplySent
  | closed
  | outOfDomain         -- the strict head splitter met a non-canonical head: no prediction
deriving DecidableEq, Repr

inductive KA
  | unknown | use | mustClose
deriving DecidableEq, Repr

/-- what the application does with one request -/
inductive Beh
  | cont (status : Nat) (closeHdr : Bool)    -- continue at the first call, reply at the final call
  | early (status : Nat) (closeHdr : Bool)   -- reply at the first call
  | abort                                     -- return MHD_NO at the first call
deriving DecidableEq, Repr

abbrev App := Nat → Beh

inductive Ev
  | first (method target : Bytes)
  | upload (data : Bytes)
  | final
  | reply (status : Nat) (closeHdr : Bool)   -- status line sent; `closeHdr` = reply carries "Connection: close"
  | reqDone                                   -- connection reset for the next request
  | close                                     -- server closed the connection
deriving DecidableEq, Repr

structure St where
  state : CState := .init
  buf : Bytes := []                -- read buffer contents
  discard : Bool := false          -- discard_request
  stopErr : Bool := false          -- stop_with_error
  keepalive : KA := .unknown
  readClosed : Bool := false
  resp : Option (Nat × Bool) := none   -- queued response: status, has "Connection: close"
  head : Head := ⟨[], [], false, []⟩
  chunked : Bool := false          -- rq.have_chunked_upload
  remaining : Nat := 0             -- rq.remaining_upload_size
  cur : Nat := 0                   -- rq.current_chunk_size
  off : Nat := 0                   -- rq.current_chunk_offset
  nreq : Nat := 0                  -- index of the current request
  out : List Ev := []              -- events, latest first
deriving DecidableEq, Repr

/-- upload calls are coalesced per request -/
def emitUpload (d : Bytes) (out : List Ev) : List Ev :=
  match out with
  | .upload x :: t => .upload (x ++ d) :: t
  | _ => .upload d :: out

/-- `keepalive_possible` (no upgrade, HTTP/1.0 / 1.1 only, response flags: only "Connection: close") -/
def keepalivePossible (s : St) (closeHdr : Bool) : KA :=
  if s.keepalive = .mustClose then .mustClose
  else if s.readClosed || s.discard then .mustClose
  else if closeHdr then .mustClose
  else if lookupToken s.head.fields hdrConnection tokClose then .mustClose
  else if ! s.head.http11 then
    (if lookupToken s.head.fields hdrConnection tokKeepAlive then .use else .mustClose)
  else .use

/-- `need_100_continue` -/
def need100Continue (s : St) : Bool :=
  s.head.http11 && s.remaining != 0 &&
    (match lookup s.head.fields hdrExpect with
     | some v => eqCI v tok100Continue
     | none => false)

/-- `transmit_error_response_len`: second error ⇒ CLOSED directly; otherwise the read buffer is
    dropped, the error reply is queued, `keepalive = MUST_CLOSE`, headers are built and sent. -/
def errorReply (s : St) (status : Nat) : St :=
  if s.stopErr then { s with state := .closed, buf := [], out := .close :: s.out }
  else
    { s with stopErr := true, discard := true, buf := [], resp := some (status, false),
             keepalive := .mustClose, state := .fullReplySent,
             out := .reply status true :: s.out }

/-- the head / trailer parser refuses: error reply (`transmit_error_response_*`) or, without a
    reply, `connection_close_error` -/
def refuseWith (s : St) : Option Nat → St
  | some status => errorReply s status
  | none => { s with state := .closed, buf := [], out := .close :: s.out }

/-- `connection_reset (c, reuse)` -/
def connReset (s : St) (reuse : Bool) : St :=
  if reuse then
    { state := .init, buf := s.buf, nreq := s.nreq + 1, out := .reqDone :: s.out,
      readClosed := s.readClosed }
  else
    { s with state := .closed, buf := [], resp := none, out := .close :: s.out }

/-- one iteration of `process_request_body`'s loop plus the bookkeeping after it -/
def bodyStep (lvl : Int) (s : St) : Option St :=
  if s.chunked then
    match chunkAct lvl s.cur s.off s.buf with
    | .needMore => none
    | .term n => some { s with buf := s.buf.drop n, cur := 0, off := 0 }
    | .data n => some { s with buf := s.buf.drop n, off := s.off + n,
                               out := emitUpload (s.buf.take n) s.out }
    | .line len size =>
      if size = 0 then some { s with buf := s.buf.drop len, cur := 0, off := 0, remaining := 0,
                                     state := .bodyReceived }
      else some { s with buf := s.buf.drop len, cur := size, off := 0 }
    | .err status => some (errorReply s status)
  else
    match s.buf with
    | [] => none
    | _ :: _ =>
      let n := min s.remaining s.buf.length
      let s' := { s with buf := s.buf.drop n, remaining := s.remaining - n,
                         out := emitUpload (s.buf.take n) s.out }
      some (if s'.remaining = 0 then { s' with state := .bodyReceived } else s')

/-- one `case` of `MHD_connection_handle_idle` -/
def idleStep [P : HeadParser] (lvl : Int) (app : App) (s : St) : Option St :=
  match s.state with
  | .init =>
    match P.head s.buf with
    | .incomplete => none
    | .bad => some { s with state := .outOfDomain, buf := [] }
    | .refuse x => some (refuseWith s x)
    | .ok h rest => some { s with state := .headersReceived, head := h, buf := rest }
  | .headersReceived =>
    match decideBody lvl s.head.http11 s.head.fields with
    | .reject status => some (errorReply s status)
    | .none => some { s with state := .headersProcessed, remaining := 0 }
    | .len n => some { s with state := .headersProcessed, remaining := n }
    | .chunked mc =>
      some { s with state := .headersProcessed, chunked := true, remaining := sizeUnknown,
                    keepalive := if mc then .mustClose else s.keepalive }
  | .headersProcessed =>
    let s1 := { s with out := .first s.head.method s.head.target :: s.out }
    match app s.nreq with
    | .abort => some { s1 with state := .closed, buf := [], out := .close :: s1.out }
    | .early status ch =>
      -- MHD_queue_response in HEADERS_PROCESSED: "response was queued early"
      some { s1 with resp := some (status, ch), discard := true, remaining := 0, state := .startReply }
    | .cont _ _ =>
      -- no response queued: "100 Continue" is due only if nothing of the body has arrived yet.
      -- (The interim reply itself is not recorded as an event: it is not a framing observable.)
      some { s1 with state := if s1.remaining = 0 then .fullReqReceived
                              else if need100Continue s1 && s1.buf.isEmpty then .continueSending
                              else .bodyReceiving }
  | .continueSending => some { s with state := .bodyReceiving }
  | .bodyReceiving =>
    if s.remaining = 0 then some { s with state := .bodyReceived } else bodyStep lvl s
  | .bodyReceived =>
    some { s with state := if s.chunked then .footersReceiving else .fullReqReceived }
  | .footersReceiving =>
    match P.trailers s.buf with
    | .incomplete => none
    | .bad => some { s with state := .outOfDomain, buf := [] }
    | .refuse x => some (refuseWith s x)
    | .ok _ rest => some { s with state := .footersReceived, buf := rest }
  | .footersReceived => some { s with state := .fullReqReceived }
  | .fullReqReceived =>
    match app s.nreq with
    | .cont status ch =>
      some { s with out := .final :: s.out, resp := some (status, ch), state := .startReply }
    | _ => none        -- not reachable: only `cont` behaviours get here
  | .startReply =>
    match s.resp with
    | none => none     -- not reachable
    | some (status, ch) =>
      let ka := keepalivePossible s ch
      some { s with keepalive := ka, state := .fullReplySent,
                    out := .reply status (ka == .mustClose) :: s.out }
  | .fullReplySent =>
    some (connReset s (s.keepalive == .use && ! s.readClosed && ! s.discard))
  | .closed => none
  | .outOfDomain => none

def rank : CState → Nat
  | .headersReceived => 13
  | .headersProcessed => 12
  | .continueSending => 11
  | .bodyReceiving => 10
  | .bodyReceived => 9
  | .footersReceiving => 8
  | .footersReceived => 7
  | .fullReqReceived => 6
  | .startReply => 5
  | .fullReplySent => 4
  | .init => 3
  | .closed => 0
  | .outOfDomain => 0

def measure (s : St) : Nat := s.buf.length * 16 + rank s.state

/-- the `while` loop of `MHD_connection_handle_idle`, with explicit fuel
    (`idle` below supplies enough: every step decreases `measure`) -/
def idleFuel [HeadParser] (lvl : Int) (app : App) : Nat → St → St
  | 0, s => s
  | n + 1, s =>
    match idleStep lvl app s with
    | none => s
    | some s' => idleFuel lvl app n s'

def idle [HeadParser] (lvl : Int) (app : App) (s : St) : St := idleFuel lvl app (measure s + 1) s

/-- bytes arrive from the client (ignored once the connection is closed) -/
def feed [HeadParser] (lvl : Int) (app : App) (s : St) (bytes : Bytes) : St :=
  if s.state = .closed ∨ s.state = .outOfDomain then s
  else idle lvl app { s with buf := s.buf ++ bytes }

/-- a whole segmented stream -/
def runSegs [HeadParser] (lvl : Int) (app : App) (segs : List Bytes) : St :=
  segs.foldl (feed lvl app) {}

end Mhd.Framing
