/-
  C03 — request framing.  Part 4 (specification side, hand-written, short):
  * `Framer.frames` — a strict RFC 9112 §6 reference framer over canonical heads
  * `Chunk`, `encodeChunked` — every way to chunk a body that a strictness level admits
  * `framesOf` — the requests the model presented completely, read off its event list

  Nothing here mirrors libmicrohttpd code except `parseHead` (shared strict head
  splitter) and the persistence rule, which re-uses `lookupToken`.
-/
import Mhd.Model.FramingConn

namespace Mhd.Framing
open Mhd.Gen.Framing

structure Frame where
  method : Bytes
  target : Bytes
  body : Bytes
  persistent : Bool
deriving DecidableEq, Repr

inductive RefEnd
  | incomplete (pending : Nat)
  | invalid
  | closed
  | nonCanonical
deriving DecidableEq, Repr

namespace Framer

def hexValue (ds : Bytes) : Nat := ds.foldl (fun a c => a * 16 + (hexVal c).getD 0) 0
def decValue (ds : Bytes) : Nat := ds.foldl (fun a c => a * 10 + (c.toNat - 48)) 0

/-- `chunk-size [ ";" ext ]` without its CRLF: the announced size -/
def chunkLine (l : Bytes) : Option Nat :=
  let ds := l.takeWhile isHex
  let r := l.dropWhile isHex
  if ds.isEmpty || hexValue ds > uint64Max then none
  else match r with
    | [] => some (hexValue ds)
    | c :: e => if c == SEMI && e.all (fun x => x != CR && x != LF) then some (hexValue ds) else none

inductive ChunkRes
  | incomplete
  | invalid
  | ok (body rest : Bytes)

/-- chunked-body up to and including the last-chunk line -/
def chunks : Nat → Bytes → Bytes → ChunkRes
  | 0, _, _ => .incomplete
  | f + 1, b, acc =>
    match takeLine b with
    | none => .incomplete
    | some (l, rest) =>
      match chunkLine l with
      | none => .invalid
      | some 0 => .ok acc rest
      | some n =>
        if rest.length < n + 2 then .incomplete
        else if (rest.drop n).take 2 == [CR, LF] then chunks f (rest.drop (n + 2)) (acc ++ rest.take n)
        else .invalid

def fieldValues (fs : List Field) (key : Bytes) : List Bytes :=
  (fs.filter fun f => eqCI f.name key).map (·.value)

/-- RFC 9112 §6.3 on a field list: how long is the message body -/
inductive RefBody
  | none
  | len (n : Nat)
  | chunked
  | invalid
deriving DecidableEq, Repr

/-- **the strict reference decision on an arbitrary field list** (names compared without regard to
    case, every field of that name counts, values exactly as delivered by the field parser):
    no Transfer-Encoding and no Content-Length ⇒ no body; exactly one Content-Length and its value
    `1*DIGIT` with a representable number ⇒ that length; exactly one Transfer-Encoding whose value
    is `chunked` and nothing else, and no Content-Length ⇒ chunked; **everything else is invalid**
    (several / differing / malformed / list-valued Content-Length, a transfer coding other than
    chunked or a list of codings, several Transfer-Encoding fields, both fields together). -/
def bodyKind (fs : List Field) : RefBody :=
  match fieldValues fs hdrTransferEncoding, fieldValues fs hdrContentLength with
  | [], [] => .none
  | [], [v] => if v.isEmpty || ! v.all isDigit || decValue v ≥ sizeUnknown then .invalid else .len (decValue v)
  | [te], [] => if eqCI te tokChunked then .chunked else .invalid
  | _, _ => .invalid

inductive NextRes
  | incomplete
  | invalid
  | nonCanonical
  | frame (f : Frame) (rest : Bytes)

/-- RFC 9110 §9.3 persistence from the request side -/
def persistent (h : Head) : Bool :=
  if lookupToken h.fields hdrConnection tokClose then false
  else if h.http11 then true
  else lookupToken h.fields hdrConnection tokKeepAlive

/-- RFC 9112 §6.3 message body length, strictly: any ambiguity is invalid -/
def next [P : HeadParser] (b : Bytes) : NextRes :=
  match P.head b with
  | .incomplete => .incomplete
  | .bad => .nonCanonical
  | .refuse _ => .invalid
  | .ok h rest =>
    let tes := fieldValues h.fields hdrTransferEncoding
    let cls := fieldValues h.fields hdrContentLength
    match tes with
    | _ :: _ :: _ => .invalid
    | [te] =>
      if ! eqCI te tokChunked || ! cls.isEmpty then .invalid
      else match chunks (rest.length + 1) rest [] with
        | .incomplete => .incomplete
        | .invalid => .invalid
        | .ok body r2 =>
          match P.trailers r2 with
          | .incomplete => .incomplete
          | .bad => .nonCanonical
          | .refuse _ => .invalid
          | .ok _ r3 => .frame ⟨h.method, h.target, body, persistent h⟩ r3
    | [] =>
      match cls with
      | [] => .frame ⟨h.method, h.target, [], persistent h⟩ rest
      | [v] =>
        if v.isEmpty || ! v.all isDigit || decValue v ≥ sizeUnknown then .invalid
        else if rest.length < decValue v then .incomplete
        else .frame ⟨h.method, h.target, rest.take (decValue v), persistent h⟩ (rest.drop (decValue v))
      | _ :: _ :: _ => .invalid

def framesFuel [HeadParser] : Nat → Bytes → List Frame × RefEnd
  | 0, b => ([], .incomplete b.length)
  | f + 1, b =>
    match b with
    | [] => ([], .incomplete 0)
    | _ :: _ =>
      match next b with
      | .incomplete => ([], .incomplete b.length)
      | .invalid => ([], .invalid)
      | .nonCanonical => ([], .nonCanonical)
      | .frame fr rest =>
        if fr.persistent then
          let r := framesFuel f rest
          (fr :: r.1, r.2)
        else ([fr], .closed)

/-- the reference framing of a byte stream (the level only matters through the Host rule,
    which the reference does not apply: requests lacking Host are outside the agreement theorem) -/
def frames [HeadParser] (_lvl : Int) (b : Bytes) : List Frame × RefEnd := framesFuel (b.length + 1) b

end Framer

/-! ### every admissible chunking of a body -/

inductive Eol | crlf | lf
deriving DecidableEq, Repr

def Eol.bytes : Eol → Bytes
  | .crlf => [CR, LF]
  | .lf => [LF]

structure Chunk where
  digits : Bytes          -- hex digits of the size, any case, leading zeros allowed
  bws : Bytes             -- "bad whitespace" before the extension
  ext : Bytes             -- chunk extension incl. its leading ';' (or empty)
  eol : Eol               -- terminator of the chunk-size line
  data : Bytes
  dataEol : Eol           -- terminator after the data
deriving DecidableEq, Repr

def Chunk.line (c : Chunk) : Bytes := c.digits ++ c.bws ++ c.ext ++ c.eol.bytes
def Chunk.bytes (c : Chunk) : Bytes := c.line ++ c.data ++ c.dataEol.bytes

def eolOK (lvl : Int) (e : Eol) : Prop := e = .crlf ∨ lvl ≤ bareLfMaxLvl

/-- a chunk-size line that the level admits -/
structure LineOK (lvl : Int) (c : Chunk) : Prop where
  digitsNonempty : c.digits ≠ []
  digitsHex : ∀ d ∈ c.digits, isHex d = true
  noOverflow : Framer.hexValue c.digits ≤ uint64Max
  bwsWs : ∀ d ∈ c.bws, isWs d = true
  bwsLevel : c.bws ≠ [] → bwsAboveLvl < lvl ∧ c.ext ≠ []
  ext : c.ext = [] ∨ ∃ e, c.ext = SEMI :: e ∧ ∀ d ∈ e, d ≠ LF
  eol : eolOK lvl c.eol

structure ChunkOK (lvl : Int) (c : Chunk) : Prop extends LineOK lvl c where
  size : Framer.hexValue c.digits = c.data.length
  nonEmpty : c.data ≠ []
  dataEolOK : eolOK lvl c.dataEol

/-- the last chunk: size zero, no data, no data terminator -/
structure LastOK (lvl : Int) (c : Chunk) : Prop extends LineOK lvl c where
  zero : Framer.hexValue c.digits = 0

def encodeChunked (cs : List Chunk) (last : Chunk) : Bytes :=
  (cs.flatMap Chunk.bytes) ++ last.line

/-! ### requests presented by the model -/

structure Seen where
  method : Bytes
  target : Bytes
  body : Bytes
deriving DecidableEq, Repr

/-- completed requests (first call … final call) in an event list given oldest first -/
def framesOfAux : List Ev → Option Seen → List Seen
  | [], _ => []
  | .first m t :: r, _ => framesOfAux r (some ⟨m, t, []⟩)
  | .upload d :: r, some s => framesOfAux r (some { s with body := s.body ++ d })
  | .upload _ :: r, none => framesOfAux r none
  | .final :: r, some s => s :: framesOfAux r none
  | .final :: r, none => framesOfAux r none
  | _ :: r, cur => framesOfAux r cur

def framesOf (s : St) : List Seen := framesOfAux s.out.reverse none

end Mhd.Framing
