/-
  C18 — lock / shared-field discipline, as executable (decidable) checks over the
  table that `tools/locktable.py` regenerates from the C sources on every run
  (`Mhd.Gen.Locks.table`).  Core Lean only.

  Nothing here is specific to the current contents of the table: every definition
  is a function of an arbitrary `List Entry`, the theorems in `Mhd.Props.C18`
  instantiate them with the generated table and are discharged by `decide +kernel`
  over the whole table.
-/
import Mhd.Gen.Locks

namespace Mhd.Locks
open Mhd.Gen.Locks

/-! ## effective lock sets of an event -/

/-- locks certainly held at the event: what every caller holds at entry, minus what this
    function may already have released of it, plus what it took itself on every path -/
def effMust (en : Entry) (e : Ev) : List Lock :=
  (en.entryMust.filter (fun l => !e.rel.contains l)) ++ e.must

/-- locks possibly held at the event (over-approximation) -/
def effMay (en : Entry) (e : Ev) : List Lock :=
  (en.entryMay.filter (fun l => !e.relm.contains l)) ++ e.may

/-- thread-per-connection guard in force at the event -/
def effG (en : Entry) (e : Ev) : Guard :=
  if e.g = Guard.any then en.entryG else e.g

def subset (a b : List Lock) : Bool := a.all (fun l => b.contains l)

/-! ## certificate checks (the extractor's fixpoints are re-checked, not trusted) -/

/-- `id` is the position in the table, so that `call k` can be resolved by indexing -/
def idsOk (t : List Entry) : Bool :=
  (t.zipIdx).all (fun p => p.1.id == p.2)

/-- one call event is consistent with the callee's entry context -/
def callOk (t : List Entry) (en : Entry) (e : Ev) : Bool :=
  match e.kind with
  | .call k =>
    match t[k]? with
    | none => false
    | some ce =>
      subset ce.entryMust (effMust en e) && subset (effMay en e) ce.entryMay
        && (ce.entryG == Guard.any || ce.entryG == effG en e)
        && (ce.roleSrc != RoleSrc.s_callers || (ce.role == en.role && !ce.root))
  | _ => true

/-- entry contexts are a post-fixed point of the call graph; roots assume nothing -/
def contextOk (t : List Entry) : Bool :=
  t.all (fun en => en.events.all (callOk t en) &&
    (!en.root || (en.entryMust.isEmpty && en.entryG == Guard.any)))

/-! ## lock order -/

/-- `(h, l)`: lock `l` is requested at some point where `h` may be held (through any depth
    of calls: the entry context of the requesting function is part of `effMay`) -/
def evEdges (en : Entry) (e : Ev) : List (Lock × Lock) :=
  match e.kind with
  | .lock l => (effMay en e).map (fun h => (h, l))
  | _ => []

def lockEdges (t : List Entry) : List (Lock × Lock) :=
  t.flatMap (fun en => en.events.flatMap (evEdges en))

/-- every edge goes strictly upwards in the certificate numbering ⇒ the order graph is acyclic
    (and in particular no lock is re-acquired while possibly held) -/
def rankOk (t : List Entry) (rank : Lock → Nat) : Bool :=
  (lockEdges t).all (fun p => decide (rank p.1 < rank p.2))

/-- no thread blocks (join / select / poll / epoll_wait) with a lock possibly held -/
def blockingOk (t : List Entry) : Bool :=
  t.all (fun en => en.events.all (fun e =>
    match e.kind with
    | .join => (effMay en e).isEmpty
    | .wait => (effMay en e).isEmpty
    | _ => true))

/-- locks and unlocks are balanced per function: a function returns holding exactly what it
    held at entry, except the listed hand-over functions -/
def isHandOver (name : String) : Bool :=
  ["MHD_ip_count_lock", "MHD_ip_count_unlock", "try_ready_normal_body", "try_ready_chunked_body"].contains name

/-! ## shared fields -/

/-- the documented benign set: single-word status flags and the connection counter that the
    library deliberately reads without synchronisation -/
def benignFields : List Field :=
  [.shutdown, .was_quiesced, .d_resuming, .have_new, .data_already_pending, .conn_count]

def benign (f : Field) : Bool := benignFields.contains f

/-- the mutex that protects each field of the shared set.  `conn_links` (`next`/`prev`) belong
    to whichever list the connection is on: the hand-over list of externally added connections
    is under `new_connections_mutex`, all others under `cleanup_connection_mutex`. -/
def designated : Field → List Lock
  | .conn_list | .susp_list | .cleanup_list | .tmo_list | .tmo_links => [.cleanup_connection_mutex]
  | .conn_links => [.cleanup_connection_mutex, .new_connections_mutex]
  | .new_list => [.new_connections_mutex]
  | .per_ip_count => [.per_ip_connection_mutex]
  | .nnc => [.nnc_lock]
  | .reference_count => [.response_mutex]
  | .resp_block => [.response_mutex]
  | .resp_block_nocrc => []
  | .c_resuming | .c_suspended | .c_thread_joined | .urh_was_closed | .urh_clean_ready => [.cleanup_connection_mutex]
  | .eready_list | .eready_links => []
  | .conn_count => [.cleanup_connection_mutex]
  | .d_resuming => [.cleanup_connection_mutex]
  | .have_new => [.new_connections_mutex]
  | .shutdown | .was_quiesced | .data_already_pending => []

/-- fields that exist only with epoll; epoll cannot be combined with thread-per-connection, so the
    thread that processes a connection *is* the daemon thread whenever they are touched -/
def epollOnly (f : Field) : Bool := f == .eready_list || f == .eready_links

/-- the access is confined to the single thread that runs the daemon's event loop -/
def confined (en : Entry) (e : Ev) (f : Field) : Bool :=
  match en.role with
  | .daemonThread | .startup => true
  | .connThread | .daemonOrTpcAny => effG en e == Guard.nonTpcOnly || epollOnly f
  | _ => false

/-- initialisation of an object that no other thread can reach yet -/
def freshObject (name : String) (f : Field) : Bool :=
  (f == .resp_block &&
    ["MHD_create_response_from_buffer_with_free_callback_cls", "MHD_create_response_from_iovec",
     "MHD_create_response_from_callback"].contains name) ||
  (f == .reference_count &&
    ["MHD_create_response_from_callback", "MHD_create_response_from_buffer_with_free_callback_cls",
     "MHD_create_response_from_iovec", "MHD_create_response_empty", "MHD_create_response_for_upgrade"].contains name)
  || (f == .urh_clean_ready && name == "MHD_response_execute_upgrade_")
  -- written by the connection's thread strictly before the MHD_resume_connection() that publishes it
  -- (the mutex taken there orders it before the daemon thread's read under the same mutex)
  || (f == .urh_clean_ready && name == "thread_main_handle_connection")

def underDesignated (en : Entry) (e : Ev) (f : Field) : Bool :=
  (designated f).any (fun l => (effMust en e).contains l)

/-- the window (`data_start`, `data_size`) of a response's data block.  It changes only for a
    response with a content reader, and for such a response the callers take `response->mutex`
    under the guard `NULL != response->crc` — a *guarded* hold, visible in the may-set only.
    Accesses under a `NULL == response->crc` guard (`resp_block_nocrc`) see an immutable buffer. -/
def respBlockHeld (en : Entry) (e : Ev) (f : Field) : Bool :=
  f == .resp_block_nocrc || (f == .resp_block && (effMay en e).contains .response_mutex)

def protectedAcc (en : Entry) (e : Ev) (f : Field) : Bool :=
  benign f || underDesignated en e f || confined en e f || freshObject en.name f || respBlockHeld en e f

/-- the two flags that the unchanged tree reads / writes without their mutex outside the benign
    set (finding F18b): `connection->suspended` (reads only) and `urh->was_closed` -/
def knownUnprotected (f : Field) (write : Bool) : Bool :=
  (f == .c_suspended && !write) || f == .urh_was_closed

def accOk (en : Entry) (e : Ev) : Bool :=
  match e.kind with
  | .acc f w => protectedAcc en e f || knownUnprotected f w
  | _ => true

def accOkStrict (en : Entry) (e : Ev) : Bool :=
  match e.kind with
  | .acc f _ => protectedAcc en e f
  | _ => true

def locksetOk (t : List Entry) : Bool := t.all (fun en => en.events.all (accOk en))
def locksetOkStrict (t : List Entry) : Bool := t.all (fun en => en.events.all (accOkStrict en))

/-- fields whose writers are the daemon thread alone whenever the daemon thread writes them at all
    (no designated mutex needed for those writes): the epoll ready list, `thread_joined` (set and
    read by the joining daemon thread only), and `urh->clean_ready`, which the daemon thread sets
    only while it forwards upgraded TLS data itself (`daemon->urh_head`, unused in
    thread-per-connection mode, where the connection's own thread sets it — see `freshObject`) -/
def daemonOnlyField (f : Field) : Bool :=
  f == .eready_list || f == .eready_links || f == .c_thread_joined || f == .urh_clean_ready

/-- `new_connections_list_process_` detaches the whole hand-over list under the mutex and then
    unlinks its elements from the *local* list -/
def detachedList (name : String) (f : Field) : Bool :=
  name == "new_connections_list_process_" && f == .conn_links

/-- **writes need the mutex itself**, not merely the daemon-thread role: in thread-per-connection
    mode the connection threads touch the same lists under the mutex, so an unlocked write by
    the daemon thread would race with them.  Allowed without the mutex: benign fields,
    daemon-only fields written by the confined daemon thread, fresh objects, the detached local
    list, and (known finding F18b) `urh->was_closed`. -/
def writeOk (en : Entry) (e : Ev) (f : Field) : Bool :=
  benign f || underDesignated en e f || freshObject en.name f || detachedList en.name f
    || respBlockHeld en e f
    || (daemonOnlyField f && confined en e f) || en.role == Role.startup || f == .urh_was_closed

def writesOk (t : List Entry) : Bool :=
  t.all (fun en => en.events.all (fun e =>
    match e.kind with
    | .acc f true => writeOk en e f
    | _ => true))

/-- objects for which no exception of `protectedAcc` is accepted at all: the per-address connection
    counters (the search tree `daemon->per_ip_connection_count` and the `count` of its nodes) and the
    digest-auth nonce table (`daemon->nnc[]`): *every* access, read or write, is made with the
    designated mutex certainly held (or by the start-up code, before any thread exists) -/
def strictFields : List Field := [.per_ip_count, .nnc]

def strictAccOk (en : Entry) (e : Ev) (f : Field) : Bool :=
  underDesignated en e f || en.role == Role.startup

def strictOk (t : List Entry) : Bool :=
  t.all (fun en => en.events.all (fun e =>
    match e.kind with
    | .acc f _ => !strictFields.contains f || strictAccOk en e f
    | _ => true))

/-- the "new connection pending" flag changes only in the critical section that changes the
    hand-over list: every write of `have_new` holds `new_connections_mutex` (so an
    `MHD_add_connection` from another thread can never fall between detaching the list and
    clearing the flag, which would lose the connection) -/
def haveNewPairedOk (t : List Entry) : Bool :=
  t.all (fun en => en.events.all (fun e =>
    match e.kind with
    | .acc .have_new true => (effMust en e).contains .new_connections_mutex || en.role == Role.startup
    | _ => true))
  && t.any (fun en => en.events.any (fun e => isAccHaveNewWrite e))
where
  isAccHaveNewWrite (e : Ev) : Bool := match e.kind with | .acc .have_new true => true | _ => false

/-- every event loop that blocks after `resume_suspended_connections` lets the *result* of that
    call force a zero timeout (a connection resumed from another thread waits for no socket
    event; without this the resumed request would sleep until unrelated traffic arrives).
    The function that runs only in thread-per-connection mode may discard the result: there the
    connection's own thread is woken instead. -/
def resumeTimeoutOk (sites : List (String × Nat × Bool × Bool)) : Bool :=
  sites.all (fun s => s.2.2.1 || s.2.2.2) && decide (3 ≤ (sites.filter (fun s => s.2.2.2)).length)

/-! ## application callbacks under a lock -/

/-- callbacks into the application run with no library mutex held, except the content reader
    (under the response mutex, documented) and the completion notification of an upgraded
    connection in `resume_suspended_connections` -/
def callbackOk (t : List Entry) : Bool :=
  t.all (fun en => en.events.all (fun e =>
    match e.kind with
    | .callback =>
      (effMay en e).all (fun l => l == .response_mutex
        || (l == .cleanup_connection_mutex && en.name == "resume_suspended_connections"))
    | _ => true))

/-! ## shutdown sequencing facts read off the table -/

def findFn (t : List Entry) (name : String) : Option Entry := t.find? (fun en => en.name == name)

def isAccOf (f : Field) (w : Bool) (e : Ev) : Bool :=
  match e.kind with
  | .acc f' w' => f' == f && w' == w
  | _ => false

def isJoin (e : Ev) : Bool := match e.kind with | .join => true | _ => false
def isSignal (e : Ev) : Bool := match e.kind with | .signal => true | _ => false

def callsFn (t : List Entry) (name : String) (e : Ev) : Bool :=
  match e.kind with
  | .call k => (match t[k]? with | some ce => ce.name == name | none => false)
  | _ => false

/-- index of the first event satisfying `p` -/
def firstIdx (p : Ev → Bool) (es : List Ev) : Option Nat := es.findIdx? p

def lastIdx (p : Ev → Bool) (es : List Ev) : Option Nat :=
  match (es.reverse).findIdx? p with
  | some i => some (es.length - 1 - i)
  | none => none

/-- `MHD_stop_daemon`: the shutdown flag is written before the inter-thread channel is signalled
    (otherwise the wake-up could be consumed before the flag is visible), the signal comes before
    the daemon thread is joined, the join holds no lock, and the lists are closed by `close_all_connections` (called directly in external
    mode, otherwise by the joined thread);
    `MHD_polling_thread`: `close_all_connections` is called after the last test of the flag;
    `close_all_connections`: ends with `MHD_cleanup_connections`, closes via `close_connection`. -/
def stopSequenceOk (t : List Entry) : Bool :=
  match findFn t "MHD_stop_daemon", findFn t "MHD_polling_thread", findFn t "close_all_connections" with
  | some st, some pt, some ca =>
    (match firstIdx (isAccOf .shutdown true) st.events, firstIdx isSignal st.events, firstIdx isJoin st.events,
           lastIdx isSignal st.events with
     | some w, some sg, some j, some sgl => decide (w < sg) && decide (sg < j) && decide (sgl < j)
     | _, _, _, _ => false)
    && st.events.any (callsFn t "close_all_connections")
    && (match lastIdx (isAccOf .shutdown false) pt.events, firstIdx (callsFn t "close_all_connections") pt.events with
        | some r, some c => decide (r < c)
        | _, _ => false)
    && (match lastIdx (callsFn t "MHD_cleanup_connections") ca.events, lastIdx (callsFn t "close_connection") ca.events with
        | some cl, some cc => decide (cc < cl) && decide (cl + 1 = ca.events.length)
        | _, _ => false)
    && ca.events.any isJoin
  | _, _, _ => false

/-! ## locks are released on every path -/

/-- the table confirms that a wrapper's body is nothing but the lock call, and the name is one of the
    hand-over functions of the model -/
def wrapperOk (t : List Entry) (w : String × Lock) : Bool :=
  isHandOver w.1 &&
  (match findFn t w.1 with
   | some en => !en.events.isEmpty && en.events.all (fun e => e.kind == Kind.lock w.2)
   | none => false)

/-- **every path from a lock to a function exit releases the lock**: no function returns (early
    return, end of body; through break / continue / goto, counting what its callees leave held)
    with a mutex that it or a callee took still possibly held — except the lock wrappers, whose
    callers are subject to the same rule (the wrapper's summary leaves the mutex held in the caller) -/
def exitsOk (t : List Entry) (exits : List (String × Lock × Nat × Bool)) (wrappers : List (String × Lock)) : Bool :=
  exits.all (fun x => wrappers.contains (x.1, x.2.1)) && wrappers.all (wrapperOk t)

end Mhd.Locks
