import Mhd.Model.PoolOps
import Driver.Common
open Mhd.Pool Driver

/-- deterministic fill pattern shared with the C harness -/
def pattern (seed len : Nat) : List UInt8 :=
  (List.range len).map fun j => UInt8.ofNat ((seed * 31 + j * 7 + 1) % 256)

def optIdx (s : String) : Option (Option Nat) :=
  if s == "-" then some none else s.toNat?.map some

def showSt (s : St) : String := s!"pos={s.p.pos} end={s.p.end_}"

def showRes (s : St) : Res → String
  | .block off len => s!"blk {off} {len} {showSt s}"
  | .null => s!"null {showSt s}"
  | .nullNeed n => s!"null need={n} {showSt s}"
  | .unit => s!"ok {showSt s}"
  | .badOp => "bad-op"

def doOp (s : St) (o : Op) : St × List String :=
  let (s', r) := step s o
  (s', [showRes s' r])

def W64 : Nat := 2 ^ 64

def stepLine (s : St) (ws : List String) : St × List String :=
  match ws with
  | ["create", n] => match n.toNat? with
      | some k => if 0 < k ∧ k < 2^62 then (St.init (createSize k), [s!"ok pos=0 end={createSize k} size={createSize k}"]) else (s, ["bad-op"])
      | none => (s, ["bad-op"])
  | ["alloc", n, f] => match n.toNat?, f.toNat? with
      | some k, some fe => if k < W64 then doOp s (.alloc k (fe != 0)) else (s, ["bad-op"])
      | _, _ => (s, ["bad-op"])
  | ["try", n] => match n.toNat? with
      | some k => if k < W64 then doOp s (.tryAlloc k) else (s, ["bad-op"])
      | none => (s, ["bad-op"])
  | ["realloc", i, n] => match optIdx i, n.toNat? with
      | some oi, some k => if k < W64 then doOp s (.realloc oi k) else (s, ["bad-op"])
      | _, _ => (s, ["bad-op"])
  | ["dealloc", i] => match i.toNat? with
      | some k => doOp s (.dealloc k)
      | none => (s, ["bad-op"])
  | ["reset", i, c, n] => match optIdx i, c.toNat?, n.toNat? with
      | some oi, some cc, some k => doOp s (.reset oi cc k)
      | _, _, _ => (s, ["bad-op"])
  | ["fill", i, seed] => match i.toNat?, seed.toNat? with
      | some k, some sd => match s.live[k]? with
        | some b =>
          if b.off + b.len ≤ s.p.mem.length then
            ({ s with p := { s.p with mem := writeAt s.p.mem b.off (pattern sd b.len) } }, ["ok"])
          else (s, ["fault fill-out-of-arena"])
        | none => (s, ["bad-op"])
      | _, _ => (s, ["bad-op"])
  | ["read", i] => match i.toNat? with
      | some k => match s.live[k]? with
        | some b =>
          if b.off + b.len ≤ s.p.mem.length then (s, [s!"data {hexOfBytes (readAt s.p.mem b.off b.len)}"])
          else (s, ["fault read-out-of-arena"])
        | none => (s, ["bad-op"])
      | none => (s, ["bad-op"])
  | ["free?"] => (s, [s!"free={getFree s.p}"])
  | ["inplace?", i, n] => match i.toNat?, n.toNat? with
      | some k, some _ => match s.live[k]? with
        | some b => (s, [s!"inplace={isResizableInplace s.p (some b.off) b.len}"])
        | none => (s, ["bad-op"])
      | _, _ => (s, ["bad-op"])
  | _ => (s, ["bad-op"])

def main : IO Unit := runEngine (St.init 0) stepLine
