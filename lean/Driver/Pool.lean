import Mhd.Model.PoolOps
import Mhd.Model.PoolRzOps
import Mhd.Model.NoSpaceConn
import Mhd.Model.ConnReadCfg
import Mhd.Model.Framing
import Driver.Common
open Mhd.Pool Driver

/-!
  Engine `pool`.  Three sub-engines behind one line protocol:
  * `model old` (default): `Mhd.Pool.step` — the ordinary build of memorypool.c;
  * `model rz <red zone> <0|1>`: `Mhd.PoolRz.step` — both build variants (red zone 0 / ALIGN_SIZE) with
    the user-poison map; state lines then carry `adr=` (run-length list of the addressable ranges) when
    the red zone is not 0;
  * `crinit` / `crfeed`: the traced composed run `Mhd.ArenaBound.runT` (C01's `Mhd.ConnRead` + which
    refusal is decided when a request does not fit), against the `crinit`/`crfeed` lines of harness `h_mem`.
-/

/-- deterministic fill pattern shared with the C harness -/
def pattern (seed len : Nat) : List UInt8 :=
  (List.range len).map fun j => UInt8.ofNat ((seed * 31 + j * 7 + 1) % 256)

def optIdx (s : String) : Option (Option Nat) :=
  if s == "-" then some none else s.toNat?.map some

def showSt (s : St) : String := s!"pos={s.p.pos} end={s.p.end_}"

def showRes (s : St) : Res → String
  | .block off len => s!"blk {off} {len} {showSt s}"
  | .null => s!"null {showSt s}"
  | .nullNeed n => s!"null need={n} {showSt s}"
  | .unit => s!"ok {showSt s}"
  | .badOp => "bad-op"

def doOp (s : St) (o : Op) : St × List String :=
  let (s', r) := step s o
  (s', [showRes s' r])

def W64 : Nat := 2 ^ 64

/-! ### red-zone model -/

/-- run-length list of the addressable (not poisoned) ranges: `a-b,c-d` (half-open), `-` if none -/
def adrRuns (m : List Bool) : String :=
  let rec go (l : List Bool) (i : Nat) (start : Option Nat) (acc : List String) : List String :=
    match l, start with
    | [], none => acc
    | [], some a => s!"{a}-{i}" :: acc
    | true :: t, none => go t (i + 1) none acc
    | true :: t, some a => go t (i + 1) none (s!"{a}-{i}" :: acc)
    | false :: t, none => go t (i + 1) (some i) acc
    | false :: t, some a => go t (i + 1) (some a) acc
  let r := (go m 0 none []).reverse
  if r.isEmpty then "-" else ",".intercalate r

structure RzS where
  v : Mhd.PoolRz.Var
  s : Mhd.PoolRz.St

def showStRz (z : RzS) (s : Mhd.PoolRz.St) : String :=
  if z.v.rz = 0 then s!"pos={s.p.pos} end={s.p.end_}" else s!"pos={s.p.pos} end={s.p.end_} adr={adrRuns s.p.psn}"

def showResRz (z : RzS) (s : Mhd.PoolRz.St) : Mhd.PoolRz.Res → String
  | .block off len => s!"blk {off} {len} {showStRz z s}"
  | .null => s!"null {showStRz z s}"
  | .nullNeed n => s!"null need={n} {showStRz z s}"
  | .unit => s!"ok {showStRz z s}"
  | .badOp => "bad-op"
  | .fault => "fault unpoison-out-of-arena"

def doOpRz (z : RzS) (o : Op) : RzS × List String :=
  let (s', r) := Mhd.PoolRz.step z.v z.s o
  ({ z with s := s' }, [showResRz z s' r])

def stepLineRz (z : RzS) (ws : List String) : RzS × List String :=
  let s := z.s
  match ws with
  | ["create", n] => match n.toNat? with
      | some k => if 0 < k ∧ k < 2^62 then
          let s0 := Mhd.PoolRz.St.init (createSize k)
          ({ z with s := s0 }, [s!"ok pos=0 end={createSize k} size={createSize k}"]) else (z, ["bad-op"])
      | none => (z, ["bad-op"])
  | ["alloc", n, f] => match n.toNat?, f.toNat? with
      | some k, some fe => if k < W64 then doOpRz z (.alloc k (fe != 0)) else (z, ["bad-op"])
      | _, _ => (z, ["bad-op"])
  | ["try", n] => match n.toNat? with
      | some k => if k < W64 then doOpRz z (.tryAlloc k) else (z, ["bad-op"])
      | none => (z, ["bad-op"])
  | ["realloc", i, n] => match optIdx i, n.toNat? with
      | some oi, some k => if k < W64 then doOpRz z (.realloc oi k) else (z, ["bad-op"])
      | _, _ => (z, ["bad-op"])
  | ["dealloc", i] => match i.toNat? with
      | some k => doOpRz z (.dealloc k)
      | none => (z, ["bad-op"])
  | ["reset", i, c, n] => match optIdx i, c.toNat?, n.toNat? with
      | some oi, some cc, some k => doOpRz z (.reset oi cc k)
      | _, _, _ => (z, ["bad-op"])
  | ["fill", i, seed] => match i.toNat?, seed.toNat? with
      | some k, some sd => match s.live[k]? with
        | some b =>
          if b.off + b.len ≤ s.p.mem.length then
            ({ z with s := { s with p := { s.p with mem := writeAt s.p.mem b.off (pattern sd b.len) } } }, ["ok"])
          else (z, ["fault fill-out-of-arena"])
        | none => (z, ["bad-op"])
      | _, _ => (z, ["bad-op"])
  | ["read", i] => match i.toNat? with
      | some k => match s.live[k]? with
        | some b =>
          if b.off + b.len ≤ s.p.mem.length then (z, [s!"data {hexOfBytes (readAt s.p.mem b.off b.len)}"])
          else (z, ["fault read-out-of-arena"])
        | none => (z, ["bad-op"])
      | none => (z, ["bad-op"])
  | ["free?"] => (z, [s!"free={Mhd.PoolRz.getFree z.v s.p}"])
  | ["inplace?", i, n] => match i.toNat?, n.toNat? with
      | some k, some _ => match s.live[k]? with
        | some b => (z, [s!"inplace={Mhd.PoolRz.isResizableInplace z.v s.p (some b.off) b.len}"])
        | none => (z, ["bad-op"])
      | _, _ => (z, ["bad-op"])
  | _ => (z, ["bad-op"])

/-! ### ordinary model (`Mhd.Pool`) -/

def stepLineOld (s : St) (ws : List String) : St × List String :=
  match ws with
  | ["create", n] => match n.toNat? with
      | some k => if 0 < k ∧ k < 2^62 then (St.init (createSize k), [s!"ok pos=0 end={createSize k} size={createSize k}"]) else (s, ["bad-op"])
      | none => (s, ["bad-op"])
  | ["alloc", n, f] => match n.toNat?, f.toNat? with
      | some k, some fe => if k < W64 then doOp s (.alloc k (fe != 0)) else (s, ["bad-op"])
      | _, _ => (s, ["bad-op"])
  | ["try", n] => match n.toNat? with
      | some k => if k < W64 then doOp s (.tryAlloc k) else (s, ["bad-op"])
      | none => (s, ["bad-op"])
  | ["realloc", i, n] => match optIdx i, n.toNat? with
      | some oi, some k => if k < W64 then doOp s (.realloc oi k) else (s, ["bad-op"])
      | _, _ => (s, ["bad-op"])
  | ["dealloc", i] => match i.toNat? with
      | some k => doOp s (.dealloc k)
      | none => (s, ["bad-op"])
  | ["reset", i, c, n] => match optIdx i, c.toNat?, n.toNat? with
      | some oi, some cc, some k => doOp s (.reset oi cc k)
      | _, _, _ => (s, ["bad-op"])
  | ["fill", i, seed] => match i.toNat?, seed.toNat? with
      | some k, some sd => match s.live[k]? with
        | some b =>
          if b.off + b.len ≤ s.p.mem.length then
            ({ s with p := { s.p with mem := writeAt s.p.mem b.off (pattern sd b.len) } }, ["ok"])
          else (s, ["fault fill-out-of-arena"])
        | none => (s, ["bad-op"])
      | _, _ => (s, ["bad-op"])
  | ["read", i] => match i.toNat? with
      | some k => match s.live[k]? with
        | some b =>
          if b.off + b.len ≤ s.p.mem.length then (s, [s!"data {hexOfBytes (readAt s.p.mem b.off b.len)}"])
          else (s, ["fault read-out-of-arena"])
        | none => (s, ["bad-op"])
      | none => (s, ["bad-op"])
  | ["free?"] => (s, [s!"free={getFree s.p}"])
  | ["inplace?", i, n] => match i.toNat?, n.toNat? with
      | some k, some _ => match s.live[k]? with
        | some b => (s, [s!"inplace={isResizableInplace s.p (some b.off) b.len}"])
        | none => (s, ["bad-op"])
      | _, _ => (s, ["bad-op"])
  | _ => (s, ["bad-op"])

/-! ### traced composed run (`Mhd.ArenaBound`): `crinit <pool_size> <increment> <level> [take pattern]`, `crfeed <hex>` -/

/-- the fields of the request as C03's framing decision wants them -/
def fieldsOf (buf : Mhd.Req.Bytes) (elems : List Mhd.Req.Elem) : List Mhd.Framing.Field :=
  elems.filterMap fun e =>
    if e.kind == Mhd.Gen.Http.kindHeader then
      let sl (x : Mhd.Req.Slice) : List UInt8 := (buf.extract x.off (x.off + x.len)).toList
      some ⟨sl e.key, (e.value.map sl).getD []⟩
    else none

/-- `MHD_IS_HTTP_VER_1_1_COMPAT` on the version string `HTTP/1.x` -/
def http11Of (buf : Mhd.Req.Bytes) (version : Nat) : Bool :=
  buf.getD (version + 5) 0 == 49 && buf.getD (version + 7) 0 != 48

def cookieName : List UInt8 := [67, 111, 111, 107, 105, 101]

/-- the decisions of `parse_connection_headers` (C03: `decideBody`) and `keepalive_possible`, the take
    pattern of the scripted access handler (as in engine `mem`) -/
def mkCfg (lvl : Int) (sc : List (Option Nat) × Mhd.ConnRead.HRes × Bool) : Mhd.ConnRead.Cfg :=
  -- the standard instantiation shared with engine `mem` (C01): scripted handler = take pattern (`n` = MHD_NO),
  -- what the first / final call does
  Mhd.ConnRead.mkCfg lvl sc.1 sc.2.1 sc.2.2

/-- state class + the refusal: `ph=err code=<status>` (0 = closed without a reply; `ns?` must never
    appear: the run is in `.error .noSpace` but no refusal was recorded) -/
def showTR (t : Mhd.ArenaBound.TR) : String :=
  let c := t.x.cm
  let rb := match c.rb with | none => "null" | some o => toString o
  let pos := s!"rb={rb} rbs={c.rbSize} rbo={c.rbOff} pos={c.p.pos} end={c.p.end_}"
  match t.x.phase with
  | .reqLine _ => s!"ph=line {pos}"
  | .headers _ _ => s!"ph=hdrs {pos}"
  | .headersDone _ _ => s!"ph=done {pos}"
  | .body _ => s!"ph=body {pos}"
  | .cont100 _ => s!"ph=c100 {pos}"
  | .footers _ _ => s!"ph=foot {pos}"
  | .reqDone _ _ _ => s!"ph=full {pos}"
  | .error (.reply code) => s!"ph=err code={code} why=reply"
  | .error .closed => "ph=err code=0 why=closed"
  | .error .noSpace =>
    match t.log with
    | some (.status c) => s!"ph=err code={c} why=nospace"
    | some .close => "ph=err code=0 why=nospace"
    | none => "ph=err code=ns? why=nospace"
  | .fault f => s!"ph=fault {repr f}"
  | .refused n => s!"ph=refused {n}"

def parsePat (s : String) : Option (List (Option Nat) × Mhd.ConnRead.HRes × Bool) :=
  if s == "-" then some ([], .cont, true) else
  ((s.splitOn ",").mapM (fun t => if t == "n" then some none else t.toNat?.map some)).map (fun l => (l, .cont, true))

def parseBeh (s : String) : Option (Mhd.ConnRead.HRes × Bool) :=
  match s.toList with
  | [f, l] =>
    let fr : Option Mhd.ConnRead.HRes := if f == 'c' then some .cont else if f == 'r' then some .reply else if f == 'n' then some .no else none
    let lr : Option Bool := if l == 'r' then some true else if l == 'n' then some false else none
    match fr, lr with
    | some a, some b => some (a, b)
    | _, _ => none
  | _ => none

structure DS where
  old : St
  rz : Option RzS
  tr : Mhd.ArenaBound.TR
  pat : List (Option Nat) × Mhd.ConnRead.HRes × Bool

def stepCR (d : DS) (ws : List String) : Option (DS × List String) :=
  let ini (ps inc lvl : String) (pt : List (Option Nat) × Mhd.ConnRead.HRes × Bool) :=
    match ps.toNat?, inc.toNat?, lvl.toInt? with
    | some p, some i, some l =>
      if 64 ≤ p ∧ p < 2 ^ 40 ∧ i < 2 ^ 40 ∧ -8 ≤ l ∧ l ≤ 8 then
        let t0 := Mhd.ArenaBound.initT (createSize p) p i l
        some ({ d with tr := t0, pat := pt }, [s!"ok {showTR t0}"])
      else some (d, ["bad-op"])
    | _, _, _ => some (d, ["bad-op"])
  match ws with
  | ["crinit", ps, inc, lvl] => ini ps inc lvl ([], .cont, true)
  | ["crinit", ps, inc, lvl, pt, beh] =>
    match parsePat pt, parseBeh beh with
    | some l, some (f, fin) => ini ps inc lvl (l.1, f, fin)
    | _, _ => some (d, ["bad-op"])
  | ["crinit", ps, inc, lvl, pt] =>
    match parsePat pt with
    | some l => ini ps inc lvl l
    | none => some (d, ["bad-op"])
  | ["crfill", v] =>
    -- harness only (engine `mem`): the byte written behind the fill level; the model never looks there
    if v == "off" || (match v.toNat? with | some n => n < 256 | none => false) then some (d, ["ok"]) else some (d, ["bad-op"])
  | ["crfeed", hex] =>
    match bytesOfHex hex with
    | some bs =>
      let t1 := Mhd.ArenaBound.feedT (mkCfg d.tr.x.lvl d.pat) d.tr bs
      some ({ d with tr := t1 }, [showTR t1])
    | none => some (d, ["bad-op"])
  | _ => none

def stepLine (d : DS) (ws : List String) : DS × List String :=
  match ws with
  | ["model", "old"] => ({ d with rz := none }, ["ok model"])
  | ["model", "rz", r, c] =>
    match r.toNat?, c.toNat? with
    | some rz, some chk =>
      ({ d with rz := some { v := ⟨rz, chk != 0⟩, s := Mhd.PoolRz.St.init 0 } }, ["ok model"])
    | _, _ => (d, ["bad-op"])
  | _ =>
    match stepCR d ws with
    | some r => r
    | none =>
      match d.rz with
      | none => let (s, out) := stepLineOld d.old ws; ({ d with old := s }, out)
      | some z => let (z', out) := stepLineRz z ws; ({ d with rz := some z' }, out)

def main : IO Unit :=
  runEngine ({ old := St.init 0, rz := none, tr := Mhd.ArenaBound.initT 64 64 16 0, pat := ([], .cont, true) } : DS) stepLine
