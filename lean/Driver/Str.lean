import Mhd.Model.Str
import Mhd.Model.StrCodec
import Mhd.Model.StrToken
import Driver.Common
/-
  Model driver of engine `str` (property C17): same line protocol as
  harness/h_str.c — one function call per line, one output line per input line.
-/
open Mhd.Str Driver

def showFault : Fault → String
  | .read i => s!"fault read {i}"
  | .write i => s!"fault write {i}"
  | .fuel => "fault fuel"

/-- output buffer as the harness allocates it -/
def outBuf (n : Nat) : Bytes := List.replicate n 0xAA

def z (s : Bytes) : Bytes := s ++ [0]

def showNum (r : M (Nat × Nat)) : String :=
  match r with
  | .error e => showFault e
  | .ok (n, v) => if n = 0 then "r=0" else s!"r={n} v={v}"

def showOut (size : Nat) (r : M (Nat × Bytes)) : String :=
  match r with
  | .error e => showFault e
  | .ok (n, o) => if n > size then s!"fault ret-beyond-size {n}" else s!"r={n} o={hexOfBytes (o.take n)}"

def b01 (b : Bool) : String := if b then "1" else "0"

def showBool (r : M Bool) : String :=
  match r with
  | .error e => showFault e
  | .ok b => s!"r={b01 b}"

def maxSize : Nat := 2 ^ 20

def stepLine (_ : Unit) (ws : List String) : Unit × List String :=
  let bad := ((), ["bad-op"])
  let one (s : String) := ((), [s])
  match ws with
  | [op, a] =>
    if op == "xd" then
      match a.toNat? with
      | some c => if c < 256 then one s!"r={toxdigitvalue (UInt8.ofNat c)}" else bad
      | none => bad
    else
    match bytesOfHex a with
    | none => bad
    | some s =>
      if op == "d64" then one (showNum (strToUint64 (z s)))
      else if op == "d64n" then one (showNum (strToUint64N s))
      else if op == "x32" then one (showNum (strxToUint32 (z s)))
      else if op == "x32n" then one (showNum (strxToUint32N s))
      else if op == "x64" then one (showNum (strxToUint64 (z s)))
      else if op == "x64n" then one (showNum (strxToUint64N s))
      else if op == "b2h" then one (showOut (2 * s.length) (binToHex s (outBuf (2 * s.length))))
      else if op == "h2b" then one (showOut ((s.length + 1) / 2) (hexToBin s (outBuf ((s.length + 1) / 2))))
      else if op == "unq" then one (showOut s.length (unquote s (outBuf s.length)))
      else if op == "pis" then
        match pctDecodeInPlaceStrict (z s) with
        | .error e => one (showFault e)
        | .ok (n, b) =>
          if n > s.length then one s!"fault ret-beyond-size {n}"
          else one s!"r={n} o={hexOfBytes (b.take n)} z={b01 (b.getD n 1 == 0)}"
      else if op == "pil" then
        match pctDecodeInPlaceLenient (z s) with
        | .error e => one (showFault e)
        | .ok (n, b, br) =>
          if n > s.length then one s!"fault ret-beyond-size {n}"
          else one s!"r={n} o={hexOfBytes (b.take n)} z={b01 (b.getD n 1 == 0)} b={b01 br}"
      else bad
  | [op, a, b] =>
    if op == "p32x" || op == "p16" || op == "p64" then
      match a.toNat?, b.toNat? with
      | some v, some size =>
        if size > 4096 then bad
        else if op == "p32x" then (if v > u32Max then bad else one (showOut size (uint32ToStrx v (outBuf size))))
        else if op == "p16" then (if v > 65535 then bad else one (showOut size (uint16ToStr v (outBuf size))))
        else (if v > u64Max then bad else one (showOut size (uint64ToStr v (outBuf size))))
      | _, _ => bad
    else if op == "ceq" then
      match a.toNat?, b.toNat? with
      | some x, some y => if x < 256 ∧ y < 256 then one s!"r={b01 (charsEqualCaseless (UInt8.ofNat x) (UInt8.ofNat y))}" else bad
      | _, _ => bad
    else if op == "pcs" || op == "pcl" || op == "quo" || op == "b64" then
      match bytesOfHex a, b.toNat? with
      | some s, some size =>
        if size > maxSize then bad
        else if op == "pcs" then one (showOut size (pctDecodeStrictN s (outBuf size)))
        else if op == "quo" then one (showOut size (quote s (outBuf size)))
        else if op == "b64" then one (showOut size (base64ToBinN s (outBuf size)))
        else
          match pctDecodeLenientN s (outBuf size) with
          | .error e => one (showFault e)
          | .ok (n, o, br) =>
            if n > size then one s!"fault ret-beyond-size {n}"
            else one s!"r={n} o={hexOfBytes (o.take n)} b={b01 br}"
      | _, _ => bad
    else
      match bytesOfHex a, bytesOfHex b with
      | some s, some t =>
        if op == "eqq" then one (showBool (equalQuotedBinN s t))
        else if op == "eqqc" then one (showBool (equalCaselessQuotedBinN s t))
        else if op == "eqc" then one (showBool (equalCaseless (z s) (z t)))
        else if op == "eqcb" then (if s.length ≠ t.length then bad else one (showBool (equalCaselessBinN s t s.length)))
        else if op == "tok" then one (showBool (hasTokenCaseless (z s) t))
        else if op == "rmts" then
          match removeTokensCaseless s t with
          | .error e => one (showFault e)
          | .ok (r, len, buf) =>
            if len > s.length then one s!"fault ret-beyond-size {len}"
            else one s!"r={b01 r} o={hexOfBytes (buf.take len)}"
        else bad
      | _, _ => bad
  | [op, a, b, c] =>
    if op == "p8" then
      match a.toNat?, b.toNat?, c.toNat? with
      | some v, some pad, some size =>
        if v > 255 ∨ pad > 3 ∨ size > 4096 then bad else one (showOut size (uint8ToStrPad v pad (outBuf size)))
      | _, _, _ => bad
    else if op == "eqcn" then
      match bytesOfHex a, bytesOfHex b, c.toNat? with
      | some s, some t, some k => if k < 2 ^ 64 then one (showBool (equalCaselessN (z s) (z t) k)) else bad
      | _, _, _ => bad
    else if op == "rmt" then
      match bytesOfHex a, bytesOfHex b, c.toNat? with
      | some s, some t, some size =>
        if size > maxSize then bad else
        match removeTokenCaseless s t (outBuf size) with
        | .error e => one (showFault e)
        | .ok (r, n, o) =>
          if n > (size : Int) then one s!"fault ret-beyond-size {n}"
          else if n ≥ 0 then one s!"r={b01 r} n={n} o={hexOfBytes (o.take n.toNat)}"
          else one s!"r={b01 r} n={n}"
      | _, _, _ => bad
    else bad
  | _ => bad

def main : IO Unit := runEngine () stepLine
