/-
  Model driver of engine `conn` (C02): the request-head parsers.
  Same line protocol as harness/h_reqparse.c (ops head / enum / args / enumargs /
  cookie / enumck) plus `stream` for the daemon-level prediction used with
  harness/h_conn02.c.
-/
import Mhd.Model.ReqHead
import Driver.Common
open Mhd.Req Mhd.Gen Driver

def hexN (bs : List UInt8) : String := hexOfBytes bs
def hexO : Option (List UInt8) → String
  | none => "~"
  | some bs => hexOfBytes bs

/-- phase of the head state machine (what `MHD_connection_handle_idle` drives) -/
inductive Ph where
  | rl (s : RL)
  | hs (t : Target) (s : HS)
  | ok (x : Head)
  | err (reply : Option Nat)
  | fault (f : Fault)

structure Cfg where
  lvl : Int
  pool : Nat
  rbsize : Nat

def showFault : Fault → String
  | .read s i => s!"fault read site={s} idx={i}"
  | .write s i => s!"fault write site={s} idx={i}"
  | .null s => s!"fault null site={s}"

/-- run the header phase from a header state -/
def runHs (c : Cfg) (t : Target) (s : HS) : Ph :=
  match (hsScanner (FLFlags.ofLevel c.lvl) t.rb).run s with
  | .more s' => .hs t s'
  | .fault f => .fault f
  | .done (.err _) => .err (some Http.codeBadRequest)
  | .done (.ok h) =>
    match parseCookieHeader (CKFlags.ofLevel c.lvl) h.buf h.elems with
    | .error f => .fault f
    | .ok ck => .ok ⟨t, h, ck⟩

/-- run the parsers on the current phase (after new bytes have arrived) -/
def runPh (c : Cfg) (base : Nat) : Ph → Ph
  | .rl s =>
    let F := RLFlags.ofLevel c.lvl
    match getRequestLineOuter F (Discipline.unesc_strict c.lvl) c.pool ((rlScanner F).run s) with
    | .more s' => .rl s'
    | .err e => .err e.reply
    | .fault f => .fault f
    | .ok t => runHs c t (HS.ofTarget t (c.rbsize - (t.rb - base)))
  | .hs t s => runHs c t s
  | p => p

def extendPh (e : Bytes) : Ph → Ph
  | .rl s => .rl (rlExtend s e)
  | .hs t s => .hs t (hsExtend s e)
  | .ok x => .ok { x with h := { x.h with buf := x.h.buf ++ e } }
  | p => p

def feedPh (c : Cfg) (base : Nat) (p : Ph) (e : Bytes) : Ph :=
  match p with
  | .rl _ | .hs _ _ => runPh c base (extendPh e p)
  | _ => extendPh e p

def showKv (kv : List (Nat × List UInt8 × Option (List UInt8))) : String :=
  "[" ++ ",".intercalate (kv.map fun (k, key, v) => s!"{k}:{hexN key}={hexO v}") ++ "]"

def showPh (base : Nat) : Ph → String
  | .rl s => s!"more c={s.rb - base}"
  | .hs _ s => s!"more c={s.rb - base}"
  | .err (some code) => s!"err {code}"
  | .err none => "err close"
  | .fault f => showFault f
  | .ok x =>
    let v := x.view
    s!"ok m={hexN v.method} u={hexN v.url} v={hexN v.version} hv={v.httpVer} raw={hexN v.rawTarget} kv={showKv v.kv} hs={v.headerSize} rb={x.h.rb - base} rbsz={x.h.rbSize} rest={hexN (x.h.buf.extract x.h.rb x.h.buf.size).toList}"

def headLine (c : Cfg) (chunks : List Bytes) : String :=
  let p0 : Ph := .rl (RL.init #[] 0)
  showPh 0 (chunks.foldl (feedPh c 0) p0)

/-! ### args / cookie alone -/

def argsLine (lvl : Int) (s : List UInt8) : String :=
  let buf : Bytes := (s ++ [0]).toArray
  match parseArgs (Discipline.unesc_strict lvl) Http.kindGetArgument (buf.size + 1) buf 0 [] with
  | .error f => showFault f
  | .ok (b, elems) =>
    "yes " ++ showKv (elems.map fun e => (e.kind, sliceView b #[] e.key, e.value.map (sliceView b #[])))

def ckResNum : CKRes → Int
  | .ok => 1 | .okLax => 2 | .malformed => -1 | .noMemory => 0

def cookieLine (lvl : Int) (s : List UInt8) : String :=
  -- the harness adds the element "Cookie: <value>" with value_size = strlen (value)
  let v := s.takeWhile (· != 0)
  let key := Http.hdrCookieBytes
  let buf : Bytes := (key ++ [0] ++ v ++ [0]).toArray
  let el : Elem := ⟨Http.kindHeader, ⟨0, 0, key.length⟩, some ⟨0, key.length + 1, v.length⟩⟩
  match parseCookieHeader (CKFlags.ofLevel lvl) buf [el] with
  | .error f => showFault f
  | .ok ck =>
    let cks := ck.elems.filter (·.kind == Http.kindCookie)
    s!"res={ckResNum ck.res} " ++
      showKv (cks.map fun e => (e.kind, sliceView buf ck.cpy e.key, e.value.map (sliceView buf ck.cpy)))

/-- `lookup`: the elements laid out as `name NUL value NUL …` in one buffer, then
    `MHD_lookup_connection_value_n` = `lookupElem`; `z=` is `MHD_lookup_connection_value`
    (value pointer only: NULL for "not found" and for a NULL value; strlen of the value) -/
def lookupLine (kind : Nat) (key : List UInt8) (els : List (Nat × List UInt8 × Option (List UInt8))) : String :=
  let (bl, elems) := els.foldl (fun (acc : List UInt8 × List Elem) (x : Nat × List UInt8 × Option (List UInt8)) =>
      let kOff := acc.1.length
      let b1 := acc.1 ++ x.2.1 ++ [0]
      match x.2.2 with
      | none => (b1, acc.2 ++ [(⟨x.1, ⟨0, kOff, x.2.1.length⟩, none⟩ : Elem)])
      | some vv => (b1 ++ vv ++ [0], acc.2 ++ [(⟨x.1, ⟨0, kOff, x.2.1.length⟩, some ⟨0, b1.length, vv.length⟩⟩ : Elem)]))
    (([] : List UInt8), ([] : List Elem))
  let buf : Bytes := bl.toArray
  let r := lookupElem buf elems kind key
  let v : Option (List UInt8) := r.bind fun e => e.value.map (sliceView buf #[])
  let main := match r with
    | none => "no"
    | some _ => "yes " ++ hexO v
  if key.contains 0 then main else main ++ " z=" ++ hexO (v.map fun bs => bs.takeWhile (· != 0))

def lookupElems : List String → Option (List (Nat × List UInt8 × Option (List UInt8)))
  | [] => some []
  | k :: n :: v :: rest =>
    match k.toNat?, bytesOfHex n, (if v == "~" then some none else (bytesOfHex v).map some), lookupElems rest with
    | some kk, some nn, some vv, some r => some ((kk, nn, vv) :: r)
    | _, _, _, _ => none
  | _ => none

/-! ### enumeration with digest -/

def alpha : Array UInt8 := #[71, 47, 63, 61, 38, 37, 32, 9, 13, 10, 11, 0, 58, 97, 49, 59]

def fnvLine (h : UInt64) (s : String) : UInt64 :=
  let h := s.toUTF8.foldl (fun h b => (h ^^^ b.toUInt64) * 1099511628211) h
  (h ^^^ 10) * 1099511628211

structure EnumSt where
  digest : UInt64 := 14695981039346656037
  n : Nat := 0
  nok : Nat := 0
  nerr : Nat := 0
  nmore : Nat := 0
  splitdiff : Nat := 0
  first : Option (List UInt8) := none

def classify (e : EnumSt) (line : String) : EnumSt :=
  if line.startsWith "ok" || line.startsWith "yes" || line.startsWith "res=1" || line.startsWith "res=2" then
    { e with nok := e.nok + 1 }
  else if line.startsWith "err" || line.startsWith "no" || line.startsWith "res=" then { e with nerr := e.nerr + 1 }
  else { e with nmore := e.nmore + 1 }

def enumCase (kind : Nat) (c : Cfg) (e : EnumSt) (input m : List UInt8) : EnumSt :=
  if kind == 0 then
    let one := headLine c (if input.isEmpty then [] else [input.toArray])
    let e := classify { e with digest := fnvLine e.digest one, n := e.n + 1 } one
    let bw := headLine c (input.map fun b => #[b])
    let e := { e with digest := fnvLine e.digest bw }
    if (one.startsWith "err" && bw.startsWith "err") || one == bw then e
    else { e with splitdiff := e.splitdiff + 1, first := e.first <|> some m }
  else
    let line := if kind == 1 then argsLine c.lvl input else cookieLine c.lvl input
    classify { e with digest := fnvLine e.digest line, n := e.n + 1 } line

partial def enumRec (kind : Nat) (c : Cfg) (pre suf : List UInt8) (maxlen : Nat) (m : List UInt8) (e : EnumSt) : EnumSt :=
  let e := enumCase kind c e (pre ++ m ++ suf) m
  if m.length == maxlen then e
  else alpha.foldl (fun e a => enumRec kind c pre suf maxlen (m ++ [a]) e) e

def hex16 (v : UInt64) : String :=
  String.ofList ((List.range 16).map fun i => hexDigit ((v.toNat >>> (4 * (15 - i))) % 16))

def showEnum (e : EnumSt) : String :=
  s!"digest={hex16 e.digest} n={e.n} ok={e.nok} err={e.nerr} more={e.nmore} splitdiff={e.splitdiff} first={hexO e.first}"

/-! ### daemon-level prediction: a pipelined stream of requests

  `stream <lvl> <hex>`: the whole client byte stream.  For each request in turn: the
  head as the handler sees it, or the refusal.  Bodies: identity `Content-Length`
  only (chunked decoding belongs to C03: reported as `te` and the prediction stops). -/

def decimal? (bs : List UInt8) : Option Nat :=
  if bs.isEmpty || !bs.all (fun b => 48 ≤ b && b ≤ 57) then none
  else some (bs.foldl (fun a b => a * 10 + (b.toNat - 48)) 0)

partial def streamReqs (lvl : Int) (pool : Nat) (buf : Bytes) (rb : Nat) (acc : List String) : List String :=
  if rb ≥ buf.size then acc
  else
    match parseHead lvl pool 32768 buf rb with
    | .more => acc ++ ["more"]
    | .err (some c) => acc ++ [s!"err {c}"]
    | .err none => acc ++ ["err close"]
    | .fault f => acc ++ [showFault f]
    | .ok x =>
      let v := x.view
      if hostMissing lvl x then acc ++ [s!"err {Http.codeBadRequest}"] else
      let line := s!"req m={hexN v.method} u={hexN v.url} v={hexN v.version} kv={showKv v.kv} hs={v.headerSize}"
      let te := lookupElem x.h.buf x.ck.elems Http.kindHeader Http.hdrTransferEncodingBytes
      let cl := lookupElem x.h.buf x.ck.elems Http.kindHeader Http.hdrContentLengthBytes
      match te, cl with
      | some _, _ => acc ++ [line ++ " te"]
      | none, some e =>
        match (e.value.map (sliceView x.h.buf x.ck.cpy)).bind decimal? with
        | some n =>
          if x.h.rb + n > x.h.buf.size then acc ++ [line ++ s!" body={n} short"]
          else streamReqs lvl pool x.h.buf (x.h.rb + n)
                 (acc ++ [line ++ s!" body={hexN (x.h.buf.extract x.h.rb (x.h.rb + n)).toList}"])
        | none => acc ++ [line ++ " badcl"]
      | none, none => streamReqs lvl pool x.h.buf x.h.rb (acc ++ [line ++ " body=-"])

def bytesList (ws : List String) : Option (List (List UInt8)) := ws.mapM bytesOfHex

def stepLine (_ : Unit) (ws : List String) : Unit × List String :=
  let bad := ((), ["bad-op"])
  match ws with
  | "head" :: lvl :: pool :: rbsize :: chunks =>
    match lvl.toInt?, pool.toNat?, rbsize.toNat?, bytesList chunks with
    | some l, some p, some r, some cs =>
      if p < 64 ∨ p > 1048576 ∨ r > p then bad
      else if (cs.foldl (fun a c => a + c.length) 0) > r then bad
      else ((), [headLine ⟨l, p, r⟩ (cs.map (·.toArray))])
    | _, _, _, _ => bad
  | ["enum", lvl, pool, rbsize, maxlen, pre, suf] =>
    match lvl.toInt?, pool.toNat?, rbsize.toNat?, maxlen.toNat?, bytesOfHex pre, bytesOfHex suf with
    | some l, some p, some r, some ml, some pr, some su =>
      if p < 64 ∨ p > 1048576 ∨ r > p ∨ ml > 8 ∨ pr.length + ml + su.length > r ∨ pr.length + ml + su.length > 250 then bad
      else ((), [showEnum (enumRec 0 ⟨l, p, r⟩ pr su ml [] {})])
    | _, _, _, _, _, _ => bad
  | ["args", lvl, s] =>
    match lvl.toInt?, bytesOfHex s with
    | some l, some b => ((), [argsLine l b])
    | _, _ => bad
  | ["cookie", lvl, s] =>
    match lvl.toInt?, bytesOfHex s with
    | some l, some b => ((), [cookieLine l b])
    | _, _ => bad
  | [op, lvl, maxlen, pre, suf] =>
    if op != "enumargs" && op != "enumck" then bad else
    match lvl.toInt?, maxlen.toNat?, bytesOfHex pre, bytesOfHex suf with
    | some l, some ml, some pr, some su =>
      if ml > 8 ∨ pr.length + ml + su.length > 250 then bad
      else ((), [showEnum (enumRec (if op == "enumargs" then 1 else 2) ⟨l, 32768, 0⟩ pr su ml [] {})])
    | _, _, _, _ => bad
  | "lookup" :: mask :: key :: els =>
    match mask.toNat?, bytesOfHex key, lookupElems els with
    | some m, some k, some es => ((), [lookupLine m k es])
    | _, _, _ => bad
  | ["stream", lvl, pool, s] =>
    match lvl.toInt?, pool.toNat?, bytesOfHex s with
    | some l, some p, some b => ((), [" | ".intercalate (streamReqs l p b.toArray 0 [])])
    | _, _, _ => bad
  | _ => bad

def main : IO Unit := Driver.runEngine () stepLine
