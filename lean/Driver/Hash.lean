import Mhd.Model.Hash.Sha256
import Mhd.Model.Hash.SpecSha256
import Driver.Common
/-
  Model driver of engine `hash`.  Script ops (one output line each):
    init   <alg>             -> ok
    update <alg> <off> <hex> -> ok | fault <site>
    finish <alg>             -> digest <hex> | fault <site>
    spec   <alg> <hex>       -> digest <hex>        (the specification, one-shot)
-/
open Mhd.Hash Driver

structure St where
  sha256 : Ctx (R8 UInt32)

def showFault : Fault → String
  | .bufWrite => "fault buf-write" | .bufFill => "fault buf-fill"
  | .blockRead => "fault block-read" | .table => "fault table"

/-- a context as `malloc` hands it out: arbitrary contents -/
def junk {S : Type} (A : Alg S) : Ctx S :=
  { H := A.zero, buffer := List.replicate A.B 0xAA, count := 12345, countHi := 77 }

def doUpdate {S : Type} (A : Alg S) (c : Ctx S) (off : Nat) (d : List UInt8) : Ctx S × String :=
  match update A c off d with
  | .ok c' => (c', "ok")
  | .error e => (c, showFault e)

def doFinish {S : Type} (A : Alg S) (c : Ctx S) : Ctx S × String :=
  match finish A c with
  | .ok (dg, c') => (c', s!"digest {hexOfBytes dg}")
  | .error e => (c, showFault e)

def stepLine (s : St) (ws : List String) : St × List String :=
  match ws with
  | ["init", "sha256"] => ({ s with sha256 := init Sha256.alg s.sha256 }, ["ok"])
  | ["update", "sha256", off, hex] =>
    match off.toNat?, bytesOfHex hex with
    | some o, some d => let (c, r) := doUpdate Sha256.alg s.sha256 o d; ({ s with sha256 := c }, [r])
    | _, _ => (s, ["bad-op"])
  | ["finish", "sha256"] => let (c, r) := doFinish Sha256.alg s.sha256; ({ s with sha256 := c }, [r])
  | ["spec", "sha256", hex] =>
    match bytesOfHex hex with
    | some d => (s, [s!"digest {hexOfBytes (Spec.Sha256.hash d)}"])
    | none => (s, ["bad-op"])
  | _ => (s, ["bad-op"])

def main : IO Unit := runEngine { sha256 := junk Sha256.alg } stepLine
