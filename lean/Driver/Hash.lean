import Mhd.Model.Hash.Sha256
import Mhd.Model.Hash.SpecSha256
import Mhd.Model.Hash.Md5
import Mhd.Model.Hash.SpecMd5
import Mhd.Model.Hash.Sha512
import Mhd.Model.Hash.SpecSha512
import Mhd.Model.Hash.Sha1
import Mhd.Model.Hash.SpecSha1
import Driver.Common
/-
  Model driver of engine `hash`.  Script ops (one output line each):
    init   <alg>             -> ok
    setcount <alg> <count> <hi> -> ok   (white box, see harness/h_hash.c)
    update <alg> <off> <hex> -> ok | fault <site>
    finish <alg>             -> digest <hex> | fault <site>
    spec   <alg> <hex>       -> digest <hex>        (the specification, one-shot)
    bump sha512_256 <count> <hi> <len> -> cnt <count'> <hi'>   (counter update only)
-/
open Mhd.Hash Driver

structure St where
  sha256 : Ctx (R8 UInt32)
  md5 : Ctx (R4 UInt32)
  sha512 : Ctx (R8 UInt64)
  sha1 : Ctx (R5 UInt32)
  wssha1 : Ctx (R5 UInt32)

def showFault : Fault → String
  | .bufWrite => "fault buf-write" | .bufFill => "fault buf-fill"
  | .blockRead => "fault block-read" | .table => "fault table"

/-- a context as `malloc` hands it out: arbitrary contents -/
def junk {S : Type} (A : Alg S) : Ctx S :=
  { H := A.zero, buffer := List.replicate A.B 0xAA, count := 12345, countHi := 77 }

def doUpdate {S : Type} (A : Alg S) (c : Ctx S) (off : Nat) (d : List UInt8) : Ctx S × String :=
  match update A c off d with
  | .ok c' => (c', "ok")
  | .error e => (c, showFault e)

def doFinish {S : Type} (A : Alg S) (c : Ctx S) : Ctx S × String :=
  match finish A c with
  | .ok (dg, c') => (c', s!"digest {hexOfBytes dg}")
  | .error e => (c, showFault e)

/-- white box: overwrite the byte counters (see harness) -/
def doSetCount {S : Type} (A : Alg S) (c : Ctx S) (n hi : String) (useHi : Bool) : Ctx S × String :=
  match n.toNat?, hi.toNat? with
  | some n, some hi =>
    if n < 2 ^ 64 ∧ hi < 2 ^ 64 ∧ n % A.B = 0 then
      ({ c with count := n, countHi := if useHi then hi else c.countHi }, "ok")
    else (c, "bad-op")
  | _, _ => (c, "bad-op")

def stepLine (s : St) (ws : List String) : St × List String :=
  match ws with
  | ["init", "sha256"] => ({ s with sha256 := init Sha256.alg s.sha256 }, ["ok"])
  | ["update", "sha256", off, hex] =>
    match off.toNat?, bytesOfHex hex with
    | some o, some d => let (c, r) := doUpdate Sha256.alg s.sha256 o d; ({ s with sha256 := c }, [r])
    | _, _ => (s, ["bad-op"])
  | ["setcount", "sha256", n, hi] => let (c, r) := doSetCount Sha256.alg s.sha256 n hi false; ({ s with sha256 := c }, [r])
  | ["finish", "sha256"] => let (c, r) := doFinish Sha256.alg s.sha256; ({ s with sha256 := c }, [r])
  | ["spec", "sha256", hex] =>
    match bytesOfHex hex with
    | some d => (s, [s!"digest {hexOfBytes (Spec.Sha256.hash d)}"])
    | none => (s, ["bad-op"])
  | ["init", "md5"] => ({ s with md5 := init Md5.alg s.md5 }, ["ok"])
  | ["update", "md5", off, hex] =>
    match off.toNat?, bytesOfHex hex with
    | some o, some d => let (c, r) := doUpdate Md5.alg s.md5 o d; ({ s with md5 := c }, [r])
    | _, _ => (s, ["bad-op"])
  | ["setcount", "md5", n, hi] => let (c, r) := doSetCount Md5.alg s.md5 n hi false; ({ s with md5 := c }, [r])
  | ["finish", "md5"] => let (c, r) := doFinish Md5.alg s.md5; ({ s with md5 := c }, [r])
  | ["spec", "md5", hex] =>
    match bytesOfHex hex with
    | some d => (s, [s!"digest {hexOfBytes (Spec.Md5.hash d)}"])
    | none => (s, ["bad-op"])
  | ["init", "sha512_256"] => ({ s with sha512 := init Sha512.alg s.sha512 }, ["ok"])
  | ["update", "sha512_256", off, hex] =>
    match off.toNat?, bytesOfHex hex with
    | some o, some d => let (c, r) := doUpdate Sha512.alg s.sha512 o d; ({ s with sha512 := c }, [r])
    | _, _ => (s, ["bad-op"])
  | ["setcount", "sha512_256", n, hi] => let (c, r) := doSetCount Sha512.alg s.sha512 n hi true; ({ s with sha512 := c }, [r])
  | ["finish", "sha512_256"] => let (c, r) := doFinish Sha512.alg s.sha512; ({ s with sha512 := c }, [r])
  | ["spec", "sha512_256", hex] =>
    match bytesOfHex hex with
    | some d => (s, [s!"digest {hexOfBytes (Spec.Sha512.hash d)}"])
    | none => (s, ["bad-op"])
  | ["init", "sha1"] => ({ s with sha1 := init Sha1.alg s.sha1 }, ["ok"])
  | ["update", "sha1", off, hex] =>
    match off.toNat?, bytesOfHex hex with
    | some o, some d => let (c, r) := doUpdate Sha1.alg s.sha1 o d; ({ s with sha1 := c }, [r])
    | _, _ => (s, ["bad-op"])
  | ["setcount", "sha1", n, hi] => let (c, r) := doSetCount Sha1.alg s.sha1 n hi false; ({ s with sha1 := c }, [r])
  | ["finish", "sha1"] => let (c, r) := doFinish Sha1.alg s.sha1; ({ s with sha1 := c }, [r])
  | ["spec", "sha1", hex] =>
    match bytesOfHex hex with
    | some d => (s, [s!"digest {hexOfBytes (Spec.Sha1.hash d)}"])
    | none => (s, ["bad-op"])
  | ["init", "wssha1"] => ({ s with wssha1 := init Sha1.wsAlg s.wssha1 }, ["ok"])
  | ["update", "wssha1", off, hex] =>
    match off.toNat?, bytesOfHex hex with
    | some o, some d => let (c, r) := doUpdate Sha1.wsAlg s.wssha1 o d; ({ s with wssha1 := c }, [r])
    | _, _ => (s, ["bad-op"])
  | ["setcount", "wssha1", n, hi] => let (c, r) := doSetCount Sha1.wsAlg s.wssha1 n hi false; ({ s with wssha1 := c }, [r])
  | ["finish", "wssha1"] => let (c, r) := doFinish Sha1.wsAlg s.wssha1; ({ s with wssha1 := c }, [r])
  | ["spec", "wssha1", hex] =>
    match bytesOfHex hex with
    | some d => (s, [s!"digest {hexOfBytes (Spec.Sha1.hash d)}"])
    | none => (s, ["bad-op"])
  | ["bump", "sha512_256", c, h, l] =>
    -- the counter update of `MHD_SHA512_256_update` alone (its wrap branch needs a single
    -- update of ≥ 2^64 − 2^61 bytes and cannot be reached through the API)
    match c.toNat?, h.toNat?, l.toNat? with
    | some c, some h, some l =>
      if c < 2 ^ 61 ∧ h < 2 ^ 64 ∧ l < 2 ^ 64 then
        let r := Sha512.alg.bump c h l
        (s, [s!"cnt {r.1} {r.2}"])
      else (s, ["bad-op"])
    | _, _, _ => (s, ["bad-op"])
  | _ => (s, ["bad-op"])

def st0 : St :=
  { sha256 := junk Sha256.alg, md5 := junk Md5.alg, sha512 := junk Sha512.alg,
    sha1 := junk Sha1.alg, wssha1 := junk Sha1.wsAlg }

def main : IO Unit := runEngine st0 stepLine
