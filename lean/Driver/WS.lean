import Mhd.Model.WSDecode
import Driver.Common
/-!
  Model driver of engine `ws` (C19): same line protocol as harness/h_ws.c.
  Environment variable `WS_LEGACY=1` selects the model of the code before the
  fixes F7/F7c (used once to show that the check finds the defect on the old tree).
-/
open Mhd.WS Driver

structure DSt where
  ws : Option WS := none
  lg : Bool := false
  u8 : Nat := 0        -- the sending application's utf8_step variable (`enc_text … =`)

def hex2 (n : Nat) : String := String.ofList [hexDigit (n / 16 % 16), hexDigit (n % 16)]

def hex8 (n : Nat) : String :=
  String.join ((List.range 4).map fun i => hex2 (n / 256 ^ (3 - i) % 256))

def fnv (bs : List UInt8) : Nat :=
  bs.foldl (fun h b => ((h ^^^ b.toNat) * 16777619) % 4294967296) 2166136261

/-- payload / frame as printed by `put_payload` of the harness -/
def showPayload (pl : Option (List UInt8)) (len : Nat) : String :=
  match pl with
  | none => if len = 0 then "null" else s!"null!len={len}"
  | some buf =>
    match buf[len]? with
    | none => "oob"
    | some t =>
      let body := buf.take len
      (if len > 256 then s!"#{len}:{hex8 (fnv body)}" else hexOfBytes body) ++ s!",t={t.toNat}"

def showCall (c : Call) : String := s!" {c.st},{c.readLen},{showPayload c.pl c.plen}"

def showEnc (r : EncRes) : String :=
  if r.fault then "fault encoder-write-out-of-bounds" else s!"e {r.st} {showPayload r.frame r.len}"

def stepLine (s : DSt) (ws : List String) : DSt × List String :=
  let bad : DSt × List String := (s, ["bad-op"])
  match ws with
  | ["init", f, m, a, c] =>
    match f.toNat?, m.toNat?, a.toNat?, c.toNat? with
    | some f, some m, some a, some c =>
      if f < 0x10000 ∧ m < 2 ^ 64 ∧ a < 2 ^ 64 ∧ 1 ≤ c ∧ c ≤ 4 then
        match WS.init f m a with
        | some w => ({ s with ws := some w, u8 := 0 }, ["init 0"])
        | none => ({ s with ws := none, u8 := 0 }, ["init -4"])
      else bad
    | _, _, _, _ => bad
  | ["rng", h] =>
    match bytesOfHex h with
    | some bs =>
      match s.ws with
      | some w => ({ s with ws := some { w with rng := w.rng ++ bs } }, ["ok"])
      | none => (s, ["ok"])
    | none => bad
  | ["split_close", h] =>
    match bytesOfHex h with
    | some bs =>
      let r := splitCloseReason bs
      let rs := match r.reason with
        | none => "null"
        | some (off, b) => s!"{off}:{hexOfBytes b}"
      (s, [s!"s {r.st} {r.code} {rs}"])
    | none => bad
  | ["utf8", h, st] =>
    match bytesOfHex h, st.toNat? with
    | some bs, some st =>
      if st < 100 then
        match checkUtf8 bs st 0 with
        | .invalid o => (s, [s!"u 0 {st} {o}"])
        | .ok s' => (s, [s!"u {if s' = 0 then 1 else 2} {s'} {bs.length}"])
      else bad
    | _, _ => bad
  | _ =>
    match s.ws with
    | none => bad
    | some w =>
      match ws with
      | ["feed", h] =>
        match bytesOfHex h with
        | some bs =>
          let (w', calls, e) := feed s.lg w bs
          match e with
          | .fault site => ({ s with ws := some w' }, [s!"fault {site}"])
          | _ =>
            let tailS := if e = .stuck then " stuck" else ""
            ({ s with ws := some w' }, ["f" ++ String.join (calls.map showCall) ++ tailS ++ s!" v={w'.validity}"])
        | none => bad
      | ["enc_text", h, fr, st] =>
        match bytesOfHex h, fr.toNat?,
            (if st = "-" then some none else if st = "=" then some (some s.u8) else st.toNat?.map some) with
        | some bs, some fr, some stp =>
          if fr < 16 ∧ (stp.getD 0) ≤ 100 then
            let (r, so) := encodeText w bs fr stp
            ({ s with ws := some r.ws, u8 := (if stp.isSome then so.getD 0 else s.u8) }, [showEnc r ++ s!" step={so.getD 0}"])
          else bad
        | _, _, _ => bad
      | ["enc_bin", h, fr] =>
        match bytesOfHex h, fr.toNat? with
        | some bs, some fr =>
          if fr < 16 then
            let r := encodeBinary w bs fr
            ({ s with ws := some r.ws }, [showEnc r])
          else bad
        | _, _ => bad
      | ["enc_ping", h] =>
        match bytesOfHex h with
        | some bs => let r := encodePingPong w bs 9; ({ s with ws := some r.ws }, [showEnc r])
        | none => bad
      | ["enc_pong", h] =>
        match bytesOfHex h with
        | some bs => let r := encodePingPong w bs 10; ({ s with ws := some r.ws }, [showEnc r])
        | none => bad
      | ["enc_close", c, h] =>
        match c.toNat?, bytesOfHex h with
        | some c, some bs =>
          if c < 65536 then let r := encodeClose w c bs; ({ s with ws := some r.ws }, [showEnc r])
          else bad
        | _, _ => bad
      | ["state"] =>
        let dn := match w.dataBuf with
          | none => 0
          | some _ => if w.step = 17 then w.dataStart + w.payloadIndex else w.dataSize
        let cn := if w.step = 18 then w.payloadIndex else 0
        let showBuf (b : Option (List UInt8)) (n : Nat) : String := match b with
          | none => "null"
          | some bs => hexOfBytes (bs.take n)
        (s, [s!"s step={w.step} v={w.validity} du={w.dataUtf8} cu={w.ctrlUtf8} dt={w.dataType} hs={w.hdrSize} " ++
             s!"ds={w.dataSize} ps={w.payloadSize} pi={w.payloadIndex} mask={hexOfBytes w.maskKey} " ++
             s!"hdr={hexOfBytes (w.hdr.take w.hdrSize)} data={showBuf w.dataBuf dn} ctrl={showBuf w.ctrlBuf cn}"])
      | ["valid?"] => (s, [s!"v={w.validity}"])
      | ["invalidate"] => ({ s with ws := some { w with validity := 0 } }, ["ok"])
      | _ => bad

def main : IO Unit := do
  let lg := (← IO.getEnv "WS_LEGACY") == some "1"
  runEngine ({ lg := lg } : DSt) stepLine
