import Mhd.Model.ConnMem
import Mhd.Model.NoSpace
import Driver.Common
open Mhd.ConnMem Mhd.Pool Driver

def optS : Option Nat → String
  | none => "null"
  | some o => toString o

def showCM (c : CM) : String :=
  s!"rb={optS c.rb} rbs={c.rbSize} rbo={c.rbOff} wb={optS c.wb} wbs={c.wbSize} wba={c.wbApp} wbn={c.wbSend} pos={c.p.pos} end={c.p.end_}"

def showRes (c : CM) : Res → String
  | .ok => s!"ok {showCM c}"
  | .bool b => s!"ret={b} {showCM c}"
  | .ptr o => s!"ptr={optS o} {showCM c}"
  | .size n => s!"n={n} {showCM c}"
  | .badOp => "bad-op"

def doOp (c : CM) (o : Op) : CM × List String :=
  let (c', r) := step c o
  (c', [showRes c' r])

def nat1 (c : CM) (s : String) (f : Nat → Op) : CM × List String :=
  match s.toNat? with
  | some k => if k < 2 ^ 64 then doOp c (f k) else (c, ["bad-op"])
  | none => (c, ["bad-op"])

def stepLine (c : CM) (ws : List String) : CM × List String :=
  match ws with
  | ["init", ps, inc] => match ps.toNat?, inc.toNat? with
      | some p, some i =>
        if 64 ≤ p ∧ p < 2 ^ 40 ∧ i < 2 ^ 40 then
          let c0 := init (createSize p) p i
          (c0, [s!"ok {showCM c0} size={c0.p.size}"])
        else (c, ["bad-op"])
      | _, _ => (c, ["bad-op"])
  | ["grow", r] => match r.toNat? with
      | some k => doOp c (.grow (k != 0))
      | none => (c, ["bad-op"])
  | ["recv", k] => nat1 c k .recv
  | ["consume", k] => nat1 c k .consume
  | ["shiftback", k] => nat1 c k .shiftBack
  | ["alloc", k] => nat1 c k .alloc
  | ["shrinkread"] => doOp c .shrinkRead
  | ["maxwrite"] => doOp c .maxWrite
  | ["wappend", k] => nat1 c k .wAppend
  | ["wsend", k] => nat1 c k .wSend
  | ["reset"] => doOp c .resetConn
  | ["errrelease"] => doOp c .errRelease
  | ["errreset"] => doOp c .errReset
  | ["nospace", stage, addSize, addKind, optHdr, hostVal, uri, mOther, mLen] =>
    match stage.toNat?, addSize.toNat?, addKind.toNat?, optHdr.toNat?, uri.toNat?, mOther.toNat?, mLen.toNat? with
    | some st, some a, some k, some o, some u, some mo, some ml =>
      let hv : Option (Option Nat) := if hostVal == "-" then some none else hostVal.toNat?.map some
      match hv with
      | some hv' =>
        let kind : Mhd.NoSpace.AddKind := if a = 0 then .none else if k = 1 then .hostUnparsed else if k = 2 then .hostParsed else .other
        (c, [s!"status={Mhd.NoSpace.status { stage := st, addSize := a, addKind := kind, optHdr := o, hostVal := hv', uri := u, methodOther := mo != 0, methodLen := ml }}"])
      | none => (c, ["bad-op"])
    | _, _, _, _, _, _, _ => (c, ["bad-op"])
  | _ => (c, ["bad-op"])

def main : IO Unit := runEngine (init 64 64 16) stepLine
