import Mhd.Model.ConnMem
import Mhd.Model.NoSpace
import Mhd.Model.ConnReadCfg
import Driver.Common
open Mhd.ConnMem Mhd.Pool Driver

def optS : Option Nat → String
  | none => "null"
  | some o => toString o

def showCM (c : CM) : String :=
  s!"rb={optS c.rb} rbs={c.rbSize} rbo={c.rbOff} wb={optS c.wb} wbs={c.wbSize} wba={c.wbApp} wbn={c.wbSend} pos={c.p.pos} end={c.p.end_}"

def showRes (c : CM) : Res → String
  | .ok => s!"ok {showCM c}"
  | .bool b => s!"ret={b} {showCM c}"
  | .ptr o => s!"ptr={optS o} {showCM c}"
  | .size n => s!"n={n} {showCM c}"
  | .badOp => "bad-op"

def doOp (c : CM) (o : Op) : CM × List String :=
  let (c', r) := step c o
  (c', [showRes c' r])

def nat1 (c : CM) (s : String) (f : Nat → Op) : CM × List String :=
  match s.toNat? with
  | some k => if k < 2 ^ 64 then doOp c (f k) else (c, ["bad-op"])
  | none => (c, ["bad-op"])


/-! ### composed engine (`Mhd.ConnRead`): `crinit <pool_size> <increment> <level> [take pattern]`, `crfeed <hex>` -/
open Mhd.ConnRead in
def showCR (x : CR) : String :=
  let c := x.cm
  let pos := s!"rb={optS c.rb} rbs={c.rbSize} rbo={c.rbOff} pos={c.p.pos} end={c.p.end_}"
  let win := hexOfBytes (Mhd.Pool.readAt c.p.mem (c.rb.getD 0) c.rbOff)
  -- `sync`: the buffer carried by the phase is the arena prefix up to the end of the received data
  let sync (buf : Mhd.Req.Bytes) : String :=
    if (c.p.mem.take buf.size) == buf.toList && buf.size == c.rb.getD 0 + c.rbOff then "1" else "0"
  match x.phase with
  | .reqLine s => s!"ph=line {pos} ne=0 sync={sync s.buf} win={win}"
  | .headers s _ => s!"ph=hdrs {pos} ne={s.elems.length} sync={sync s.buf} win={win}"
  | .headersDone h _ => s!"ph=done {pos} ne={h.elems.length} sync={sync h.buf} win={win}"
  | .body b =>
    let rem := if b.chunked then "x" else toString b.remaining
    s!"ph=body {pos} ne=0 sync={sync b.buf} win={win} rem={rem} cur={b.cur} off={b.off} ev={if b.evRead then 1 else 0}"
  | .cont100 b => s!"ph=c100 {pos} ne=0 sync={sync b.buf} win={win}"
  | .footers s _ => s!"ph=foot {pos} ne=0 sync={sync s.buf} win={win}"
  | .reqDone buf _ _ => s!"ph=full {pos} ne=0 sync={sync buf} win={win}"
  | .error (.reply code) => s!"ph=err code={code}"
  | .error .noSpace => "ph=err code=ns"
  | .error .closed => "ph=err code=0"
  | .fault f => s!"ph=fault {repr f}"
  | .refused n => s!"ph=refused {n}"

open Mhd.ConnRead (mkCfg)

/-- scripted access handler: take pattern (`n` = MHD_NO), first call (`c` go on, `r` early reply, `n` MHD_NO),
    final call (`r` reply, `n` MHD_NO) -/
structure Script where
  pat : List (Option Nat) := []
  first : Mhd.ConnRead.HRes := .cont
  final : Bool := true

structure DS where
  cm : CM
  cr : Mhd.ConnRead.CR
  pat : Script

def parsePat (s : String) : Option (List (Option Nat)) :=
  if s == "-" then some [] else
  (s.splitOn ",").mapM (fun t => if t == "n" then some none else t.toNat?.map some)

def parseBeh (s : String) : Option (Mhd.ConnRead.HRes × Bool) :=
  match s.toList with
  | [f, l] =>
    let fr : Option Mhd.ConnRead.HRes := if f == 'c' then some .cont else if f == 'r' then some .reply else if f == 'n' then some .no else none
    let lr : Option Bool := if l == 'r' then some true else if l == 'n' then some false else none
    match fr, lr with
    | some a, some b => some (a, b)
    | _, _ => none
  | _ => none

def stepCR (x : Mhd.ConnRead.CR) (pat : Script) (ws : List String) : Option (Mhd.ConnRead.CR × Script × List String) :=
  let ini (ps inc lvl : String) (pt : Script) :=
    match ps.toNat?, inc.toNat?, lvl.toInt? with
    | some p, some i, some l =>
      if 64 ≤ p ∧ p < 2 ^ 40 ∧ i < 2 ^ 40 ∧ -8 ≤ l ∧ l ≤ 8 then
        let x0 := Mhd.ConnRead.init (createSize p) p i l
        some (x0, pt, [s!"ok {showCR x0}"])
      else some (x, pat, ["bad-op"])
    | _, _, _ => some (x, pat, ["bad-op"])
  match ws with
  | ["crinit", ps, inc, lvl] => ini ps inc lvl {}
  | ["crinit", ps, inc, lvl, pt] =>
    match parsePat pt with
    | some l => ini ps inc lvl { pat := l }
    | none => some (x, pat, ["bad-op"])
  | ["crinit", ps, inc, lvl, pt, beh] =>
    match parsePat pt, parseBeh beh with
    | some l, some (f, fin) => ini ps inc lvl { pat := l, first := f, final := fin }
    | _, _ => some (x, pat, ["bad-op"])
  | ["crfill", v] =>
    -- harness only: the byte written behind the fill level; the model never looks there
    if v == "off" || (match v.toNat? with | some n => n < 256 | none => false) then some (x, pat, ["ok"]) else some (x, pat, ["bad-op"])
  | ["crfeed", hex] =>
    match bytesOfHex hex with
    | some bs => let x1 := Mhd.ConnRead.feed (mkCfg x.lvl pat.pat pat.first pat.final) x bs; some (x1, pat, [showCR x1])
    | none => some (x, pat, ["bad-op"])
  | _ => none

def stepLineCM (c : CM) (ws : List String) : CM × List String :=
  match ws with
  | ["init", ps, inc] => match ps.toNat?, inc.toNat? with
      | some p, some i =>
        if 64 ≤ p ∧ p < 2 ^ 40 ∧ i < 2 ^ 40 then
          let c0 := init (createSize p) p i
          (c0, [s!"ok {showCM c0} size={c0.p.size}"])
        else (c, ["bad-op"])
      | _, _ => (c, ["bad-op"])
  | ["grow", r] => match r.toNat? with
      | some k => doOp c (.grow (k != 0))
      | none => (c, ["bad-op"])
  | ["recv", k] => nat1 c k .recv
  | ["consume", k] => nat1 c k .consume
  | ["shiftback", k] => nat1 c k .shiftBack
  | ["bodydrop", k] => nat1 c k .bodyDrop
  | ["alloc", k] => nat1 c k .alloc
  | ["shrinkread"] => doOp c .shrinkRead
  | ["maxwrite"] => doOp c .maxWrite
  | ["wappend", k] => nat1 c k .wAppend
  | ["wsend", k] => nat1 c k .wSend
  | ["reset"] => doOp c .resetConn
  | ["errrelease"] => doOp c .errRelease
  | ["errreset"] => doOp c .errReset
  | ["nospace", stage, addSize, addKind, optHdr, hostVal, uri, mOther, mLen] =>
    match stage.toNat?, addSize.toNat?, addKind.toNat?, optHdr.toNat?, uri.toNat?, mOther.toNat?, mLen.toNat? with
    | some st, some a, some k, some o, some u, some mo, some ml =>
      let hv : Option (Option Nat) := if hostVal == "-" then some none else hostVal.toNat?.map some
      match hv with
      | some hv' =>
        let kind : Mhd.NoSpace.AddKind := if a = 0 then .none else if k = 1 then .hostUnparsed else if k = 2 then .hostParsed else .other
        (c, [s!"status={Mhd.NoSpace.status { stage := st, addSize := a, addKind := kind, optHdr := o, hostVal := hv', uri := u, methodOther := mo != 0, methodLen := ml }}"])
      | none => (c, ["bad-op"])
    | _, _, _, _, _, _, _ => (c, ["bad-op"])
  | _ => (c, ["bad-op"])

def stepLine (d : DS) (ws : List String) : DS × List String :=
  match stepCR d.cr d.pat ws with
  | some (x, pt, out) => ({ d with cr := x, pat := pt }, out)
  | none => let (c, out) := stepLineCM d.cm ws; ({ d with cm := c }, out)

def main : IO Unit := runEngine ({ cm := init 64 64 16, cr := Mhd.ConnRead.init 64 64 16 0, pat := {} } : DS) stepLine
