import Mhd.Model.PP
import Driver.Common
open Mhd.PP Driver

/-
  Engine `pp` — model driver.
    create <bufsize> <content-type-hex>   →  ok | null
    feed <hex>                            →  ret=<0|1> n=<calls> [k=… f=… t=… e=… off=… d=…]…
    destroy                               →  same format
  `~` = NULL pointer, `-` = empty byte string.
-/

def optHex : Option Bytes → String
  | none => "~"
  | some b => hexOfBytes b

def showEv (e : Event) : String :=
  s!"[k={optHex e.key} f={optHex e.filename} t={optHex e.ctype} e={optHex e.enc} off={e.off} d={hexOfBytes e.data}]"

def showRes (pp : PP) (ret : Bool) : String :=
  match pp.fault with
  | some site => s!"fault {site}"
  | none =>
    let evs := pp.evs.map showEv
    String.intercalate " " ([s!"ret={if ret then 1 else 0}", s!"n={pp.evs.length}"] ++ evs)

def stepLine (s : Option PP) (ws : List String) : Option PP × List String :=
  match ws with
  | ["create", n, ct] =>
    match n.toNat?, bytesOfHex ct with
    | some k, some c =>
      if k < Mhd.Gen.PP.minBufferSize ∨ k ≥ 2 ^ 32 ∨ c.contains 0 then (s, ["bad-op"])
      else match create k c with
        | some pp => (some pp, ["ok"])
        | none => (none, ["null"])
    | _, _ => (s, ["bad-op"])
  | ["feed", h] =>
    match s, bytesOfHex h with
    | some pp, some d =>
      let (pp', r) := feed { pp with evs := [] } d
      (some pp', [showRes pp' r])
    | _, _ => (s, ["bad-op"])
  | ["destroy"] =>
    match s with
    | some pp =>
      let (pp', r) := destroy { pp with evs := [] }
      (none, [showRes pp' r])
    | none => (s, ["bad-op"])
  | _ => (s, ["bad-op"])

def main : IO Unit := runEngine (none : Option PP) stepLine
