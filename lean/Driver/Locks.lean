import Driver.Common
/- stub: replaced by the builder of this engine -/
def main : IO Unit := Driver.runEngine () (fun s _ => (s, ["bad-op"]))
