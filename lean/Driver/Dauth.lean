/-
  Model driver of engine `dauth` (C12).  Same line protocol as harness/h_dauth.c:

    daemon <bind> <nnc_size> <rnd-hex> <def_timeout> <def_max_nc> <discipline+1>   -> ok
    clock <ms>                                                                      -> ok
    conn <sockaddr-hex | ->                                                         -> ok
    req <method> <target-hex> <authorization-hex | -> <action …>
         -> m=<http_mthd> url=<hex> args=<k=v,…> <result of the action>
       actions:  issue <algo> <realm>                       -> added|refused <nonce-hex>
                 check3 <realm> <user> <password> <timeout> <max_nc> <mqop> <malgo3>     -> r=<CLASS>
                 digest3 <realm> <user> <userdigest> <timeout> <max_nc> <mqop> <malgo3>  -> r=<CLASS>
                 check <realm> <user> <password> <timeout>                               -> l=<YES|NO|INVALID_NONCE>
                 check2 <realm> <user> <password> <timeout> <algo>                       -> l=…
                 cdigest <realm> <user> <userdigest> <timeout>                           -> l=…
                 cdigest2 <realm> <user> <userdigest> <timeout> <algo>                   -> l=…
    calc userhash <algo3> <user> <realm>            -> <hex>
    calc userdigest <algo3> <user> <realm> <pw>     -> <hex>
    state                                            -> n=<size> <nc>:<mask>:<nonce> …
    failmalloc <0|1>                                 -> ok     (1: every malloc inside the following check
                                                                actions returns NULL; `Mhd.Model.DauthAlloc`)
  (all strings hex, "-" = empty; numbers decimal)
-/
import Mhd.Model.DauthAlloc
import Driver.Common
open Mhd.Dauth Mhd.Auth Mhd.Gen.Dauth Mhd.Gen.Auth Driver

structure DSt where
  cfg : Cfg
  tbl : Mhd.Nonce.Table
  now : Nat
  addr : List UInt8
  conn : Bool
  /-- `failmalloc`: every `malloc` of a check action returns NULL -/
  failMalloc : Bool := false

def initSt : DSt :=
  { cfg := ⟨0, [], Mhd.Gen.Nonce.defTimeout, Mhd.Gen.Nonce.defMaxNc, true⟩, tbl := [], now := 0, addr := [], conn := false }

def bad (s : DSt) : DSt × List String := (s, ["bad-op"])

def algoOfIdx : Nat → Option Algo
  | 0 => some .md5
  | 1 => some .sha256
  | 2 => some .sha512
  | _ => none

def hex16 (m : Nat) : String :=
  String.ofList ((List.range 16).map fun j => hexDigit ((m / 16 ^ (15 - j)) % 16))

def showSlot (s : Mhd.Nonce.Slot) : String :=
  let m := if s.nc < 64 then s.nmask.toNat % 2 ^ s.nc else s.nmask.toNat
  s!"{s.nc}:{hex16 m}:{hexOfBytes (s.nonce.takeWhile (· != 0))}"

def showArgs (args : List (List UInt8 × Option (List UInt8))) : String :=
  if args.isEmpty then "none" else
  ",".intercalate (args.map fun kv =>
    match kv.2 with
    | none => hexOfBytes kv.1
    | some v => hexOfBytes kv.1 ++ "=" ++ hexOfBytes v)

/-- the request as the handler sees it: `process_request_target` (split at the first '?',
    `MHD_parse_arguments_` on the query, unescape of the path), `parse_http_std_method`,
    and the two header fields the harness sends -/
def mkReq (s : DSt) (method target : List UInt8) (auth : Option (List UInt8)) : Req :=
  let sp := splitFirst 63 target
  let hostH : Hdr := ⟨headerKind, [72, 111, 115, 116], [104]⟩
  { method := method, mthd := mthdOf method,
    url := unescape s.cfg.strictUnescape sp.1,
    args := match sp.2 with
      | some q => parseArgs s.cfg.strictUnescape q
      | none => [],
    hdrs := match auth with
      | some v => [hostH, ⟨headerKind, authHeader, v⟩]
      | none => [hostH],
    addr := s.addr }

def legacyName : Legacy → String
  | .yes => "YES" | .no => "NO" | .invalidNonce => "INVALID_NONCE" | .panic => "PANIC" | .fault => "FAULT"

def U32 : Nat := 2 ^ 32

def action (s : DSt) (r : Req) (ws : List String) : Option (DSt × String) :=
  match ws with
  | ["issue", algo, realm] =>
    match algo.toNat?.bind algoOfIdx, bytesOfHex realm with
    | some a, some rl =>
      match calcNonce s.cfg r rl a s.now with
      | none => some (s, "fault")
      | some n =>
        let x := Mhd.Nonce.addNonce s.tbl s.now n
        match x.2 with
        | .added => some ({ s with tbl := x.1 }, "added " ++ hexOfBytes n)
        | .refused => some ({ s with tbl := x.1 }, "refused " ++ hexOfBytes n)
        | .fault => some (s, "fault")
    | _, _ => none
  | [kind, realm, user, sec, tmo, mx, mqop, malgo] =>
    match bytesOfHex realm, bytesOfHex user, bytesOfHex sec, tmo.toNat?, mx.toNat?, mqop.toNat?, malgo.toNat? with
    | some rl, some u, some sc, some t, some m, some q, some ma =>
      if t ≥ U32 ∨ m ≥ U32 ∨ q ≥ 256 ∨ ma ≥ 256 then none else
      let secret? : Option Secret :=
        if kind = "check3" then some (.password sc) else if kind = "digest3" then some (.userdigest sc) else none
      match secret? with
      | none => none
      | some secret =>
        let x := digestCheckA s.failMalloc s.cfg s.tbl s.now r ⟨rl, u, secret, t, m, q, ma⟩
        some ({ s with tbl := x.1 }, "r=" ++ x.2.name)
    | _, _, _, _, _, _, _ => none
  | [kind, realm, user, sec, tmo] =>
    match bytesOfHex realm, bytesOfHex user, bytesOfHex sec, tmo.toNat? with
    | some rl, some u, some sc, some t =>
      if t ≥ U32 then none else
      let secret? : Option Secret :=
        if kind = "check" then some (.password sc) else if kind = "cdigest" then some (.userdigest sc) else none
      match secret? with
      | none => none
      | some secret =>
        let x := legacyCheckA s.failMalloc s.cfg s.tbl s.now r rl u secret t algMd5
        some ({ s with tbl := x.1 }, "l=" ++ legacyName x.2)
    | _, _, _, _ => none
  | [kind, realm, user, sec, tmo, algo] =>
    match bytesOfHex realm, bytesOfHex user, bytesOfHex sec, tmo.toNat?, algo.toNat? with
    | some rl, some u, some sc, some t, some al =>
      if t ≥ U32 ∨ al > 2 then none else
      let secret? : Option Secret :=
        if kind = "check2" then some (.password sc) else if kind = "cdigest2" then some (.userdigest sc) else none
      match secret? with
      | none => none
      | some secret =>
        let x := legacyCheckA s.failMalloc s.cfg s.tbl s.now r rl u secret t al
        some ({ s with tbl := x.1 }, "l=" ++ legacyName x.2)
    | _, _, _, _, _ => none
  | _ => none

def algoOf3 (n : Nat) : Option Algo := if n = algoInvalid then none else baseAlgo n

def stepLine (s : DSt) (ws : List String) : DSt × List String :=
  match ws with
  | ["daemon", bind, size, rnd, dt, dm, disc] =>
    match bind.toNat?, size.toNat?, bytesOfHex rnd, dt.toNat?, dm.toNat?, disc.toNat? with
    | some b, some n, some r, some t, some m, some dc =>
      if b ≥ 16 ∨ n > 64 ∨ t ≥ U32 ∨ m ≥ U32 ∨ dc > 2 ∨ t = 0 ∨ m = 0 then bad s
      else ({ cfg := ⟨bindOfOption b, r, t, m, decide (dc ≥ 1)⟩, tbl := Mhd.Nonce.Table.init n, now := s.now, addr := [], conn := false, failMalloc := s.failMalloc }, ["ok"])
    | _, _, _, _, _, _ => bad s
  | ["clock", t] =>
    match t.toNat? with
    | some k => if k < 2 ^ 64 then ({ s with now := k }, ["ok"]) else bad s
    | none => bad s
  | ["conn", a] =>
    match bytesOfHex a with
    | some ab => if ab.length = 0 ∨ ab.length = sinSize ∨ ab.length = sin6Size then ({ s with addr := ab, conn := true }, ["ok"]) else bad s
    | none => bad s
  | "req" :: method :: target :: auth :: act =>
    if !s.conn then bad s else
    match bytesOfHex target, (if auth = "-" then some none else (bytesOfHex auth).map some) with
    | some tg, some av =>
      let r := mkReq s method.toUTF8.toList tg av
      match action s r act with
      | none => bad s
      | some (s', out) => (s', [s!"m={r.mthd} url={hexOfBytes r.url} args={showArgs r.args} {out}"])
    | _, _ => bad s
  | ["calc", "userhash", a3, user, realm] =>
    match a3.toNat?.bind algoOf3, bytesOfHex user, bytesOfHex realm with
    | some a, some u, some rl => (s, [hexOfBytes (userhash a u rl)])
    | _, _, _ => bad s
  | ["calc", "userdigest", a3, user, realm, pw] =>
    match a3.toNat?.bind algoOf3, bytesOfHex user, bytesOfHex realm, bytesOfHex pw with
    | some a, some u, some rl, some p => (s, [hexOfBytes (userdigest a u rl p)])
    | _, _, _, _ => bad s
  | ["failmalloc", "0"] => ({ s with failMalloc := false }, ["ok"])
  | ["failmalloc", "1"] => ({ s with failMalloc := true }, ["ok"])
  | ["state"] => (s, [s!"n={s.tbl.length}" ++ String.join (s.tbl.map fun sl => " " ++ showSlot sl)])
  | _ => bad s

def main : IO Unit := Driver.runEngine initSt stepLine
