/-
  Engine `sm` (C05): model driver.  Reads the same script as harness/h_sm.c and prints the
  callback log the connection state-machine model (`Mhd.ConnSM`) predicts.

  This file contains only *scheduling glue*: the event loop of the daemon (external select /
  epoll), a socketpair abstraction and the scripted application of the harness.  Everything a
  connection does is done by `Mhd.ConnSM.step`; the events applied to every connection are
  recorded and at the end of each case the recorded trace is re-run through `Mhd.ConnSM.run`
  and `Mhd.Protocol` (line `model-check …`), so that the theorems of `Mhd.Props.C05` speak
  about exactly the run that produced the prediction.
-/
import Mhd.Model.ConnSM
import Driver.Common
open Mhd.ConnSM Mhd.Protocol Mhd.Gen.ConnState Driver

namespace SM

/-! ## the application of harness/h_sm.c -/

structure Beh where
  f : String := "c"
  l : String := "r0"                   -- one action, or a comma separated list (one per call, the last one repeats)
  takes : List (Option Nat) := []      -- none = all
  ur : Option (Nat × Nat) := none      -- reply (attempt) at upload call n with response rid
  us : Option (Nat × Nat) := none      -- suspend at upload call n for k rounds
  deriving Inhabited

structure RespSpec where
  kind : String := "copy"
  code : Nat := 200
  size : Nat := 5
  deriving Inhabited

structure HApp where
  behs : List (Nat × Beh) := []
  resps : List (Nat × RespSpec) := []
  nreq : Nat := 0
  curR : Nat := 0
  nupload : Nat := 0
  suspOnceFinal : Bool := false
  nfinal : Nat := 0                    -- calls without upload data after the first one, so far
  upgradeAllowed : Bool := false       -- MHD_ALLOW_UPGRADE
  resumeReq : Option Nat := none
  deriving Inhabited

def lookup {α} [Inhabited α] (l : List (Nat × α)) (k : Nat) : α :=
  match l.find? (·.1 == k) with
  | some (_, v) => v
  | none => default

def mkResp (a : HApp) (rid : Nat) : Resp :=
  let s := lookup a.resps rid
  { rid := rid,
    freeCb := s.kind == "freecb" || s.kind == "cb-known" || s.kind == "cb-unknown",
    body := 200 ≤ s.code,                 -- 1xx: no reply body (is_reply_body_needed)
    emptyBody := s.size == 0 || s.kind == "empty",
    chunkedBody := s.kind == "cb-unknown",
    valid := 100 ≤ s.code && s.code ≤ 999 &&
             (if s.kind == "upgrade" then s.code == 101 && a.upgradeAllowed else s.code != 101),
    interim := s.code == 102,
    upgrade := s.kind == "upgrade" }

def ridOf (s : String) : Nat := (s.drop 1).toString.toNat?.getD 0

def harnessHandle (a : HApp) (ci : CallInfo) : HApp × Dec :=
  match ci.ctxIn with
  | none =>
      -- first call of a request
      let r := a.nreq
      let a := { a with nreq := a.nreq + 1, curR := r, nupload := 0, suspOnceFinal := false, nfinal := 0 }
      let b := lookup a.behs r
      let ctx := some (r + 1)
      if b.f.startsWith "r" then (a, { act := .reply (mkResp a (ridOf b.f)) false, ctxOut := ctx })
      else if b.f == "no" then (a, { act := .fail, ctxOut := ctx })
      else if b.f.startsWith "s" then
        ({ a with resumeReq := some (ridOf b.f) }, { act := .suspend, ctxOut := ctx })
      else (a, { act := .cont, ctxOut := ctx })
  | some cx =>
      let b := lookup a.behs a.curR
      if ci.offered ≠ 0 then
        let n := a.nupload
        let a := { a with nupload := n + 1 }
        let t : Option Nat := if b.takes.isEmpty then none else (b.takes[n % b.takes.length]?).getD none
        let take := match t with
          | none => ci.offered
          | some k => min k ci.offered
        match b.ur, b.us with
        | some (un, rid), _ =>
            if un == n then (a, { take := take, act := .reply (mkResp a rid) false, ctxOut := some cx })
            else match b.us with
              | some (sn, k) =>
                  if sn == n then ({ a with resumeReq := some k }, { take := take, act := .suspend, ctxOut := some cx })
                  else (a, { take := take, act := .cont, ctxOut := some cx })
              | none => (a, { take := take, act := .cont, ctxOut := some cx })
        | none, some (sn, k) =>
            if sn == n then ({ a with resumeReq := some k }, { take := take, act := .suspend, ctxOut := some cx })
            else (a, { take := take, act := .cont, ctxOut := some cx })
        | none, none => (a, { take := take, act := .cont, ctxOut := some cx })
      else
        -- "final" phase of the harness (any call without upload data after the first)
        let acts := b.l.splitOn ","
        let k := a.nfinal
        let a := { a with nfinal := k + 1 }
        let last := k + 1 ≥ acts.length
        let act := (acts[min k (acts.length - 1)]?).getD "r0"
        if act.startsWith "s" && !(last && a.suspOnceFinal) then
          ({ a with suspOnceFinal := a.suspOnceFinal || last, resumeReq := some (ridOf act) }, { act := .suspend, ctxOut := some cx })
        else if act == "no" then (a, { act := .fail, ctxOut := some cx })
        else if act == "c" then (a, { act := .cont, ctxOut := some cx })
        else if act.startsWith "r" then (a, { act := .reply (mkResp a (ridOf act)) false, ctxOut := some cx })
        else (a, { act := .reply (mkResp a 0) false, ctxOut := some cx })

def harnessApp : App HApp :=
  { uriLog := fun a => (a, none), handle := harnessHandle }

/-! ## sockets and daemon -/

inductive SockItem where
  | toks (t : List Tok)
  | eof
  | nospace (ext : Bool)     -- the read buffer cannot take what follows
  deriving Inhabited

structure DConn where
  idx : Nat
  addr : Nat := 0                  -- client address (per-IP limit, accept policy)
  conn : Conn HApp
  sock : List SockItem := []
  pending : Bool := true           -- added, start notification not yet delivered
  peerGone : Bool := false         -- client closed its end completely
  hupSeen : Bool := false          -- epoll: HUP already delivered
  lastActivity : Nat := 0
  actSeq : Nat := 0                -- position in the time-out list (larger = more recently active)
  resumeIn : Option Nat := none
  resuming : Bool := false         -- MHD_resume_connection called, not yet processed
  newData : Bool := false          -- epoll: edge not yet consumed
  readReady : Bool := false        -- epoll: MHD_EPOLL_STATE_READ_READY
  inEready : Bool := false         -- epoll: put on the eready list by resume
  hdrFail : Bool := false          -- the pool cannot take the header of MHD's error reply (first attempt)
  upClosed : Bool := false         -- MHD_UPGRADE_ACTION_CLOSE called by the application
  trace : List Ev := []            -- events applied so far (reverse order)

instance : Inhabited DConn := ⟨{ idx := 0, conn := Conn.init default }⟩

structure D where
  mode : String := "select"
  timeoutMs : Nat := 0
  suspend : Bool := false
  upgrade : Bool := false
  uriLog : Bool := true
  started : Bool := false
  stopped : Bool := false
  now : Nat := 1000000
  conns : List DConn := []
  behs : List (Nat × List (Nat × Beh)) := []      -- per connection index
  resps : List (Nat × RespSpec) := []
  seq : Nat := 1
  failCalloc : Bool := false
  failEpollAddIn : Option Nat := none   -- the k-th next epoll_ctl(EPOLL_CTL_ADD) fails (0 = the next one)
  limit : Nat := 0                 -- MHD_OPTION_CONNECTION_LIMIT (0: not set)
  perip : Nat := 0                 -- MHD_OPTION_PER_IP_CONNECTION_LIMIT (0: not set)
  apcDeny : Option Nat := none     -- accept policy callback rejects this address
  nconn : Nat := 0                 -- daemon->connections
  ipCount : List (Nat × Nat) := [] -- per-IP counters
  cfg : Cfg := {}
  deriving Inhabited

/-- does the next epoll_ctl(EPOLL_CTL_ADD) fail -/
def D.failEpollAdd (d : D) : Bool := d.failEpollAddIn == some 0
/-- one epoll_ctl(EPOLL_CTL_ADD) has been made -/
def D.epollAddTick (d : D) : D :=
  { d with failEpollAddIn := match d.failEpollAddIn with
      | some 0 => none
      | some (k + 1) => some k
      | none => none }

def stName (s : CState) : Nat := s.toNat

def showEv (c : Nat) : LEv → String
  | .connStart => s!"conn-start c={c}"
  | .connClose => s!"conn-close c={c}"
  | .uriLog _ => s!"uri-log c={c}"
  | .handler site off len taken _ _ ret =>
      let s := match site with | .first => "first" | .upload => "upload" | .final => "final"
      s!"handler c={c} site={s} off={off} len={len} taken={taken} ret={if ret then 1 else 0}"
  | .queued => s!"queued c={c}"
  | .completed code _ => s!"completed c={c} code={code}"
  | .invalidate => s!"invalidate c={c}"
  | .freeCb rid => s!"free-cb rid={rid}"
  | .interimSent => s!"interim-sent c={c}"
  | .upgrade => s!"upgrade c={c}"

/-- apply one connection event through the model, record it, emit its log -/
def apply (d : D) (dc : DConn) (e : Ev) : DConn × List String :=
  let (c', log) := step d.cfg harnessApp dc.conn e
  let dc := { dc with conn := c', trace := e :: dc.trace }
  -- side channels of the harness application / of MHD_update_last_activity_
  let dc := match c'.app.resumeReq with
    | some k => { dc with resumeIn := some k, conn := { c' with app := { c'.app with resumeReq := none } } }
    | none => dc
  let dc := if log.any (· == .queued) && d.timeoutMs != 0 then { dc with lastActivity := d.now, actSeq := d.seq } else dc
  (dc, log.map (showEv dc.idx))

def timedOut (d : D) (dc : DConn) : Bool :=
  d.timeoutMs != 0 && d.now - dc.lastActivity > d.timeoutMs

def eliRead (c : Conn HApp) : Bool := eventLoopInfo c == .read || eventLoopInfo c == .processRead
def eliWrite (c : Conn HApp) : Bool := eventLoopInfo c == .write
def eliProcess (c : Conn HApp) : Bool := eventLoopInfo c == .process || eventLoopInfo c == .processRead

def mkEnv (d : D) (dc : DConn) : IdleEnv :=
  let ns := match dc.sock with
    | .nospace ext :: _ => some ext
    | _ => none
  { timedOut := timedOut d dc,
    noSpace := ns.isSome,
    chunkExt := ns.getD false,
    errAllocFail := d.failCalloc,
    upgradeFail := d.failCalloc,
    errHdrFail1 := dc.hdrFail,
    epollAdd := if d.cfg.epoll && !dc.conn.inEpollSet && !dc.conn.suspended
                   && ((eliRead dc.conn && !dc.readReady)) then some (!d.failEpollAdd) else none }

/-- MHD_connection_handle_idle with the environment of this moment; consumes one-shot faults -/
def doIdle (d : D) (dc : DConn) : D × DConn × List String :=
  let env := mkEnv d dc
  let swe := dc.conn.stopWithError
  let inSet := dc.conn.inEpollSet
  -- the epoll_ctl(ADD) decision depends on the state *after* the loop: run once to see it
  let (dc1, out1) := apply d dc (.idle { env with epollAdd := none })
  let needAdd := d.cfg.epoll && !dc1.conn.inEpollSet && !dc1.conn.suspended && !dc1.conn.inCleanup
                 && dc1.conn.state != CState.closed
                 && ((eliRead dc1.conn && !dc1.readReady))
  let (dc2, out) :=
    if needAdd then
      -- redo with the epoll_ctl outcome (the model is deterministic: same prefix)
      let dcr := { dc with trace := dc.trace }
      apply d dcr (.idle { env with epollAdd := some (!d.failEpollAdd) })
    else (dc1, out1)
  let d := if needAdd then d.epollAddTick else d
  let d := if d.failCalloc && !swe && dc2.conn.stopWithError then { d with failCalloc := false } else d
  -- a handled no-space marker is removed from the socket
  let dc2 := match dc2.sock with
    | .nospace _ :: t => if dc2.conn.stopWithError || dc2.conn.state == CState.closed then { dc2 with sock := t } else dc2
    | _ => dc2
  let dc2 := if dc2.hdrFail && !swe && dc2.conn.stopWithError then { dc2 with hdrFail := false } else dc2
  let _ := inSet
  (d, dc2, out)

def sockReadable (dc : DConn) : Bool :=
  match dc.sock with
  | [] => false
  | .nospace _ :: _ => false
  | _ => true

/-- MHD_connection_handle_read: one recv() -/
def doRead (d : D) (dc : DConn) (sockErr : Bool) : DConn × List String :=
  if dc.conn.state == CState.closed || dc.conn.suspended then (dc, []) else
  match dc.sock with
  | .toks t :: rest =>
      if sockErr then
        -- data then the error probe: recv() of the rest; EOF ⇒ "closed due to error"
        let (dc1, o) := apply d { dc with sock := rest } (.recvErr false)
        (dc1, o)
      else
        let (dc1, o) := apply d { dc with sock := rest, readReady := false } (.recv t)
        (if d.timeoutMs != 0 && !dc1.conn.suspended then { dc1 with lastActivity := d.now, actSeq := d.seq } else dc1, o)
  | .eof :: rest =>
      if sockErr then apply d { dc with sock := rest } (.recvErr false)
      else apply d { dc with sock := .eof :: rest } .recvEof
  | _ =>
      if sockErr then apply d dc (.recvErr false)
      else ({ dc with readReady := false }, [])      -- EAGAIN

def doWrite (d : D) (dc : DConn) : DConn × List String :=
  -- small static replies leave with the header in one sendmsg(): in NORMAL_BODY_READY nothing is
  -- left to send, handle_write only moves the state on (no send, no MHD_update_last_activity_)
  let sends := dc.conn.state != CState.normalBodyReady
  if dc.peerGone && sends then apply d dc (.write .err)
  else
    let (dc1, o) := apply d dc (.write .done)
    (if sends && d.timeoutMs != 0 && !dc1.conn.suspended then { dc1 with lastActivity := d.now, actSeq := d.seq } else dc1, o)

/-- call_handlers -/
def callHandlers (d : D) (dc : DConn) (readReady writeReady forceClose : Bool) : D × DConn × List String :=
  let d := { d with seq := d.seq + 1 }
  let fast := dc.conn.state == CState.init
  if eliRead dc.conn && (readReady || forceClose) then
    let (dc1, o1) := doRead d dc forceClose
    let (d, dc2, o2) := doIdle d dc1
    if forceClose then (d, dc2, o1 ++ o2)
    else
      let (d, dc3, o3) :=
        if eliWrite dc2.conn && writeReady then
          let (dc3, o3) := doWrite d dc2
          let (d, dc4, o4) := doIdle d dc3
          (d, dc4, o3 ++ o4)
        else (d, dc2, [])
      -- fast track
      let (d, dc4, o4) :=
        if fast then
          let (d, dcA, oA) :=
            if dc3.conn.state == CState.headersSending then
              let (dcx, ox) := doWrite d dc3
              let (d, dcy, oy) := doIdle d dcx
              (d, dcy, ox ++ oy)
            else (d, dc3, [])
          if dcA.conn.state == CState.normalBodyReady || dcA.conn.state == CState.chunkedBodyReady then
            let (dcx, ox) := doWrite d dcA
            let (d, dcy, oy) := doIdle d dcx
            (d, dcy, oA ++ ox ++ oy)
          else (d, dcA, oA)
        else (d, dc3, [])
      (d, dc4, o1 ++ o2 ++ o3 ++ o4)
  else if forceClose then
    let (dc1, o1) := apply d dc .forceClose
    let (d, dc2, o2) := doIdle d dc1
    (d, dc2, o1 ++ o2)
  else if eliWrite dc.conn && writeReady then
    let (dc1, o1) := doWrite d dc
    let (d, dc2, o2) := doIdle d dc1
    (d, dc2, o1 ++ o2)
  else
    let (d, dc1, o1) := doIdle d dc
    (d, dc1, o1)

def getConn (d : D) (i : Nat) : Option DConn := d.conns.find? (fun (x : DConn) => x.idx == i)

def setConn (d : D) (dc : DConn) : D :=
  { d with conns := d.conns.map fun x => if x.idx == dc.idx then dc else x }

/-- harness `one_round`: auto-resume bookkeeping -/
def autoResume (d : D) : D × List String :=
  d.conns.foldl (fun (acc : D × List String) dc0 =>
    let (d, out) := acc
    let dc := ((getConn d dc0.idx).getD dc0)
    if dc.conn.cleaned || !dc.conn.started then (d, out) else
    match dc.resumeIn with
    | some 0 => (setConn d { dc with resumeIn := none, resuming := true }, out)
    | some (k + 1) => (setConn d { dc with resumeIn := some k }, out)
    | none => (d, out)) (d, [])

/-- resume_suspended_connections -/
def processResumes (d : D) : D × List String :=
  d.conns.foldl (fun (acc : D × List String) dc0 =>
    let (d, out) := acc
    let dc := ((getConn d dc0.idx).getD dc0)
    if dc.conn.state == CState.upgrade then
      -- an upgraded connection leaves the suspended list only when the application has closed it
      if dc.upClosed && dc.conn.suspended && !dc.conn.inCleanup then
        let (dc1, o) := apply d { dc with upClosed := false } .upgradeDone
        (setConn d dc1, out ++ o)
      else (d, out)
    else if dc.resuming && dc.conn.suspended then
      let (dc1, o) := apply d { dc with resuming := false } .resume
      let dc1 := { dc1 with lastActivity := if d.timeoutMs != 0 then d.now else dc1.lastActivity,
                            actSeq := if d.timeoutMs != 0 then d.seq else dc1.actSeq,
                            readReady := true, newData := true, inEready := true }
      (setConn { d with seq := d.seq + 1 } dc1, out ++ o)
    else (setConn d { dc with resuming := false }, out)) (d, [])

def ipGet (d : D) (a : Nat) : Nat := (d.ipCount.find? (·.1 == a)).map (·.2) |>.getD 0
def ipSet (d : D) (a n : Nat) : D := { d with ipCount := (a, n) :: d.ipCount.filter (·.1 != a) }
def ipDec (d : D) (a : Nat) : D := if d.perip == 0 then d else ipSet d a (ipGet d a - 1)

/-- new_connections_list_process_ / new_connection_process_: queued connections in FIFO order; the firm check of
    the connection limit refuses silently (no notification); epoll_ctl(ADD) failure: STARTED and CLOSED at once -/
def processNew (d : D) : D × List String × List Nat :=
  d.conns.reverse.foldl (fun (acc : D × List String × List Nat) dc0 =>
    let (d, out, fresh) := acc
    let dc := ((getConn d dc0.idx).getD dc0)
    if dc.pending then
      if d.limit != 0 && d.nconn ≥ d.limit then
        (ipDec { d with conns := d.conns.filter (·.idx != dc.idx) } dc.addr, out, fresh)
      else if d.cfg.epoll && d.failEpollAdd then
        let (dc1, o) := apply d { dc with pending := false } .startFailed
        (setConn (ipDec d.epollAddTick dc.addr) dc1, out ++ o, fresh)
      else
        let dc := if d.timeoutMs != 0 then { dc with lastActivity := d.now } else dc
        let (dc1, o) := apply d { dc with pending := false } .start
        let d := if d.cfg.epoll then d.epollAddTick else d
        (setConn { d with nconn := d.nconn + 1 } { dc1 with newData := true }, out ++ o, dc.idx :: fresh)
    else (d, out, fresh)) (d, [], [])

def processCleanup (d : D) : D × List String :=
  d.conns.foldl (fun (acc : D × List String) dc0 =>
    let (d, out) := acc
    let dc := ((getConn d dc0.idx).getD dc0)
    if dc.conn.inCleanup && !dc.conn.cleaned then
      let (dc1, o) := apply d dc .cleanup
      (setConn (ipDec { d with nconn := d.nconn - 1 } dc.addr) dc1, out ++ o)
    else (d, out)) (d, [])

def live (dc : DConn) : Bool := dc.conn.started && !dc.conn.inCleanup && !dc.conn.cleaned && !dc.conn.suspended

/-- one external-select round: MHD_get_fdset2, select (0), MHD_run_from_select2 -/
def roundSelect (d : D) : D × List String :=
  let (d, o0) := autoResume d
  -- fd sets are computed before anything runs
  let sets := d.conns.filterMap fun dc =>
    if live dc then some (dc.idx, eliRead dc.conn && sockReadable dc, eliWrite dc.conn) else none
  let (d, o1) := processResumes d
  let (d, o2, _) := processNew d
  -- newest first in the list, traversal from the tail: oldest first
  let order : List Nat := d.conns.map (fun (x : DConn) => x.idx)
  let (d, o3) := order.foldl (fun (acc : D × List String) i =>
    let (d, out) := acc
    match getConn d i with
    | none => (d, out)
    | some dc =>
      if !live dc then (d, out) else
      let (r, w) := match sets.find? (·.1 == i) with
        | some (_, r, w) => (r, w)
        | none => (false, false)
      let (d, dc1, o) := callHandlers d dc r w false
      (setConn d dc1, out ++ o)) (d, [])
  let (d, o4) := processCleanup d
  (d, o0 ++ o1 ++ o2 ++ o3 ++ o4)

/-- one MHD_run_wait (0) in epoll mode -/
def roundEpoll (d : D) : D × List String :=
  let (d, o0) := autoResume d
  let (d, o1) := processResumes d
  -- epoll_wait: edges for connections that are in the epoll set
  let d := { d with conns := d.conns.map fun dc =>
    if dc.conn.started && dc.conn.inEpollSet && !dc.conn.cleaned && dc.newData && sockReadable dc
    then { dc with readReady := true, newData := false } else dc }
  let (d, o2, fresh) := processNew d
  -- membership of the eready list as left by the previous round / this epoll_wait
  let readyBefore : List Nat := d.conns.filterMap fun dc =>
    if live dc && !fresh.contains dc.idx &&
       (dc.inEready || (dc.readReady && eliRead dc.conn) || eliWrite dc.conn || eliProcess dc.conn) then some dc.idx else none
  -- time-outs: the least recently active connection is always looked at
  let cand : List DConn := (d.conns.filter fun dc => live dc && !fresh.contains dc.idx)
  let lru := cand.foldl (fun (m : Option DConn) dc => match m with
    | none => some dc
    | some x => if dc.actSeq < x.actSeq then some dc else some x) none
  let (d, o3) : D × List String := match lru with
    | some dc =>
        if timedOut d dc then
          -- every timed-out connection is closed (sorted list walk)
          cand.foldl (fun (acc : D × List String) (dc0 : DConn) =>
            let (d, out) := acc
            let dc := ((getConn d dc0.idx).getD dc0)
            if timedOut d dc then
              let (d, dc1, o) := doIdle d dc
              (setConn d dc1, out ++ o)
            else (d, out)) (d, [])
        else
          let (d, dc1, o) := doIdle d dc
          (setConn d dc1, o)
    | none => (d, [])
  -- eready list
  let order : List Nat := d.conns.map (fun (x : DConn) => x.idx)
  let (d, o4) := order.foldl (fun (acc : D × List String) i =>
    let (d, out) := acc
    match getConn d i with
    | none => (d, out)
    | some dc =>
      if !live dc || fresh.contains i then (d, out) else
      let hup := dc.peerGone && !dc.hupSeen && dc.conn.inEpollSet
      let ready := hup || readyBefore.contains i || dc.inEready || (dc.readReady && (eliRead dc.conn)) || eliWrite dc.conn
                   || eliProcess dc.conn
      if !ready then (d, out) else
      let dc := if hup then { dc with hupSeen := true } else dc
      let dc := { dc with inEready := false }
      let (d, dc1, o) := callHandlers d dc dc.readReady true hup
      (setConn d dc1, out ++ o)) (d, [])
  let (d, o5) := processCleanup d
  (d, o0 ++ o1 ++ o2 ++ o3 ++ o4 ++ o5)

def oneRound (d : D) : D × List String :=
  if d.mode == "epoll" then roundEpoll d else roundSelect d

def rounds (d : D) : Nat → D × List String
  | 0 => (d, [])
  | n + 1 =>
      let (d1, o1) := oneRound d
      let (d2, o2) := rounds d1 n
      (d2, o1 ++ o2)

def sstLines (d : D) : List String :=
  d.conns.reverse.filterMap fun dc =>
    if dc.conn.started && !dc.conn.cleaned then
      some s!"sst c={dc.idx} state={stName dc.conn.state} aware={if dc.conn.clientAware then 1 else 0} susp={if dc.conn.suspended then 1 else 0}"
    else none

/-- MHD_stop_daemon: close_all_connections -/
def stopDaemon (d : D) : D × List String :=
  -- connections added but never processed are closed without notifications
  let d := { d with conns := d.conns.filter (!·.pending) }
  let (d, o0) := d.conns.foldl (fun (acc : D × List String) dc0 =>
    let (d, out) := acc
    let dc := ((getConn d dc0.idx).getD dc0)
    if dc.conn.state == CState.upgrade then
      -- close_all_connections: upgraded connections the application has not closed are closed now
      if dc.conn.suspended && !dc.conn.inCleanup then
        let (dc1, o) := apply d dc .upgradeDone
        (setConn d dc1, out ++ o)
      else (d, out)
    else if dc.resuming && dc.conn.suspended then
      let (dc1, o) := apply d { dc with resuming := false } .resume
      (setConn d dc1, out ++ o)
    else (d, out)) (d, [])
  let (d, o1) := d.conns.foldl (fun (acc : D × List String) dc0 =>
    let (d, out) := acc
    let dc := ((getConn d dc0.idx).getD dc0)
    if live dc then
      let (dc1, o) := apply d dc .shutdownClose
      (setConn d dc1, out ++ o)
    else (d, out)) (d, [])
  let (d, o2) := processCleanup d
  ({ d with stopped := true }, o0 ++ o1 ++ o2)

/-- end-of-case self check: the recorded traces, re-run through the model and the protocol automaton -/
def modelCheck (d : D) : List String :=
  d.conns.reverse.map fun dc =>
    let behs := lookup d.behs dc.idx
    let (c, log) := run d.cfg harnessApp (Conn.init { behs := behs, resps := d.resps, upgradeAllowed := d.upgrade }) dc.trace.reverse
    let acc := decide (accepts log)
    let comp := decide (complete log)
    s!"model-check c={dc.idx} accepts={acc} complete={comp || !c.cleaned} fault={c.fault} same={c.state == dc.conn.state}"

/-! ## script -/

def kvOf (w : String) : Option (String × String) :=
  match w.splitOn "=" with
  | [k, v] => some (k, v)
  | _ => none

def parseTakes (s : String) : List (Option Nat) :=
  (s.splitOn ",").map fun x => if x == "all" then none else x.toNat?

def parsePair (s : String) (dropR : Bool) : Option (Nat × Nat) :=
  match s.splitOn ":" with
  | [a, b] =>
      let b' := if dropR then (b.drop 1).toString else b
      match a.toNat?, b'.toNat? with
      | some x, some y => some (x, y)
      | _, _ => none
  | [a] => a.toNat?.map (·, 0)
  | _ => none

def parseBeh (ws : List String) : Beh :=
  ws.foldl (fun b w => match kvOf w with
    | some ("f", v) => { b with f := v }
    | some ("l", v) => { b with l := v }
    | some ("u", v) => { b with takes := parseTakes v }
    | some ("ur", v) => { b with ur := parsePair v true }
    | some ("us", v) => { b with us := parsePair v false }
    | _ => b) {}

def parseTok (w : String) : Option SockItem :=
  let num (s : String) : Option Nat := s.toNat?
  if w == "P" then some (.toks [.junk])
  else if w == "L" then some (.toks [.line .ok])
  else if w == "Lbad" then some (.toks [.line .bad])
  else if w == "Ltgt" then some (.toks [.line .badTarget])
  else if w == "Hbad" then some (.toks [.hdrBad])
  else if w == "E" then some (.toks [.chunkEnd])
  else if w == "Cbad" then some (.toks [.chunkBad])
  else if w == "F" then some (.toks [.footers true])
  else if w == "Fbad" then some (.toks [.footers false])
  else if w == "NS" then some (.nospace false)
  else if w == "NSX" then some (.nospace true)
  else if w.startsWith "D" then (num (w.drop 1).toString).map fun k => .toks [.data k]
  else if w.startsWith "C" then (num (w.drop 1).toString).map fun k => .toks [.chunkHdr k]
  else if w.startsWith "H:" then
    -- H:<framing>:<ka>:<expect>
    match w.splitOn ":" with
    | [_, f, ka, ex] =>
        let fr : Option Framing :=
          if f == "n" then some .none else if f == "c" then some .chunked else if f == "bad" then some .bad
          else if f.startsWith "l" then (num (f.drop 1).toString).map Framing.length else none
        fr.map fun fr => .toks [.headers fr (ka == "1") (ex == "1")]
    | _ => none
  else none

def appendSock (s : List SockItem) (it : SockItem) : List SockItem :=
  match s.getLast?, it with
  | some (.toks a), .toks b => s.dropLast ++ [.toks (appendToks a b)]
  | _, _ => s ++ [it]

def findConn (d : D) (c : Nat) : Option DConn := d.conns.find? (·.idx == c)

def stepLine (d : D) (ws : List String) : D × List String :=
  match ws with
  | "case" :: rest => ({}, [s!"case {rest.headD "-"}"])
  | "cfg" :: kvs =>
      let d := kvs.foldl (fun d w => match kvOf w with
        | some ("mode", v) => { d with mode := v }
        | some ("timeout", v) => { d with timeoutMs := (v.toNat?.getD 0) * 1000 }
        | some ("limit", v) => { d with limit := v.toNat?.getD 0 }
        | some ("perip", v) => { d with perip := v.toNat?.getD 0 }
        | some ("apc", v) => { d with apcDeny := v.toNat? }
        | some ("suspend", v) => { d with suspend := v == "1" }
        | some ("upgrade", v) => { d with upgrade := v == "1" }
        | some ("urilog", v) => { d with uriLog := v == "1" }
        | _ => d) d
      (d, ["ok"])
  | ["start"] =>
      if d.mode != "select" && d.mode != "epoll" then (d, ["bad-op"]) else
      ({ d with started := true,
                cfg := { uriLog := d.uriLog, allowSuspend := d.suspend || d.upgrade, epoll := d.mode == "epoll",
                         f9Fixed := f9Fixed, allocBypassFixed := allocBypassFixed,
                         epollBypassFixed := epollBypassFixed, f14Fixed := f14Fixed,
                         f14ClearsAware := f14ClearsAware } }, ["started"])
  | "resp" :: rid :: kvs =>
      match rid.toNat? with
      | none => (d, ["bad-op"])
      | some r =>
        let s := kvs.foldl (fun (s : RespSpec) w => match kvOf w with
          | some ("kind", v) => { s with kind := v }
          | some ("code", v) => { s with code := v.toNat?.getD 0 }
          | some ("size", v) => { s with size := v.toNat?.getD 0 }
          | _ => s) {}
        ({ d with resps := (r, s) :: d.resps.filter (·.1 != r) }, ["ok"])
  | "beh" :: c :: r :: kvs =>
      match c.toNat?, r.toNat? with
      | some c, some r =>
          let cur := lookup d.behs c
          let cur := (r, parseBeh kvs) :: cur.filter (·.1 != r)
          ({ d with behs := (c, cur) :: d.behs.filter (·.1 != c) }, ["ok"])
      | _, _ => (d, ["bad-op"])
  | _ =>
    if !d.started || d.stopped then
      match ws with
      | ["tick", ms] => match ms.toNat? with
          | some k => ({ d with now := d.now + k }, ["ok"])
          | none => (d, ["bad-op"])
      | _ => (d, ["bad-op"])
    else
    match ws with
    | ["arrive", c, a] =>
        match c.toNat?, a.toNat? with
        | some c, some a =>
            if (findConn d c).isSome then (d, ["bad-op"]) else
            -- new_connection_prepare_: quick check of the connection limit, per-IP limit, accept policy —
            -- a connection refused here is never announced
            if d.limit != 0 && d.nconn == d.limit then (d, [s!"arrive c={c} refused"]) else
            if d.perip != 0 && ipGet d a ≥ d.perip then (d, [s!"arrive c={c} refused"]) else
            if d.apcDeny == some a then (d, [s!"arrive c={c} refused"]) else
            let d := if d.perip != 0 then ipSet d a (ipGet d a + 1) else d
            let app : HApp := { behs := lookup d.behs c, resps := d.resps, upgradeAllowed := d.upgrade }
            let dc : DConn := { idx := c, addr := a, conn := Conn.init app, lastActivity := d.now, actSeq := d.seq }
            ({ d with conns := dc :: d.conns, seq := d.seq + 1 }, [s!"arrive c={c}"])
        | _, _ => (d, ["bad-op"])
    | "send" :: c :: _hex :: toks =>
        match c.toNat?.bind (findConn d) with
        | none => (d, ["bad-op"])
        | some dc =>
          let hf := toks.contains "HF"
          match (toks.filter (· != "HF")).mapM parseTok with
          | none => (d, ["bad-op"])
          | some items =>
              if dc.peerGone then (d, ["ok"]) else
              let dc := { dc with sock := items.foldl appendSock dc.sock, newData := true, hdrFail := dc.hdrFail || hf }
              (setConn d dc, ["ok"])
    | ["shutwr", c] =>
        match c.toNat?.bind (findConn d) with
        | none => (d, ["bad-op"])
        | some dc => (setConn d { dc with sock := dc.sock ++ [.eof], newData := true }, ["ok"])
    | ["cclose", c] =>
        match c.toNat?.bind (findConn d) with
        | none => (d, ["bad-op"])
        | some dc =>
            let sock := if dc.sock.any (fun | .eof => true | _ => false) then dc.sock else dc.sock ++ [.eof]
            (setConn d { dc with sock := sock, peerGone := true, newData := true }, ["ok"])
    | ["round"] =>
        let (d, o) := oneRound d
        (d, o ++ ["round-done"])
    | ["settle", n] =>
        match n.toNat? with
        | some n =>
            let (d, o) := rounds d n
            (d, o ++ sstLines d)
        | none => (d, ["bad-op"])
    | ["tick", ms] =>
        match ms.toNat? with
        | some k => ({ d with now := d.now + k }, ["ok"])
        | none => (d, ["bad-op"])
    | ["resume", c] =>
        match c.toNat?.bind (findConn d) with
        | none => (d, ["bad-op"])
        | some dc => (setConn d { dc with resumeIn := none, resuming := true }, ["ok"])
    | ["up-close", c] =>
        match c.toNat?.bind (findConn d) with
        | none => (d, ["bad-op"])
        | some dc =>
            if dc.conn.state == CState.upgrade && dc.conn.suspended && !dc.conn.inCleanup && !dc.upClosed then
              (setConn d { dc with upClosed := true }, ["ok"])
            else (d, ["bad-op"])
    | ["reply-out", c, rid] =>
        match c.toNat?.bind (findConn d), rid.toNat? with
        | some dc, some rid =>
            if !dc.conn.started || dc.conn.cleaned then (d, ["bad-op"]) else
            let d := { d with seq := d.seq + 1 }
            let (dc1, o) := apply d dc (.appQueue (mkResp dc.conn.app rid) (mkEnv d dc))
            (setConn d dc1, o ++ ["ok"])
        | _, _ => (d, ["bad-op"])
    | ["fail-calloc", _] => ({ d with failCalloc := true }, ["ok"])
    | ["fail-epoll-add", k] => ({ d with failEpollAddIn := k.toNat? }, ["ok"])
    | ["stop"] =>
        let (d, o) := stopDaemon d
        (d, o ++ modelCheck d ++ ["stopped"])
    | _ => (d, ["bad-op"])

end SM

def main : IO Unit := Driver.runEngine ({} : SM.D) SM.stepLine
