import Mhd.Model.FramingRef
import Mhd.Model.FramingTake
import Mhd.Model.FramingReqHead
import Driver.Common
open Mhd.Framing Driver

/-- the driver runs the connection automaton with the strict head splitter -/
instance : HeadParser := strictParser

/-!
  Engine `frame` (C03).  One output line per input line.

  run <lvl> <behs|-> <seghex>…      whole connection: events of `runSegs` (strict head splitter)
  runreal <lvl> <behs|-> <seghex>…  the same with C02's scanners as head parser (`reqParser lvl 4096`)
  ref <seghex>                       the Lean reference framer on a stream
  decide <lvl> <0|1> <namehex:valuehex>…   `decideBody`
  chunk <lvl> <cur> <off> <bufhex>   one `chunkAct`
  chunkrun <lvl> <cur> <off> <bufhex>   the whole loop of `process_request_body` (chunked, handler takes all)
  token <valuehex> <tokenhex>        `hasToken`
  bodytake <lvl> <chunked 0|1> <cur|remaining> <off> <takes k,k,…|-> <bufhex>
                                     one call of `process_request_body` with a handler that takes
                                     `takes[i]` bytes at most at its i-th invocation (`procBody`)
-/

def parseInt (s : String) : Option Int :=
  if s.startsWith "-" then (s.drop 1).toNat?.map (fun n => - (Int.ofNat n)) else s.toNat?.map Int.ofNat

def parseBeh (s : String) : Option Beh :=
  if s == "a" then some .abort else
  let k := s.take 1
  match (s.drop 1).toNat? with
  | none => none
  | some st =>
    if st < 200 ∨ 599 < st then none else
    if k == "c" then some (.cont st false)
    else if k == "k" then some (.cont st true)
    else if k == "e" then some (.early st false)
    else if k == "f" then some (.early st true)
    else none

def parseBehs (s : String) : Option (List Beh) :=
  if s == "-" then some [] else (s.splitOn ",").mapM parseBeh

def appOf (bs : List Beh) : App := fun n => bs.getD n (.cont 200 false)

def showEv : Ev → String
  | .first m t => s!"first:{hexOfBytes m}:{hexOfBytes t}"
  | .upload d => s!"up:{hexOfBytes d}"
  | .final => "final"
  | .reply st ch => s!"reply:{st}:{if ch then 1 else 0}"
  | .reqDone => "done"
  | .close => "close"

def showState : CState → String
  | .init => "init" | .headersReceived => "headersReceived" | .headersProcessed => "headersProcessed"
  | .continueSending => "continueSending" | .bodyReceiving => "bodyReceiving" | .bodyReceived => "bodyReceived"
  | .footersReceiving => "footersReceiving" | .footersReceived => "footersReceived"
  | .fullReqReceived => "fullReqReceived" | .startReply => "startReply"
  | .fullReplySent => "fullReplySent" | .closed => "closed" | .outOfDomain => "out-of-domain"

def showSt (s : St) : String :=
  let evs := " ".intercalate (s.out.reverse.map showEv)
  s!"{evs} | state={showState s.state} buf={s.buf.length}"

def showBody : Body → String
  | .none => "none" | .len n => s!"len {n}" | .chunked mc => s!"chunked {if mc then 1 else 0}"
  | .reject st => s!"reject {st}"

def showAct : Act → String
  | .needMore => "needmore" | .term n => s!"term {n}" | .data n => s!"data {n}"
  | .line len size => s!"line {len} {size}" | .err st => s!"err {st}"

def parseFieldArg (s : String) : Option Field :=
  match s.splitOn ":" with
  | [n, v] => match bytesOfHex n, bytesOfHex v with
    | some nb, some vb => some ⟨nb, vb⟩
    | _, _ => none
  | _ => none

def showFrame (f : Frame) : String :=
  s!"frame:{hexOfBytes f.method}:{hexOfBytes f.target}:{hexOfBytes f.body}:{if f.persistent then 1 else 0}"

def showRef (r : List Frame × RefEnd) : String :=
  let fr := " ".intercalate (r.1.map showFrame)
  let e := match r.2 with
    | .incomplete n => s!"incomplete {n}" | .invalid => "invalid" | .closed => "closed" | .nonCanonical => "non-canonical"
  s!"{fr} | {e}"

/-- `process_request_body` called once on a chunked upload whose application takes everything -/
def chunkRunFuel (lvl : Int) : Nat → St → St
  | 0, s => s
  | n + 1, s =>
    if s.state = .bodyReceiving then
      match bodyStep lvl s with
      | none => s
      | some s' => chunkRunFuel lvl n s'
    else s

def showChunkRun (s : St) : String :=
  let up := s.out.foldr (fun e acc => match e with | .upload d => acc ++ d | _ => acc) []
  match s.state with
  | .bodyReceiving => s!"up={hexOfBytes up} cur={s.cur} off={s.off} left={s.buf.length} out=need"
  | .bodyReceived => s!"up={hexOfBytes up} cur={s.cur} off={s.off} left={s.buf.length} out=last"
  | .fullReplySent =>
    match s.resp with
    | some (st, _) => s!"up={hexOfBytes up} cur=- off=- left={s.buf.length} out=err:{st}"
    | none => "fault no-response"
  | _ => s!"up={hexOfBytes up} cur=- off=- left=- out=closed"

def parseTakes (s : String) : Option (List Nat) :=
  if s == "-" then some [] else (s.splitOn ",").mapM (·.toNat?)

def showBodyTake (ntakes : Nat) (r : List Nat × St) : String :=
  let s := r.2
  let used := ntakes - r.1.length
  let up := s.out.foldr (fun e acc => match e with | .upload d => acc ++ d | _ => acc) []
  let rem := if s.remaining == Mhd.Gen.Framing.sizeUnknown then "unk" else toString s.remaining
  match s.state with
  | .bodyReceiving =>
    s!"up={hexOfBytes up} cur={s.cur} off={s.off} rem={rem} left={s.buf.length} buf={hexOfBytes s.buf} used={used} out=need"
  | .bodyReceived =>
    s!"up={hexOfBytes up} cur={s.cur} off={s.off} rem={rem} left={s.buf.length} buf={hexOfBytes s.buf} used={used} out=last"
  | .fullReplySent =>
    match s.resp with
    | some (st, _) => s!"up={hexOfBytes up} cur=- off=- rem=- left={s.buf.length} buf=- used={used} out=err:{st}"
    | none => "fault no-response"
  | _ => s!"up={hexOfBytes up} cur=- off=- rem=- left=- buf=- used={used} out=closed"

def stepLine (u : Unit) (ws : List String) : Unit × List String :=
  match ws with
  | "run" :: lvl :: behs :: segs =>
    match parseInt lvl, parseBehs behs, segs.mapM bytesOfHex with
    | some l, some bs, some sg =>
      if l < -3 ∨ 3 < l then (u, ["bad-op"]) else (u, [showSt (runSegs l (appOf bs) sg)])
    | _, _, _ => (u, ["bad-op"])
  | "runreal" :: lvl :: behs :: segs =>
    match parseInt lvl, parseBehs behs, segs.mapM bytesOfHex with
    | some l, some bs, some sg =>
      if l < -3 ∨ 3 < l then (u, ["bad-op"]) else (u, [showSt (@runSegs (reqParser l 4096) l (appOf bs) sg)])
    | _, _, _ => (u, ["bad-op"])
  | ["ref", lvl, seg] =>
    match parseInt lvl, bytesOfHex seg with
    | some l, some b => (u, [showRef (Framer.frames l b)])
    | _, _ => (u, ["bad-op"])
  | "decide" :: lvl :: v11 :: fs =>
    match parseInt lvl, fs.mapM parseFieldArg with
    | some l, some fl =>
      if v11 == "0" ∨ v11 == "1" then (u, [showBody (decideBody l (v11 == "1") fl)]) else (u, ["bad-op"])
    | _, _ => (u, ["bad-op"])
  | ["chunk", lvl, cur, off, buf] =>
    match parseInt lvl, cur.toNat?, off.toNat?, bytesOfHex buf with
    | some l, some c, some o, some b =>
      if o ≤ c ∧ c < 2 ^ 64 then (u, [showAct (chunkAct l c o b)]) else (u, ["bad-op"])
    | _, _, _, _ => (u, ["bad-op"])
  | ["chunkrun", lvl, cur, off, buf] =>
    match parseInt lvl, cur.toNat?, off.toNat?, bytesOfHex buf with
    | some l, some c, some o, some b =>
      if o ≤ c ∧ c < 2 ^ 64 ∧ b ≠ [] ∧ -3 ≤ l ∧ l ≤ 3 then
        let s0 : St := { state := .bodyReceiving, chunked := true, remaining := Mhd.Gen.Framing.sizeUnknown,
                         cur := c, off := o, buf := b }
        (u, [showChunkRun (chunkRunFuel l (b.length + 2) s0)])
      else (u, ["bad-op"])
    | _, _, _, _ => (u, ["bad-op"])
  | ["bodytake", lvl, ch, cur, off, takes, buf] =>
    match parseInt lvl, cur.toNat?, off.toNat?, parseTakes takes, bytesOfHex buf with
    | some l, some c, some o, some ts, some b =>
      if (ch == "1" ∧ o ≤ c ∧ c < 2 ^ 64 ∨ ch == "0" ∧ o = 0 ∧ 0 < c ∧ c < Mhd.Gen.Framing.sizeUnknown) ∧ b ≠ [] ∧ -3 ≤ l ∧ l ≤ 3 then
        let s0 : St :=
          if ch == "1" then { state := .bodyReceiving, chunked := true, remaining := Mhd.Gen.Framing.sizeUnknown, cur := c, off := o, buf := b }
          else { state := .bodyReceiving, chunked := false, remaining := c, buf := b }
        (u, [showBodyTake ts.length (procBody l (b.length + 2) ts s0)])
      else (u, ["bad-op"])
    | _, _, _, _, _ => (u, ["bad-op"])
  | ["token", v, t] =>
    match bytesOfHex v, bytesOfHex t with
    | some vb, some tb => (u, [if hasToken vb tb then "yes" else "no"])
    | _, _ => (u, ["bad-op"])
  | _ => (u, ["bad-op"])

def main : IO Unit := Driver.runEngine () stepLine
