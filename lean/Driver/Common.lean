/-
  Line-protocol plumbing shared by all model drivers:
  one operation per input line, one canonical output line per operation.
-/
namespace Driver

def hexDigit (n : Nat) : Char :=
  if n < 10 then Char.ofNat (48 + n) else Char.ofNat (87 + n)

def hexOfBytes (bs : List UInt8) : String :=
  if bs.isEmpty then "-" else
  String.ofList (bs.foldr (fun b acc => hexDigit (b.toNat / 16) :: hexDigit (b.toNat % 16) :: acc) [])

def hexVal (c : Char) : Option Nat :=
  if '0' ≤ c ∧ c ≤ '9' then some (c.toNat - 48)
  else if 'a' ≤ c ∧ c ≤ 'f' then some (c.toNat - 87)
  else if 'A' ≤ c ∧ c ≤ 'F' then some (c.toNat - 55)
  else none

/-- "-" is the empty byte string -/
def bytesOfHex (s : String) : Option (List UInt8) :=
  if s == "-" then some [] else
  let rec go : List Char → List UInt8 → Option (List UInt8)
    | [], acc => some acc.reverse
    | [_], _ => none
    | a :: b :: rest, acc =>
      match hexVal a, hexVal b with
      | some x, some y => go rest (UInt8.ofNat (x * 16 + y) :: acc)
      | _, _ => none
  go s.toList []

def words (line : String) : List String :=
  (line.trimAscii.toString.splitOn " ").filter (· ≠ "")

/-- run a line-protocol engine: state, step function returning output lines -/
partial def loop {σ : Type} (h : IO.FS.Stream) (out : IO.FS.Stream) (s : σ)
    (step : σ → List String → σ × List String) : IO Unit := do
  let line ← h.getLine
  if line.isEmpty then
    out.flush
    return ()
  let ws := words line
  if ws.isEmpty then loop h out s step else
  let (s', outs) := step s ws
  for o in outs do out.putStrLn o
  loop h out s' step

def runEngine {σ : Type} (init : σ) (step : σ → List String → σ × List String) : IO Unit := do
  let stdin ← IO.getStdin
  let stdout ← IO.getStdout
  loop stdin stdout init step

end Driver
