/-
  Model driver of engine `loop` (C06).

  The per-connection step of the model is a parameter; here it is instantiated
  with the outcomes the real code produced (token list `out=` of each round,
  taken by tools/props/C06.py from the harness log).  The model then predicts
  what the *loop* does: which handler is called on which connection in which
  order, list contents and order, flags, fd sets, hint class.

    mode <select|poll|epoll> suspend=<0|1>
    new <c> nb=<0|1> tmo=<ms>
    resume <c>
    state                                              (print the current state)
    round r=<ids> w=<ids> e=<ids> out=<tokens>        (select, poll)
    round ev=<c:ioe,…> out=<tokens>                   (epoll)
  ids: comma separated or `-`;  token: kind.c.st.eli.ep.bs.wh

  mode tpc | tpcs (thread-per-connection with poll() | select(), Mhd.Model.LoopTpc; one model thread per connection):
    tnew <c> tmo=<ms>                                  the daemon thread created the connection's thread
    tstep <c> r=<0|1> w=<0|1> e=<0|1> [res=1] out=<tokens>
                                                       the thread's blocking call returned with this readiness; res=1: the
                                                       daemon thread processed a resume between the handlers and the loop head
    tresume <c>                                        MHD_resume_connection
    tdaemon                                            one cycle of the daemon thread (resumes, cleanup of exited threads)
-/
import Mhd.Model.LoopRounds
import Mhd.Model.LoopTpc
import Driver.Common
open Mhd.Loop Mhd.Gen.Loop Driver

structure Outc where
  kind : String
  c : Nat
  st : Nat
  eli : Eli
  ep : Nat
  bs : Bool
  wh : Wh

/-- one connection thread of the thread-per-connection mode -/
structure TThr where
  t : TState Unit
  blk : Option TBlock        -- the blocking call it is parked in; none = it has left its loop
  resuming : Bool := false

structure DSt where
  mode : String := "select"
  d : Daemon Unit := {}
  parkHint : Hint := .none      -- pollthr: the timeout class poll() was last called with
  ths : List TThr := []         -- tpc

def splitList (s : String) : List String :=
  if s == "-" || s == "" then [] else s.splitOn ","

def natList (s : String) : Option (List Nat) :=
  (splitList s).mapM (·.toNat?)

def whOf : String → Option Wh
  | "A" => some .active | "S" => some .susp | "C" => some .cleanup | _ => none

def parseOutc (t : String) : Option Outc :=
  match t.splitOn "." with
  | [k, c, st, eli, ep, bs, wh] => do
    let c ← c.toNat?
    let st ← st.toNat?
    let e ← Eli.ofCode? (← eli.toNat?)
    let ep ← ep.toNat?
    let bs ← bs.toNat?
    let wh ← whOf wh
    if k ∈ ["read", "write", "idle", "close"] then some ⟨k, c, st, e, ep, bs != 0, wh⟩ else none
  | _ => none

/-- the n-th outcome recorded for connection `c` -/
def nth (tbl : List Outc) (c n : Nat) : Option Outc :=
  (tbl.filter (·.c == c))[n]?

def locOf (o : Outc) : Local Unit :=
  { st := o.st, eli := o.eli, rdReady := o.ep &&& epReadReady != 0, wrReady := o.ep &&& epWriteReady != 0,
    bufSpace := o.bs, w := () }

def opsOf (tbl : List Outc) : Ops Unit :=
  { read := fun c k _ l => match nth tbl c k with
      | some o => if o.kind == "read" then locOf o else l
      | none => l
    write := fun c k l => match nth tbl c k with
      | some o => if o.kind == "write" then locOf o else l
      | none => l
    close := fun c k l => match nth tbl c k with
      | some o => if o.kind == "close" then locOf o else l
      | none => l
    idle := fun c k wh l => match nth tbl c k with
      | some o => if o.kind == "idle" then (locOf o, o.wh) else (l, wh)
      | none => (l, wh) }

def resetK (d : Daemon Unit) : Daemon Unit :=
  let z := fun (c : Conn Unit) => { c with k := 0 }
  { d with conns := d.conns.map z, susp := d.susp.map z, cleanup := d.cleanup.map z, newc := d.newc.map z, log := [] }

def epOf (c : Conn Unit) : Nat :=
  (if c.loc.rdReady then epReadReady else 0) + (if c.loc.wrReady then epWriteReady else 0)
  + (if c.inEready then epInEready else 0) + (if c.inEpollSet then epInEpollSet else 0)
  + (if c.epSusp then epSuspended else 0) + (if c.epError then epError else 0)

def showConns (l : List (Conn Unit)) : String :=
  "[" ++ ",".intercalate (l.map fun c => s!"{c.id}.{c.loc.st}.{c.loc.eli.code}.{epOf c}.{if c.resuming then 1 else 0}") ++ "]"

def showIds (l : List Nat) : String := "[" ++ ",".intercalate (l.map toString) ++ "]"

def showEv : Ev → String
  | .read c => s!"read.{c}" | .write c => s!"write.{c}" | .idle c => s!"idle.{c}" | .close c => s!"close.{c}"

def b01 (b : Bool) : String := if b then "1" else "0"

def showHint : Hint → String
  | .none => "none" | .zero => "0" | .deadline => "some"

def showStateH (d : Daemon Unit) (epoll : Bool) (hint : Option Hint) : String :=
  let fs := getFdset d
  let srt := fun (l : List Nat) => l.mergeSort (fun a b => a ≤ b)   -- fd_sets are sets
  let fd := if epoll then "ep" else s!"r:{showIds (srt fs.r)};w:{showIds (srt fs.w)};e:{showIds (srt fs.e)}"
  s!"A={showConns d.conns} S={showConns d.susp} C={showConns d.cleanup} N={showIds (d.newc.map (·.id))} E={showIds d.eready} " ++
  s!"dap={b01 d.dap} res={b01 d.resuming} new={b01 d.haveNew} fdset={fd} hint={showHint (hint.getD (getTimeout d))}" ++
  (match d.fault with | some f => s!" fault={f.replace " " "_"}" | none => "")

def showState (d : Daemon Unit) (epoll : Bool) : String := showStateH d epoll none

/-- in the poll-thread mode the hint is the timeout the thread went to sleep with -/
def showSt (s : DSt) : String :=
  showStateH s.d (s.mode == "epoll") (if s.mode == "pollthr" then some s.parkHint else none)

def kvOf (ws : List String) (key : String) : Option String :=
  ws.findSome? fun w => if w.startsWith (key ++ "=") then some ((w.drop (key.length + 1)).toString) else none

def parseEvs (s : String) : Option (List EpEv) :=
  (splitList s).mapM fun t =>
    match t.splitOn ":" with
    | [c, m] => do
      let c ← c.toNat?
      some (EpEv.mk c (m.contains 'i') (m.contains 'o') (m.contains 'e'))
    | _ => none

def showWh : Wh → String
  | .active => "A" | .susp => "S" | .cleanup => "C"

def showBlock : Option TBlock → String
  | none => "texit"
  | some b =>
    if b.onItc then s!"tpark on=itc ev=r tmo={if b.wait == .bounded250 then "250" else "?"}"
    else
      let ev := (if b.r then "r" else "") ++ (if b.w then "w" else "") ++ (if b.e then "e" else "")
      let tmo := match b.wait with | .forever => "inf" | .zero => "0" | .deadline => "some" | .bounded250 => "250" | .bounded1000 => "1000"
      s!"tpark on=sock ev={ev} tmo={tmo}"

def showThreads (ths : List TThr) : String :=
  let srt := fun (l : List Nat) => l.mergeSort (fun a b => a ≤ b)
  let pick := fun (wh : Wh) => srt ((ths.filter (fun th => th.t.wh == wh)).map (·.t.c.id))
  s!"A={showIds (pick .active)} S={showIds (pick .susp)} C={showIds (pick .cleanup)}"

def backendOf (s : DSt) : TBackend := if s.mode == "tpcs" then .select else .poll

def tpcLine (s : DSt) (ws : List String) : DSt × List String :=
  match ws with
  | "tnew" :: c :: rest =>
    match c.toNat?, ((kvOf rest "tmo").getD "0").toNat? with
    | some c, some tmo =>
      if s.ths.any (fun th => th.t.c.id == c) then (s, ["bad-op"]) else
      let loc0 : Local Unit := { st := stInit, eli := .read, rdReady := false, wrReady := false, bufSpace := true, w := () }
      let t0 : TState Unit := { c := { id := c, tmo := tmo, loc := loc0 }, wh := .active, selBounded := selBoundedOf (backendOf s) }
      let h := tpcHead (opsOf []) t0
      ({ s with ths := s.ths ++ [{ t := h.1, blk := h.2 }] }, [s!"tnew wh={showWh h.1.wh} {showBlock h.2}"])
    | _, _ => (s, ["bad-op"])
  | "tstep" :: c :: rest =>
    match c.toNat?, ((kvOf rest "out").getD "-" |> splitList).mapM parseOutc with
    | some c, some tbl =>
      match s.ths.find? (fun th => th.t.c.id == c) with
      | none => (s, ["bad-op"])
      | some th =>
        match th.blk with
        | none => (s, ["bad-op"])
        | some b =>
          let ops := opsOf tbl
          let flag := fun k => (kvOf rest k).getD "0" != "0"
          let t0 : TState Unit := { th.t with c := { th.t.c with k := 0 }, log := [] }
          let t1 := tpcTail ops t0 b (flag "r") (flag "w") (flag "e")
          let t2 := if flag "res" then tpcResumed t1 else t1
          let h := tpcHead ops t2
          let calls := ",".intercalate (h.1.log.reverse.map showEv)
          let th' : TThr := { th with t := h.1, blk := h.2, resuming := if flag "res" then false else th.resuming }
          ({ s with ths := s.ths.map (fun x => if x.t.c.id == c then th' else x) },
           [s!"tstep calls=[{calls}] wh={showWh h.1.wh} {showBlock h.2}"])
    | _, _ => (s, ["bad-op"])
  | ["tresume", c] =>
    match c.toNat? with
    | some c =>
      if !(s.ths.any (fun th => th.t.c.id == c && th.t.wh == .susp)) then (s, ["bad-op"]) else
      ({ s with ths := s.ths.map (fun th => if th.t.c.id == c then { th with resuming := true } else th) }, ["ok"])
    | none => (s, ["bad-op"])
  | ["tdaemon"] =>
    -- resume_suspended_connections as the daemon thread's cycle of this back-end does (or does not) call it: the model function
    let cyc := tpcDaemonCycle (backendOf s) (s.ths.map (fun th => ({ t := th.t, resuming := th.resuming } : TThread Unit)))
    let ths1 := (s.ths.zip cyc).map (fun (th, m) => { th with t := m.t, resuming := m.resuming })
    let ths2 := ths1.filter (fun th => !(th.blk.isNone && th.t.wh == .cleanup))
    ({ s with ths := ths2 }, [s!"tdaemon {showThreads ths2}"])
  | ["tstate"] => (s, [s!"tstate {showThreads s.ths}"])
  | _ => (s, ["bad-op"])

def stepLine (s : DSt) (ws : List String) : DSt × List String :=
  if (s.mode == "tpc" || s.mode == "tpcs") && (match ws with | w :: _ => w.startsWith "t" | [] => false) then tpcLine s ws else
  match ws with
  | "mode" :: m :: rest =>
    if m == "tpc" || m == "tpcs" then ({ mode := m }, ["ok"]) else
    if m ∈ ["select", "poll", "epoll", "pollthr"] then
      let sus := (kvOf rest "suspend").getD "1" != "0"
      ({ mode := m, d := { epoll := m == "epoll", allowSuspend := sus } }, ["ok"])
    else (s, ["bad-op"])
  | "new" :: c :: rest =>
    match c.toNat?, ((kvOf rest "nb").getD "1").toNat?, ((kvOf rest "tmo").getD "0").toNat? with
    | some c, some nb, some tmo =>
      if (s.d.lookup c).isSome || (findConn s.d.newc c).isSome then (s, ["bad-op"]) else
      let loc0 : Local Unit := { st := stInit, eli := .read, rdReady := false, wrReady := false, bufSpace := true, w := () }
      let conn : Conn Unit := { id := c, nonblock := (nb != 0), tmo := tmo, loc := loc0 }
      let d := addConn s.d conn
      ({ s with d := d }, ["state " ++ showSt { s with d := d }])
    | _, _, _ => (s, ["bad-op"])
  | ["resume", c] =>
    match c.toNat? with
    | some c =>
      if (findConn s.d.susp c).isNone then (s, ["bad-op"]) else
      let d := resumeReq s.d c
      ({ s with d := d }, ["state " ++ showSt { s with d := d }])
    | none => (s, ["bad-op"])
  | ["state"] => (s, ["state " ++ showSt s])
  | "round" :: rest =>
    match ((kvOf rest "out").getD "-" |> splitList).mapM parseOutc with
    | none => (s, ["bad-op"])
    | some tbl =>
      let ops := opsOf tbl
      let d0 := resetK s.d
      let res : Option (Daemon Unit × Hint) :=
        if s.mode == "epoll" then
          match parseEvs ((kvOf rest "ev").getD "-") with
          | some evs => some (epollRound ops d0 evs, .none)
          | none => none
        else
          match natList ((kvOf rest "r").getD "-"), natList ((kvOf rest "w").getD "-"), natList ((kvOf rest "e").getD "-") with
          | some r, some w, some e =>
            let rdy : Ready := { r := r, w := w, e := e }
            some (if s.mode == "pollthr" then pollThreadCycle ops d0 rdy
                  else if s.mode == "poll" then (pollAll ops d0 rdy, .none) else (runFromSelect ops d0 rdy, .none))
          | _, _, _ => none
      match res with
      | none => (s, ["bad-op"])
      | some (d, h) =>
        let calls := ",".intercalate (d.log.reverse.map showEv)
        let s' := { s with d := d, parkHint := h }
        (s', [s!"round calls=[{calls}] " ++ showSt s'])
  | _ => (s, ["bad-op"])

def main : IO Unit := Driver.runEngine ({} : DSt) stepLine
