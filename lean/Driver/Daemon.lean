/-
  Model driver of engine `daemon` (property C09): reads the same script as
  harness/h_limits.c and prints the events the model predicts, one group of
  lines per script line, each group terminated by `--`.
-/
import Mhd.Model.Limits
import Driver.Common
open Mhd.Limits Driver

structure DSt where
  started : Bool := false
  cfg : Cfg := { limit := 0, perIp := 0, threadSafe := true, epoll := false, tpc := false,
                 allowSuspend := false, allowUpgrade := false }
  s : St := St.init { limit := 0, perIp := 0, threadSafe := true, epoll := false, tpc := false,
                      allowSuspend := false, allowUpgrade := false }
  /-- MHD_OPTION_THREAD_POOL_SIZE as configured -/
  pool : Nat := 0
  /-- arrivals come through the listen socket (MHD_accept_connection → internal_add_connection(external_add = false)) -/
  listen : Bool := false
  /-- addresses seen, for the `ipc` line -/
  addrs : List Nat := []

def siteName : Site → String
  | .ipnode => "ipnode" | .conn => "conn" | .addr => "addr" | .pool => "pool"
  | .epollCtl => "epollctl" | .thread => "thread"

def b01 (b : Bool) : String := if b then "1" else "0"

def showEv : Ev → String
  | .arrive c ok => s!"arrive c={c} -> {b01 ok}"
  | .policy c v => s!"policy c={c} -> {b01 v}"
  | .connStart c => s!"conn-start c={c}"
  | .connClose c => s!"conn-close c={c}"
  | .fdClose c => s!"fd-close c={c}"
  | .queued c r ok => s!"queued c={c} rid={r} -> {b01 ok}"
  | .freeCb r => s!"free-cb rid={r}"
  | .upgraded c => s!"upgrade c={c}"
  | .suspended c => s!"suspend c={c}"
  | .failed .epollCtl => "epoll-ctl-failed"
  | .failed s => s!"alloc-failed site={siteName s}"
  | .panic _ => "fault"

def insertSorted (a : Nat) : List Nat → List Nat
  | [] => [a]
  | x :: xs => if a = x then x :: xs else if a < x then a :: x :: xs else x :: insertSorted a xs

def reportLines (d : DSt) : List String :=
  let s := d.s
  let ipc := d.addrs.filterMap fun a => if s.ipCount a ≠ 0 then some s!" {a}={s.ipCount a}" else none
  [s!"conns {s.connections}",
   s!"lists new={s.newL.length} act={s.active.length} susp={s.susp.length} clean={s.cleanup.length}",
   "ipc" ++ (if ipc.isEmpty then " -" else String.join ipc)]

def faultLine (s : St) : List String := match s.fault with
  | some f => [s!"fault {repr f}"]
  | none => []

/-- apply a model operation; `rep` = append the report lines -/
def doOp (d : DSt) (o : Op) (rep : Bool) (pre : List String := []) (post : List String := []) : DSt × List String :=
  if !d.started || d.s.fault.isSome || !o.legal d.s then (d, ["bad-op", "--"]) else
  let (s', evs) := step d.s o
  let d' := { d with s := s' }
  (d', pre ++ evs.map showEv ++ post ++ faultLine s' ++ (if rep then reportLines d' else []) ++ ["--"])

def kvNat (ws : List String) (key : String) : Option Nat :=
  ws.findSome? fun w => if w.startsWith (key ++ "=") then (w.drop (key.length + 1)).toNat? else none

def kvStr (ws : List String) (key : String) : Option String :=
  ws.findSome? fun w => if w.startsWith (key ++ "=") then some (w.drop (key.length + 1)).toString else none

def parseSite : String → Option Site
  | "ipnode" => some .ipnode | "conn" => some .conn | "addr" => some .addr | "pool" => some .pool
  | _ => none

def stepLine (d : DSt) (ws : List String) : DSt × List String :=
  match ws with
  | "case" :: rest => ({}, [s!"case {rest.headD "-"}", "--"])
  | "cfg" :: rest =>
    let mode := (kvStr rest "mode").getD "select"
    let cfg : Cfg := { limit := Cfg.effLimit ((kvNat rest "limit").getD 0), perIp := (kvNat rest "perip").getD 0,
                       threadSafe := (kvNat rest "nts").getD 0 == 0, epoll := mode == "epoll" || mode == "epoll-thr",
                       tpc := mode == "tpc",
                       allowSuspend := (kvNat rest "suspend").getD 0 != 0 || (kvNat rest "upgrade").getD 0 != 0,
                       allowUpgrade := (kvNat rest "upgrade").getD 0 != 0 }
    ({ d with cfg := cfg, pool := (kvNat rest "pool").getD 0, listen := (kvNat rest "listen").getD 0 != 0 }, ["ok", "--"])
  | ["start"] => if d.started then (d, ["bad-op", "--"]) else
      ({ d with started := true, s := { St.init d.cfg with resps := d.s.resps } }, ["started", "--"])
  | "resp-create" :: r :: rest =>
    match r.toNat? with
    | some rid =>
      let kind := (kvStr rest "kind").getD "freecb"
      let size := (kvNat rest "size").getD 5
      let o := Op.respCreate rid (size ≥ 400000) (kind != "upgrade") (kind == "upgrade")
      if d.s.fault.isSome || !o.legal d.s || rid ≥ 16 then (d, ["bad-op", "--"]) else
      ({ d with s := (step d.s o).1 }, [s!"resp-create rid={rid} -> 1", "--"])
    | none => (d, ["bad-op", "--"])
  | ["resp-drop", r] =>
    match r.toNat? with
    | some rid =>
      let o := Op.respDrop rid
      if d.s.fault.isSome || !o.legal d.s then (d, ["bad-op", "--"]) else
      let (s', evs) := step d.s o
      ({ d with s := s' }, evs.map showEv ++ [s!"resp-drop rid={rid}"] ++ faultLine s' ++ ["--"])
    | none => (d, ["bad-op", "--"])
  | ["arrive", c, a, p] =>
    match c.toNat?, a.toNat?, p.toNat? with
    | some ci, some ai, some pi =>
      if ci ≠ d.s.nextId || ci ≥ 32 || ai ≥ 250 then (d, ["bad-op", "--"]) else
      doOp { d with addrs := insertSorted ai d.addrs } (.arrive ai (pi != 0) (!d.listen)) true
    | _, _, _ => (d, ["bad-op", "--"])
  | "req" :: c :: kind :: r :: pre =>
    match c.toNat?, r.toNat?, pre.mapM (·.toNat?) with
    | some ci, some ri, some pl =>
      let b? : Option Beh := match kind with
        | "reply" => some (.reply ri false pl) | "replyc" => some (.reply ri true pl)
        | "upgrade" => some (.reply ri false pl) | "suspend" => some (.suspend ri pl)
        | "upgradec" => some (.upgradeClose ri pl)
        | "bad" => if pl.isEmpty then some .bad else none
        | _ => none
      match b? with
      | some b => doOp d (.req ci b) false (post := [s!"req c={ci} sent=1"])
      | none => (d, ["bad-op", "--"])
    | _, _, _ => (d, ["bad-op", "--"])
  | ["ext-queue", c, r] =>
    match c.toNat?, r.toNat? with
    | some ci, some ri => doOp d (.extQueue ci ri) false
    | _, _ => (d, ["bad-op", "--"])
  | ["accept-fail", e] =>
    if d.listen && ["EMFILE", "ENFILE", "ECONNABORTED", "EAGAIN", "ENOMEM", "ENOBUFS"].contains e
    then doOp d .acceptFail true (pre := [s!"accept-failed {e}"]) else (d, ["bad-op", "--"])
  | ["cclose", c] => match c.toNat? with
    | some ci => doOp d (.clientClose ci) false (post := ["ok"])
    | none => (d, ["bad-op", "--"])
  | ["hold", c] => match c.toNat? with
    | some ci => doOp d (.hold ci) false (post := ["ok"])
    | none => (d, ["bad-op", "--"])
  | ["drain", c] => match c.toNat? with
    | some ci => doOp d (.drain ci) false (post := ["ok"])
    | none => (d, ["bad-op", "--"])
  | ["resume", c] => match c.toNat? with
    | some ci => doOp d (.resume ci) false (pre := [s!"resume c={ci}"])
    | none => (d, ["bad-op", "--"])
  | ["up-close", c] => match c.toNat? with
    | some ci => doOp d (.upClose ci) false (post := [s!"up-close c={ci} -> 1"])
    | none => (d, ["bad-op", "--"])
  | ["settle"] => doOp d .round true
  | ["query"] => doOp d .query true
  | ["alloc-fail-site", x] => match parseSite x with
    | some site => doOp d (.armFail site) false (post := ["ok"])
    | none => (d, ["bad-op", "--"])
  | ["epoll-fail"] => doOp d (.armFail .epollCtl) false (post := ["ok"])
  | ["alloc-fail-off"] => doOp d .disarm false (post := ["ok"])
  | ["pool-limits"] => if !d.started then (d, ["bad-op", "--"]) else
      -- a pool of size 0 or 1 is no pool (MHD_OPTION_THREAD_POOL_SIZE 1 is ignored)
      let n := if d.pool ≤ 1 then 0 else d.pool
      let ls := workerLimits d.cfg.limit n
      (d, [s!"pool n={n} limits=" ++ (if n = 0 then "-" else ",".intercalate (ls.map toString)), "--"])
  | ["defaults"] => if !d.started then (d, ["bad-op", "--"]) else
      (d, [s!"defaults limit={d.s.cfg.limit} pool={Mhd.Gen.Limits.defaultPoolSize}", "--"])
  | ["mark", x] => (d, [s!"mark {x}", "--"])
  | ["tick", _] => (d, ["ok", "--"])
  | ["stop"] => doOp d .stop false (post := ["stopped"])
  | _ => (d, ["bad-op", "--"])

def main : IO Unit := runEngine ({} : DSt) stepLine
