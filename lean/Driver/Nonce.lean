import Mhd.Model.NonceGen
import Driver.Common
open Mhd.Nonce Mhd.Gen.Nonce Driver

structure DSt where
  tbl : Table
  now : Nat
  /-- `daemon <bind> <rnd>`: the configuration nonce generation reads -/
  cfg : Option Mhd.Dauth.Cfg := none
  /-- `rq …`: the request a generated nonce may be bound to -/
  req : Option Mhd.Dauth.Req := none

def algoOfIdx : Nat → Option Mhd.Dauth.Algo
  | 0 => some .md5
  | 1 => some .sha256
  | 2 => some .sha512
  | _ => none

/-- "none" or `k[=v],…` (hex) -/
def parseArgSpec (s : String) : Option (List (List UInt8 × Option (List UInt8))) :=
  if s == "none" then some [] else
  (s.splitOn ",").mapM fun tok =>
    match tok.splitOn "=" with
    | [k] => (bytesOfHex k).map fun kb => (kb, none)
    | [k, v] => match bytesOfHex k, bytesOfHex v with
      | some kb, some vb => some (kb, some vb)
      | _, _ => none
    | _ => none

def showGen (t f : String) (g : Mhd.NonceGen.Gen) : String :=
  (if g.added then t else f) ++ " " ++ hexOfBytes g.nonce

def showOut : Out → String
  | .added => "added"
  | .refused => "refused"
  | .ok => "ok"
  | .stale => "stale"
  | .wrong => "wrong"
  | .hdr => "hdr"
  | .fault => "fault"

/-- NONCE_STD_LEN of algorithm index 0 = MD5, 1 = SHA-256, 2 = SHA-512/256 -/
def stdLenOf : Nat → Option Nat
  | 0 => some stdLenMd5
  | 1 => some stdLenSha
  | 2 => some stdLenSha
  | _ => none

def apiOf : String → Option Api
  | "c3" => some .check3
  | "d3" => some .checkDigest3
  | "c2" => some .check2
  | "c1" => some .check
  | "dg2" => some .checkDigest2
  | "dg1" => some .checkDigest
  | _ => none

/-- which (entry point, client algorithm, max_nc) combinations the scripts may use: the
    legacy entry points have no max_nc parameter; `_check` and `_check_digest` are MD5 only;
    `_check_digest2` needs MD5 or SHA-256 -/
def apiAllowed (a : Api) (algo mx : Nat) : Bool :=
  match a with
  | .check3 => true
  | .checkDigest3 => true
  | .check2 => mx == 0
  | .check => mx == 0 && algo == 0
  | .checkDigest2 => mx == 0 && algo ≤ 1
  | .checkDigest => mx == 0 && algo == 0

def showApiOut : ApiOut → String
  | .res o => showOut o
  | .yes => "yes"
  | .invalidNonce => "invalid"
  | .no => "no"

def hex16 (m : Nat) : String :=
  String.ofList ((List.range 16).map fun j => hexDigit ((m / 16 ^ (15 - j)) % 16))

/-- canonical form (same as the harness): mask bits at positions ≥ nc are never read;
    the buffer is shown up to the first NUL -/
def showSlot (s : Slot) : String :=
  let m := if s.nc < 64 then s.nmask.toNat % 2 ^ s.nc else s.nmask.toNat
  s!"{s.nc}:{hex16 m}:{hexOfBytes (s.nonce.takeWhile (· != 0))}"

def U64 : Nat := 2 ^ 64

def bad (s : DSt) : DSt × List String := (s, ["bad-op"])

def stepLine (s : DSt) (ws : List String) : DSt × List String :=
  match ws with
  | ["table", n] => match n.toNat? with
      | some k => if k ≤ 64 then ({ s with tbl := Table.init k }, ["ok"]) else bad s
      | none => bad s
  | ["clock", t] => match t.toNat? with
      | some k => if k < U64 then ({ s with now := k }, ["ok"]) else bad s
      | none => bad s
  | ["add", ts, algo, salt, nonce] =>
      match ts.toNat?, algo.toNat?.bind stdLenOf, bytesOfHex salt, bytesOfHex nonce with
      | some t, some sl, some _, some n =>
        if t ≥ U64 then bad s
        else if !nonceFormatOk sl t n then (s, ["nonce-mismatch"])
        else
          let r := step s.tbl (.add t n)
          ({ s with tbl := r.1 }, [showOut r.2])
      | _, _, _, _ => bad s
  | ["check", nonce, nc] =>
      match bytesOfHex nonce, nc.toNat? with
      | some n, some c =>
        if n.length = 0 ∨ c ≥ U64 then bad s
        else
          match getNonceTimestamp n n.length with
          | .fault => (s, ["fault"])
          | .invalid => (s, ["wrong"])
          | .ts t =>
            let r := step s.tbl (.check n t c)
            ({ s with tbl := r.1 }, [showOut r.2])
      | _, _ => bad s
  | ["checkt", nonce, t, nc] =>
      match bytesOfHex nonce, t.toNat?, nc.toNat? with
      | some n, some tt, some c =>
        if n.length = 0 ∨ c ≥ U64 ∨ tt ≥ U64 then bad s
        else
          let r := step s.tbl (.check n tt c)
          ({ s with tbl := r.1 }, [showOut r.2])
      | _, _, _ => bad s
  | ["ts", nonce] =>
      match bytesOfHex nonce with
      | some n =>
        if n.length = 0 then bad s else
        match getNonceTimestamp n n.length with
        | .ts t => (s, [s!"ts {t}"])
        | .invalid => (s, ["invalid"])
        | .fault => (s, ["fault"])
      | none => bad s
  | ["tsz", nonce] =>
      match bytesOfHex nonce with
      | some n =>
        match getNonceTimestamp (n ++ [0]) 0 with
        | .ts t => (s, [s!"ts {t}"])
        | .invalid => (s, ["invalid"])
        | .fault => (s, ["fault"])
      | none => bad s
  | ["hash", d] =>
      match bytesOfHex d with
      | some b => (s, [s!"hash {fastSimpleHash b}"])
      | none => bad s
  | ["auth", api, algo, tmo, mx, nonce, nctxt, _resp] =>
      match apiOf api, algo.toNat?, algo.toNat?.bind stdLenOf, tmo.toNat?, mx.toNat?, bytesOfHex nonce with
      | some a, some al, some sl, some tm, some m, some n =>
        if tm ≥ 2 ^ 32 ∨ m ≥ 2 ^ 32 ∨ !apiAllowed a al m then bad s
        else
          let txt : Bytes := if nctxt == "-" then [] else nctxt.toUTF8.toList
          let r := presentTextApi a s.tbl s.now tm m sl n txt
          ({ s with tbl := r.1 }, [showApiOut (a.result r.2)])
      | _, _, _, _, _, _ => bad s
  | ["daemon", b, rnd] =>
      match b.toNat?, bytesOfHex rnd with
      | some bt, some r =>
        if bt ≥ 16 then bad s
        else ({ s with cfg := some ⟨Mhd.Dauth.bindOfOption bt, r, defTimeout, defMaxNc, true⟩ }, ["ok"])
      | _, _ => bad s
  | ["rq", m, tok, url, args, addr] =>
      match m.toNat?, bytesOfHex url, parseArgSpec args, bytesOfHex addr with
      | some mt, some u, some ar, some ad =>
        if mt > 1000 ∨ !(ad.length = 0 ∨ ad.length = Mhd.Gen.Dauth.sinSize ∨ ad.length = Mhd.Gen.Dauth.sin6Size) then bad s
        else ({ s with req := some { method := tok.toUTF8.toList, mthd := mt, url := u, args := ar, hdrs := [], addr := ad } },
              ["ok"])
      | _, _, _, _ => bad s
  | ["gen", algo, ts, realm] =>
      match algo.toNat?.bind algoOfIdx, ts.toNat?, bytesOfHex realm, s.cfg, s.req with
      | some a, some t, some rl, some cfg, some rq =>
        if t ≥ U64 then bad s else
        match Mhd.NonceGen.calcAddNonce cfg s.tbl rq rl a t with
        | (_, none) => (s, ["fault"])
        | (tbl', some g) => ({ s with tbl := tbl' }, [showGen "added" "refused" g])
      | _, _, _, _, _ => bad s
  | ["genr", algo, t2, rnd, realm] =>
      match algo.toNat?.bind algoOfIdx, t2.toNat?, rnd.toNat?, bytesOfHex realm, s.cfg, s.req with
      | some a, some tt, some rv, some rl, some cfg, some rq =>
        if tt ≥ U64 ∨ rv > 2147483647 ∨ rl.contains 0 then bad s else
        match Mhd.NonceGen.calcAddNonceRetry cfg s.tbl rq rl a s.now tt rv with
        | (_, none) => (s, ["fault"])
        | (tbl', some g) => ({ s with tbl := tbl' }, [showGen "true" "false" g])
      | _, _, _, _, _, _ => bad s
  | ["state"] =>
      (s, [s!"n={s.tbl.length}" ++ String.join (s.tbl.map fun x => " " ++ showSlot x)])
  | _ => bad s

def main : IO Unit := runEngine ({ tbl := [], now := 0 } : DSt) stepLine
