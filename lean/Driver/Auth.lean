import Mhd.Model.AuthInfo
import Driver.Common
/-
  Model driver of engine `auth` (C14).  One output line per input line.

    find <b|d> <stateok 0|1> {<kind> <namehex> <valuehex>}*   → found <idx> <off> <len> | none
    bparse <hex>                          → ok <off> <len> | ok - | fail
    dparse <hex> <term: x | 0..255>       → ok <12 slots: - | off:len:q> uh=<0|1> algo=<n> qop=<n> | fail | fault <site>
    algo <hex|none> <0|1>                 → algo=<n>
    qop <hex|none> <0|1>                  → qop=<n>
    basic <valuehex>                      → basic none | basic u=<hex> p=<hex|none>
    info <valuehex>                       → info none | info algo=… ut=… user=… uhh=… uhb=… opaque=… realm=… qop=… cnl=… nc=… | un3 …
    conn <valuehex>                       → <basic line> ; <info line>     (value as a real request would carry it)
    basich {<kind> <namehex> <valuehex>}* → basic line, connection with these request headers (fabricated)
    infoh {<kind> <namehex> <valuehex>}*  → info line, same
    connm <valuehex> <valuehex>*          → <basic line> ; <info line>     (real request with several Authorization headers)
    layout <valuehex>                     → lay none | lay alloc=<n> user=<off:len|-> uhh=… uhb=… opaque=… realm=… | un3 none | un3 alloc=… user=… uhh=… uhb=…
                                            (offsets relative to the first byte behind the returned structure)
-/
open Mhd.Auth Driver

def optHex : Option Bytes → String
  | none => "none"
  | some b => hexOfBytes b

def showSite : Site → String
  | .quotedBackslashEnd => "quoted-backslash-end"
  | .tokenEnd => "token-end"
  | .fuel => "fuel"

def showSlot : Option Param → String
  | none => "-"
  | some p => s!"{p.off}:{p.raw.length}:{if p.quoted then 1 else 0}"

def showDAuth (d : DAuth) : String :=
  -- slots 2 (algorithm) and 11 (userhash) are locals of the C parser: not observable, printed as `*`
  let sl := (List.range 12).map fun k => if k = kAlgorithm ∨ k = kUserhash then "*" else showSlot (d.slots k)
  s!"ok {" ".intercalate sl} uh={if d.userhash then 1 else 0} algo={d.algo3} qop={d.qop}"

def parseHdrs : List String → Option (List Hdr)
  | [] => some []
  | k :: n :: v :: rest =>
    match k.toNat?, bytesOfHex n, bytesOfHex v, parseHdrs rest with
    | some kk, some nn, some vv, some t => some (⟨kk, nn, vv⟩ :: t)
    | _, _, _, _ => none
  | _ => none

def parseTerm (s : String) : Option (Option UInt8) :=
  if s == "x" then some none
  else match s.toNat? with
    | some n => if n < 256 then some (some (UInt8.ofNat n)) else none
    | none => none

def parseOptParam (v q : String) : Option (Option Param) :=
  match q with
  | "0" | "1" =>
    if v == "none" then some none
    else (bytesOfHex v).map fun b => some ⟨0, b, q == "1"⟩
  | _ => none

def showUname (u : UnameInfo) : String :=
  s!"ut={u.utype} user={optHex u.username} uhh={optHex u.userhashHex} uhb={optHex u.userhashBin}"

def basicLineH (hs : List Hdr) : String :=
  match basicApiH hs with
  | none => "basic none"
  | some (u, p) => s!"basic u={hexOfBytes u} p={optHex p}"

def authHdr (v : Bytes) : Hdr := ⟨Mhd.Gen.Auth.headerKind, Mhd.Gen.Auth.authHeader, v⟩

def basicLine (v : Bytes) : String := basicLineH [authHdr v]

def showReg : Option (Nat × Nat) → String
  | none => "-"
  | some (o, l) => s!"{o}:{l}"

def layLine (hs : List Hdr) : String :=
  match digestLayH hs with
  | .ok none => "lay none"
  | .ok (some (i, u)) =>
    let a := match i with
      | .ok l => s!"lay alloc={l.size} user={showReg l.user} uhh={showReg l.uhh} uhb={showReg l.uhb} opaque={showReg l.opaq} realm={showReg l.realm}"
      | .null => "lay null"
      | .overread => "lay fault pct-overread"
    let b := match u with
      | .ok l => s!"un3 alloc={l.size} user={showReg l.user} uhh={showReg l.uhh} uhb={showReg l.uhb}"
      | .null => "un3 none"
      | .overread => "un3 fault pct-overread"
    a ++ " | " ++ b
  | .reject => "lay none"
  | .fault s => s!"lay fault {showSite s}"

def infoLineH (hs : List Hdr) : String :=
  match digestApiH hs with
  | .ok none => "info none"
  | .ok (some (i, u)) =>
    let a := match i with
      | .ok i => s!"info algo={i.algo3} {showUname i.uname} opaque={optHex i.opaq} realm={optHex i.realm} qop={i.qop} cnl={i.cnonceLen} nc={i.nc}"
      | .null => "info null"
      | .overread => "info fault pct-overread"
    let b := match u with
      | .ok (u, algo) => s!"un3 {showUname u} algo={algo}"
      | .null => "un3 none"
      | .overread => "un3 fault pct-overread"
    a ++ " | " ++ b
  | .reject => "info none"
  | .fault s => s!"info fault {showSite s}"

def infoLine (v : Bytes) : String := infoLineH [authHdr v]

def allHex : List String → Option (List Bytes)
  | [] => some []
  | h :: t => match bytesOfHex h, allHex t with
    | some b, some r => some (b :: r)
    | _, _ => none

/-- values a real request can carry unchanged: no NUL/CR/LF, no leading or trailing SP/HT -/
def connOk (v : Bytes) : Bool :=
  v.all (fun c => c ≠ 0 && c ≠ 13 && c ≠ 10) &&
    (match v.head? with | some c => ! isWs c | none => false) &&
    (match v.getLast? with | some c => ! isWs c | none => false)

def stepLine (s : Unit) (ws : List String) : Unit × List String :=
  match ws with
  | "find" :: t :: st :: rest =>
    let tok? : Option Bytes := if t == "b" then some Mhd.Gen.Auth.basicBase
                               else if t == "d" then some Mhd.Gen.Auth.digestBase else none
    match tok?, st, parseHdrs rest with
    | some tok, "0", some hs | some tok, "1", some hs =>
      match findAuthHeader (st == "1") tok hs with
      | some (k, off, rest) => (s, [s!"found {k} {off} {rest.length}"])
      | none => (s, ["none"])
    | _, _, _ => (s, ["bad-op"])
  | ["bparse", h] =>
    match bytesOfHex h with
    | some b =>
      match parseBasic b with
      | .ok none => (s, ["ok -"])
      | .ok (some (off, tok)) => (s, [s!"ok {off} {tok.length}"])
      | .reject => (s, ["fail"])
      | .fault e => (s, [s!"fault {showSite e}"])
    | none => (s, ["bad-op"])
  | ["dparse", h, t] =>
    match bytesOfHex h, parseTerm t with
    | some b, some term =>
      match parseDigest b term with
      | .ok d => (s, [showDAuth d])
      | .reject => (s, ["fail"])
      | .fault e => (s, [s!"fault {showSite e}"])
    | _, _ => (s, ["bad-op"])
  | ["algo", v, q] =>
    match parseOptParam v q with
    | some p => (s, [s!"algo={algoOf p}"])
    | none => (s, ["bad-op"])
  | ["qop", v, q] =>
    match parseOptParam v q with
    | some p => (s, [s!"qop={qopOf p}"])
    | none => (s, ["bad-op"])
  | ["basic", h] =>
    match bytesOfHex h with
    | some b => (s, [basicLine b])
    | none => (s, ["bad-op"])
  | ["info", h] =>
    match bytesOfHex h with
    | some b => (s, [infoLine b])
    | none => (s, ["bad-op"])
  | "basich" :: rest =>
    match parseHdrs rest with
    | some hs => (s, [basicLineH hs])
    | none => (s, ["bad-op"])
  | "infoh" :: rest =>
    match parseHdrs rest with
    | some hs => (s, [infoLineH hs])
    | none => (s, ["bad-op"])
  | "connm" :: h0 :: rest =>
    match allHex (h0 :: rest) with
    | some vs =>
      if vs.all connOk then (s, [basicLineH (vs.map authHdr) ++ " ; " ++ infoLineH (vs.map authHdr)]) else (s, ["bad-op"])
    | none => (s, ["bad-op"])
  | ["layout", h] =>
    match bytesOfHex h with
    | some b => (s, [layLine [authHdr b]])
    | none => (s, ["bad-op"])
  | ["conn", h] =>
    match bytesOfHex h with
    | some b => if connOk b then (s, [basicLine b ++ " ; " ++ infoLine b]) else (s, ["bad-op"])
    | none => (s, ["bad-op"])
  | _ => (s, ["bad-op"])

def main : IO Unit := runEngine () stepLine
