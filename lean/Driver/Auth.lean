import Mhd.Model.AuthCache
import Driver.Common
/-
  Model driver of engine `auth` (C14).  One output line per input line.

    find <b|d> <stateok 0|1> {<kind> <namehex> <valuehex>}*   → found <idx> <off> <len> | none
    bparse <hex>                          → ok <off> <len> | ok - | fail
    dparse <hex> <term: x | 0..255>       → ok <12 slots: - | off:len:q> uh=<0|1> algo=<n> qop=<n> | fail | fault <site>
    algo <hex|none> <0|1>                 → algo=<n>
    qop <hex|none> <0|1>                  → qop=<n>
    basic <valuehex>                      → basic none | basic u=<hex> p=<hex|none>
    info <valuehex>                       → info none | info algo=… ut=… user=… uhh=… uhb=… opaque=… realm=… qop=… cnl=… nc=… | un3 …
    conn <valuehex>                       → <basic line> ; <info line>     (value as a real request would carry it)
    basich {<kind> <namehex> <valuehex>}* → basic line, connection with these request headers (fabricated)
    infoh {<kind> <namehex> <valuehex>}*  → info line, same
    connm <valuehex> <valuehex>*          → <basic line> ; <info line>     (real request with several Authorization headers)
    connq <early 0|1> <request>+          → per request "[u=<basic> ; <info>] [h1=…] [h2=…] [h3=…]" joined by " / ": pipelined POST requests on one
                                            real connection; <request> = comma-separated Authorization values (hex) or "-"; u = answers inside the
                                            URI-log callback (early=1), h1..h3 = answers in the three handler calls; every query is made twice
    layout <valuehex>                     → lay none | lay alloc=<n> user=<off:len|-> uhh=… uhb=… opaque=… realm=… | un3 none | un3 alloc=… user=… uhh=… uhb=…
                                            (offsets relative to the first byte behind the returned structure)
-/
open Mhd.Auth Driver

def optHex : Option Bytes → String
  | none => "none"
  | some b => hexOfBytes b

def showSite : Site → String
  | .quotedBackslashEnd => "quoted-backslash-end"
  | .tokenEnd => "token-end"
  | .fuel => "fuel"

def showSlot : Option Param → String
  | none => "-"
  | some p => s!"{p.off}:{p.raw.length}:{if p.quoted then 1 else 0}"

def showDAuth (d : DAuth) : String :=
  -- slots 2 (algorithm) and 11 (userhash) are locals of the C parser: not observable, printed as `*`
  let sl := (List.range 12).map fun k => if k = kAlgorithm ∨ k = kUserhash then "*" else showSlot (d.slots k)
  s!"ok {" ".intercalate sl} uh={if d.userhash then 1 else 0} algo={d.algo3} qop={d.qop}"

def parseHdrs : List String → Option (List Hdr)
  | [] => some []
  | k :: n :: v :: rest =>
    match k.toNat?, bytesOfHex n, bytesOfHex v, parseHdrs rest with
    | some kk, some nn, some vv, some t => some (⟨kk, nn, vv⟩ :: t)
    | _, _, _, _ => none
  | _ => none

def parseTerm (s : String) : Option (Option UInt8) :=
  if s == "x" then some none
  else match s.toNat? with
    | some n => if n < 256 then some (some (UInt8.ofNat n)) else none
    | none => none

def parseOptParam (v q : String) : Option (Option Param) :=
  match q with
  | "0" | "1" =>
    if v == "none" then some none
    else (bytesOfHex v).map fun b => some ⟨0, b, q == "1"⟩
  | _ => none

def showUname (u : UnameInfo) : String :=
  s!"ut={u.utype} user={optHex u.username} uhh={optHex u.userhashHex} uhb={optHex u.userhashBin}"

def basicLineH (hs : List Hdr) : String :=
  match basicApiH hs with
  | none => "basic none"
  | some (u, p) => s!"basic u={hexOfBytes u} p={optHex p}"

def authHdr (v : Bytes) : Hdr := ⟨Mhd.Gen.Auth.headerKind, Mhd.Gen.Auth.authHeader, v⟩

def basicLine (v : Bytes) : String := basicLineH [authHdr v]

def showReg : Option (Nat × Nat) → String
  | none => "-"
  | some (o, l) => s!"{o}:{l}"

def layLine (hs : List Hdr) : String :=
  match digestLayH hs with
  | .ok none => "lay none"
  | .ok (some (i, u)) =>
    let a := match i with
      | .ok l => s!"lay alloc={l.size} user={showReg l.user} uhh={showReg l.uhh} uhb={showReg l.uhb} opaque={showReg l.opaq} realm={showReg l.realm}"
      | .null => "lay null"
      | .overread => "lay fault pct-overread"
    let b := match u with
      | .ok l => s!"un3 alloc={l.size} user={showReg l.user} uhh={showReg l.uhh} uhb={showReg l.uhb}"
      | .null => "un3 none"
      | .overread => "un3 fault pct-overread"
    a ++ " | " ++ b
  | .reject => "lay none"
  | .fault s => s!"lay fault {showSite s}"

def infoLineOf (r : Res (Option (IRes DigestInfo × IRes (UnameInfo × Nat)))) : String :=
  match r with
  | .ok none => "info none"
  | .ok (some (i, u)) =>
    let a := match i with
      | .ok i => s!"info algo={i.algo3} {showUname i.uname} opaque={optHex i.opaq} realm={optHex i.realm} qop={i.qop} cnl={i.cnonceLen} nc={i.nc}"
      | .null => "info null"
      | .overread => "info fault pct-overread"
    let b := match u with
      | .ok (u, algo) => s!"un3 {showUname u} algo={algo}"
      | .null => "un3 none"
      | .overread => "un3 fault pct-overread"
    a ++ " | " ++ b
  | .reject => "info none"
  | .fault s => s!"info fault {showSite s}"

def infoLineH (hs : List Hdr) : String := infoLineOf (digestApiH hs)

def infoLine (v : Bytes) : String := infoLineH [authHdr v]

/-- one round of queries (all three API functions, each twice) through the per-request cache:
    "<basic line> ; <info line>" of the first answers (REPEAT-DIFF if a repetition answers differently) -/
def queryRound (st : Bool) (hs : List Hdr) (c : RqAuth) : String × RqAuth :=
  let b1 := basicQ st hs c
  let b2 := basicQ st hs b1.2
  let bl := fun (a : Option (Bytes × Option Bytes)) => match a with
    | none => "basic none"
    | some (u, p) => s!"basic u={hexOfBytes u} p={optHex p}"
  let comb : RqAuth → String × RqAuth := fun c =>
    match infoQ st hs c with
    | .ok (i, c1) =>
      match unameQ st hs c1 with
      | .ok (u, c2) =>
        (infoLineOf (.ok (match i, u with | some i, some u => some (i, u) | _, _ => none)), c2)
      | .reject => ("info none", c1)
      | .fault e => (s!"info fault {showSite e}", c1)
    | .reject => ("info none", c)
    | .fault e => (s!"info fault {showSite e}", c)
  let i1 := comb b2.2
  let i2 := comb i1.2
  let rep := if bl b1.1 == bl b2.1 && i1.1 == i2.1 then "" else "REPEAT-DIFF "
  (rep ++ bl b1.1 ++ " ; " ++ i1.1, i2.2)

/-- one request: optional early round (URI-log callback), then three handler calls; fresh cache -/
def requestLine (early : Bool) (hs : List Hdr) : String :=
  let c0 := RqAuth.init
  let (su, c1) := if early then (let r := queryRound false hs c0; (s!"[u={r.1}] ", r.2)) else ("", c0)
  let r1 := queryRound true hs c1
  let r2 := queryRound true hs r1.2
  let r3 := queryRound true hs r2.2
  s!"{su}[h1={r1.1}] [h2={r2.1}] [h3={r3.1}]"


def allHexList : List String → Option (List Bytes)
  | [] => some []
  | h :: t => match bytesOfHex h, allHexList t with
    | some b, some r => some (b :: r)
    | _, _ => none

def allHex : List String → Option (List Bytes)
  | [] => some []
  | h :: t => match bytesOfHex h, allHex t with
    | some b, some r => some (b :: r)
    | _, _ => none

/-- values a real request can carry unchanged: no NUL/CR/LF, no leading or trailing SP/HT -/
def connOk (v : Bytes) : Bool :=
  v.all (fun c => c ≠ 0 && c ≠ 13 && c ≠ 10) &&
    (match v.head? with | some c => ! isWs c | none => false) &&
    (match v.getLast? with | some c => ! isWs c | none => false)

def parseReq (w : String) : Option (List Bytes) :=
  if w == "-" then some [] else allHexList (w.splitOn ",")

def parseReqs : List String → Option (List (List Bytes))
  | [] => some []
  | w :: t => match parseReq w, parseReqs t with
    | some a, some b => some (a :: b)
    | _, _ => none

def stepLine (s : Unit) (ws : List String) : Unit × List String :=
  match ws with
  | "find" :: t :: st :: rest =>
    let tok? : Option Bytes := if t == "b" then some Mhd.Gen.Auth.basicBase
                               else if t == "d" then some Mhd.Gen.Auth.digestBase else none
    match tok?, st, parseHdrs rest with
    | some tok, "0", some hs | some tok, "1", some hs =>
      match findAuthHeader (st == "1") tok hs with
      | some (k, off, rest) => (s, [s!"found {k} {off} {rest.length}"])
      | none => (s, ["none"])
    | _, _, _ => (s, ["bad-op"])
  | ["bparse", h] =>
    match bytesOfHex h with
    | some b =>
      match parseBasic b with
      | .ok none => (s, ["ok -"])
      | .ok (some (off, tok)) => (s, [s!"ok {off} {tok.length}"])
      | .reject => (s, ["fail"])
      | .fault e => (s, [s!"fault {showSite e}"])
    | none => (s, ["bad-op"])
  | ["dparse", h, t] =>
    match bytesOfHex h, parseTerm t with
    | some b, some term =>
      match parseDigest b term with
      | .ok d => (s, [showDAuth d])
      | .reject => (s, ["fail"])
      | .fault e => (s, [s!"fault {showSite e}"])
    | _, _ => (s, ["bad-op"])
  | ["algo", v, q] =>
    match parseOptParam v q with
    | some p => (s, [s!"algo={algoOf p}"])
    | none => (s, ["bad-op"])
  | ["qop", v, q] =>
    match parseOptParam v q with
    | some p => (s, [s!"qop={qopOf p}"])
    | none => (s, ["bad-op"])
  | ["basic", h] =>
    match bytesOfHex h with
    | some b => (s, [basicLine b])
    | none => (s, ["bad-op"])
  | ["info", h] =>
    match bytesOfHex h with
    | some b => (s, [infoLine b])
    | none => (s, ["bad-op"])
  | "basich" :: rest =>
    match parseHdrs rest with
    | some hs => (s, [basicLineH hs])
    | none => (s, ["bad-op"])
  | "infoh" :: rest =>
    match parseHdrs rest with
    | some hs => (s, [infoLineH hs])
    | none => (s, ["bad-op"])
  | "connm" :: h0 :: rest =>
    match allHex (h0 :: rest) with
    | some vs =>
      if vs.all connOk then (s, [basicLineH (vs.map authHdr) ++ " ; " ++ infoLineH (vs.map authHdr)]) else (s, ["bad-op"])
    | none => (s, ["bad-op"])
  | "connq" :: e :: r0 :: rest =>
    match e, parseReqs (r0 :: rest) with
    | "0", some rs | "1", some rs =>
      if rs.all (fun vs => vs.all connOk) then
        (s, [" / ".intercalate (rs.map fun vs => requestLine (e == "1") (vs.map authHdr))])
      else (s, ["bad-op"])
    | _, _ => (s, ["bad-op"])
  | ["layout", h] =>
    match bytesOfHex h with
    | some b => (s, [layLine [authHdr b]])
    | none => (s, ["bad-op"])
  | ["conn", h] =>
    match bytesOfHex h with
    | some b => if connOk b then (s, [basicLine b ++ " ; " ++ infoLine b]) else (s, ["bad-op"])
    | none => (s, ["bad-op"])
  | _ => (s, ["bad-op"])

def main : IO Unit := runEngine () stepLine
