/-
  Model driver for engine `susp` (C11).  Reads the scripts of harness/h_susp.c and prints the
  model's events in the harness' vocabulary.  What is *not* part of the model lives here:
  the tokeniser that turns client bytes into symbols, and the kernel (select readiness /
  edge-triggered epoll events) that feeds the round operations.
-/
import Mhd.Model.SuspDaemon
import Driver.Common
open Mhd.Susp Driver

structure ReqDecl where
  headLen : Nat := 0
  body : Body := .none

/-- tokeniser state of one connection -/
structure Tok where
  headLeft : Nat := 0
  loaded : Bool := false            -- the declaration of the request being received is loaded
  next : List ReqDecl := []         -- declarations of the requests that follow on this connection (keep-alive)
  body : Body := .none
  clLeft : Nat := 0
  -- chunked: 0 = size line, 1 = data (dataLeft), 2 = CRLF after data, 3 = trailer end, 4 = done
  phase : Nat := 0
  dataLeft : Nat := 0
  carry : List UInt8 := []
  bad : Bool := false

structure RespDecl where
  kind : RKind := .cbUnknown
  size : Nat := 5
  cbmax : Nat := 0

structure DSt where
  d : Daemon := {}
  mode : Mode := .select
  thr : Bool := false
  ids : List Nat := []
  reqs : List (Nat × ReqDecl) := []     -- key = 16 * connection + request index
  plans : List (Nat × Plan) := []       -- same key
  rix : List (Nat × Nat) := []          -- request index per connection (number of `completed` so far)
  resps : List (Nat × RespDecl) := []
  toks : List (Nat × Tok) := []
  kpend : List Nat := []                -- epoll: connections with a queued edge event
  started : Bool := false

def lookupD {α : Type} (n : Nat) : List (Nat × α) → Option α
  | [] => none
  | (i, a) :: r => if i = n then some a else lookupD n r

def setD {α : Type} (n : Nat) (a : α) (l : List (Nat × α)) : List (Nat × α) :=
  (n, a) :: l.filter (fun p => p.1 ≠ n)

def kvOf (key : String) (ws : List String) : Option String :=
  ws.findSome? fun w => if w.startsWith (key ++ "=") then some ((w.drop (key.length + 1)).toString) else none

def parseAct (s : String) : Option ActK :=
  match s.toList with
  | ['i'] => some .imm
  | ['p'] => some .pre
  | ['t'] => some .imm       -- one legal interleaving of the second thread's resume
  | ['n'] => some .manual
  | 'd' :: r => (String.ofList r).toNat?.map ActK.delay
  | _ => none

def parseActs (s : String) : Option (List ActK) :=
  if s == "-" then some [] else (s.splitOn ",").mapM parseAct

def parseIdxActs (s : String) : Option (List (Nat × ActK)) :=
  if s == "-" then some [] else
  (s.splitOn ",").mapM fun w =>
    match w.splitOn ":" with
    | [i, a] => do let n ← i.toNat?; let x ← parseAct a; pure (n, x)
    | _ => none

def parseTakes (s : String) : Option (List (Option Nat)) :=
  (s.splitOn ",").mapM fun w => if w == "all" then some none else w.toNat?.map some

def hexNat (bs : List UInt8) : Option Nat :=
  if bs.isEmpty then none else
  bs.foldl (fun acc b => do
    let a ← acc
    let v ← hexVal (Char.ofNat b.toNat)
    pure (a * 16 + v)) (some 0)

/-- split at the first CRLF: (line, rest) -/
def takeLine : List UInt8 → List UInt8 → Option (List UInt8 × List UInt8)
  | 13 :: 10 :: r, acc => some (acc.reverse, r)
  | x :: r, acc => takeLine r (x :: acc)
  | [], _ => none

partial def tokChunked (t : Tok) (out : List Sym) : Tok × List Sym :=
  match t.phase with
  | 0 =>
    match takeLine t.carry [] with
    | none => (t, out)
    | some (line, rest) =>
      match hexNat line with
      | some 0 => tokChunked { t with phase := 3, carry := rest } (out ++ [.last])
      | some n => tokChunked { t with phase := 1, dataLeft := n, carry := rest } (out ++ [.sz n])
      | none => ({ t with bad := true }, out)
  | 1 =>
    match t.carry with
    | [] => (t, out)
    | x :: r =>
      let t1 := { t with carry := r, dataLeft := t.dataLeft - 1 }
      tokChunked (if t1.dataLeft = 0 then { t1 with phase := 2 } else t1) (out ++ [.b x])
  | 2 =>
    match t.carry with
    | 13 :: 10 :: r => tokChunked { t with phase := 0, carry := r } (out ++ [.crlf])
    | [13] => (t, out)
    | [] => (t, out)
    | _ => ({ t with bad := true }, out)
  | 3 =>
    match t.carry with
    | 13 :: 10 :: r => ({ t with phase := 4, carry := r }, out ++ [.trailerEnd])
    | [13] => (t, out)
    | [] => (t, out)
    | _ => ({ t with bad := true }, out)
  | _ => if t.carry.isEmpty then (t, out) else ({ t with bad := true }, out)

/-- the bytes of the request being received: (state, symbols, bytes left over for the next request) -/
def tokOne (t : Tok) (bytes : List UInt8) : Tok × List Sym × List UInt8 :=
  -- head
  let hl := min t.headLeft bytes.length
  let rest := bytes.drop hl
  let t1 := { t with headLeft := t.headLeft - hl }
  let headDone := t.headLeft > 0 && t1.headLeft = 0
  let out0 : List Sym := if headDone then [.head] else []
  if t1.headLeft > 0 then (t1, out0, []) else
  match t1.body with
  | .none => (t1, out0, rest)
  | .cl _ =>
    let n := min t1.clLeft rest.length
    ({ t1 with clLeft := t1.clLeft - n }, out0 ++ (rest.take n).map Sym.b, rest.drop n)
  | .chunked =>
    let r := tokChunked { t1 with carry := t1.carry ++ rest } out0
    if r.1.phase = 4 then ({ r.1 with carry := [] }, r.2, r.1.carry) else (r.1, r.2, [])

def reqDone (t : Tok) : Bool :=
  t.headLeft == 0 && (match t.body with | .none => true | .cl _ => t.clLeft == 0 | .chunked => t.phase == 4)

/-- a keep-alive byte stream: request after request, as declared -/
partial def tokenize (t : Tok) (bytes : List UInt8) (out : List Sym := []) : Tok × List Sym :=
  if t.bad then (t, out) else
  if !t.loaded then
    if bytes.isEmpty then (t, out) else
    match t.next with
    | [] => ({ t with bad := true }, out)
    | r :: rs =>
      tokenize { headLeft := r.headLen, body := r.body, clLeft := (match r.body with | .cl n => n | _ => 0),
                 next := rs, loaded := true } bytes out
  else
    let r := tokOne t bytes
    if r.1.bad then (r.1, out ++ r.2.1)
    else if reqDone r.1 then tokenize { r.1 with loaded := false } r.2.2 (out ++ r.2.1)
    else (r.1, out ++ r.2.1)

def hexStr (bs : List UInt8) : String := hexOfBytes bs

def natHex (n : Nat) : List UInt8 :=
  let rec go (fuel n : Nat) (acc : List UInt8) : List UInt8 :=
    match fuel with
    | 0 => acc
    | f + 1 =>
      let dgt := (hexDigit (n % 16)).toNat.toUInt8
      if n / 16 = 0 then dgt :: acc else go f (n / 16) (dgt :: acc)
  go 16 n []

def str (s : String) : List UInt8 := s.toUTF8.toList

def showPhase : Phase → String
  | .first => "first" | .refirst => "refirst" | .upload => "upload" | .final => "final"

def showEv (st : DSt) (e : Ev) : List String :=
  let c := e.1
  let r : Nat := (lookupD c st.rix).getD 0
  let known : Bool := ((lookupD (16 * c + r) st.plans).map fun p => p.rkind == .cbKnown).getD false
  let size : Nat := ((lookupD (16 * c + r) st.plans).map fun p => p.size).getD 0
  match e.2 with
  | .connStart => [s!"conn-start c={c}"]
  | .handler .upload off took =>
    [s!"handler c={c} r={r} phase=upload method=- url=- up={hexStr off}", s!"took c={c} r={r} n={took} of={off.length}"]
  | .handler ph _ _ => [s!"handler c={c} r={r} phase={showPhase ph} method=- url=- up=-"]
  | .queued => [s!"queued c={c} r={r} rid=0 code=200 -> 1"]
  | .reader j pos ret =>
    [s!"reader c={c} r={r} j={j} pos={pos} -> " ++ (match ret with | none => "eos" | some n => toString n)]
  | .suspend eff => [s!"suspend c={c} r={r} at=x act=x eff={if eff then 1 else 0}"]
  | .resumeReq => [s!"resume c={c} model"]
  | .resumed => [s!"resumed c={c}"]
  | .recv n => [s!"io c={c} recv n=" ++ (match n with | none => "-1" | some k => toString k)]
  | .sendHdr =>
    let h := if known then s!"HTTP/1.1 200 OK\r\nContent-Length: {size}\r\n\r\n" else "HTTP/1.1 200 OK\r\nTransfer-Encoding: chunked\r\n\r\n"
    [s!"io c={c} send n={(str h).length}", s!"wire c={c} {hexStr (str h)}"]
  | .sendBody bs =>
    let w := if known then bs else natHex bs.length ++ [13, 10] ++ bs ++ [13, 10]
    [s!"io c={c} send n={w.length}", s!"wire c={c} {hexStr w}"]
  | .sendEnd => [s!"io c={c} send n=5", s!"wire c={c} {hexStr (str "0\r\n\r\n")}"]
  | .completed => [s!"completed c={c} r={r} code=0"]
  | .fault w => [s!"fault c={c} {w}"]

/-- print the events in order; a `completed` moves the connection to its next request -/
def showEvs (st : DSt) : List Ev → List String → DSt × List String
  | [], acc => (st, acc)
  | e :: rest, acc =>
    let ls := showEv st e
    let st1 := match e.2 with
      | .completed => { st with rix := setD e.1 ((lookupD e.1 st.rix).getD 0 + 1) st.rix }
      | _ => st
    showEvs st1 rest (acc ++ ls)

/-- kernel bookkeeping after a model step: EPOLL_CTL_ADD queues an event, EPOLL_CTL_DEL drops it -/
def kernelAfter (before after : Daemon) (ids : List Nat) (kp : List Nat) : List Nat :=
  ids.foldl (fun kp c =>
    let a := (after.conn c).inSet
    let b := (before.conn c).inSet
    if a && !b then (if kp.contains c then kp else kp ++ [c])
    else if !a then kp.erase c
    else kp) kp

def doStep (st : DSt) (op : Op) : DSt × List String :=
  let r := step srcGuards st.d op
  let st1 := { st with d := r.1, kpend := kernelAfter st.d r.1 st.ids st.kpend }
  showEvs st1 r.2 []

def buildPlan (st : DSt) (key : Nat) : Plan :=
  let p := (lookupD key st.plans).getD {}
  let rq := (lookupD key st.reqs).getD {}
  let rs := (lookupD p.rid st.resps).getD {}
  { p with body := rq.body, rkind := rs.kind, size := rs.size, cbmax := rs.cbmax }

def stepLine (st : DSt) (ws : List String) : DSt × List String :=
  match ws with
  | "case" :: n :: _ => ({}, [s!"case {n}"])
  | "cfg" :: rest =>
    match kvOf "mode" rest with
    | some m =>
      let md : Option (Mode × Bool) :=
        if m == "select" then some (.select, false) else if m == "epoll" then some (.epoll, false)
        else if m == "select-thr" then some (.select, true) else if m == "poll-thr" then some (.poll, true)
        else if m == "epoll-thr" then some (.epoll, true) else none
      match md with
      | some (mo, th) => ({ st with mode := mo, thr := th }, ["ok"])
      | none => (st, ["bad-op"])
    | none => (st, ["ok"])
  | ["start"] =>
    -- every `beh` / `req` / `resp` line of the case precedes `start`
    let plans := fun c => buildPlan st (16 * c)
    -- the requests 1, 2, … of a connection are the declared ones (`req c r`), in order
    let later := fun c => ((List.range 15).map (· + 1)).filterMap fun r =>
      if (lookupD (16 * c + r) st.reqs).isSome then some (buildPlan st (16 * c + r)) else none
    let keys := (st.reqs.map (·.1)) ++ (st.plans.map (·.1))
    ({ st with started := true, d := Daemon.init st.mode plans later,
               plans := keys.eraseDups.map (fun k => (k, buildPlan st k)) }, ["started"])
  | "resp" :: rid :: rest =>
    match rid.toNat?, kvOf "kind" rest, (kvOf "size" rest).bind String.toNat?, (kvOf "cbmax" rest).bind String.toNat? with
    | some r, some k, some sz, some cm =>
      if k == "cb-unknown" then ({ st with resps := setD r { kind := .cbUnknown, size := sz, cbmax := cm } st.resps }, ["ok"])
      else if k == "cb-known" then ({ st with resps := setD r { kind := .cbKnown, size := sz, cbmax := cm } st.resps }, ["ok"])
      else (st, ["bad-op"])
    | _, _, _, _ => (st, ["bad-op"])
  | "req" :: c :: rr :: rest =>
    match c.toNat?, rr.toNat?, (kvOf "head" rest).bind String.toNat?, kvOf "body" rest with
    | some ci, some ri, some hl, some b =>
      if ri ≥ 16 then (st, ["bad-op"]) else
      let body : Option Body :=
        if b == "none" then some .none else if b == "ch" then some .chunked
        else match b.splitOn ":" with
          | ["cl", n] => n.toNat?.map Body.cl
          | _ => none
      match body with
      | some bd =>
        -- requests are declared in order r = 0, 1, …
        let t := (lookupD ci st.toks).getD {}
        ({ st with reqs := setD (16 * ci + ri) { headLen := hl, body := bd } st.reqs,
                   toks := setD ci { t with next := t.next ++ [{ headLen := hl, body := bd }] } st.toks }, ["ok"])
      | none => (st, ["bad-op"])
    | _, _, _, _ => (st, ["bad-op"])
  | "beh" :: c :: rr :: rest =>
    match (c.toNat?.bind fun ci => rr.toNat?.bind fun ri => if ri < 16 then some (16 * ci + ri) else none), (kvOf "fs" rest).bind parseActs, (kvOf "ls" rest).bind parseActs,
          (kvOf "us" rest).bind parseIdxActs, (kvOf "rs" rest).bind parseIdxActs,
          (kvOf "u" rest).bind parseTakes, (kvOf "rd" rest).bind String.toNat?, kvOf "l" rest with
    | some ci, some fs, some ls, some us, some rs, some tk, some rd, some l =>
      match (l.drop 1).toString.toNat? with
      | some rid =>
        ({ st with plans := setD ci { fs := fs, ls := ls, us := us, rs := rs, takes := tk, rd := rd != 0, rid := rid } st.plans }, ["ok"])
      | none => (st, ["bad-op"])
    | _, _, _, _, _, _, _, _ => (st, ["bad-op"])
  | ["arrive", c, _] =>
    match c.toNat? with
    | some ci =>
      if !st.started || st.ids.contains ci then (st, ["bad-op"]) else
      let st1 := { st with ids := st.ids ++ [ci] }
      let r := doStep st1 (.arrive ci)
      (r.1, [s!"arrive c={ci} -> 1"] ++ r.2)
    | none => (st, ["bad-op"])
  | ["send", c, h] =>
    match c.toNat?, bytesOfHex h with
    | some ci, some bytes =>
      if !st.ids.contains ci then (st, ["bad-op"]) else
      let t := (lookupD ci st.toks).getD {}
      let r := tokenize t bytes
      if r.1.bad then (st, [s!"fault c={ci} tokeniser: not one of the modelled request shapes"]) else
      let st1 := { st with toks := setD ci r.1 st.toks }
      let kp := if (st1.d.conn ci).inSet && !st1.kpend.contains ci then st1.kpend ++ [ci] else st1.kpend
      let r2 := doStep { st1 with kpend := kp } (.send ci r.2)
      (r2.1, [s!"sent c={ci} n={bytes.length}"] ++ r2.2)
    | _, _ => (st, ["bad-op"])
  | ["round"] =>
    if !st.started then (st, ["bad-op"]) else
    match st.d.mode with
    | .epoll =>
      let evs := st.kpend.map fun c => (c, !(st.d.conn c).inbox.isEmpty, true)
      let r := doStep { st with kpend := [] } (.eround st.ids evs)
      (r.1, r.2 ++ [if r.1.d.hintZero then "hint 0" else "hint none", "round-end"])
    | _ =>
      let d := st.d
      let r := doStep st (.round st.ids (fun c => !(d.conn c).inbox.isEmpty) (fun _ => true))
      (r.1, r.2 ++ [if r.1.d.hintZero then "hint 0" else "hint none", "round-end"])
  | ["resume", c] =>
    match c.toNat? with
    | some ci => if st.ids.contains ci then doStep st (.resume ci) else (st, ["bad-op"])
    | none => (st, ["bad-op"])
  | ["cto", c, sec] =>
    -- per-connection inactivity timeout: nothing times out in the model (see Mhd.Model.SuspTimer for the timer)
    match c.toNat?, sec.toNat? with
    | some _, some _ => (st, ["ok"])
    | _, _ => (st, ["bad-op"])
  | ["settimeout", c, sec] =>
    -- MHD_set_connection_option (TIMEOUT) at any time; the harness reports whether the connection was suspended
    match c.toNat?, sec.toNat? with
    | some ci, some sv =>
      if !st.started || st.thr || !(st.d.active.contains ci || st.d.susp.contains ci) then (st, ["bad-op"])
      else (st, [s!"settimeout c={ci} sec={sv} susp={if (st.d.conn ci).suspended then 1 else 0}"])
    | _, _ => (st, ["bad-op"])
  | ["tick-if-susp", c, ms] =>
    -- the virtual clock advances only while the connection is suspended and nobody has resumed it yet
    match c.toNat?, ms.toNat? with
    | some ci, some m =>
      if !st.started || st.thr then (st, ["bad-op"])
      else if st.d.susp.contains ci && !(st.d.conn ci).resuming && (st.d.conn ci).timer.isNone then (st, [s!"ticked c={ci} ms={m}"])
      else (st, [s!"not-ticked c={ci}"])
    | _, _ => (st, ["bad-op"])
  | ["stop"] => (st, ["stopped"])
  | _ => (st, ["bad-op"])

def main : IO Unit := runEngine ({} : DSt) stepLine
