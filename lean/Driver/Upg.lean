/-
  Model driver of engine `upg` (property C20).  Reads the same script as
  harness/h_upg.c and prints the events the model predicts, one line per event:
      ev c=<c> <event>
  (tools/props/C20.py brings the harness log into the same vocabulary).
  Extra driver-only line: `rd <c> <k1,k2,…>` = sizes of the successful recv calls the
  real daemon made on that connection (the partition of the byte stream into reads is
  the kernel's / event loop's choice, the model is parametric in it); without it the
  driver predicts "one recv of everything available per round".
-/
import Mhd.Model.UpgDaemon
import Mhd.Model.UpgTls
import Driver.Common
open Mhd.Upg Driver

structure RespSpec where
  kind : String := "copy"
  code : Nat := 200
  size : Nat := 5
  flags : Nat := 0                       -- `flags=`: options set right after creation (canonical numbering)
  obj : Mhd.Resp.Resp := {}              -- the response object after all calls (C04's model of response.c)
  rets : List Nat := []                  -- results of the calls, in order: 1 MHD_YES, 0 MHD_NO
  bad : Bool := false                    -- a call for which the model has no answer (crash site)

structure DS where
  d : Daemon
  started : Bool := false
  stopped : Bool := false
  upgradeFlag : Bool := false
  epoll : Bool := false            -- edge-triggered loop: write readiness is remembered
  resps : List (Nat × RespSpec) := []
  behs : List ((Nat × Nat) × Beh) := []
  hints : List (Nat × List Nat) := []
  noDate : Bool := false           -- MHD_USE_SUPPRESS_DATE_NO_CLOCK
  printed : List (Nat × Nat) := []      -- per connection: number of log entries already printed
  sawUpgrade : List Nat := []           -- connections whose `upgrade` event has been printed
  tls : Option Mhd.UpgTls.St := none    -- engine `upgtls`: the forwarding handle under test

def pat (rid off : Nat) : UInt8 := UInt8.ofNat (97 + (rid * 7 + off) % 26)

def lookup {α} (l : List (Nat × α)) (k : Nat) : Option α := (l.find? (·.1 == k)).map (·.2)

def asciiLower (bs : Bytes) : Bytes := bs.map lower

def respOf (resps : List (Nat × RespSpec)) (rid : Nat) : Resp :=
  let s := (lookup resps rid).getD { obj := Mhd.Resp.Resp.create 5 }
  { obj := s.obj, closeInHandler := s.kind == "upgrade-hc" || s.kind == "upgrade-hcw", code := s.code }

/-- canonical text of an ordinary reply (tools/props/C20.py parses the real one into this) -/
def renderOf (resps : List (Nat × RespSpec)) (rid : Nat) : Bytes :=
  let s := (lookup resps rid).getD {}
  let body := (List.range s.size).map (pat rid)
  s!"[reply code={s.code} body={hexOfBytes body}]".toUTF8.toList

def findCrlfCrlf : Bytes → Option Nat
  | 13 :: 10 :: 13 :: 10 :: _ => some 4
  | _ :: r => (findCrlfCrlf r).map (· + 1)
  | [] => none

def firstLine (bs : Bytes) : Bytes := bs.takeWhile (· != 13)

def splitLines : Bytes → List Bytes
  | [] => [[]]
  | 13 :: 10 :: r => [] :: splitLines r
  | b :: r => match splitLines r with
    | l :: ls => (b :: l) :: ls
    | [] => [[b]]

/-- `MHD_lookup_header_s_token_ci (c, "Connection", "close")` on the generated heads
    (field lines `Connection: <value>`, any case of the name) -/
def reqHasConnToken (head : Bytes) (tok : Bytes) : Bool :=
  (splitLines head).any fun l =>
    let name := l.takeWhile (· != 58)
    asciiLower name == asciiLower Mhd.Gen.Upg.hdrConnection && hasToken ((l.dropWhile (· != 58)).drop 1) tok

/-- well-formed generated requests only: head ends at the first CRLFCRLF, version is the
    last word of the request line, method the first -/
def parseHead (bs : Bytes) : Option Head :=
  match findCrlfCrlf bs with
  | none => none
  | some n =>
    let line := String.ofList ((firstLine bs).map fun b => Char.ofNat b.toNat)
    let ws := line.splitOn " "
    let v := ws.getLast?.getD ""
    let ver := if v == "HTTP/1.0" then Ver.v10 else if v == "HTTP/1.1" then Ver.v11
               else if v.startsWith "HTTP/1." then Ver.v12 else Ver.future
    some { len := n, ver := ver, connect := ws.head? == some "CONNECT",
           wantsClose := reqHasConnToken (bs.take n) "close".toUTF8.toList }

def dateMask : Bytes := "D".toUTF8.toList

def mkBase (upg : Bool) (resps : List (Nat × RespSpec)) (noDate : Bool := false) : Cfg :=
  { allowUpgrade := upg, parser := ⟨parseHead⟩, resp := respOf resps,
    beh := fun _ => { early := false, tries := [0] }, date := dateMask, suppressDate := noDate,
    render := renderOf resps }

def behOf (behs : List ((Nat × Nat) × Beh)) (c r : Nat) : Beh :=
  ((behs.find? (fun e => e.1.1 == c && e.1.2 == r)).map (·.2)).getD { early := false, tries := [0] }

def freshDaemon (s : DS) : Daemon := Daemon.init (mkBase s.upgradeFlag s.resps s.noDate) (behOf s.behs)

def kvOf (w key : String) : Option String :=
  if w.startsWith (key ++ "=") then some (w.drop (key.length + 1)).toString else none

def parseRids (spec : String) : Option (List Nat) :=
  (spec.splitOn "/").mapM fun p => if p.startsWith "r" then (p.drop 1).toString.toNat? else none

def isConnName (n : Bytes) : Bool := asciiLower n == asciiLower Mhd.Gen.Upg.hdrConnection

/-- canonical numbering of the line protocol (the harness maps it to the real enum values):
    response flags strict=1 server=2 insanity=4 keepalive-hdr=8 head-only=16 -/
def bitOf (n k : Nat) : Bool := (n / k) % 2 == 1
def rflagsOfNat (n : Nat) : Mhd.Resp.RFlags :=
  { http10Strict := bitOf n 1, http10Server := bitOf n 2, insanity := bitOf n 4, sendKeepAlive := bitOf n 8, headOnly := bitOf n 16 }
def natOfRFlags (f : Mhd.Resp.RFlags) : Nat :=
  (if f.http10Strict then 1 else 0) + (if f.http10Server then 2 else 0) + (if f.insanity then 4 else 0) +
  (if f.sendKeepAlive then 8 else 0) + (if f.headOnly then 16 else 0)
/-- flags_auto conn=1 close=2 te=4 cl=8 date=16 -/
def natOfAuto (f : Mhd.Resp.AutoFlags) : Nat :=
  (if f.connHdr then 1 else 0) + (if f.connClose then 2 else 0) + (if f.transEnc then 4 else 0) +
  (if f.contentLength then 8 else 0) + (if f.date then 16 else 0)

/-- one API call on the response object, through C04's model of response.c -/
def applyTo (s : RespSpec) (c : Mhd.Resp.Call) : RespSpec :=
  match Mhd.Resp.applyCall s.obj c with
  | (.yes, r) => { s with obj := r, rets := s.rets ++ [1] }
  | (.no, r) => { s with obj := r, rets := s.rets ++ [0] }
  | (.crash, _) => { s with bad := true }

def hex2 (w : String) : Option (Bytes × Bytes) :=
  match w.splitOn ":" with
  | [a, b] => match bytesOfHex a, bytesOfHex b with
    | some n, some v => some (n, v)
    | _, _ => none
  | _ => none

/-- `resp <rid> kind=… code=… size=… flags=… (h=N:V | d=N:V | o=<flags>)*`: the object is created,
    `flags=` (if non-zero) is set, then the calls are made in the order written -/
def parseResp (ws : List String) : Option RespSpec := do
  let s0 ← ws.foldlM (init := ({} : RespSpec)) fun s w =>
    match kvOf w "kind" with
    | some k => some { s with kind := k }
    | none =>
    match kvOf w "code" with
    | some v => v.toNat?.map fun n => { s with code := n }
    | none =>
    match kvOf w "size" with
    | some v => v.toNat?.map fun n => { s with size := n }
    | none =>
    match kvOf w "flags" with
    | some v => v.toNat?.map fun n => { s with flags := n }
    | none =>
    if w.startsWith "h=" || w.startsWith "d=" || w.startsWith "o=" || w.startsWith "f=" then some s else none
  let created : Mhd.Resp.Resp :=
    if s0.kind.startsWith "upgrade" then Mhd.Resp.Resp.createUpgrade
    else if s0.kind == "empty" then Mhd.Resp.Resp.createEmpty {}
    else Mhd.Resp.Resp.create s0.size
  let s1 : RespSpec := { s0 with obj := created }
  -- `if (r->flags) MHD_set_response_options (…)`: the result is not reported by the harness
  let s2 : RespSpec :=
    if s1.flags != 0 then { s1 with obj := (Mhd.Resp.setOptions s1.obj (rflagsOfNat s1.flags)).2 } else s1
  ws.foldlM (init := s2) fun s w =>
    if w.startsWith "h=" then (hex2 (w.drop 2).toString).map fun (n, v) => applyTo s (.add n v)
    else if w.startsWith "d=" then (hex2 (w.drop 2).toString).map fun (n, v) => applyTo s (.del n v)
    else if w.startsWith "f=" then (hex2 (w.drop 2).toString).map fun (n, v) => applyTo s (.foot n v)
    else if w.startsWith "o=" then (w.drop 2).toString.toNat?.map fun n => applyTo s (.opt (rflagsOfNat n))
    else some s

def showObj (rid : Nat) (s : RespSpec) : String :=
  let ents := s.obj.hdrs.map fun h =>
    (if h.kind == .header then "H:" else "F:") ++ hexOfBytes h.name ++ "=" ++ hexOfBytes h.value
  s!"obj rid={rid} rets={",".intercalate (s.rets.map toString)} fa={natOfAuto s.obj.fa} fl={natOfRFlags s.obj.flags} ents={",".intercalate ents}"

def showEv (x : Conn) : Ev → List String
  | .start => ["start"]
  | .handler r f => [s!"handler r={r} phase={if f then "final" else "first"}"]
  | .queued r rid ok => [s!"queued r={r} rid={rid} -> {if ok then 1 else 0}"]
  | .ioRecv _ => ["io"]
  | .ioSend bs => ["io", s!"wire {hexOfBytes bs}"]
  | .ioShutdown => ["io"]
  | .upgrade _ extra => [s!"upgrade extra={hexOfBytes extra}"]
  | .upClose ok => [s!"up-close -> {if ok then 1 else 0}"]
  | .appRecv bs => [s!"up-data {hexOfBytes bs}"]
  | .appSend bs => [s!"up-sent n={bs.length}", s!"wire {hexOfBytes bs}"]
  | .completed r code => [s!"completed r={r} code={code}"]
  | .connClose => ["conn-close"]
  | .sockClose => ["sock-close", if x.sockIn.isEmpty then "eof" else "rst"]
  | .stopMark => ["@stop"]
  | .fault site => [s!"fault {site}"]

/-- print the log entries not yet printed; daemon I/O before the hand-over is not printed
    (its sizes are an input), after the hand-over it is printed as `io-after-upgrade` -/
def flush (s : DS) : DS × List String := Id.run do
  let mut out : List String := []
  let mut printed := s.printed
  let mut saw := s.sawUpgrade
  for c in s.d.ids do
    let x := s.d.conn c
    let n := (lookup printed c).getD 0
    for e in x.log.drop n do
      for t in showEv x e do
        if t == "io" then
          if saw.contains c then out := out ++ [s!"ev c={c} io-after-upgrade"]
        else out := out ++ [s!"ev c={c} {t}"]
      if e.isUpgrade then saw := c :: saw
    printed := (c, x.log.length) :: printed.filter (·.1 != c)
  return ({ s with printed := printed, sawUpgrade := saw }, out)

def big : Nat := 1 <<< 40

/-- schedule of one round: every connection that was in the connections list when the round
    started; reads per hint (or everything available), writes unrestricted -/
def mkSched (s : DS) : (Nat → Option IoAct) × List (Nat × List Nat) := Id.run do
  let mut acts : List (Nat × IoAct) := []
  let mut hints := s.hints
  for c in s.d.ids do
    let x := s.d.conn c
    if x.loc == Loc.active then
      let avail := x.sockIn.length
      let (rdy, mx) :=
        match lookup hints c with
        | none => (decide (avail > 0), big)
        | some [] => (false, 0)
        | some (k :: _) =>
          if x.st == St.recv && k ≤ avail && k > 0 then
            (true, k)
          else (false, 0)
      if rdy && x.st == St.recv then
        match lookup hints c with
        | some (_ :: rest) => hints := (c, rest) :: hints.filter (·.1 != c)
        | _ => pure ()
      acts := (c, { rdReady := rdy, rdMax := mx, wrReady := s.epoll || x.st == St.sending, wrMax := big }) :: acts
  return (fun c => lookup acts c, hints)

def doRound (s : DS) : DS :=
  let (sched, hints) := mkSched s
  { s with d := step s.d (.round sched), hints := hints }

/-! ### engine `upgtls`: the forwarding layer of TLS-upgraded connections (harness/h_upgtls.c) -/

namespace Tls
open Mhd.UpgTls

def parseRes (v : String) : Option IoRes :=
  if v.startsWith "ok:" then (v.drop 3).toString.toNat?.map IoRes.ok
  else if v == "again" then some .again else if v == "intr" then some .intr
  else if v == "eof" then some .eof else if v == "fatal" then some .fatal else none

def celiOf (n : Nat) : Celi := ⟨n % 2 == 1, (n / 2) % 2 == 1, (n / 4) % 2 == 1⟩
def bitsOf (c : Celi) : Nat := (if c.rd then 1 else 0) + (if c.wr then 2 else 0) + (if c.err then 4 else 0)

def ioChar : Io → Char
  | .tlsRecv => 'R' | .pairRecv => 'r' | .tlsSend => 'S' | .pairSend => 's'

structure Visit where
  lv : Bool := false
  r : Nat := 0
  p : Nat := 0
  sh : Bool := false
  env : Env := {}

def parseVisit (ws : List String) : Option Visit :=
  ws.foldlM (init := ({} : Visit)) fun a w =>
    match kvOf w "r" with
    | some v => v.toNat?.map fun n => { a with r := n }
    | none =>
    match kvOf w "p" with
    | some v => v.toNat?.map fun n => { a with p := n }
    | none =>
    match kvOf w "lv" with
    | some v => some { a with lv := v == "1" }
    | none =>
    match kvOf w "sh" with
    | some v => some { a with sh := v == "1" }
    | none =>
    match kvOf w "pend" with
    | some v => some { a with env := { a.env with tlsPending := v == "1" } }
    | none =>
    match kvOf w "tr" with
    | some v => (parseRes v).map fun x => { a with env := { a.env with tlsRecv := x } }
    | none =>
    match kvOf w "pr" with
    | some v => (parseRes v).map fun x => { a with env := { a.env with pairRecv := x } }
    | none =>
    match kvOf w "ts" with
    | some v => (parseRes v).map fun x => { a with env := { a.env with tlsSend := x } }
    | none =>
    match kvOf w "ps" with
    | some v => (parseRes v).map fun x => { a with env := { a.env with pairSend := x } }
    | none => none

def showSt (before s : Mhd.UpgTls.St) : String :=
  let io := String.ofList ((s.io.drop before.io.length).map ioChar)
  let eof : Int := if s.wasClosed then -1 else if s.pairShut then 1 else 0
  s!"st inU={s.inBuf.length} inS={s.inSize} outU={s.outBuf.length} outS={s.outSize} wc={if s.wasClosed then 1 else 0} " ++
  s!"cr={if s.cleanReady then 1 else 0} rem={bitsOf s.remote} pair={bitsOf s.pair} trr={if s.tlsReadReady then 1 else 0} " ++
  s!"pend={if s.pending then 1 else 0} io={if io.isEmpty then "-" else io} in={hexOfBytes s.inBuf} out={hexOfBytes s.outBuf} " ++
  s!"app={hexOfBytes (s.toApp.drop before.toApp.length)} cli={hexOfBytes (s.toClient.drop before.toClient.length)} eof={eof}"

/-- one script line of the engine; `none` = not an operation of this engine -/
def stepLine (t : Option Mhd.UpgTls.St) (ws : List String) : Option (Option Mhd.UpgTls.St × List String) :=
  match ws with
  | "init" :: rest =>
    let cap := (rest.findSome? fun w => (kvOf w "cap").bind (·.toNat?)).getD 16
    let tpc := rest.any fun w => kvOf w "tpc" == some "1"
    if cap == 0 then some (t, ["bad-op"]) else
    some (some (Mhd.UpgTls.St.init cap Mhd.Gen.Upg.ssizeMax Mhd.Gen.Upg.sendMax tpc),
          [s!"ok ssize_max={Mhd.Gen.Upg.ssizeMax} send_max={Mhd.Gen.Upg.sendMax}"])
  | ["csend", h] =>
    match t, bytesOfHex h with
    | some s, some bs => some (some (Mhd.UpgTls.step s (.clientSend bs)), ["ok"])
    | _, _ => some (t, ["bad-op"])
  | ["asend", h] =>
    match t, bytesOfHex h with
    | some s, some bs => some (some (Mhd.UpgTls.step s (.appSend bs)), [s!"asent n={if s.wasClosed || s.pairShut then 0 else bs.length}"])
    | _, _ => some (t, ["bad-op"])
  | ["aclose"] =>
    match t with
    | some s => some (some (step s .appClose), [s!"aclose {if s.wasClosed then 0 else 1}"])
    | none => some (t, ["bad-op"])
  | "visit" :: rest =>
    match t, parseVisit rest with
    | some s, some v =>
      let s0 := { s with pending := false }
      let s1 := Mhd.UpgTls.step s0 (if v.sh then .stopVisit v.lv (celiOf v.r, celiOf v.p) v.env else .visit v.lv (celiOf v.r, celiOf v.p) v.env)
      some (some s1, [match s1.fault with | some f => "fault " ++ f | none => showSt s0 s1])
    | _, _ => some (t, ["bad-op"])
  | _ => none

end Tls

def stepLine0 (s : DS) (ws : List String) : DS × List String :=
  match Tls.stepLine s.tls ws with
  | some (t, out) => ({ s with tls := t }, out)
  | none =>
  match ws with
  | "case" :: rest => ({ d := Daemon.init (mkBase false []) (behOf []) }, [s!"case {(rest.head?).getD "-"}"])
  | "cfg" :: rest =>
    if s.started then (s, ["bad-op"]) else
    let u := rest.any fun w => kvOf w "upgrade" == some "1"
    let e := rest.any fun w => (kvOf w "mode").any (·.startsWith "epoll")
    let nd := rest.any fun w => kvOf w "nodate" == some "1"
    ({ s with upgradeFlag := u, epoll := e, noDate := nd }, ["ok"])
  | "resp" :: rid :: rest =>
    match rid.toNat?, parseResp rest with
    | some r, some sp =>
      let s := { s with resps := (r, sp) :: s.resps.filter (·.1 != r) }
      ({ s with d := { s.d with base := mkBase s.upgradeFlag s.resps s.noDate } },
       [if sp.bad then "unsupported" else "ok", showObj r sp])
    | _, _ => (s, ["bad-op"])
  | "beh" :: c :: r :: rest =>
    match c.toNat?, r.toNat? with
    | some c, some r =>
      let f := (rest.findSome? fun w => kvOf w "f").getD "c"
      let l := (rest.findSome? fun w => kvOf w "l").getD "r0"
      let b : Option Beh :=
        if f == "c" then (parseRids l).map fun t => { early := false, tries := t }
        else (parseRids f).map fun t => { early := true, tries := t }
      match b with
      | some b =>
        let s := { s with behs := ((c, r), b) :: s.behs }
        ({ s with d := { s.d with behs := behOf s.behs } }, ["ok"])
      | none => (s, ["bad-op"])
    | _, _ => (s, ["bad-op"])
  | ["start"] =>
    if s.started then (s, ["bad-op"]) else
    ({ s with started := true, d := freshDaemon s }, ["started"])
  | ["tok", h] =>
    match bytesOfHex h with
    | some v => (s, [s!"tok {if hasToken v Mhd.Gen.Upg.upgradeToken then 1 else 0}"])
    | none => (s, ["bad-op"])
  | ["rd", c, ks] =>
    match c.toNat?, (ks.splitOn ",").mapM (fun k => if k == "-" then some 0 else k.toNat?) with
    | some c, some l => ({ s with hints := (c, l.filter (· > 0)) :: s.hints.filter (·.1 != c) }, ["ok"])
    | _, _ => (s, ["bad-op"])
  | _ =>
    if ! s.started || s.stopped then (s, ["bad-op"]) else
    match ws with
    | ["arrive", c, _] =>
      match c.toNat? with
      | some c =>
        if (s.d.conn c).loc != Loc.none then (s, ["bad-op"]) else
        flush { s with d := step s.d (.arrive c) }
      | none => (s, ["bad-op"])
    | ["send", c, h] =>
      match c.toNat?, bytesOfHex h with
      | some c, some bs =>
        if (s.d.conn c).loc == Loc.none then (s, ["bad-op"]) else
        flush { s with d := step s.d (.clientSend c bs) }
      | _, _ => (s, ["bad-op"])
    | ["round"] => flush (doRound s)
    | ["rounds", n] =>
      match n.toNat? with
      | some n => flush ((List.range n).foldl (fun s _ => doRound s) s)
      | none => (s, ["bad-op"])
    -- the upgrade handler's own pace (gate inside the handler, harness only): nothing happens in the model
    | ["up-await", _] => (s, ["ok"])
    | ["up-release", _] => (s, ["ok"])
    | ["up-close", c] =>
      match c.toNat? with
      | some c => if (s.d.conn c).appOwns then flush { s with d := step s.d (.upClose c) } else (s, ["bad-op"])
      | none => (s, ["bad-op"])
    | ["up-recv", c] =>
      match c.toNat? with
      | some c => if (s.d.conn c).appOwns then flush { s with d := step s.d (.upRecv c 65536) } else (s, ["bad-op"])
      | none => (s, ["bad-op"])
    | ["up-send", c, h] =>
      match c.toNat?, bytesOfHex h with
      | some c, some bs =>
        if (s.d.conn c).appOwns then flush { s with d := step s.d (.upSend c bs) } else (s, ["bad-op"])
      | _, _ => (s, ["bad-op"])
    | ["stop"] =>
      let (s', o) := flush { s with d := step s.d .stop, stopped := true }
      (s', o ++ ["stopped"])
    | _ => (s, ["bad-op"])

/-- echo the operation (first three words) like the harness does, then its events -/
def stepLine (s : DS) (ws : List String) : DS × List String :=
  let (s', o) := stepLine0 s ws
  (s', ("# " ++ " ".intercalate (ws.take 3)) :: o)

def main : IO Unit :=
  runEngine ({ d := Daemon.init (mkBase false []) (behOf []) } : DS) stepLine
