import Mhd.Model.TmoLoop
import Mhd.Model.TmoConv
import Driver.Common
open Mhd.Tmo Driver

/-- driver state: configuration being assembled, the daemon once started, which variant to run -/
structure DSt where
  cfg : Cfg := { epoll := false, dtmo := 0, allowSuspend := true }
  d : Option Daemon := none
  v : Variant := Variant.current

def showList (l : List Id) : String := "[" ++ ",".intercalate (l.map toString) ++ "]"

def showEvent : Event → Option String
  | .started i => some s!"st{i}"
  | .freed i => some s!"cc{i}"
  | .tmoClose i aware => if aware then some s!"to{i}" else none
  | .otherClose i code aware => if aware then some s!"co{i}:{code}" else none
  | .suspended i => some s!"su{i}"
  | .completed i => some s!"co{i}:0"

/-- ids closed by the library in this operation whose client is still listening: it sees EOF
    (`shutdown (SHUT_WR)` in MHD_connection_mark_closed_) -/
def eofs (d : Daemon) (evs : List Event) (wrote : List Id := []) : List String :=
  (List.range maxConns).flatMap fun i =>
    (if wrote.contains i && !(d.c i).peerClosed then [s!"wire{i}"] else []) ++
    (if evs.any (fun e => match e with
        | .tmoClose j _ => j == i
        | .otherClose j _ _ => j == i
        | _ => false) && !(d.c i).peerClosed
    then [s!"eof{i}"] else [])

def showConn (d : Daemon) (i : Id) : Option String :=
  if d.conns.contains i || d.susp.contains i || d.cleanup.contains i then
    let c := d.c i
    some (s!" {i}:{c.la}:{c.tmo}:" ++ (if c.suspended then "s" else "") ++ (if c.resuming then "r" else "")
      ++ (if c.closed then "x" else "") ++ (if procWait c then "p" else "")
      ++ (if c.buf > 0 && !c.closed && c.kind == Kind.post then s!"b{c.buf}" else ""))
  else none

def report (v : Variant) (echo : String) (d : Daemon) (evs : List Event) (extra : List String := [])
    (wrote fin : List Id := []) : String :=
  if d.fault then "fault list-corruption" else
  let evl := extra ++ evs.filterMap showEvent ++ wrote.map (fun i => s!"w{i}") ++ fin.map (fun i => s!"fin{i}")
    ++ eofs d evs wrote
  let h := match hint v d with
    | some n => toString n
    | none => "none"
  let fl := (if d.dataPending then "d" else "") ++ (if d.resuming then "r" else "")
    ++ (if d.haveNew then "n" else "") ++ (if d.cleanup.isEmpty then "" else "c")
  s!"{echo} ev=[{",".intercalate evl}] hint={h} now={d.now} fl={fl} C={showList d.conns} N={showList d.normal}"
    ++ s!" M={showList d.manual} S={showList d.susp} E={showList d.eready} |"
    ++ String.join ((List.range maxConns).filterMap (showConn d))

def kvOf (w : String) : Option (String × String) :=
  match w.splitOn "=" with
  | [k, x] => some (k, x)
  | _ => none

def applyCfg (c : Cfg) (ws : List String) : Option Cfg :=
  ws.foldl (fun acc w => match acc with
    | none => none
    | some c => match kvOf w with
      | some ("mode", "select") => some { c with epoll := false }
      | some ("mode", "epoll") => some { c with epoll := true }
      | some ("timeout", x) => match x.toNat? with
        | some n => if n ≤ 4000000 then some { c with dtmo := n * Mhd.Gen.Tmo.msPerSec } else none
        | none => none
      | some ("suspend", x) => match x.toNat? with
        | some n => some { c with allowSuspend := n != 0 }
        | none => none
      | _ => none) (some c)

/-- `w=1,2` -> [1,2] -/
def idList (pre : String) (w : String) : Option (List Id) :=
  if w.startsWith pre then
    let body := (w.drop pre.length).toString
    if body == "" then some [] else
    (body.splitOn ",").foldr (fun x acc => match x.toNat?, acc with
      | some n, some l => some (n :: l)
      | _, _ => none) (some [])
  else none

def parseOp (ws : List String) : Option Op :=
  match ws with
  | ["arrive", a] => a.toNat?.map Op.arrive
  | ["send", a] => a.toNat?.map Op.send
  | ["sendp", a] => a.toNat?.map Op.sendp
  | ["sendn", a, b] => match a.toNat?, b.toNat? with
    | some i, some k => some (Op.sendn i k)
    | _, _ => none
  | ["slow", a] => a.toNat?.map Op.slow
  | ["cclose", a] => a.toNat?.map Op.cclose
  | ["tick", a] => a.toNat?.bind fun n => if n < W then some (Op.tick n) else none
  | ["tickback", a] => a.toNat?.bind fun n => if n < W then some (Op.tickback n) else none
  | ["set-timeout", a, b] => match a.toNat?, b.toNat? with
    | some i, some s => some (Op.setTimeout i s)
    | _, _ => none
  | ["susp", a] => a.toNat?.map Op.susp
  | ["resume", a] => a.toNat?.map Op.resume
  | ["round"] => some Op.round
  | ["round", a] => match idList "w=" a, idList "f=" a with
    | some ws, _ => some (Op.roundw ws [])
    | _, some fs => some (Op.roundw [] fs)
    | _, _ => none
  | ["round", a, b] => match idList "w=" a, idList "f=" b with
    | some ws, some fs => some (Op.roundw ws fs)
    | _, _ => none
  | ["get", a, k] => match a.toNat? with
    | some i => if k == "e" then some (Op.get i true) else if ["n", "h", "c", "f"].contains k then some (Op.get i false) else none
    | none => none
  | ["allow", a, b] => match a.toNat?, b.toNat? with
    | some i, some n => if 1 ≤ n ∧ n ≤ 4000 then some (Op.allow i) else none
    | _, _ => none
  | _ => none

/-- white-box op `conv <c> <x> <max>`: the hint with connection `c` poked to timeout `x` ms / stamp = now,
    and what the wrappers make of it -/
def convLine (v : Variant) (d : Daemon) (ws : List String) : Option String :=
  match ws with
  | ["conv", a, x, m] =>
    match a.toNat?, x.toNat?, m.toInt? with
    | some i, some xv, some cap =>
      if i < maxConns ∧ (d.conns.contains i || d.cleanup.contains i) ∧ xv < W ∧ -1 ≤ cap ∧ cap ≤ intMax then
        let d' := d.set i { (d.c i) with tmo := xv, la := d.now }
        let h := hint v d'
        let so : Option Nat → String := fun o => match o with
          | some n => toString n
          | none => "none"
        some s!"conv h={so h} ull={so (getTimeoutULL h)} s64={getTimeout64s h} i={getTimeoutI h} ms={getTimeoutMillisec h cap} msi={getTimeoutMillisecInt h cap}"
      else none
    | _, _, _ => none
  | _ => none

def stepLine (s : DSt) (ws : List String) : DSt × List String :=
  match ws with
  | "case" :: rest => ({ v := s.v }, [s!"case {rest.headD "-"}"])
  | "cfg" :: rest =>
    if s.d.isSome then (s, ["bad-op"]) else
    match applyCfg s.cfg rest with
    | some c => ({ s with cfg := c }, ["ok"])
    | none => (s, ["bad-op"])
  | ["start"] =>
    if s.d.isSome then (s, ["bad-op"]) else
    let d := Daemon.init s.cfg
    ({ s with d := some d }, [report s.v "start" d []])
  | _ =>
    match s.d with
    | none => (s, ["bad-op"])
    | some d =>
      if d.fault then (s, ["fault list-corruption"]) else
      if ws.head? = some "conv" then
        match convLine s.v d ws with
        | some l => (s, [l])
        | none => (s, ["bad-op"])
      else
      match parseOp ws with
      | none => (s, ["bad-op"])
      | some o => match step s.v d o with
        | none => (s, ["bad-op"])
        | some (d', evs) =>
          -- what MHD_get_connection_info (…CONNECTION_TIMEOUT) reads back after the override
          let extra := match o with
            | .setTimeout i _ => [s!"get{(d'.c i).tmo / Mhd.Gen.Tmo.msPerSec}"]
            | _ => []
          -- sends with progress / replies completed in this round: what the parameters say, for the
          -- connections that were replying and alive when the round began
          let live := fun (i : Id) => !(d.c i).closed && d.conns.contains i &&
            ((d.c i).replying || ((d.c i).unread && (d.c i).kind == Kind.get && !(d.c i).suspended))
          let (wrote, fin) := match o with
            | .roundw wl fl => ((List.range maxConns).filter fun i => wl.contains i && live i,
                               (List.range maxConns).filter fun i => fl.contains i && live i)
            | _ => ([], [])
          ({ s with d := some d' }, [report s.v (" ".intercalate ws) d' evs extra wrote fin])

/-- `drv_tmo` models the tree under test (`Variant.current`, regenerated);
    `drv_tmo asis` / `drv_tmo fixed` force the pinned / the repaired behaviour (used by the
    generator of Gen/Tmo.lean to recognise which one the real code shows). -/
def main (args : List String) : IO Unit :=
  let v : Variant := match args with
    | ["asis"] => Variant.asIs
    | ["fixed"] => ⟨true, true, true, true, Variant.current.savePrev, true, true⟩
    | _ => Variant.current
  runEngine ({ v := v } : DSt) stepLine
