import Mhd.Model.ReplyWire
import Mhd.Model.ReplyIov
import Driver.Common
open Mhd.ReplyStr Mhd.Resp Mhd.Reply Driver

/-! Model driver of engine `reply` (C04).  See harness/h_reply.c for the same protocol on the real code. -/

namespace G
open Mhd.Gen.Reply
/-- canonical numbering of the line protocol (independent of the C enum values):
    response flags strict=1 server=2 insanity=4 keepalive-hdr=8 head-only=16; flags_auto conn=1 close=2 te=4 cl=8 date=16 -/
def bit (n k : Nat) : Bool := (n / k) % 2 == 1

def rflagsOfNat (n : Nat) : RFlags :=
  { http10Strict := bit n 1, http10Server := bit n 2, insanity := bit n 4, sendKeepAlive := bit n 8, headOnly := bit n 16 }
def natOfRFlags (f : RFlags) : Nat :=
  (if f.http10Strict then 1 else 0) + (if f.http10Server then 2 else 0) + (if f.insanity then 4 else 0) +
  (if f.sendKeepAlive then 8 else 0) + (if f.headOnly then 16 else 0)
def autoOfNat (n : Nat) : AutoFlags :=
  { connHdr := bit n 1, connClose := bit n 2, transEnc := bit n 4, contentLength := bit n 8, date := bit n 16 }
def natOfAuto (f : AutoFlags) : Nat :=
  (if f.connHdr then 1 else 0) + (if f.connClose then 2 else 0) + (if f.transEnc then 4 else 0) +
  (if f.contentLength then 8 else 0) + (if f.date then 16 else 0)

def kaOfInt (i : Int) : Option KA :=
  if i == kaMustClose then some .mustClose else if i == kaUnknown then some .unknown
  else if i == kaUseKeepalive then some .useKeepalive else if i == kaMustUpgrade then some .mustUpgrade else none
def intOfKa : KA → Int
  | .mustClose => kaMustClose | .unknown => kaUnknown | .useKeepalive => kaUseKeepalive | .mustUpgrade => kaMustUpgrade
def verOfInt (i : Int) : Option Ver :=
  [Ver.invalid, .unknown, .tooOld, .v10, .v11, .v12, .future].find? (fun v => v.num == i)
def mthdOfInt (i : Int) : Option Mthd :=
  if i == mthdNone then some .noMethod else if i == mthdGet then some .get else if i == mthdHead then some .head
  else if i == mthdPost then some .post else if i == mthdPut then some .put else if i == mthdDelete then some .delete
  else if i == mthdConnect then some .connect else if i == mthdOptions then some .options
  else if i == mthdTrace then some .trace else if i == mthdOther then some .other else none
end G

def b01 (s : String) : Option Bool := if s == "0" then some false else if s == "1" then some true else none
def optHex (s : String) : Option (Option Bytes) :=
  if s == "none" then some none else (bytesOfHex s).map some

/-- body byte at absolute position `i` (same pattern in the harness) -/
def patByte (i : Nat) : UInt8 := UInt8.ofNat (97 + (i * 7 + i / 26) % 26)
def patRange (start len : Nat) : Bytes := (List.range len).map fun j => patByte (start + j)

def splitPieces (lens : List Nat) : List Bytes :=
  (lens.foldl (fun (acc : Nat × List Bytes) n => (acc.1 + n, acc.2 ++ [patRange acc.1 n])) (0, [])).2

structure Slot where
  r : Resp
  src : BodySrc
deriving Inhabited

structure St where
  slots : List (Nat × Slot) := []

def St.get (s : St) (i : Nat) : Option Slot := (s.slots.find? (·.1 == i)).map (·.2)
def St.put (s : St) (i : Nat) (sl : Slot) : St := { slots := (i, sl) :: s.slots.filter (·.1 != i) }

def hdrDump (h : Hdr) : String :=
  (if h.kind == .header then "H:" else "F:") ++ hexOfBytes h.name ++ "=" ++ hexOfBytes h.value

def respDump (r : Resp) : String :=
  s!"fa={G.natOfAuto r.fa} fl={G.natOfRFlags r.flags}" ++ String.join (r.hdrs.map fun h => " " ++ hdrDump h)

def callLine (s : St) (i : Nat) (f : Resp → Ret × Resp) : St × List String :=
  match s.get i with
  | none => (s, ["bad-op"])
  | some sl =>
    let (ret, r') := f sl.r
    match ret with
    | .crash => (s, ["crash"])
    | .yes => (s.put i { sl with r := r' }, ["ret=1 " ++ respDump r'])
    | .no => (s.put i { sl with r := r' }, ["ret=0 " ++ respDump r'])

def kaChar (k : KA) : Char := Char.ofNat (48 + (G.intOfKa k + 1).toNat)
def b32 : Array Char := "0123456789ABCDEFGHIJKLMNOPQRSTUV".toList.toArray
def propsChar (k : KA) (p : Props) : Char :=
  b32[((G.intOfKa k + 1).toNat * 8 + (if p.sendReplyBody then 4 else 0) + (if p.useReplyBodyHeaders then 2 else 0)
        + (if p.chunked then 1 else 0)) % 32]!

def mkConn (ka : KA) (rc dr : Bool) (ver : Ver) (ct : Nat) (m : Mthd) (sup : Bool) : Conn :=
  { keepalive := ka, ver := ver, mthd := m, readClosed := rc, discardRequest := dr,
    reqClose := ct % 2 == 1, reqKeepAlive := ct / 2 % 2 == 1, suppressDate := sup }

def sizeOfClass (s : String) : Option Nat :=
  if s == "0" then some 0 else if s == "n" then some 7 else if s == "u" then some Mhd.Gen.Reply.sizeUnknown else none

/-- all 32 × 32 (response flags, flags_auto) combinations -/
def grid (f : RFlags → AutoFlags → Char) : String :=
  String.ofList ((List.range 1024).map fun i => f (G.rflagsOfNat (i / 32)) (G.autoOfNat (i % 32)))

def maskDate : Bytes := "Thu, 01 Jan 1970 00:00:00 GMT".toUTF8.toList

def mthdOfToken (s : String) : Mthd :=
  if s == "GET" then .get else if s == "HEAD" then .head else if s == "POST" then .post else if s == "PUT" then .put
  else if s == "DELETE" then .delete else if s == "CONNECT" then .connect else if s == "OPTIONS" then .options
  else if s == "TRACE" then .trace else .other

def sKeepAliveTok : Bytes := "Keep-Alive".toUTF8.toList

/-- one scripted exchange; returns (queue results, wire, closed) -/
partial def exchangeLoop (s : St) (date : Option Bytes) (wb : Nat) (c : Conn) (st : CState) (startPos : Nat)
    (specs : List (Nat × Nat)) (qs : String) (wire : Bytes) : Option (String × Bytes × Bool) :=
  match specs with
  | [] => some (qs, wire, false)            -- nothing (more) queued: the connection just waits
  | (slot, code) :: rest =>
    match s.get slot with
    | none => none
    | some sl =>
      match queueResponse c st false false true code sl.r with
      | none => some (qs ++ "N", wire, true)
      | some q =>
        let c1 := if q.early then { c with discardRequest := true } else c
        let sp := startPosAfterQueue q sl.r startPos
        let out := sendReply c1 sl.r q sl.src date wb sp
        let wire' := wire ++ out.wire
        if ! out.complete then some (qs ++ "Y", wire', true)
        else if sl.r.upgrade then some (qs ++ "Y", wire', true)
        else
          let c2 := { c1 with keepalive := out.ka }
          if (q.code : Int) == Mhd.Gen.Reply.httpProcessing then
            -- FIX F4e: `rsp_write_position` is reset after a 102 reply
            exchangeLoop s date wb c2 .headersProcessed 0 rest (qs ++ "Y") wire'
          else some (qs ++ "Y", wire', closesAfter c2 out.ka)

def parseSpecs (s : String) : Option (List (Nat × Nat)) :=
  (s.splitOn ",").mapM fun p =>
    match p.splitOn ":" with
    | [a, b] => match a.toNat?, b.toNat? with
      | some x, some y => some (x, y)
      | _, _ => none
    | _ => none

def stepLine (s : St) (ws : List String) : St × List String :=
  match ws with
  -- ---------------------------------------------------------------- response objects
  | ["new", i, "buf", len] => match i.toNat?, len.toNat? with
      | some i, some n => if n < 2 ^ 24 then (s.put i ⟨Resp.create n, .buffer (patRange 0 n)⟩, ["ok"]) else (s, ["bad-op"])
      | _, _ => (s, ["bad-op"])
  | ["new", i, "cb", total, lens, ending] =>
      let tot : Option Nat := if total == "u" then some Mhd.Gen.Reply.sizeUnknown else total.toNat?
      let ls : Option (List Nat) := if lens == "-" then some [] else (lens.splitOn ",").mapM String.toNat?
      let e : Option CbEnd := if ending == "eos" then some .eos else if ending == "err" then some .err else none
      match i.toNat?, tot, ls, e with
      | some i, some t, some l, some e => (s.put i ⟨Resp.create t, .callback (splitPieces l) e⟩, ["ok"])
      | _, _, _, _ => (s, ["bad-op"])
  | ["new", i, "empty", fl] => match i.toNat?, fl.toNat? with
      | some i, some f => (s.put i ⟨Resp.createEmpty (G.rflagsOfNat f), .buffer []⟩, ["ok"])
      | _, _ => (s, ["bad-op"])
  | ["new", i, "iov", spec] =>
      let elem (p : String) : Option Mhd.Iov.IoVec :=
        if p == "z" then some ⟨none, 0⟩
        else if p == "d" then some ⟨some [35], 0⟩
        else if p.startsWith "n" then (p.drop 1).toNat?.map fun n => ⟨none, n⟩
        else match p.splitOn ":" with
          | [a, b] => match a.toNat?, b.toNat? with
            | some off, some len => if off ≤ 2 ^ 20 && len ≤ 2 ^ 20 then some ⟨some (patRange off len), len⟩ else none
            | _, _ => none
          | _ => none
      let arg : Option (Option (List Mhd.Iov.IoVec) × Nat) :=
        if spec.startsWith "N" then (match (spec.drop 1).toNat? with
          | some c => if c ≤ 1000 then some (none, c) else none
          | none => none)
        else if spec == "-" then some (some [], 0)
        else ((spec.splitOn ",").mapM elem).bind fun l => if l.length ≤ 64 then some (some l, l.length) else none
      match i.toNat?, arg with
      | some i, some (iov, cnt) =>
        (match Mhd.Iov.createFromIovec iov cnt with
         | none => ({ slots := s.slots.filter (·.1 != i) }, ["null"])
         | some r => (s.put i ⟨Resp.create r.totalSize, .buffer (Mhd.Iov.iovBody r.data)⟩, ["ok"]))
      | _, _ => (s, ["bad-op"])
  | ["new", i, "bufnull", len] => match i.toNat?, len.toNat? with
      | some i, some n =>
        if n < 2 ^ 24 then
          (if n == 0 then (s.put i ⟨Resp.create 0, .buffer []⟩, ["ok"]) else ({ slots := s.slots.filter (·.1 != i) }, ["null"]))
        else (s, ["bad-op"])
      | _, _ => (s, ["bad-op"])
  | ["new", i, "fd", size, off, fsize] => match i.toNat?, size.toNat?, off.toNat?, fsize.toNat? with
      | some i, some size, some off, some fsize =>
        if fsize ≤ 2 ^ 22 && size < 2 ^ 64 && off < 2 ^ 64 then
          (match Mhd.Iov.createFromFd size off (patRange 0 fsize) with
           | none => ({ slots := s.slots.filter (·.1 != i) }, ["null"])
           | some (sz, body) => (s.put i ⟨Resp.create sz, .buffer body⟩, ["ok"]))
        else (s, ["bad-op"])
      | _, _, _, _ => (s, ["bad-op"])
  | ["new", i, "pipe", len] => match i.toNat?, len.toNat? with
      | some i, some n =>
        if n ≤ 4096 then
          (s.put i ⟨Resp.create Mhd.Gen.Reply.sizeUnknown, .callback (if n == 0 then [] else [patRange 0 n]) .eos⟩, ["ok"])
        else (s, ["bad-op"])
      | _, _ => (s, ["bad-op"])
  | ["new", i, "upg"] => match i.toNat? with
      | some i => (s.put i ⟨Resp.createUpgrade, .buffer []⟩, ["ok"])
      | _ => (s, ["bad-op"])
  | ["add", i, n, v] => match i.toNat?, bytesOfHex n, bytesOfHex v with
      | some i, some n, some v => callLine s i (fun r => addHeader r n v)
      | _, _, _ => (s, ["bad-op"])
  | ["del", i, n, v] => match i.toNat?, bytesOfHex n, bytesOfHex v with
      | some i, some n, some v => callLine s i (fun r => delHeader r n v)
      | _, _, _ => (s, ["bad-op"])
  | ["foot", i, n, v] => match i.toNat?, bytesOfHex n, bytesOfHex v with
      | some i, some n, some v => callLine s i (fun r => addFooter r n v)
      | _, _, _ => (s, ["bad-op"])
  | ["opt", i, f] => match i.toNat?, f.toNat? with
      | some i, some f => if f < 32 then callLine s i (fun r => setOptions r (G.rflagsOfNat f)) else (s, ["bad-op"])
      | _, _ => (s, ["bad-op"])
  -- ---------------------------------------------------------------- decision functions (white box)
  | ["kp", ka, upg, rc, dr, ver, ct] =>
      match ka.toInt?.bind G.kaOfInt, b01 upg, b01 rc, b01 dr, ver.toInt?.bind G.verOfInt, ct.toNat? with
      | some ka, some upg, some rc, some dr, some ver, some ct =>
        if ct < 4 then
          (s, [grid fun fl fa => kaChar (keepalivePossible (mkConn ka rc dr ver ct .get false)
                                  { fa := fa, flags := fl, upgrade := upg })])
        else (s, ["bad-op"])
      | _, _, _, _, _, _ => (s, ["bad-op"])
  | ["rb", m] => match m.toInt?.bind G.mthdOfInt with
      | some m => (s, [String.ofList ((List.range 900).map fun i =>
          match isReplyBodyNeeded m (100 + i) with | .none => '0' | .headersOnly => '1' | .send => '2')])
      | none => (s, ["bad-op"])
  | ["sp", ka, upg, rc, dr, ver, ct, m, size, code] =>
      match ka.toInt?.bind G.kaOfInt, b01 upg, b01 rc, b01 dr, ver.toInt?.bind G.verOfInt, ct.toNat?,
            m.toInt?.bind G.mthdOfInt, sizeOfClass size, code.toNat? with
      | some ka, some upg, some rc, some dr, some ver, some ct, some m, some size, some code =>
        if ct < 4 && 100 ≤ code && code ≤ 999 then
          (s, [grid fun fl fa =>
                 let (k, p) := setupReplyProperties (mkConn ka rc dr ver ct m false)
                                 { fa := fa, flags := fl, upgrade := upg, totalSize := size } code
                 propsChar k p])
        else (s, ["bad-op"])
      | _, _, _, _, _, _, _, _, _ => (s, ["bad-op"])
  | ["n100", ver, rem, ex] =>
      match ver.toInt?.bind G.verOfInt, rem.toNat?, optHex ex with
      | some ver, some rem, some ex => (s, [if need100Continue ver rem ex then "1" else "0"])
      | _, _, _ => (s, ["bad-op"])
  | ["qr", i, st, hasresp, shut, allow, ver, m, code] =>
      let cst : Option CState := if st == "hp" then some .headersProcessed else if st == "fr" then some .fullReqReceived
                                 else if st == "ot" then some .other else none
      match i.toNat?.bind s.get, cst, b01 hasresp, b01 shut, b01 allow, ver.toInt?.bind G.verOfInt,
            m.toInt?.bind G.mthdOfInt, code.toNat? with
      | some sl, some cst, some hr, some sh, some al, some ver, some m, some code =>
        if code < 2 ^ 32 then
          match queueResponse { ver := ver, mthd := m } cst hr sh al code sl.r with
          | none => (s, ["N"])
          | some q => (s, [s!"Y code={q.code} icy={if q.icy then 1 else 0} pret={if q.bodyPretendSent then 1 else 0} early={if q.early then 1 else 0}"])
        else (s, ["bad-op"])
      | _, _, _, _, _, _, _, _ => (s, ["bad-op"])
  | ["hdr", i, ka, rc, dr, ver, ct, m, code, icy, sup, nodate, bufsize] =>
      match i.toNat?.bind s.get, ka.toInt?.bind G.kaOfInt, b01 rc, b01 dr, ver.toInt?.bind G.verOfInt, ct.toNat?,
            m.toInt?.bind G.mthdOfInt, code.toNat?, b01 icy, b01 sup, b01 nodate, bufsize.toNat? with
      | some sl, some ka, some rc, some dr, some ver, some ct, some m, some code, some icy, some sup, some nodate, some bs =>
        if ct < 4 && 100 ≤ code && code ≤ 999 then
          let (k, p, out) := buildHeaderResponse (mkConn ka rc dr ver ct m sup) sl.r code icy
                               (if nodate then none else some maskDate) bs
          (s, [s!"ka={G.intOfKa k} p={propsChar k p} " ++ (match out with | some b => "out=" ++ hexOfBytes b | none => "NO")])
        else (s, ["bad-op"])
      | _, _, _, _, _, _, _, _, _, _, _, _ => (s, ["bad-op"])
  | ["crb", wb, total, pos, dlen] =>
      -- try_ready_chunked_body on a buffer response with `dlen` data bytes, `total` total size
      match wb.toNat?, (if total == "u" then some Mhd.Gen.Reply.sizeUnknown else total.toNat?), pos.toNat?, dlen.toNat? with
      | some wb, some total, some pos, some dlen =>
        if 128 ≤ wb && pos < dlen && (pos ≤ total) then
          let left := if total == Mhd.Gen.Reply.sizeUnknown then total else total - pos
          if left == 0 then (s, ["finished"]) else
          let stf := chunkSizeToFill wb left
          let n := if dlen - pos > stf then stf else dlen - pos
          match chunkFrame (patRange pos n) with
          | some f => (s, ["chunk " ++ hexOfBytes f])
          | none => (s, ["fault"])
        else (s, ["bad-op"])
      | _, _, _, _ => (s, ["bad-op"])
  | ["foot?", i, bs] => match i.toNat?.bind s.get, bs.toNat? with
      | some sl, some bs => (s, [match buildFooter sl.r bs with | some b => "out=" ++ hexOfBytes b | none => "NO"])
      | _, _ => (s, ["bad-op"])
  -- ---------------------------------------------------------------- error reply generated by the daemon itself
  | ["terr", swe, late, shut, ka, rc, ver, ct, m, sup, nodate, code, msg, hn, hv, wb1, wb2] =>
      match b01 swe, b01 late, b01 shut, ka.toInt?.bind G.kaOfInt, b01 rc, ver.toInt?.bind G.verOfInt, ct.toNat?,
            m.toInt?.bind G.mthdOfInt, b01 sup, b01 nodate, code.toNat?, bytesOfHex msg, wb1.toNat?, wb2.toNat? with
      | some swe, some late, some shut, some ka, some rc, some ver, some ct, some m, some sup, some nodate, some code,
        some msg, some wb1, some wb2 =>
        let hdr? : Option (Option (Bytes × Bytes)) :=
          if hn == "none" then some none
          else match bytesOfHex hn, bytesOfHex hv with
            | some n, some v => if n.isEmpty || v.isEmpty then none else some (some (n, v))
            | _, _ => none
        match hdr? with
        | none => (s, ["bad-op"])
        | some hdr =>
          if ct < 4 && code < 2 ^ 32 && wb1 ≤ wb2 && 16 ≤ wb2 && wb2 ≤ 2 ^ 20 then
            let c := mkConn ka rc false ver ct m sup
            let date := if nodate then none else some maskDate
            match transmitErrorResponse c swe late shut code msg hdr date wb1 wb2 with
            | .closedNoReply => (s, ["closed"])
            | .reply out =>
              let r := errorResponse msg.length hdr
              match queueResponse { c with discardRequest := true } .fullReqReceived false shut false code r with
              | none => (s, ["fault"])
              | some q =>
                let pos := startPosAfterQueue q r 0
                let body : Bytes := if out.props.sendReplyBody then (normalBody r.totalSize (.buffer msg) pos).bytes else []
                let head := out.wire.take (out.wire.length - body.length)
                (s, [s!"sent ka={G.intOfKa out.ka} p={propsChar out.ka out.props} dr=1 swe=1 pos={pos} total={r.totalSize} hdr={hexOfBytes head}"])
          else (s, ["bad-op"])
      | _, _, _, _, _, _, _, _, _, _, _, _, _, _ => (s, ["bad-op"])
  -- ---------------------------------------------------------------- token helpers
  | ["rt", sv, tv] => match bytesOfHex sv, bytesOfHex tv with
      | some sb, some tb =>
        if tb.isEmpty then (s, ["bad-op"]) else
        (match removeTokenCaseless sb tb (sb.length + sb.length / 2 + 1) with
         | some res => (s, [s!"r={if res.removed then 1 else 0} out={hexOfBytes res.out}"])
         | none => (s, ["toosmall"]))
      | _, _ => (s, ["bad-op"])
  | ["rts", sv, tv] => match bytesOfHex sv, bytesOfHex tv with
      | some sb, some tb =>
        (match removeTokensCaseless sb tb with
         | some res => (s, [s!"r={if res.removed then 1 else 0} out={hexOfBytes res.out}"])
         | none => (s, ["fault"]))
      | _, _ => (s, ["bad-op"])
  | ["ht", sv, tv] => match bytesOfHex sv, bytesOfHex tv with
      | some sb, some tb =>
        if tb.isEmpty || sb.contains 0 then (s, ["bad-op"]) else (s, [if hasTokenCaseless sb tb then "1" else "0"])
      | _, _ => (s, ["bad-op"])
  -- ---------------------------------------------------------------- complete exchanges
  | ["x", m, ver, conn, expect, up, early, specs] =>
      let v : Option Ver := if ver == "10" then some .v10 else if ver == "11" then some .v11
                            else if ver == "12" then some .v12 else none
      match v, optHex conn, optHex expect, up.toNat?, b01 early, parseSpecs specs with
      | some v, some conn, some expect, some up, some early, some specs =>
        let c : Conn := { ver := v, mthd := mthdOfToken m,
                          reqClose := match conn with | some x => hasTokenCaseless x sClose | none => false,
                          reqKeepAlive := match conn with | some x => hasTokenCaseless x sKeepAliveTok | none => false }
        let pre : Bytes := if ! early && need100Continue v up expect then Mhd.Gen.Reply.http100Continue else []
        match exchangeLoop s (some maskDate) 32000 c (if early then .headersProcessed else .fullReqReceived) 0 specs "" pre with
        | some (qs, wire, closed) => (s, [s!"q={qs} wire={hexOfBytes wire} closed={if closed then 1 else 0}"])
        | none => (s, ["bad-op"])
      | _, _, _, _, _, _ => (s, ["bad-op"])
  | _ => (s, ["bad-op"])

def main : IO Unit := runEngine ({} : St) stepLine
